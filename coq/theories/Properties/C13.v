(** C13 — every authorization request is fresh, PKCE-bound and names a configured ingress. *)
From Coq Require Import NArith ZArith Bool List.
From WW Require Import Gen.Params Base.Bytes Model.Auth Model.EntryAuth Proofs.AuthP.
Import ListNotations.
Open Scope N_scope.

Lemma pin_client_assertion_lifetime : client_assertion_lifetime = 30000000000%Z. Proof. reflexivity. Qed.

(** (1) shape: response_type=code, response_mode=query, S256 challenge of the verifier draw, client id, scope,
        nonce and state draws, redirect_uri of the chosen ingress. *)
Theorem c13_request_shape : forall c q i rnd,
  let p := auth_params c q i rnd in
  In (PResponseType, VStr s_code) p /\ In (PResponseMode, VStr s_query) p /\
  In (PCodeChallengeMethod, VStr s_S256) p /\ In (PCodeChallenge, VS256 (rnd + 2)) p /\
  In (PClientId, VStr (a_client_id c)) p /\ In (PScope, VStr (a_scope c)) p /\
  In (PNonce, VRnd rnd) p /\ In (PState, VRnd (rnd + 1)) p /\ In (PRedirectUri, VStr (callback_url i)) p.
Proof. exact auth_params_shape. Qed.
Print Assumptions c13_request_shape.

(** (2) freshness: the three values of one request are distinct draws; over any history of login requests all
        nonce / state / verifier draws are pairwise distinct (never reused across attempts). *)
Theorem c13_values_fresh : forall c q rnd ref par i,
  let o := login_with c q rnd ref par i in
  rnd + 3 <= lo_rnd o /\ VRnd rnd <> VRnd (rnd + 1) /\ VRnd rnd <> VRnd (rnd + 2) /\ VRnd (rnd + 1) <> VRnd (rnd + 2).
Proof. exact login_atoms_fresh. Qed.
Print Assumptions c13_values_fresh.

(** ... under every behaviour of the pushed-authorization endpoint (healthy, 4xx, 5xx once or for the whole retry
    budget, malformed body, hanging, unreachable): also a login that fails at the PAR step has used up its draws *)
Theorem c13_values_fresh_any_par : forall c q rnd ref replies i,
  let o := login_par c q rnd ref replies i in
  rnd + 3 <= lo_rnd o /\ VRnd rnd <> VRnd (rnd + 1) /\ VRnd rnd <> VRnd (rnd + 2) /\ VRnd (rnd + 1) <> VRnd (rnd + 2).
Proof. exact login_par_atoms_fresh. Qed.
Print Assumptions c13_values_fresh_any_par.

(** the history is a list of (request, ingress, behaviour of the PAR endpoint during that login) *)
Theorem c13_never_reused : forall c reqs rnd, NoDup (fst (login_history c reqs rnd)).
Proof. exact login_history_nodup. Qed.
Print Assumptions c13_never_reused.

(** ... and over LONG MIXED histories of one process. The generator is process-wide: besides the login (nonce, state,
    verifier) it serves the self-initiated logout (state) and, for a provider that issues neither sid nor session_state,
    the login callback (the generated session id, then the session's data key). A history is any list of operations -
    logins with or without PAR under any behaviour of the PAR endpoint, callbacks accepted or refused with a provider
    session id or a generated one, logouts, logout callbacks, front-channel and local logouts - each under its own
    configuration, in any order. All values drawn are pairwise distinct, whatever their kind: a nonce is never an earlier
    state, a generated session id never an earlier nonce, a logout state never a login state. *)
Theorem c13_history_never_reuses : forall ops rnd, NoDup (map snd (fst (hist_run ops rnd))).
Proof. exact hist_run_nodup. Qed.
Print Assumptions c13_history_never_reuses.

Theorem c13_history_positions_distinct : forall ops rnd i j k1 a1 k2 a2,
  nth_error (fst (hist_run ops rnd)) i = Some (k1, a1) -> nth_error (fst (hist_run ops rnd)) j = Some (k2, a2) ->
  i <> j -> a1 <> a2.
Proof. exact hist_run_positions_distinct. Qed.
Print Assumptions c13_history_positions_distinct.

(** every operation takes its values between the counter before and after it, and the counter never goes back: no
    operation can hand out a value an earlier operation has handed out *)
Theorem c13_history_step_takes_new_values : forall c op rnd,
  let o := hist_step c op rnd in
  rnd <= hs_rnd o /\ Forall (fun x => rnd <= snd x /\ snd x < hs_rnd o) (hs_draws o) /\ NoDup (map snd (hs_draws o)).
Proof. exact hist_step_bounds. Qed.
Print Assumptions c13_history_step_takes_new_values.

(** the login of a history is the login of (1)-(4): its three draws are the nonce and state of the authorization request
    and the verifier behind its challenge *)
Theorem c13_history_login_is_login : forall c q ref replies rnd i l,
  matching_ingresses c q = i :: l ->
  let o := hist_step c (HLogin q ref replies) rnd in
  In (login_par c q rnd ref replies i) (login_results c q rnd ref replies) /\
  hs_ok o = lo_ok (login_par c q rnd ref replies i) /\ hs_rnd o = lo_rnd (login_par c q rnd ref replies i) /\
  hs_draws o = [(DNonce, rnd); (DState, rnd + 1); (DVerifier, rnd + 2)] /\
  In (PNonce, VRnd rnd) (auth_params c q i rnd) /\ In (PState, VRnd (rnd + 1)) (auth_params c q i rnd) /\
  In (PCodeChallenge, VS256 (rnd + 2)) (auth_params c q i rnd).
Proof. exact hist_login_is_login. Qed.
Print Assumptions c13_history_login_is_login.

(** a session created for a provider without session ids draws the id and the data key as two further new values;
    operations that draw nothing (logout callback, front-channel and local logout, a login without a matching ingress, a
    callback refused by a browser-side check) leave the counter where it is *)
Theorem c13_history_generated_session_id : forall c r tok rnd,
  let o := hist_step c (HCallback r tok false) rnd in
  hs_ok o = true -> exists a, hs_draws o = [(DSessionId, a); (DDataKey, a + 1)] /\ rnd <= a /\ hs_rnd o = a + 2.
Proof. exact hist_callback_generated_sid. Qed.
Print Assumptions c13_history_generated_session_id.

Theorem c13_history_no_draw_operations : forall c rnd,
  hist_step c HLogoutCallback rnd = hist_nothing true rnd /\ hist_step c HLogoutFrontChannel rnd = hist_nothing true rnd /\
  hist_step c HLogoutLocal rnd = hist_nothing true rnd /\
  (forall q ref replies, matching_ingresses c q = [] -> hist_step c (HLogin q ref replies) rnd = hist_nothing false rnd) /\
  (forall r tok psid e, callback_checks c r = inl e -> hist_step c (HCallback r tok psid) rnd = hist_nothing false rnd).
Proof. exact hist_no_draw_ops. Qed.
Print Assumptions c13_history_no_draw_operations.

(* non-vacuity: the history of the missed change - one logout, a complete login against a provider without session ids,
   another login - draws 0 | 1 2 3 | 4 5 | 6 7 8: the second login's nonce (6) is none of the earlier values *)
Example c13_history_nonvacuous :
  let c := mk_acfg 1 [{| i_scheme := [104;116;116;112]; i_host := [119]; i_path := [] |}] [99] [105] [] [] [] [] [111] []
                   false true false true true in
  let q := {| r_host := [119]; r_xfh := []; r_path := [47;111]; r_level := []; r_locale := []; r_prompt := [] |} in
  let i := {| i_scheme := [104;116;116;112]; i_host := [119]; i_path := [] |} in
  let cb := {| cb_state := VRnd 2; cb_code := VStr [120]; cb_iss := VStr []; cb_error := VStr [];
               cb_cookie := CkEnc 1 (login_cookie_fields c q i 1 (VStr [])) |} in
  hist_run [(c, HLogout q (VStr [])); (c, HLogin q (VStr []) []); (c, HCallback cb true false); (c, HLogoutCallback);
            (c, HLogin q (VStr []) [])] 0
  = ([(DLogoutState, 0); (DNonce, 1); (DState, 2); (DVerifier, 3); (DSessionId, 4); (DDataKey, 5);
      (DNonce, 6); (DState, 7); (DVerifier, 8)], 9).
Proof. vm_compute. reflexivity. Qed.

(** (3) the login cookie seals exactly this attempt's state, nonce, verifier, redirect URI, acr and return target. *)
Theorem c13_cookie_binds : forall c q i rnd ref,
  let f := login_cookie_fields c q i rnd ref in
  fget FState f = VRnd (rnd + 1) /\ fget FNonce f = VRnd rnd /\ fget FVerifier f = VRnd (rnd + 2) /\
  fget FRedirectURI f = VStr (callback_url i) /\ fget FAcr f = VStr (acr_param c q) /\ fget FReferer f = ref.
Proof. exact login_cookie_binds. Qed.
Print Assumptions c13_cookie_binds.

(** (4) whatever ingress the (unordered) matching returns: it is configured, its host equals the Host or the
        X-Forwarded-Host header, its path is the longest configured prefix of the request path, the
        redirect_uri (in the browser URL, or in the PAR body) is its callback URL and the cookie binds it;
        with no matching ingress nothing is sent, set or drawn. Same for the post-logout redirect URI. *)
Theorem c13_redirect_uri_configured : forall c q rnd ref replies o,
  In o (login_results c q rnd ref replies) -> lo_ok o = true ->
  exists i, In i (a_ingresses c) /\ (i_host i = r_host q \/ i_host i = r_xfh q) /\ i_path i = matching_path c q /\
            (a_par c = false -> In (PRedirectUri, VStr (callback_url i)) (lo_browser o)) /\
            (a_par c = true -> lo_back o <> [] /\ forall b, In (BPar b) (lo_back o) -> In (PRedirectUri, VStr (callback_url i)) b) /\
            lo_cookie o = Some (CkEnc (a_key c) (login_cookie_fields c q i rnd ref)).
Proof. exact login_redirect_uri_configured. Qed.
Print Assumptions c13_redirect_uri_configured.

Theorem c13_no_match_sends_nothing : forall c q rnd ref replies o,
  matching_ingresses c q = [] -> In o (login_results c q rnd ref replies) ->
  lo_ok o = false /\ lo_back o = [] /\ lo_browser o = [] /\ lo_cookie o = None /\ lo_rnd o = rnd.
Proof. exact login_no_match_sends_nothing. Qed.
Print Assumptions c13_no_match_sends_nothing.

Theorem c13_matched_path_is_longest_prefix : forall seg paths req best,
  let m := matching_path_from seg paths req best in
  (m = best \/ (In m paths /\ m <> [] /\ path_prefix seg req m = true)) /\
  (length best <= length m)%nat /\
  (forall p, In p paths -> p <> [] -> path_prefix seg req p = true -> (length p <= length m)%nat).
Proof. exact matching_path_from_spec. Qed.
Print Assumptions c13_matched_path_is_longest_prefix.

(** on the current code a path prefix matches on a segment boundary: the request path equals it or continues with '/' *)
Theorem c13_prefix_on_segment_boundary : forall req p,
  path_prefix true req p = true <-> req = p \/ exists r, req = p ++ 47 :: r.
Proof. exact path_prefix_seg_spec. Qed.
Print Assumptions c13_prefix_on_segment_boundary.

Theorem c13_post_logout_uri_configured : forall c q rnd rt o,
  In o (logout_results c q rnd rt) -> go_ok o = true ->
  exists i, In i (a_ingresses c) /\ (i_host i = r_host q \/ i_host i = r_xfh q) /\ i_path i = matching_path c q /\
            go_post_logout_redirect_uri o = logout_callback_url i /\ go_state o = VRnd rnd /\ go_rnd o = rnd + 1.
Proof. exact logout_redirect_uri_configured. Qed.
Print Assumptions c13_post_logout_uri_configured.

(** (5) allowed values *)
Theorem c13_acr_allowed : forall c q,
  (a_acr_default c = [] -> acr_param c q = []) /\
  (a_acr_default c <> [] -> mem (acr_param c q) (a_acr_supported c) = true \/ acr_param c q = a_acr_default c).
Proof. exact acr_param_allowed. Qed.
Print Assumptions c13_acr_allowed.

Theorem c13_locale_allowed : forall c q,
  (a_locale_default c = [] -> locale_param c q = []) /\
  (a_locale_default c <> [] -> mem (locale_param c q) (a_locale_supported c) = true \/ locale_param c q = a_locale_default c).
Proof. exact locale_param_allowed. Qed.
Print Assumptions c13_locale_allowed.

Theorem c13_prompt_allowed : forall c q,
  prompt_param c q = [] \/ mem (prompt_param c q) (a_prompt_allowed c) = true \/ prompt_param c q = str_login.
Proof. exact prompt_param_allowed. Qed.
Print Assumptions c13_prompt_allowed.

Theorem c13_prompt_implies_max_age : forall c q i rnd,
  prompt_param c q <> [] -> In (PMaxAge, VStr s_zero) (auth_params c q i rnd).
Proof. exact prompt_implies_max_age. Qed.
Print Assumptions c13_prompt_implies_max_age.

(** (6) pushed authorization requests. With a PAR endpoint that answers the first attempt with [par]: *)
Theorem c13_par_browser_sees_only_reference : forall c q rnd ref par i,
  a_par c = true ->
  let o := login_with c q rnd ref par i in
  lo_browser o = [(PClientId, VStr (a_client_id c)); (PRequestUri, par)] /\
  exists jti, lo_back o = [BPar (auth_params c q i rnd ++ client_auth c jti)].
Proof. exact par_browser_sees_only_reference. Qed.
Print Assumptions c13_par_browser_sees_only_reference.

(** ... and under EVERY behaviour of the PAR endpoint ([replies] = its answers to the successive attempts of this login,
    ending where the retry budget ends). [login_par] with a healthy first answer is [login_with]. The login produces an
    authorization request only if some attempt was answered with a request_uri after nothing but 5xx answers; the
    browser then sees exactly client_id and that request_uri, and every attempt posted the same full parameter set with
    the same client authentication. In every other case - 4xx, a body that does not decode, no answer until the client's
    timeout, connection refused, 5xx until the retry budget is spent - there is NO authorization request and no login
    cookie: what the browser receives is the error / retry response alone. *)
Theorem c13_par_healthy_is_login_with : forall c q rnd ref uri rest i,
  login_par c q rnd ref (ParOk uri :: rest) i = login_with c q rnd ref uri i.
Proof. exact login_par_healthy. Qed.
Print Assumptions c13_par_healthy_is_login_with.

Theorem c13_par_only_reference_or_nothing : forall c q rnd ref replies i,
  a_par c = true ->
  let o := login_par c q rnd ref replies i in
  let body := auth_params c q i rnd ++ client_auth c (rnd + 3) in
  Forall (fun b => b = BPar body) (lo_back o) /\
  (lo_ok o = true ->
     exists n uri rest, replies = repeat ParServerError n ++ ParOk uri :: rest /\
       lo_browser o = [(PClientId, VStr (a_client_id c)); (PRequestUri, uri)] /\ lo_back o = repeat (BPar body) (S n)) /\
  (lo_ok o = false -> lo_browser o = [] /\ lo_cookie o = None).
Proof.
  intros c q rnd ref replies i Hp. cbn zeta. split; [now apply login_par_back|]. split.
  - intros Hok. destruct (login_par_ok c q rnd ref replies i Hp Hok) as (n & uri & rest & H1 & H2 & H3 & _). eauto 8.
  - now apply login_par_failed.
Qed.
Print Assumptions c13_par_only_reference_or_nothing.

(** the failing behaviours one by one: k 5xx answers followed by a final failure, or 5xx for the whole budget *)
Theorem c13_par_failure_no_authorization_request : forall c q rnd ref i n r rest,
  a_par c = true -> par_final r = true ->
  let body := auth_params c q i rnd ++ client_auth c (rnd + 3) in
  (let o := login_par c q rnd ref (repeat ParServerError n ++ r :: rest) i in
   lo_ok o = false /\ lo_browser o = [] /\ lo_cookie o = None /\
   lo_back o = repeat (BPar body) (match r with ParUnreachable => n | _ => S n end)) /\
  (let o := login_par c q rnd ref (repeat ParServerError n) i in
   lo_ok o = false /\ lo_browser o = [] /\ lo_cookie o = None /\ lo_back o = repeat (BPar body) n).
Proof.
  intros c q rnd ref i n r rest Hp Hr. cbn zeta. unfold login_par. rewrite Hp.
  rewrite (par_exchange_final _ n r rest Hr), par_exchange_all_5xx. repeat split.
Qed.
Print Assumptions c13_par_failure_no_authorization_request.

Example c13_par_failure_nonvacuous :
  let c := mk_acfg 1 [{| i_scheme := [104;116;116;112]; i_host := [119]; i_path := [] |}] [99] [105] [] [] [] [] [111] []
                   true true false true true in
  let q := {| r_host := [119]; r_xfh := []; r_path := [47;111]; r_level := []; r_locale := []; r_prompt := [] |} in
  map lo_ok (login_results c q 0 (VStr []) [ParServerError; ParServerError; ParOk (VStr [117])]) = [true] /\
  map (fun o => length (lo_back o)) (login_results c q 0 (VStr []) [ParServerError; ParServerError; ParOk (VStr [117])]) = [3%nat] /\
  map lo_ok (login_results c q 0 (VStr []) (repeat ParServerError 10)) = [false] /\
  map (fun o => length (lo_back o)) (login_results c q 0 (VStr []) (repeat ParServerError 10)) = [10%nat] /\
  map lo_browser (login_results c q 0 (VStr []) [ParServerError; ParTimeout]) = [[]] /\
  map lo_ok (login_results c q 0 (VStr []) [ParUnreachable]) = [false].
Proof. vm_compute. repeat split; reflexivity. Qed.

(** (7) credentials (secret, assertion) never occur in what the browser receives: not in the Location's query,
        not inside the login cookie's plaintext. *)
Theorem c13_front_channel_has_no_credentials : forall c q rnd ref par i,
  is_credential ref = false -> is_credential par = false ->
  let o := login_with c q rnd ref par i in
  no_cred (lo_browser o) /\ (forall k f, lo_cookie o = Some (CkEnc k f) -> no_cred_fields f).
Proof. exact login_front_channel_has_no_credentials. Qed.
Print Assumptions c13_front_channel_has_no_credentials.

(** ... under every behaviour of the PAR endpoint (whose request_uri answers are public strings): in particular a login
    whose pushed authorization request failed hands nothing that contains a credential to the browser *)
Theorem c13_front_channel_has_no_credentials_any_par : forall c q rnd ref replies i,
  is_credential ref = false -> Forall par_reply_public replies ->
  let o := login_par c q rnd ref replies i in
  no_cred (lo_browser o) /\ (forall k f, lo_cookie o = Some (CkEnc k f) -> no_cred_fields f).
Proof. exact login_par_front_channel_has_no_credentials. Qed.
Print Assumptions c13_front_channel_has_no_credentials_any_par.

(** (8) "a signed assertion that is unique per request": over any number of back-channel requests (pushed authorization
    requests, code redemptions, refresh grants - sequential or overlapping in time; the list is in the order in which
    their client authentication is built) every request carries its own assertion and no jti occurs twice. *)
Theorem c13_assertions_unique_across_requests : forall c jti n,
  a_use_secret c = false -> NoDup (map assertion_of (back_channel_auths c jti n)).
Proof. exact back_channel_assertions_unique. Qed.
Print Assumptions c13_assertions_unique_across_requests.

Theorem c13_every_back_channel_request_authenticated : forall c jti n p,
  a_use_secret c = false -> In p (back_channel_auths c jti n) -> exists j, p = client_auth c j /\ assertion_of p = Some j.
Proof. exact back_channel_every_request_authenticated. Qed.
Print Assumptions c13_every_back_channel_request_authenticated.

(* non-vacuity: a private-key deployment; three requests carry the assertions with the draws 5, 6, 7 *)
Example c13_assertions_unique_nonvacuous :
  let c := mk_acfg 1 [{| i_scheme := [104;116;116;112]; i_host := [119]; i_path := [] |}] [99] [105] [] [] [] [] [111] []
                   true false false true true in
  a_use_secret c = false /\ map assertion_of (back_channel_auths c 5 3) = [Some 5; Some 6; Some 7].
Proof. split; reflexivity. Qed.
