(** C16 — SSO proxy is a read-only delegate; SSO server trusts only its own domain.
    Only statements; every proof is [exact] of a lemma in Proofs/ (CorsP.v, MachineProxyP.v), with tiny glue.

    Clause 2 is about Model/Cors.v (pkg/middleware/cors.go + rs/cors v1.11.1 + the CORS placement of
    pkg/router/router.go), clauses 1 and 3 about the session machine Model/Machine.v. Strings are arbitrary
    byte lists; [to_lower] is ASCII lower-casing, which is what Go's strings.ToLower does on ASCII input. *)
From Coq Require Import ZArith NArith Bool List.
From WW Require Import Gen.Params Base.AMap Base.Bytes Base.BytesCors Model.SessionTime Model.Machine Model.Entry Model.Cors
  Proofs.CorsP Proofs.MachineProxyP.
(* the redirect model is required but NOT imported (its s_https etc. would shadow Model.Cors'): qualified names below *)
From WW Require Base.BytesLit Model.GoUrl Model.Redirect Model.EntryRedirect Proofs.SpxHandoverP.
(* the cookie model (clause 3, "scopes its cookies to that domain"): required, not imported, for the same reason *)
From WW Require Model.Cookie Model.Jar Model.Retry Proofs.SsoProxyJarP.
Import ListNotations.
Open Scope N_scope.

(** ** Pins: the allow-list that middleware/cors.go builds *)

(* "https://*.<d>" and "https://<d>" with one leading dot of the configured domain removed *)
Lemma pin_cors_origins :
  allowed_origin_patterns [46; 119; 119] = [[104; 116; 116; 112; 115; 58; 47; 47; 42; 46; 119; 119];
                                            [104; 116; 116; 112; 115; 58; 47; 47; 119; 119]] /\
  allowed_origin_patterns [119; 119] = allowed_origin_patterns [46; 119; 119].
Proof. split; reflexivity. Qed.

Lemma pin_cors_credentials : forall d ms, co_credentials (middleware_cors d ms) = true.
Proof. exact middleware_cors_credentials. Qed.

(* never the match-all list, whatever the domain string *)
Lemma pin_cors_not_all_origins : forall d ms, co_origins_all (middleware_cors d ms) = false.
Proof. exact middleware_cors_not_all. Qed.

(** ** Clause 2: which origins get credentialed cross-origin access *)

(** Main theorem. For every domain string without '*' and ':' and every Origin value a browser can produce
    (lower-case scheme "://" host [":" digits], host a reg-name / IPv4 over [a-z0-9._-] or a bracketed IPv6
    literal): if the server's allow-list accepts it, then the scheme is https, there is no port, and the host is
    the SSO domain (leading dot removed, lower-cased) or ends with "." ++ that domain. *)
Theorem c16_cors_origin_sound : forall d o s h p,
  ~ In c_star d -> ~ In c_colon d -> browser_origin o s h p ->
  cors_allowed d o = true ->
  s = s_https_scheme /\ p = [] /\ host_in_domain d h.
Proof. exact origin_sound_browser. Qed.
Print Assumptions c16_cors_origin_sound.

(** The same without any assumption on letter case or on the host: for every string of the form
    s "://" h p with no ':' in s and p empty or ":" digits. *)
Theorem c16_cors_origin_sound_any_case : forall d s h p,
  ~ In c_star d -> ~ In c_colon d -> ~ In c_colon s -> wf_port p ->
  cors_allowed d (s ++ s_sep ++ h ++ p) = true ->
  to_lower s = s_https_scheme /\ p = [] /\ host_in_domain d (to_lower h).
Proof. exact origin_sound_general. Qed.
Print Assumptions c16_cors_origin_sound_any_case.

(** Without the hypothesis on ':' in the domain: scheme https, and host and port TOGETHER equal the domain
    or end with "." ++ domain (this is what happens for a configured "name:port" string). *)
Theorem c16_cors_origin_sound_hostport : forall d s hp,
  ~ In c_star d -> ~ In c_colon s ->
  cors_allowed d (s ++ s_sep ++ hp) = true ->
  to_lower s = s_https_scheme /\
  (to_lower hp = norm_domain d \/ has_suffix (to_lower hp) (c_dot :: norm_domain d) = true).
Proof. exact origin_sound_hostport. Qed.
Print Assumptions c16_cors_origin_sound_hostport.

(** Exact characterisation over ALL origin strings (well-formed or not), for every domain without '*':
    accepted iff the lower-cased string is "https://" ++ d' or "https://" ++ anything ++ "." ++ d'. *)
Theorem c16_cors_allowed_iff : forall d o, ~ In c_star d ->
  (cors_allowed d o = true <->
   to_lower o = s_https ++ norm_domain d \/ exists m, to_lower o = s_https ++ m ++ c_dot :: norm_domain d).
Proof. exact cors_allowed_iff. Qed.
Print Assumptions c16_cors_allowed_iff.

(** For every domain string whatsoever (even with '*'), an accepted origin starts with "https://"
    (case-insensitively): the scheme part of the claim needs no hypothesis on the configuration. *)
Theorem c16_cors_https_only_any_domain : forall d o,
  cors_allowed d o = true -> has_prefix (to_lower o) s_https = true.
Proof. exact cors_allowed_https_prefix. Qed.
Print Assumptions c16_cors_https_only_any_domain.

(** Domain spellings: writing the domain with one leading dot, or in another letter case, changes nothing. *)
Theorem c16_cors_domain_spelling_irrelevant : forall d o,
  hd_error d <> Some c_dot ->
  cors_allowed (c_dot :: d) o = cors_allowed d o /\ cors_allowed (to_lower d) o = cors_allowed d o.
Proof. exact domain_spelling_irrelevant. Qed.
Print Assumptions c16_cors_domain_spelling_irrelevant.

(** Not vacuous and not over-restrictive: every https origin without port whose host is the domain or below
    it is accepted. *)
Theorem c16_cors_origin_complete : forall d h,
  ~ In c_star d -> host_in_domain d (to_lower h) -> cors_allowed d (s_https ++ h) = true.
Proof. exact origin_complete. Qed.
Print Assumptions c16_cors_origin_complete.

(** Strings that are NOT producible by a browser and are accepted (consequence of the iff above): anything
    may stand between "https://" and "." ++ d', e.g. a path. A browser serialises an origin as
    scheme "://" host [":" port] only (RFC 6454 section 6.2), so it cannot send these; and the value echoed in
    Access-Control-Allow-Origin would not equal any real origin. *)
Theorem c16_cors_malformed_origin_accepted :
  (* sso.domain = "ww";  Origin: https://evil.com/.ww   and   Origin: HTTPS://A.WW *)
  cors_allowed [119; 119] [104; 116; 116; 112; 115; 58; 47; 47; 101; 118; 105; 108; 46; 99; 111; 109; 47; 46; 119; 119] = true /\
  cors_allowed [119; 119] [72; 84; 84; 80; 83; 58; 47; 47; 65; 46; 87; 87] = true /\
  ~ (exists s h p, browser_origin [104; 116; 116; 112; 115; 58; 47; 47; 101; 118; 105; 108; 46; 99; 111; 109; 47; 46; 119; 119] s h p /\ s = s_https_scheme).
Proof. exact p_c16_cors_malformed_origin_accepted. Qed.
Print Assumptions c16_cors_malformed_origin_accepted.

(** Refuted without the hypotheses on the configured domain. config.SSO.Validate only requires the domain to be
    non-empty, so these are accepted configurations:
    sso.domain = "*"          : every https origin is accepted (https://evil.example);
    sso.domain = "a.b:8443"   : an origin with a port is accepted (https://x.a.b:8443). *)
Theorem c16_cors_star_domain_refuted :
  exists d o s h p, browser_origin o s h p /\ cors_allowed d o = true /\ ~ host_in_domain d h.
Proof. exact p_c16_cors_star_domain_refuted. Qed.
Print Assumptions c16_cors_star_domain_refuted.

Theorem c16_cors_colon_domain_refuted :
  exists d o s h p, browser_origin o s h p /\ cors_allowed d o = true /\ p <> [].
Proof. exact p_c16_cors_colon_domain_refuted. Qed.
Print Assumptions c16_cors_colon_domain_refuted.

(** ** Clause 2, response level: what the server's router + CORS middleware can answer *)

(** Every response either carries none of the Access-Control-Allow-* headers, or the request went through one
    of the two Cors instances (login/logout group with [GET; HEAD], session subtree with [GET; POST]) and:
    the Origin header is non-empty and accepted by the allow-list; Access-Control-Allow-Origin echoes exactly
    the request's Origin values; Access-Control-Allow-Credentials is true; and either it is an approved
    preflight (method OPTIONS, 204, chain stopped, requested method registered for the route or OPTIONS) or an
    actual request whose method is registered for the route (or OPTIONS). *)
Theorem c16_server_cors_cases : forall d ep r,
  let rs := server_cors d ep r in
  no_grant rs \/
  exists ms, route_cors_methods ep (cq_method r) = Some ms /\ grant_facts d r ms rs.
Proof. exact server_cors_cases. Qed.
Print Assumptions c16_server_cors_cases.

(** Credentials only together with an allowed origin (and never a wildcard origin). *)
Theorem c16_credentials_only_allowed_origin : forall d ep r,
  let rs := server_cors d ep r in
  (rs_acac rs = true \/ rs_acao rs <> None) ->
  cors_allowed d (hget (cq_origin r)) = true /\ rs_acao rs = Some (cq_origin r) /\ rs_acac rs = true.
Proof. exact p_c16_credentials_only_allowed_origin. Qed.
Print Assumptions c16_credentials_only_allowed_origin.

(** Preflight approval only for the methods registered on the route (rs/cors additionally always lets the
    method name OPTIONS through), and only on the login/logout and session routes. *)
Theorem c16_preflight_only_registered_methods : forall d ep r l,
  rs_acam (server_cors d ep r) = Some l ->
  cq_method r = m_OPTIONS /\ l = cq_acrm r /\
  ((In ep [EpLogin; EpLogout] /\ In (hget (cq_acrm r)) [m_GET; m_HEAD; m_OPTIONS]) \/
   (ep = EpSessionTree /\ In (hget (cq_acrm r)) [m_GET; m_POST; m_OPTIONS])).
Proof. exact p_c16_preflight_only_registered_methods. Qed.
Print Assumptions c16_preflight_only_registered_methods.

(** Actual (non-preflight) requests get the headers only for the registered methods of the route. *)
Theorem c16_actual_only_registered_methods : forall d ep r,
  let rs := server_cors d ep r in
  rs_acac rs = true -> rs_acam rs = None ->
  (In ep [EpLogin; EpLogout; EpLoginCallback; EpLogoutCallback] /\ In (cq_method r) [m_GET; m_HEAD; m_OPTIONS]) \/
  (ep = EpSessionTree /\ In (cq_method r) [m_GET; m_POST; m_OPTIONS]).
Proof. exact p_c16_actual_only_registered_methods. Qed.
Print Assumptions c16_actual_only_registered_methods.

(** No CORS headers at all outside the login/logout/session routes. *)
Theorem c16_no_cors_elsewhere : forall d ep r,
  ep = EpOAuth2Other \/ ep = EpOutside -> server_cors d ep r = no_cors.
Proof. exact p_c16_no_cors_elsewhere. Qed.
Print Assumptions c16_no_cors_elsewhere.

(** End to end: whenever the SSO server answers a browser's request with credentialed CORS access, the
    requesting origin is an https origin without port on the SSO domain or below it. *)
Theorem c16_server_grants_only_own_domain : forall d ep r s h p,
  ~ In c_star d -> ~ In c_colon d ->
  browser_origin (hget (cq_origin r)) s h p ->
  (rs_acac (server_cors d ep r) = true \/ rs_acao (server_cors d ep r) <> None) ->
  s = s_https_scheme /\ p = [] /\ host_in_domain d h.
Proof. exact p_c16_server_grants_only_own_domain. Qed.
Print Assumptions c16_server_grants_only_own_domain.

(** Paths: the Access-Control-Allow-* headers appear only on the login, logout (and their callback) and session
    endpoints below the ingress path: <pfx>/oauth2/{login,logout,callback,logout/callback,session} and
    everything below <pfx>/oauth2/session/. [rp] is the path chi routes on (the raw, still percent-encoded path
    when the request target was encoded). *)
Lemma pin_cors_paths :
  path_oauth2 ++ path_login = [47; 111; 97; 117; 116; 104; 50; 47; 108; 111; 103; 105; 110] /\
  path_oauth2 ++ path_logout = [47; 111; 97; 117; 116; 104; 50; 47; 108; 111; 103; 111; 117; 116] /\
  path_oauth2 ++ path_session = [47; 111; 97; 117; 116; 104; 50; 47; 115; 101; 115; 115; 105; 111; 110].
Proof. repeat split; reflexivity. Qed.

Theorem c16_cors_only_on_sso_paths : forall d pfx rp r,
  (rs_acac (server_cors_path d pfx rp r) = true \/ rs_acao (server_cors_path d pfx rp r) <> None) ->
  sso_cors_path pfx rp.
Proof. exact p_c16_cors_only_on_sso_paths. Qed.
Print Assumptions c16_cors_only_on_sso_paths.

(** Clause 2 in one statement, from request path and headers to the conclusion of the property. *)
Theorem c16_server_trusts_only_its_domain : forall d pfx rp r s h p,
  ~ In c_star d -> ~ In c_colon d ->
  browser_origin (hget (cq_origin r)) s h p ->
  (rs_acac (server_cors_path d pfx rp r) = true \/ rs_acao (server_cors_path d pfx rp r) <> None) ->
  s = s_https_scheme /\ p = [] /\ host_in_domain d h /\ sso_cors_path pfx rp.
Proof. exact p_c16_server_trusts_only_its_domain. Qed.
Print Assumptions c16_server_trusts_only_its_domain.

(** Non-vacuity: sso.domain ".ww"; a GET to the session route from https://a.ww is granted, from
    https://aww, http://a.ww and https://a.ww:8443 it is not; a preflight for POST is approved on the session
    route and refused on the login route. *)
Example c16_cors_nonvacuous :
  let d := [46; 119; 119] in
  let https_a_ww := [104; 116; 116; 112; 115; 58; 47; 47; 97; 46; 119; 119] in
  let https_aww := [104; 116; 116; 112; 115; 58; 47; 47; 97; 119; 119] in
  let http_a_ww := [104; 116; 116; 112; 58; 47; 47; 97; 46; 119; 119] in
  let https_a_ww_port := https_a_ww ++ [58; 56; 52; 52; 51] in
  let get o := {| cq_method := m_GET; cq_origin := [o]; cq_acrm := []; cq_acrh := [] |} in
  let pre o m := {| cq_method := m_OPTIONS; cq_origin := [o]; cq_acrm := [m]; cq_acrh := [] |} in
  rs_acac (server_cors d EpSessionTree (get https_a_ww)) = true /\
  rs_acao (server_cors d EpSessionTree (get https_a_ww)) = Some [https_a_ww] /\
  rs_acac (server_cors d EpSessionTree (get https_aww)) = false /\
  rs_acac (server_cors d EpSessionTree (get http_a_ww)) = false /\
  rs_acac (server_cors d EpSessionTree (get https_a_ww_port)) = false /\
  rs_acam (server_cors d EpSessionTree (pre https_a_ww m_POST)) = Some [m_POST] /\
  rs_acam (server_cors d EpLogin (pre https_a_ww m_POST)) = None /\
  browser_origin https_a_ww s_https_scheme [97; 46; 119; 119] [] /\
  host_in_domain d [97; 46; 119; 119].
Proof.
  vm_compute. repeat split; try reflexivity.
  - left. reflexivity.
  - left. reflexivity.
  - right. reflexivity.
Qed.

(** ** Clause 1: the SSO proxy only reads *)
Open Scope Z_scope.

(** For every configuration, world, fault and every thread of kind KSsoProxy that is at its read or done:
    one step leaves the whole world (store, locks, provider state and log, clock, counters) unchanged, the
    observed operation is a store GET or nothing, and the thread stays at its read or is done. *)
Theorem c16_proxy_step_read_only : forall c w t f,
  t_kind t = KSsoProxy -> proxy_phase_ok (t_phase t) ->
  let '(w', t', o) := step c w t f in
  w_store w' = w_store w /\ w_locks w' = w_locks w /\ w_valid_rt w' = w_valid_rt w /\ w_idp_log w' = w_idp_log w /\
  w' = w /\ read_only_obs o /\ t_kind t' = KSsoProxy /\ proxy_phase_ok (t_phase t').
Proof. exact p_c16_proxy_step_read_only. Qed.
Print Assumptions c16_proxy_step_read_only.

(** The phase hypothesis is an invariant of every run: from the initial state, after any event list
    (logins, clock ticks, spawns of any kind with any cookie, steps with any fault, cancellations, provider
    changes), every KSsoProxy thread is at its read or done. *)
Theorem c16_proxy_phase_invariant : forall c tau es tid th,
  alookup tid (m_ts (run_events c (init_state tau) es)) = Some th ->
  t_kind th = KSsoProxy -> proxy_phase_ok (t_phase th).
Proof. exact p_c16_proxy_phase_invariant. Qed.
Print Assumptions c16_proxy_phase_invariant.

(** Hence: in every run, every step of a proxy thread leaves the world unchanged and is a read. *)
Theorem c16_proxy_never_writes : forall c tau pre tid f th,
  let s := run_events c (init_state tau) pre in
  alookup tid (m_ts s) = Some th -> t_kind th = KSsoProxy ->
  m_w (fst (apply_event c s (ERun tid f))) = m_w s /\ read_only_obs (snd (apply_event c s (ERun tid f))).
Proof. exact proxy_run_read_only. Qed.
Print Assumptions c16_proxy_never_writes.

(** ** Clause 3: the SSO server's wildcard route answers 302 and performs no operation *)
Theorem c16_server_wildcard_never_proxies : forall c ck now w f,
  c_sso c = true ->
  let t := spawn c KProxy ck now in
  t_phase t = PDone (OStatus 302) /\ step c w t f = (w, t, ObNone).
Proof. exact p_c16_server_wildcard_never_proxies. Qed.
Print Assumptions c16_server_wildcard_never_proxies.

(** Non-vacuity for clause 1: a proxy request with a valid ticket reads the store once and forwards with the
    session's token; the same request on the main (non-SSO) instance at token expiry would go on to lock and refresh. *)
Example c16_proxy_nonvacuous :
  let c := mk_config true true false None (7200 * second) 0 0 false false true true true in
  let s := run_events c (init_state 3600) [ELogin 1 2; ESpawn 1 KSsoProxy (CTicket 1 1)] in
  exists th, alookup 1%N (m_ts s) = Some th /\ t_kind th = KSsoProxy /\ t_phase th = PGet 0 /\
  snd (apply_event c s (ERun 1 FNone)) = ObGet 1 1.
Proof. vm_compute. eexists. repeat split. Qed.

(** ** Clause 1, "passing a redirect confined to its own ingress" (SSOProxy.Login / SSOProxy.Logout,
    Model/Redirect.v; tied to the real handlers behind the real router by the spxredirect correspondence).
    For EVERY redirect parameter, request host and request path: the redirect handed to the SSO server is the
    fallback ingress itself, or the serialisation of the record of the ingress that matches the request (the fallback
    ingress when none matches) in which only path, query and fragment come from the parameter - scheme, userinfo and
    host are the ingress' own - and that string passed the proxy's validator. (Record level: that URL.String() of such
    a record is read by a browser with that host is the content of the C04 authority theorems and of the monitor.) *)
Theorem c16_proxy_login_handover_on_ingress : forall ings fb reqhost reqpath param r,
  Redirect.spx_login_handover ings fb reqhost reqpath param = Some r ->
  let base := Redirect.spx_base_ingress ings fb reqhost reqpath in
  r = GoUrl.url_string fb \/
  (Redirect.absolute_valid (map GoUrl.u_host ings) r = true /\
   ((GoUrl.parse_url param = None /\ r = GoUrl.url_string base) \/
    exists p, GoUrl.parse_url param = Some p /\ r = GoUrl.url_string (SpxHandoverP.spx_on_ingress base p))).
Proof. exact SpxHandoverP.spx_login_handover_shape. Qed.
Print Assumptions c16_proxy_login_handover_on_ingress.

(** ... where the base is the fallback or a CONFIGURED ingress with the request's Host and the longest matching path. *)
Theorem c16_proxy_base_ingress_configured : forall ings fb reqhost reqpath,
  let base := Redirect.spx_base_ingress ings fb reqhost reqpath in
  base = fb \/ (In base ings /\ GoUrl.u_host base = reqhost /\ GoUrl.u_path base = Redirect.spx_matching_path ings reqpath).
Proof. exact SpxHandoverP.spx_base_ingress_configured. Qed.
Print Assumptions c16_proxy_base_ingress_configured.

(** Logout hands over a redirect only when the request carries one, and then the same as login. *)
Theorem c16_proxy_logout_handover : forall ings fb reqhost reqpath param r,
  Redirect.spx_logout_handover ings fb reqhost reqpath param = Some r ->
  param <> [] /\ Redirect.spx_login_handover ings fb reqhost reqpath param = Some r.
Proof. exact SpxHandoverP.spx_logout_handover_shape. Qed.
Print Assumptions c16_proxy_logout_handover.

(* String is imported only here, after every other statement of this file, for the literals of the example *)
From Coq Require Import String.

(** Non-vacuity: ingress https://app.example.com; other scheme + other port, a sub-domain, userinfo: all three satisfy
    the proxy's (lax) validator, and all are rewritten onto the ingress; a foreign host likewise. *)
Example c16_proxy_handover_nonvacuous :
  let ing := BytesLit.bs "https://app.example.com"%string in
  let go (p : string) := EntryRedirect.entry_spxhandler [ing] ing (BytesLit.bs "https://sso.example.com"%string) (BytesLit.bs "app.example.com"%string) (BytesLit.bs "/oauth2/login"%string) false (BytesLit.bs p) in
  let want (p : string) := [BytesLit.bs "302"%string; BytesLit.bs "https://sso.example.com/oauth2/login"%string; [1%N]; BytesLit.bs p] in
  go "http://app.example.com:8443/x?y#z"%string = want "https://app.example.com/x?y#z"%string /\
  go "https://evil.app.example.com/x"%string = want "https://app.example.com/x"%string /\
  go "https://app.example.com@evil.example/"%string = want "https://app.example.com/"%string /\
  go "//evil.example/p"%string = want "https://app.example.com/p"%string /\
  Redirect.absolute_valid [BytesLit.bs "app.example.com"%string] (BytesLit.bs "http://evil.app.example.com/x"%string) = true.
Proof. vm_compute. repeat split. Qed.

(** ** Clause 3, "scopes its cookies to that domain" (Model/Cookie.v [handle]: the Set-Cookie headers of login, callback, logout,
    local logout, logout callback and front-channel logout, error answers included; compared with the real SSO-server router
    for consecutive failures of every endpoint by every cause on every run, `wwh ssocookies`).
    Every Set-Cookie header of every answer of an SSO server - whatever the request carries, whatever fails, however often -
    has Domain = sso.domain and Path=/: *)
Theorem c16_server_cookies_scoped_to_domain : forall cfg r sc,
  Cookie.cf_sso_server cfg = true -> In sc (Cookie.rs_cookies (Cookie.handle cfg r)) ->
  Cookie.c_domain sc = Cookie.cf_sso_domain cfg /\ Cookie.c_path sc = Cookie.slash.
Proof. exact SsoProxyJarP.sso_server_cookies_domain_scoped. Qed.
Print Assumptions c16_server_cookies_scoped_to_domain.

(** ... and an SSO proxy of the deployment hands the browser nothing but such cookies (the server's, relayed): *)
Theorem c16_proxy_relays_only_domain_scoped_cookies : forall pe br q f sc,
  Cookie.cf_sso_server (Retry.e_cfg pe) = true ->
  In sc (Cookie.rs_cookies (fst (Retry.do_request_proxy pe br q f))) ->
  Cookie.c_domain sc = Cookie.cf_sso_domain (Retry.e_cfg pe) /\ Cookie.c_path sc = Cookie.slash.
Proof. exact SsoProxyJarP.sso_proxy_relays_domain_scoped. Qed.
Print Assumptions c16_proxy_relays_only_domain_scoped_cookies.

(** Non-vacuity: an SSO server for example.com; the second consecutive failure of the login endpoint (the request carries the
    counter "1") is answered 307 with one cookie, the counter "2", Domain=example.com, Path=/. *)
Example c16_server_cookie_scope_nonvacuous :
  let cfg := {| Cookie.cf_secure := true; Cookie.cf_samesite := BytesLit.bs "Lax"%string; Cookie.cf_prefix := BytesLit.bs "io.nais.wonderwall"%string;
                Cookie.cf_ingresses := [BytesLit.bs "https://sso.example.com"%string]; Cookie.cf_sso_server := true;
                Cookie.cf_sso_domain := BytesLit.bs "example.com"%string; Cookie.cf_sso_name := BytesLit.bs "sso.session"%string;
                Cookie.cf_legacy := false; Cookie.cf_rl_enabled := false; Cookie.cf_rl_logins := 5%Z; Cookie.cf_rl_window := 5000000000%Z;
                Cookie.cf_seg_prefix := true; Cookie.cf_rl_ceil := true |} in
  let r := {| Cookie.r_ep := Cookie.EpLogin; Cookie.r_mp := []; Cookie.r_retry := Some (BytesLit.bs "1"%string); Cookie.r_logincount := None;
              Cookie.r_has_session := false; Cookie.r_has_login := false; Cookie.r_ingress_ok := true; Cookie.r_prompt := false;
              Cookie.r_fault := Cookie.CFErr 500%Z |} in
  Cookie.rs_status (Cookie.handle cfg r) = 307%Z /\
  map (fun sc => (Cookie.c_name sc, Cookie.c_value sc, Cookie.c_domain sc, Cookie.c_path sc)) (Cookie.rs_cookies (Cookie.handle cfg r))
    = [(BytesLit.bs "sso.session.retry"%string, Cookie.VLit (BytesLit.bs "2"%string), BytesLit.bs "example.com"%string, BytesLit.bs "/"%string)].
Proof. vm_compute. split; reflexivity. Qed.

(** ** Clause 3, "never proxies to an upstream", on the router (Model/Router.v + Model/SsoWild.v; tied to the real router and
    the real handler.SSOServer by the ssowild correspondence). For EVERY request - any method, any path (raw and decoded), any
    Sec-Fetch-Mode / Sec-Fetch-Dest / Accept / Access-Control-Request-Method headers, any ingress configuration - an instance in
    SSO-server mode does not hand the request to the reverse proxy ... *)
From WW Require Model.Router Model.SsoWild Proofs.SsoWildP.

Theorem c16_server_router_never_reaches_upstream : forall c url method raw path h,
  Router.rc_mode c = Router.SsoServer -> SsoWild.sw_respond c url method raw path h <> SsoWild.SwUpstream.
Proof. exact SsoWildP.sw_server_never_upstream. Qed.
Print Assumptions c16_server_router_never_reaches_upstream.

(** ... and what reaches its catch-all route is answered with the redirect to the configured default URL, whatever the request
    looks like (reaching that route depends on method and path only, not on the headers). *)
Theorem c16_server_unowned_requests_redirected : forall c url method raw path h nc,
  Router.rc_mode c = Router.SsoServer -> Router.respond c method raw path h = Router.RHandler Router.EpWildcard nc ->
  SsoWild.sw_respond c url method raw path h = SsoWild.SwRedirect 302 url.
Proof. exact SsoWildP.sw_server_wildcard_redirects. Qed.
Print Assumptions c16_server_unowned_requests_redirected.

Theorem c16_wildcard_answer_ignores_headers : forall c url method raw path h h',
  Router.route_req c method raw path = Router.OutWildcard ->
  SsoWild.sw_respond c url method raw path h = SsoWild.sw_respond c url method raw path h'.
Proof. exact SsoWildP.sw_respond_header_blind_on_wildcard. Qed.
Print Assumptions c16_wildcard_answer_ignores_headers.

(** Non-vacuity: POST /api/x with Sec-Fetch-Mode: cors, Sec-Fetch-Dest: empty (a credentialed fetch() from a page under the SSO
    domain) reaches the catch-all route of an SSO server with its ingress at the root and is answered 302 to the default URL; the
    same request on a standalone instance reaches the upstream. *)
Example c16_server_unowned_nonvacuous :
  let url := BytesLit.bs "https://www.example.com/"%string in
  let h := {| Router.h_mode := BytesLit.bs "cors"%string; Router.h_dest := BytesLit.bs "empty"%string;
              Router.h_accept := [BytesLit.bs "application/json"%string]; Router.h_acrm := [] |} in
  let srv := {| Router.rc_mode := Router.SsoServer; Router.rc_idporten := false; Router.rc_prefixes := [[]] |} in
  let sta := {| Router.rc_mode := Router.Standalone; Router.rc_idporten := false; Router.rc_prefixes := [[]] |} in
  let m := BytesLit.bs "POST"%string in
  let p := BytesLit.bs "/api/x"%string in
  Router.respond srv m [] p h = Router.RHandler Router.EpWildcard false /\
  SsoWild.sw_respond srv url m [] p h = SsoWild.SwRedirect 302 url /\
  SsoWild.sw_respond sta url m [] p h = SsoWild.SwUpstream.
Proof. vm_compute. repeat split. Qed.
