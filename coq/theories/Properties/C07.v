(** C07 — concurrent requests cause one refresh; no refresh token is presented twice. *)
From Coq Require Import ZArith NArith Bool List.
From WW Require Import Gen.Params Base.AMap Model.SessionTime Model.Machine Model.Entry
     Proofs.MachineP Proofs.MachineRefute.
Import ListNotations.
Open Scope Z_scope.

(** Mutual exclusion, for the Redis lock and for the in-memory store's lock alike: in every reachable state
    (any schedule, any number of threads, faults, crashes) at most one thread is a valid holder of a session's
    refresh lock, i.e. is past the acquisition (re-read, grant, update, release) with the live lock entry
    carrying its token. A second thread can only be in those phases if its own lease has run out. *)
Theorem c07_mutual_exclusion : forall c es tau t1 t2 th1 th2,
  locking c ->
  let s := run_events c (init_state tau) es in
  alookup t1 (m_ts s) = Some th1 -> alookup t2 (m_ts s) = Some th2 ->
  cookie_key (t_cookie th1) = cookie_key (t_cookie th2) ->
  valid_holder (m_w s) th1 -> valid_holder (m_w s) th2 -> t1 = t2.
Proof. exact mutual_exclusion. Qed.
Print Assumptions c07_mutual_exclusion.

(** Without a real lock on the in-memory store (pre-fix code, flag off) both requests present refresh token 1. *)
Theorem c07_memory_store_refuted :
  let s := run_events (cfg_mem false false false) (init_state 3600) double_refresh_schedule in
  w_idp_log (m_w s) = [IdpGrant 1 false; IdpGrant 1 true].
Proof. exact memory_store_double_presentation. Qed.
Print Assumptions c07_memory_store_refuted.

(** With the lock (current code) two requests that both decided to refresh make one presentation only:
    the second acquires the lock after the first released it, re-reads, finds the cooldown running and stops. *)
Example c07_memory_store_fixed :
  let s := run_events (cfg_mem true true true) (init_state 3600)
    [ELogin 1 2; ETick (3601 * second); ESpawn 1 KProxy tk; ESpawn 2 KProxy tk;
     ERun 1 FNone; ERun 2 FNone; ERun 1 FNone; ERun 2 FNone; ERun 1 FNone; ERun 1 FNone; ERun 2 FNone;
     ERun 1 FNone; ERun 1 FNone; ERun 2 FNone; ERun 2 FNone; ERun 2 FNone] in
  w_idp_log (m_w s) = [IdpGrant 1 true] /\
  thread_done s 1 (OForward (Some 2%N) None) /\ thread_done s 2 (OForward (Some 2%N) None).
Proof. vm_compute. split; [reflexivity|split; eexists; split; reflexivity]. Qed.
