(** C07 — concurrent requests cause one refresh; no refresh token is presented twice. *)
From Coq Require Import ZArith NArith Bool List.
From WW Require Import Gen.Params Base.AMap Model.SessionTime Model.Machine Model.Entry
     Proofs.MachineP Proofs.MachineRefute Proofs.MachineRtP Proofs.MachineRetryP.
Import ListNotations.
Open Scope Z_scope.

(** Mutual exclusion, for the Redis lock and for the in-memory store's lock alike: in every reachable state
    (any schedule, any number of threads, faults, crashes) at most one thread is a valid holder of a session's
    refresh lock, i.e. is past the acquisition (re-read, grant, update, release) with the live lock entry
    carrying its token. A second thread can only be in those phases if its own lease has run out. *)
Theorem c07_mutual_exclusion : forall c es tau t1 t2 th1 th2,
  locking c ->
  let s := run_events c (init_state tau) es in
  alookup t1 (m_ts s) = Some th1 -> alookup t2 (m_ts s) = Some th2 ->
  cookie_key (t_cookie th1) = cookie_key (t_cookie th2) ->
  valid_holder (m_w s) th1 -> valid_holder (m_w s) th2 -> t1 = t2.
Proof. exact mutual_exclusion. Qed.
Print Assumptions c07_mutual_exclusion.

(** Without a real lock on the in-memory store (pre-fix code, flag off) both requests present refresh token 1. *)
Theorem c07_memory_store_refuted :
  let s := run_events (cfg_mem false false false) (init_state 3600) double_refresh_schedule in
  w_idp_log (m_w s) = [IdpGrant 1 false; IdpGrant 1 true].
Proof. exact memory_store_double_presentation. Qed.
Print Assumptions c07_memory_store_refuted.

(** With the lock (current code) two requests that both decided to refresh make one presentation only:
    the second acquires the lock after the first released it, re-reads, finds the cooldown running and stops. *)
Example c07_memory_store_fixed :
  let s := run_events (cfg_mem true true true) (init_state 3600)
    [ELogin 1 2; ETick (3601 * second); ESpawn 1 KProxy tk; ESpawn 2 KProxy tk;
     ERun 1 FNone; ERun 2 FNone; ERun 1 FNone; ERun 2 FNone; ERun 1 FNone; ERun 1 FNone; ERun 2 FNone;
     ERun 1 FNone; ERun 1 FNone; ERun 2 FNone; ERun 2 FNone; ERun 2 FNone] in
  w_idp_log (m_w s) = [IdpGrant 1 true] /\
  thread_done s 1 (OForward (Some 2%N) None) /\ thread_done s 2 (OForward (Some 2%N) None).
Proof. vm_compute. split; [reflexivity|split; eexists; split; reflexivity]. Qed.
Print Assumptions c07_memory_store_fixed.

(** Each refresh-token value is sent to the provider at most once.
    Setting: a locking configuration (Redis, or the in-memory store with its per-key lock) with the atomic store
    update; a rotating provider; fault-free event lists ([ff_event]: every [ERun] has fault [FNone], no [ECancel],
    no switch to a non-rotating provider) with arbitrary ticks, logins (including re-logins under the same key),
    logouts, spawns, on any number of threads, in any interleaving.
    Lease hypothesis ([lease_ok], the property's "as long as a refresh completes within the lock lifetime"): in
    every prefix state, every thread in a lock-holding phase is a valid holder (live lock entry carrying its token).
    Conclusion: the provider log contains no rejected presentation, and its refresh-token values are pairwise distinct. *)
Theorem c07_refresh_token_presented_once : forall c tau es,
  locking c -> c_upd_atomic c = true -> Forall ff_event es -> lease_ok c (init_state tau) es ->
  let log := w_idp_log (m_w (run_events c (init_state tau) es)) in
  (forall rt, ~ In (IdpGrant rt false) log) /\ NoDup (map ev_rt log).
Proof. exact rt_presented_once. Qed.
Print Assumptions c07_refresh_token_presented_once.

(** The invariant behind it holds in every state reachable under those hypotheses, from any state satisfying it. *)
Theorem c07_refresh_token_invariant : forall c s0 es,
  locking c -> c_upd_atomic c = true -> Forall ff_event es -> rt_inv s0 -> lease_ok c s0 es ->
  rt_inv (run_events c s0 es).
Proof. exact rt_inv_run. Qed.
Print Assumptions c07_refresh_token_invariant.

(** Under the lease hypothesis at most one thread per session key is between its accepted grant and its store
    update (any event list, faults and cancellation included). *)
Corollary c07_one_pending_update : forall c tau es t1 t2 th1 th2,
  locking c -> lease_ok c (init_state tau) es ->
  let s := run_events c (init_state tau) es in
  alookup t1 (m_ts s) = Some th1 -> alookup t2 (m_ts s) = Some th2 ->
  cookie_key (t_cookie th1) = cookie_key (t_cookie th2) ->
  is_upd (t_phase th1) = true -> is_upd (t_phase th2) = true -> t1 = t2.
Proof. exact one_pending_update. Qed.
Print Assumptions c07_one_pending_update.

(** Non-vacuity: two concurrent refreshers of one session; every hypothesis of the theorem holds on the schedule
    and exactly one presentation is made (in-memory store with its lock, and Redis). *)
Example c07_presented_once_nonvacuous :
  let c := cfg_mem true true true in
  locking c /\ c_upd_atomic c = true /\ Forall ff_event two_refreshers_schedule /\
  lease_ok c (init_state 3600) two_refreshers_schedule /\
  w_idp_log (m_w (run_events c (init_state 3600) two_refreshers_schedule)) = [IdpGrant 1 true].
Proof. exact two_refreshers_nonvacuous. Qed.
Print Assumptions c07_presented_once_nonvacuous.

Example c07_presented_once_nonvacuous_redis :
  let c := cfg_redis true true true in
  locking c /\ c_upd_atomic c = true /\ Forall ff_event two_refreshers_schedule /\
  lease_ok c (init_state 3600) two_refreshers_schedule /\
  w_idp_log (m_w (run_events c (init_state 3600) two_refreshers_schedule)) = [IdpGrant 1 true].
Proof. exact two_refreshers_redis_nonvacuous. Qed.
Print Assumptions c07_presented_once_nonvacuous_redis.

(** The lease hypothesis is necessary: a refresher that stalls for a whole lock lifetime between its accepted grant
    and its store update leaves the spent value in the store; the next refresher acquires the expired lock and
    presents the same value again (fault-free schedule, current code). *)
Theorem c07_lease_hypothesis_needed :
  let c := cfg_redis true true true in
  locking c /\ c_upd_atomic c = true /\ Forall ff_event stalled_refresher_schedule /\
  ~ lease_ok c (init_state 3600) stalled_refresher_schedule /\
  w_idp_log (m_w (run_events c (init_state 3600) stalled_refresher_schedule)) = [IdpGrant 1 false; IdpGrant 1 true].
Proof. exact stalled_refresher_double_presentation. Qed.
Print Assumptions c07_lease_hypothesis_needed.

(** * "At most one refresh grant succeeds per cooldown window" *)
From WW Require Import Proofs.SessionTimeP Proofs.MachineModeP Proofs.MachineCooldownP.

(** The decision to call the provider is taken by the re-read under the lock, on the record stored at that moment,
    and only if that record's cooldown has expired (any fault, any schedule). *)
Theorem c07_grant_decided_on_stored_record_off_cooldown : forall c w t f old tok start w' t' o old' cur tok' start',
  t_phase t = PReread old tok start -> step c w t f = (w', t', o) -> t_phase t' = PIdp old' cur tok' start' ->
  exists e, store_get w (cookie_key (t_cookie t)) = Some e /\
            classify_entry (cookie_dek (t_cookie t)) e (w_clock w) = GOk cur /\
            has_rt cur = true /\ on_cooldown (c_tp c) (sd_md cur) (w_clock w) = false /\
            t_cancel t = false /\ f <> FStore.
Proof. exact grant_decision. Qed.
Print Assumptions c07_grant_decided_on_stored_record_off_cooldown.

(** In every reachable state (ANY event list: faults, cancellation, crashes included) a thread at the provider call
    holds a record whose cooldown has expired. *)
Theorem c07_provider_call_only_off_cooldown : forall c tau es t th old cur tok st,
  let s := run_events c (init_state tau) es in
  alookup t (m_ts s) = Some th -> t_phase th = PIdp old cur tok st ->
  cooldown_end (c_tp c) (sd_md cur) <= w_clock (m_w s).
Proof. intros c tau es t th old cur tok st. exact (idp_cool_run c tau es t th old cur tok st). Qed.
Print Assumptions c07_provider_call_only_off_cooldown.

(** Under the lease hypothesis at most one thread per session key is past the lock acquisition (re-read, provider
    call, store update, release): between a refresher's decision read and its store update no other thread for
    that key passes from the re-read to the provider call. *)
Corollary c07_one_refresher_per_key : forall c tau es t1 t2 th1 th2,
  locking c -> lease_ok c (init_state tau) es ->
  let s := run_events c (init_state tau) es in
  alookup t1 (m_ts s) = Some th1 -> alookup t2 (m_ts s) = Some th2 ->
  cookie_key (t_cookie th1) = cookie_key (t_cookie th2) ->
  held_tok th1 <> None -> held_tok th2 <> None -> t1 = t2.
Proof. exact one_refresher_per_key. Qed.
Print Assumptions c07_one_refresher_per_key.

(** The provider log carries no times. The accepted grants of a run with their instants are a ghost of the run:
    [glog c s es] lists, oldest first, for every step of the run that appends [IdpGrant _ true] to the provider log,
    the session key of the stepping thread ([g_key]), the clock value ([g_time]), the presented value ([g_rt]), the
    record its decision re-read under the lock ([g_cur]) and the record it goes on to store ([g_new]).
    The ghost is exactly the accepted part of the provider log (any event list). *)
Theorem c07_grant_ghost_is_the_accepted_log : forall c es s,
  filter ok_ev (w_idp_log (m_w (run_events c s es))) =
  rev (map (fun g => IdpGrant (g_rt g) true) (glog c s es)) ++ filter ok_ev (w_idp_log (m_w s)).
Proof. exact glog_matches_log. Qed.
Print Assumptions c07_grant_ghost_is_the_accepted_log.

(** Setting of [c07_refresh_token_presented_once]: locking configuration, atomic update, fault-free events (any
    schedule, any number of threads, logins - re-logins included -, logouts, ticks, provider lifetime changes), lease
    hypothesis.  For ANY two accepted grants g1 (earlier) and g2 (later) of one session key: the record g2 was
    decided on was refreshed (or created) at or after the instant of g1, and its cooldown had expired at g2:
        g_time g1 <= refreshed cur   and   cooldown_end cur <= g_time g2. *)
Theorem c07_grants_separated_by_cooldown : forall c tau es,
  locking c -> c_upd_atomic c = true -> Forall ff_event es -> lease_ok c (init_state tau) es ->
  forall l1 g1 l2 g2 l3, glog c (init_state tau) es = l1 ++ g1 :: l2 ++ g2 :: l3 -> g_key g2 = g_key g1 ->
    exists cur, g_cur g2 = Some cur /\ g_time g1 <= refreshed (sd_md cur) /\
                cooldown_end (c_tp c) (sd_md cur) <= g_time g2.
Proof. exact grants_cooldown. Qed.
Print Assumptions c07_grants_separated_by_cooldown.

(** In numbers: the distance is at least the cooldown length of that record; when its token lifetime exceeds twice
    the minimum refresh interval, at least the minimum refresh interval (one minute). *)
Theorem c07_grants_distance : forall c tau es,
  locking c -> c_upd_atomic c = true -> Forall ff_event es -> lease_ok c (init_state tau) es ->
  forall l1 g1 l2 g2 l3, glog c (init_state tau) es = l1 ++ g1 :: l2 ++ g2 :: l3 -> g_key g2 = g_key g1 ->
    exists cur, g_cur g2 = Some cur /\
      g_time g1 + (cooldown_end (c_tp c) (sd_md cur) - refreshed (sd_md cur)) <= g_time g2 /\
      (min_interval (c_tp c) * 2 < token_lifetime (sd_md cur) -> g_time g1 + min_interval (c_tp c) <= g_time g2).
Proof. exact grants_cooldown_distance. Qed.
Print Assumptions c07_grants_distance.

(** Consecutive grants of one key with no login under that key between them (the run is split at the two granting
    steps e1, e2; no accepted grant for the key and no [ELogin] of the key in the stretch es2 between them): the record
    the later grant was decided on IS the stored result of the earlier one, which was refreshed at the instant of the
    earlier grant; the two are separated by at least the cooldown of the earlier one's result.
    (If the earlier refresher never writes - it crashed between grant and update - the lease hypothesis fails once
    its lock has expired; until then nobody else enters the critical section, so there is no later grant.) *)
Theorem c07_consecutive_grants_exact : forall c tau es1 e1 es2 e2 es3 g1 g2,
  locking c -> c_upd_atomic c = true ->
  Forall ff_event (es1 ++ e1 :: es2 ++ e2 :: es3) -> lease_ok c (init_state tau) (es1 ++ e1 :: es2 ++ e2 :: es3) ->
  let s1 := run_events c (init_state tau) es1 in
  let s1' := fst (apply_event c s1 e1) in
  let s2 := run_events c s1' es2 in
  grant_of c s1 e1 = Some g1 -> grant_of c s2 e2 = Some g2 -> g_key g2 = g_key g1 ->
  Forall (not_login_of (g_key g1)) es2 ->
  (forall g, In g (glog c s1' es2) -> g_key g <> g_key g1) ->
  exists n, g_new g1 = Some n /\ g_cur g2 = Some n /\ refreshed (sd_md n) = g_time g1 /\
            cooldown_end (c_tp c) (sd_md n) <= g_time g2.
Proof. exact consecutive_grants_exact. Qed.
Print Assumptions c07_consecutive_grants_exact.

(** Non-vacuity: one session, a refresh at 3601 s, a refresh request 30 s later answered from the store without a
    grant (cooldown running), a refresh request 61 s after the first grant that is granted; every hypothesis holds;
    exactly two accepted grants, 61 s >= 60 s apart. *)
Example c07_cooldown_nonvacuous :
  let c := cfg_redis true true true in
  let s := run_events c (init_state 3600) cooldown_schedule in
  locking c /\ c_upd_atomic c = true /\ Forall ff_event cooldown_schedule /\
  lease_ok c (init_state 3600) cooldown_schedule /\
  map g_summary (glog c (init_state 3600) cooldown_schedule) = [(1%N, 3601 * second, 1%N); (1%N, 3662 * second, 2%N)] /\
  w_idp_log (m_w s) = [IdpGrant 2 true; IdpGrant 1 true] /\
  min_interval (c_tp c) = 60 * second /\
  (exists d tm, thread_done s 3 (OMeta 200 d tm) /\ sd_rt d = 2%N) /\
  (exists d tm, thread_done s 2 (OMeta 200 d tm) /\ sd_rt d = 3%N).
Proof. exact cooldown_nonvacuous. Qed.
Print Assumptions c07_cooldown_nonvacuous.

(** ... and the hypotheses of the exact form hold on that schedule split at its two grants; the second grant was
    decided on the first one's result, whose cooldown ended at 3661 s. *)
Example c07_consecutive_exact_nonvacuous :
  let c := cfg_redis true true true in
  let es1 := firstn 6 cooldown_schedule in
  let es2 := firstn 10 (skipn 7 cooldown_schedule) in
  let es3 := skipn 18 cooldown_schedule in
  let s1 := run_events c (init_state 3600) es1 in
  let s1' := fst (apply_event c s1 (ERun 1 FNone)) in
  let s2 := run_events c s1' es2 in
  cooldown_schedule = es1 ++ ERun 1 FNone :: es2 ++ ERun 2 FNone :: es3 /\
  Forall (not_login_of 1%N) es2 /\ glog c s1' es2 = [] /\
  exists g1 g2 n, grant_of c s1 (ERun 1 FNone) = Some g1 /\ grant_of c s2 (ERun 2 FNone) = Some g2 /\
    g_key g1 = 1%N /\ g_key g2 = 1%N /\ g_time g1 = 3601 * second /\ g_time g2 = 3662 * second /\
    g_new g1 = Some n /\ g_cur g2 = Some n /\ cooldown_end (c_tp c) (sd_md n) = 3661 * second.
Proof. exact cooldown_exact_nonvacuous. Qed.
Print Assumptions c07_consecutive_exact_nonvacuous.

(** The exact form needs the re-login exclusion: provider lifetime drops to 20 s, the user logs in again under the
    same session id, and the NEW session is refreshed 11 s after the old session's grant - decided on the new
    session's record, not on the first grant's result, whose 60 s cooldown is still running.  All other hypotheses
    hold, and so does the general form. *)
Theorem c07_relogin_exclusion_needed :
  let c := cfg_redis true true true in
  locking c /\ c_upd_atomic c = true /\ Forall ff_event cooldown_relogin_schedule /\
  lease_ok c (init_state 3600) cooldown_relogin_schedule /\
  exists g1 g2 n, glog c (init_state 3600) cooldown_relogin_schedule = [g1; g2] /\
    g_summary g1 = (1%N, 3601 * second, 1%N) /\ g_summary g2 = (1%N, 3612 * second, 3%N) /\
    g_new g1 = Some n /\ g_cur g2 <> Some n /\ g_time g2 < cooldown_end (c_tp c) (sd_md n) /\
    grant_sep c g1 g2.
Proof. exact cooldown_relogin_needed. Qed.
Print Assumptions c07_relogin_exclusion_needed.

(** The lease hypothesis is needed (fault-free events, rotating provider, current code): a refresher stalls between
    its accepted grant and its store update beyond the lock lifetime, the user logs in again under the same id, the
    new session is refreshed (3661 s), then the stalled conditional write lands on the new entry (known re-login
    overwrite) and puts back a record refreshed at 3601 s: the next request is granted a refresh at 3662 s, one
    second after the previous accepted grant of that key. *)
Theorem c07_cooldown_lease_hypothesis_needed :
  let c := cfg_redis true true true in
  locking c /\ c_upd_atomic c = true /\ Forall ff_event cooldown_stalled_schedule /\
  ~ lease_ok c (init_state 3600) cooldown_stalled_schedule /\
  exists g1 g2 g3, glog c (init_state 3600) cooldown_stalled_schedule = [g1; g2; g3] /\
    g_summary g1 = (1%N, 3601 * second, 1%N) /\ g_summary g2 = (1%N, 3661 * second, 3%N) /\
    g_summary g3 = (1%N, 3662 * second, 2%N) /\ ~ grant_sep c g2 g3.
Proof. exact cooldown_lease_needed. Qed.
Print Assumptions c07_cooldown_lease_hypothesis_needed.

(** Outside the fault-free setting (provider that does not rotate refresh tokens): a refresher that outlives its
    lease between grant and update lets the next one be granted a refresh with the same token 10 s later. *)
Theorem c07_stalled_refresher_nonrotating_provider :
  let c := cfg_redis true true true in
  ~ lease_ok c (init_state 3600) cooldown_stalled_nonrotating_schedule /\
  map g_summary (glog c (init_state 3600) cooldown_stalled_nonrotating_schedule) =
    [(1%N, 3601 * second, 1%N); (1%N, 3611 * second, 1%N)] /\
  w_idp_log (m_w (run_events c (init_state 3600) cooldown_stalled_nonrotating_schedule)) = [IdpGrant 1 true; IdpGrant 1 true].
Proof. exact cooldown_stalled_nonrotating. Qed.
Print Assumptions c07_stalled_refresher_nonrotating_provider.

(** One request and the provider ("apart from retries of a request the provider answered with a server error").
    [request_obs c t ws] are the observations of ONE request whose steps are taken in arbitrary worlds (whatever other
    requests, replicas, the clock and the provider did in between) under arbitrary faults [ws]. If the request presents a
    refresh token to the provider ([ObIdp rt1 r1]) and later presents one again, the first presentation was answered with
    a server error ([r1 = 5]): after tokens, a 4xx, any other failure of the call ([-1]: the connection was refused or
    lost - with or without the provider having processed the grant) or a cancellation, the request stores / unlocks /
    finishes and never reaches the provider again. *)
Theorem c07_one_request_represents_only_after_5xx : forall c t ws l1 l2 rt1 r1 rt2 r2,
  request_obs c t ws = l1 ++ ObIdp rt1 r1 :: l2 -> In (ObIdp rt2 r2) l2 -> r1 = 5.
Proof. intros c t ws. exact (represent_only_after_5xx c ws t). Qed.
Print Assumptions c07_one_request_represents_only_after_5xx.

(** ... and a server-error answer is only ever observed under the 5xx fault of an uncancelled request at the provider,
    presenting the refresh token of the record it re-read under the lock. *)
Theorem c07_provider_observation : forall c w t f rt res,
  snd (step c w t f) = ObIdp rt res ->
  (exists old cur tok start, t_phase t = PIdp old cur tok start /\ rt = sd_rt cur) /\
  (res = 5 -> f = FIdp5xx /\ t_cancel t = false) /\
  (res <> 5 -> past_provider (t_phase (snd (fst (step c w t f))))).
Proof. exact step_idp_obs. Qed.
Print Assumptions c07_provider_observation.

(** Non-vacuity: at the provider, a 5xx answer is followed by a second presentation of the same value; a lost connection is not. *)
Example c07_represent_example :
  match alookup 1%N (m_ts at_provider_state) with
  | Some t =>
    let w := m_w at_provider_state in
    map (fun o => match o with ObIdp rt r => Some (rt, r) | _ => None end)
        (request_obs (cfg_redis true true true) t [(w, FIdp5xx); (w, FNone); (w, FNone); (w, FNone)])
      = [Some (1%N, 5); Some (1%N, 1); None; None] /\
    map (fun o => match o with ObIdp rt r => Some (rt, r) | _ => None end)
        (request_obs (cfg_redis true true true) t [(w, FIdpErr); (w, FNone); (w, FNone)])
      = [Some (1%N, -1); None; None]
  | None => False
  end.
Proof. exact represent_example. Qed.
Print Assumptions c07_represent_example.

(** ---- The lock is per session (pkg/session/lock.go lockKey over session_manager.go key; Model/SessionKey.v, tied to the
    code by `wwh sesskey`). ---- *)
From WW Require Model.SessionKey Proofs.SessionKeyP.

(** Two refreshes contend for the same lock entry exactly when they refresh the same session: the mutual exclusion of the
    theorems above is per session, and refreshes of different sessions never serialise each other. *)
Theorem c07_lock_entry_identifies_the_session : forall provider client sid sid',
  SessionKey.lock_key (SessionKey.store_key provider client sid) = SessionKey.lock_key (SessionKey.store_key provider client sid') -> sid = sid'.
Proof. exact SessionKeyP.session_lock_inj. Qed.
Print Assumptions c07_lock_entry_identifies_the_session.

(** A lock entry never sits on a session's own key as long as that session's id does not end in ".lock" (wonderwall's
    generated ids are base64 and never do) ... *)
Theorem c07_lock_entry_is_no_session_entry : forall provider client sid sid',
  Bytes.has_suffix sid SessionKey.lock_suffix = false ->
  SessionKey.lock_key (SessionKey.store_key provider client sid') <> SessionKey.store_key provider client sid.
Proof. exact SessionKeyP.lock_key_not_session_key. Qed.
Print Assumptions c07_lock_entry_is_no_session_entry.

(** ... and for an id that does, it does: the session "x.lock" is stored where the refresh lock of session "x" is taken
    (while it exists, SET NX for x's lock fails: x is never refreshed; exclusion itself is not weakened). Provider-issued
    `sid`s of that shape, or a `session_state` chosen by the user at a provider without `sid`, are outside C07's quantifier
    (schedules of requests on ONE session); recorded in DESIGN.md 0.4 as an observation. *)
Theorem c07_lock_entry_session_entry_collision_refuted :
  exists p c e e', e <> e' /\ SessionKey.lock_key (SessionKey.store_key p c e') = SessionKey.store_key p c e.
Proof. exact SessionKeyP.lock_key_session_key_collision. Qed.
Print Assumptions c07_lock_entry_session_entry_collision_refuted.
