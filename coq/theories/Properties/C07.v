(** C07 — concurrent requests cause one refresh; no refresh token is presented twice. *)
From Coq Require Import ZArith NArith Bool List.
From WW Require Import Gen.Params Base.AMap Model.SessionTime Model.Machine Model.Entry
     Proofs.MachineP Proofs.MachineRefute Proofs.MachineRtP.
Import ListNotations.
Open Scope Z_scope.

(** Mutual exclusion, for the Redis lock and for the in-memory store's lock alike: in every reachable state
    (any schedule, any number of threads, faults, crashes) at most one thread is a valid holder of a session's
    refresh lock, i.e. is past the acquisition (re-read, grant, update, release) with the live lock entry
    carrying its token. A second thread can only be in those phases if its own lease has run out. *)
Theorem c07_mutual_exclusion : forall c es tau t1 t2 th1 th2,
  locking c ->
  let s := run_events c (init_state tau) es in
  alookup t1 (m_ts s) = Some th1 -> alookup t2 (m_ts s) = Some th2 ->
  cookie_key (t_cookie th1) = cookie_key (t_cookie th2) ->
  valid_holder (m_w s) th1 -> valid_holder (m_w s) th2 -> t1 = t2.
Proof. exact mutual_exclusion. Qed.
Print Assumptions c07_mutual_exclusion.

(** Without a real lock on the in-memory store (pre-fix code, flag off) both requests present refresh token 1. *)
Theorem c07_memory_store_refuted :
  let s := run_events (cfg_mem false false false) (init_state 3600) double_refresh_schedule in
  w_idp_log (m_w s) = [IdpGrant 1 false; IdpGrant 1 true].
Proof. exact memory_store_double_presentation. Qed.
Print Assumptions c07_memory_store_refuted.

(** With the lock (current code) two requests that both decided to refresh make one presentation only:
    the second acquires the lock after the first released it, re-reads, finds the cooldown running and stops. *)
Example c07_memory_store_fixed :
  let s := run_events (cfg_mem true true true) (init_state 3600)
    [ELogin 1 2; ETick (3601 * second); ESpawn 1 KProxy tk; ESpawn 2 KProxy tk;
     ERun 1 FNone; ERun 2 FNone; ERun 1 FNone; ERun 2 FNone; ERun 1 FNone; ERun 1 FNone; ERun 2 FNone;
     ERun 1 FNone; ERun 1 FNone; ERun 2 FNone; ERun 2 FNone; ERun 2 FNone] in
  w_idp_log (m_w s) = [IdpGrant 1 true] /\
  thread_done s 1 (OForward (Some 2%N) None) /\ thread_done s 2 (OForward (Some 2%N) None).
Proof. vm_compute. split; [reflexivity|split; eexists; split; reflexivity]. Qed.
Print Assumptions c07_memory_store_fixed.

(** Each refresh-token value is sent to the provider at most once.
    Setting: a locking configuration (Redis, or the in-memory store with its per-key lock) with the atomic store
    update; a rotating provider; fault-free event lists ([ff_event]: every [ERun] has fault [FNone], no [ECancel],
    no switch to a non-rotating provider) with arbitrary ticks, logins (including re-logins under the same key),
    logouts, spawns, on any number of threads, in any interleaving.
    Lease hypothesis ([lease_ok], the property's "as long as a refresh completes within the lock lifetime"): in
    every prefix state, every thread in a lock-holding phase is a valid holder (live lock entry carrying its token).
    Conclusion: the provider log contains no rejected presentation, and its refresh-token values are pairwise distinct. *)
Theorem c07_refresh_token_presented_once : forall c tau es,
  locking c -> c_upd_atomic c = true -> Forall ff_event es -> lease_ok c (init_state tau) es ->
  let log := w_idp_log (m_w (run_events c (init_state tau) es)) in
  (forall rt, ~ In (IdpGrant rt false) log) /\ NoDup (map ev_rt log).
Proof. exact rt_presented_once. Qed.
Print Assumptions c07_refresh_token_presented_once.

(** The invariant behind it holds in every state reachable under those hypotheses, from any state satisfying it. *)
Theorem c07_refresh_token_invariant : forall c s0 es,
  locking c -> c_upd_atomic c = true -> Forall ff_event es -> rt_inv s0 -> lease_ok c s0 es ->
  rt_inv (run_events c s0 es).
Proof. exact rt_inv_run. Qed.
Print Assumptions c07_refresh_token_invariant.

(** Under the lease hypothesis at most one thread per session key is between its accepted grant and its store
    update (any event list, faults and cancellation included). *)
Corollary c07_one_pending_update : forall c tau es t1 t2 th1 th2,
  locking c -> lease_ok c (init_state tau) es ->
  let s := run_events c (init_state tau) es in
  alookup t1 (m_ts s) = Some th1 -> alookup t2 (m_ts s) = Some th2 ->
  cookie_key (t_cookie th1) = cookie_key (t_cookie th2) ->
  is_upd (t_phase th1) = true -> is_upd (t_phase th2) = true -> t1 = t2.
Proof. exact one_pending_update. Qed.
Print Assumptions c07_one_pending_update.

(** Non-vacuity: two concurrent refreshers of one session; every hypothesis of the theorem holds on the schedule
    and exactly one presentation is made (in-memory store with its lock, and Redis). *)
Example c07_presented_once_nonvacuous :
  let c := cfg_mem true true true in
  locking c /\ c_upd_atomic c = true /\ Forall ff_event two_refreshers_schedule /\
  lease_ok c (init_state 3600) two_refreshers_schedule /\
  w_idp_log (m_w (run_events c (init_state 3600) two_refreshers_schedule)) = [IdpGrant 1 true].
Proof. exact two_refreshers_nonvacuous. Qed.
Print Assumptions c07_presented_once_nonvacuous.

Example c07_presented_once_nonvacuous_redis :
  let c := cfg_redis true true true in
  locking c /\ c_upd_atomic c = true /\ Forall ff_event two_refreshers_schedule /\
  lease_ok c (init_state 3600) two_refreshers_schedule /\
  w_idp_log (m_w (run_events c (init_state 3600) two_refreshers_schedule)) = [IdpGrant 1 true].
Proof. exact two_refreshers_redis_nonvacuous. Qed.
Print Assumptions c07_presented_once_nonvacuous_redis.

(** The lease hypothesis is necessary: a refresher that stalls for a whole lock lifetime between its accepted grant
    and its store update leaves the spent value in the store; the next refresher acquires the expired lock and
    presents the same value again (fault-free schedule, current code). *)
Theorem c07_lease_hypothesis_needed :
  let c := cfg_redis true true true in
  locking c /\ c_upd_atomic c = true /\ Forall ff_event stalled_refresher_schedule /\
  ~ lease_ok c (init_state 3600) stalled_refresher_schedule /\
  w_idp_log (m_w (run_events c (init_state 3600) stalled_refresher_schedule)) = [IdpGrant 1 false; IdpGrant 1 true].
Proof. exact stalled_refresher_double_presentation. Qed.
Print Assumptions c07_lease_hypothesis_needed.
