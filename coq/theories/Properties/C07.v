From Coq Require Import ZArith NArith Bool List.
From WW Require Import Gen.Params Base.AMap Model.SessionTime Model.Machine Model.Entry Proofs.MachineRefute.
Import ListNotations.
Open Scope Z_scope.
Theorem c07_memory_store_refuted :
  let s := run_events (cfg_mem false false false) (init_state 3600) double_refresh_schedule in
  w_idp_log (m_w s) = [IdpGrant 1 false; IdpGrant 1 true].
Proof. exact memory_store_double_presentation. Qed.
Print Assumptions c07_memory_store_refuted.
