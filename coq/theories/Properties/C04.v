(** C04 — redirects issued by wonderwall never leave the application's allowed origins.
    Only statements; proofs are in Proofs/{RedirectP,GoUrlP,WhatwgP,RedirectSafeP,AbsoluteP}.v.
    Model: Model/GoUrl.v (net/url, path.Clean, net/http.Redirect), Model/Redirect.v (pkg/url validators and
    the three Redirect implementations), Model/Whatwg.v (WHATWG URL parser restricted to the origin).
    Byte strings are [list N]; no bound on their length or content is assumed anywhere below. *)
From Coq Require Import NArith List Bool Lia.
From WW Require Import Gen.Params Base.Bytes Model.GoUrl Model.Redirect Model.Whatwg
  Proofs.GoUrlP Proofs.RedirectP Proofs.WhatwgP Proofs.RedirectSafeP Proofs.AbsoluteP Proofs.AuthorityP.
Import ListNotations.
Open Scope N_scope.

(** The hand-written matcher [regex_match] was written for exactly this regular-expression source
    (dumped from the compiled Go code on every run): a changed regex breaks this obligation. *)
Lemma pin_redirect_regex : redirect_regex_src = regex_src_expected.
Proof. reflexivity. Qed.

(** L1a. The matcher decides exactly the language of [/\\](?:[\s\v]*|\.{1,2})[/\\] (unanchored): a slash or
    backslash, then either any run of whitespace/VT or one or two dots, then a slash or backslash. *)
Theorem c04_regex_exact : forall s, regex_match s = true <-> has_slash_pair s.
Proof. exact regex_match_spec. Qed.
Print Assumptions c04_regex_exact.

(** L1b. isValidAbsolutePath accepts only strings that start with exactly one "/" and contain no slash/backslash
    pair (adjacent, separated by whitespace/VT, or separated by "." / ".."). *)
Theorem c04_valid_path_shape : forall s, is_valid_absolute_path s = true ->
  exists r, s = 47 :: r /\ hd 0 r <> 47 /\ ~ has_slash_pair s.
Proof. exact valid_path_shape. Qed.
Print Assumptions c04_valid_path_shape.

(** L4. Every string accepted by isValidAbsolutePath - raw TAB/LF/CR, spaces, controls and backslashes included -
    is resolved by the WHATWG parser against any base to the base's own origin. *)
Theorem c04_valid_path_same_origin : forall idna bscheme bhost bport s,
  is_valid_absolute_path s = true ->
  whatwg_origin idna bscheme bhost bport s = WTuple bscheme bhost bport.
Proof. exact valid_path_same_origin. Qed.
Print Assumptions c04_valid_path_same_origin.

(** L2. URL.String() of ANY record without scheme, host, user and opaque part is [./]EscapedPath[?query][#fragment],
    and EscapedPath never contains a raw backslash, space or C0 control byte. *)
Theorem c04_reserialised_bytes : forall u,
  u_scheme u = [] -> u_host u = [] -> u_opaque u = [] -> u_user u = None ->
  url_string u = dot_slash_prefix (escaped_path u) ++ escaped_path u ++ query_fragment_string u /\
  Forall (fun c => 32 < c /\ c <> 92) (escaped_path u).
Proof. intros u Hs Hh Ho Hu. split; [now apply url_string_relative|apply escaped_path_nice]. Qed.
Print Assumptions c04_reserialised_bytes.

(** L3a. What RelativeValidator accepts starts with exactly one slash. *)
Theorem c04_relative_valid_shape : forall t, relative_valid t = true -> exists r, t = 47 :: r /\ hd 0 r <> 47.
Proof. exact relative_valid_shape. Qed.
Print Assumptions c04_relative_valid_shape.

(** L3b + http.Redirect + L4, standalone mode, login/autologin/retry: for every redirect parameter, ingress path and
    request path, StandaloneRedirect.Canonical returns the operator default (the ingress path) or a string whose
    Location header, as rewritten by http.Redirect, resolves to the origin of the request URL. *)
Theorem c04_standalone_canonical_same_origin : forall idna ipath reqpath param bscheme bhost bport,
  standalone_canonical ipath param = url_string (matching_path ipath) \/
  whatwg_origin idna bscheme bhost bport (http_redirect_location reqpath (standalone_canonical ipath param))
  = WTuple bscheme bhost bport.
Proof. intros. apply standalone_canonical_safe. Qed.
Print Assumptions c04_standalone_canonical_same_origin.

(** Same for the value re-validated at callback time (LoginCallback: Clean(cookie.Referer); LogoutCallback:
    IsValidRedirect(cookie.RedirectTo)), the cookie carrying what Canonical returned for an earlier request. *)
Theorem c04_standalone_callback_same_origin : forall idna ipath ipath' reqpath param bscheme bhost bport,
  standalone_clean ipath' (standalone_canonical ipath param) = url_string (matching_path ipath') \/
  whatwg_origin idna bscheme bhost bport
    (http_redirect_location reqpath (standalone_clean ipath' (standalone_canonical ipath param)))
  = WTuple bscheme bhost bport.
Proof. intros. apply standalone_callback_safe. Qed.
Print Assumptions c04_standalone_callback_same_origin.

(** Re-serialisation is load-bearing: the validator alone, applied to an un-canonicalised target, accepts a string
    that a browser resolves to another host ("/\evil.com": validated as "/%5Cevil.com", emitted as written). *)
Theorem c04_raw_validation_unsafe : exists t,
  relative_valid t = true /\
  whatwg_origin idna_marker w_https [119] None (http_redirect_location [47] (standalone_clean [47] t))
  = WTuple w_https [101;118;105;108;46;99;111;109] None.
Proof. exists [47;92;101;118;105;108;46;99;111;109]. vm_compute. split; reflexivity. Qed.
Print Assumptions c04_raw_validation_unsafe.

(** ... while Canonical on the same bytes is safe: the backslash is escaped before validation and emission. *)
Example c04_canonical_escapes_backslash :
  http_redirect_location [47] (standalone_canonical [47] [47;92;101;118;105;108;46;99;111;109])
  = [47;37;53;67;101;118;105;108;46;99;111;109].
Proof. vm_compute. reflexivity. Qed.

(** Non-vacuity: a non-default redirect is produced and kept. "/a/b/..?x=\\y#z" -> Location "/a?x=\\y#z"
    (http.Redirect applies path.Clean; the query keeps its raw backslash, which no longer matters). *)
Example c04_nonvacuous_standalone :
  standalone_canonical [47] [47;97;47;98;47;46;46;63;120;61;92;121;35;122] <> url_string (matching_path [47]) /\
  http_redirect_location [47;111] (standalone_canonical [47] [47;97;47;98;47;46;46;63;120;61;92;121;35;122])
  = [47;97;63;120;61;92;121;35;122].
Proof. vm_compute. split; [intros H; discriminate H|reflexivity]. Qed.

(** L5 (Go level). AbsoluteValidator accepts only strings that ParseRequestURI parses to an http(s) URL whose Host is
    non-empty and equals an allowed domain, or whose Hostname() equals it, or whose Host ends with "." ++ domain. *)
Theorem c04_absolute_valid_host : forall domains t, absolute_valid domains t = true ->
  exists v, parse_request_uri t = Some v /\
    (u_scheme v = s_http \/ u_scheme v = s_https) /\ u_host v <> [] /\
    exists d, In d domains /\ d <> [] /\
      (u_host v = d \/ hostname v = d \/ exists pre, u_host v = pre ++ dotted d).
Proof. exact absolute_valid_host. Qed.
Print Assumptions c04_absolute_valid_host.

(** L5 (authority agreement). For every string t accepted by AbsoluteValidator (SSO server: [SSO domain]; SSO proxy:
    ingress hosts), t = scheme "://" authority tail, where the authority that Go validated is exactly the substring the
    WHATWG parser takes as authority after skipping slashes and backslashes (it contains no "/", "\", "?", "#", and the
    tail starts with "/" or "?" or is empty); Go's Host is parsed from the text after the LAST "@", which is also the
    text WHATWG's host state reads. So "https://a.b\@evil", "https://evil#@a.b", "https://a.b@evil" style confusions
    cannot pass: both parsers look at the same host text. *)
Theorem c04_absolute_valid_authority : forall domains t, absolute_valid domains t = true ->
  exists sch0 authority tail user v,
    t = sch0 ++ 58 :: 47 :: 47 :: authority ++ tail /\
    parse_request_uri t = Some v /\ u_scheme v = to_lower sch0 /\ (u_scheme v = s_http \/ u_scheme v = s_https) /\
    parse_authority authority = Some (user, u_host v) /\ authority <> [] /\
    take_authority (skip_slashes (47 :: 47 :: authority ++ tail)) = authority /\
    parse_host (after_last_at authority) = Some (u_host v).
Proof.
  intros domains t H.
  destruct (absolute_valid_authority domains t H) as (sch0 & au & tail & user & v & H1 & H2 & H3 & H4 & H5 & H6 & H7).
  exists sch0, au, tail, user, v. repeat split; try assumption. now apply parse_authority_hostpart with user.
Qed.
Print Assumptions c04_absolute_valid_authority.

(** Non-vacuity of the authority theorem and agreement on a concrete accepted URL with userinfo and port:
    "https://u:p@a.b:8443/p?q" resolves (WHATWG) to host a.b, port 8443. (A sub-domain WITH a port, e.g. x.a.b:8443,
    is rejected by isAllowedDomain because the suffix test is applied to Host including the port: safe side.) *)
Example c04_nonvacuous_authority :
  let t := [104;116;116;112;115;58;47;47;117;58;112;64;97;46;98;58;56;52;52;51;47;112;63;113] in
  absolute_valid [[97;46;98]] t = true /\
  whatwg_origin idna_marker w_https [119] None t = WTuple w_https [97;46;98] (Some 8443).
Proof. vm_compute. split; reflexivity. Qed.

(** The suffix rule needs its dot: "evila.b" is not accepted for the domain "a.b" while "x.a.b" is. *)
Example c04_nonvacuous_absolute :
  absolute_valid [[97;46;98]] [104;116;116;112;115;58;47;47;120;46;97;46;98;47] = true /\
  absolute_valid [[97;46;98]] [104;116;116;112;115;58;47;47;101;118;105;108;97;46;98;47] = false /\
  absolute_valid [[97;46;98]] [104;116;116;112;115;58;47;47;97;46;98;64;101;46;99;47] = false.
Proof. vm_compute. repeat split. Qed.
