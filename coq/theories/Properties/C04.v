(** C04 — redirects issued by wonderwall never leave the application's allowed origins.
    Only statements; proofs are in Proofs/{RedirectP,GoUrlP,WhatwgP,RedirectSafeP,AbsoluteP}.v.
    Model: Model/GoUrl.v (net/url, path.Clean, net/http.Redirect), Model/Redirect.v (pkg/url validators and
    the three Redirect implementations), Model/Whatwg.v (WHATWG URL parser restricted to the origin),
    Model/RetryUri.v (the error handler's automatic retry: Standalone.Retry, LoginRelative, JoinPath, the request line
    as net/http parses it; proofs in Proofs/RetryUriP.v, statements at the end of this file).
    Byte strings are [list N]; no bound on their length or content is assumed anywhere below. *)
From Coq Require Import NArith List Bool Lia.
From WW Require Import Gen.Params Base.Bytes Model.GoUrl Model.Redirect Model.Whatwg Model.RetryUri
  Proofs.GoUrlP Proofs.RedirectP Proofs.WhatwgP Proofs.RedirectSafeP Proofs.AbsoluteP Proofs.AuthorityP Proofs.RetryUriP.
Import ListNotations.
Open Scope N_scope.

(** The hand-written matcher [regex_match] was written for exactly this regular-expression source
    (dumped from the compiled Go code on every run): a changed regex breaks this obligation. *)
Lemma pin_redirect_regex : redirect_regex_src = regex_src_expected.
Proof. reflexivity. Qed.

(** L1a. The matcher decides exactly the language of [/\\](?:[\s\v]*|\.{1,2})[/\\] (unanchored): a slash or
    backslash, then either any run of whitespace/VT or one or two dots, then a slash or backslash. *)
Theorem c04_regex_exact : forall s, regex_match s = true <-> has_slash_pair s.
Proof. exact regex_match_spec. Qed.
Print Assumptions c04_regex_exact.

(** L1b. isValidAbsolutePath accepts only strings that start with exactly one "/" and contain no slash/backslash
    pair (adjacent, separated by whitespace/VT, or separated by "." / ".."). *)
Theorem c04_valid_path_shape : forall s, is_valid_absolute_path s = true ->
  exists r, s = 47 :: r /\ hd 0 r <> 47 /\ ~ has_slash_pair s.
Proof. exact valid_path_shape. Qed.
Print Assumptions c04_valid_path_shape.

(** L4. Every string accepted by isValidAbsolutePath - raw TAB/LF/CR, spaces, controls and backslashes included -
    is resolved by the WHATWG parser against any base to the base's own origin. *)
Theorem c04_valid_path_same_origin : forall idna bscheme bhost bport s,
  is_valid_absolute_path s = true ->
  whatwg_origin idna bscheme bhost bport s = WTuple bscheme bhost bport.
Proof. exact valid_path_same_origin. Qed.
Print Assumptions c04_valid_path_same_origin.

(** L2. URL.String() of ANY record without scheme, host, user and opaque part is [./]EscapedPath[?query][#fragment],
    and EscapedPath never contains a raw backslash, space or C0 control byte. *)
Theorem c04_reserialised_bytes : forall u,
  u_scheme u = [] -> u_host u = [] -> u_opaque u = [] -> u_user u = None ->
  url_string u = dot_slash_prefix (escaped_path u) ++ escaped_path u ++ query_fragment_string u /\
  Forall (fun c => 32 < c /\ c <> 92) (escaped_path u).
Proof. intros u Hs Hh Ho Hu. split; [now apply url_string_relative|apply escaped_path_nice]. Qed.
Print Assumptions c04_reserialised_bytes.

(** L3a. What RelativeValidator accepts starts with exactly one slash. *)
Theorem c04_relative_valid_shape : forall t, relative_valid t = true -> exists r, t = 47 :: r /\ hd 0 r <> 47.
Proof. exact relative_valid_shape. Qed.
Print Assumptions c04_relative_valid_shape.

(** L3b + http.Redirect + L4, standalone mode, login/autologin/retry: for every redirect parameter, ingress path and
    request path, StandaloneRedirect.Canonical returns the operator default (the ingress path) or a string whose
    Location header, as rewritten by http.Redirect, resolves to the origin of the request URL. *)
Theorem c04_standalone_canonical_same_origin : forall idna ipath reqpath param bscheme bhost bport,
  standalone_canonical ipath param = url_string (matching_path ipath) \/
  whatwg_origin idna bscheme bhost bport (http_redirect_location reqpath (standalone_canonical ipath param))
  = WTuple bscheme bhost bport.
Proof. intros. apply standalone_canonical_safe. Qed.
Print Assumptions c04_standalone_canonical_same_origin.

(** Same for the value re-validated at callback time (LoginCallback: Clean(cookie.Referer); LogoutCallback:
    IsValidRedirect(cookie.RedirectTo)), the cookie carrying what Canonical returned for an earlier request. *)
Theorem c04_standalone_callback_same_origin : forall idna ipath ipath' reqpath param bscheme bhost bport,
  standalone_clean ipath' (standalone_canonical ipath param) = url_string (matching_path ipath') \/
  whatwg_origin idna bscheme bhost bport
    (http_redirect_location reqpath (standalone_clean ipath' (standalone_canonical ipath param)))
  = WTuple bscheme bhost bport.
Proof. intros. apply standalone_callback_safe. Qed.
Print Assumptions c04_standalone_callback_same_origin.

(** Re-serialisation is load-bearing: the validator alone, applied to an un-canonicalised target, accepts a string
    that a browser resolves to another host ("/\evil.com": validated as "/%5Cevil.com", emitted as written). *)
Theorem c04_raw_validation_unsafe : exists t,
  relative_valid t = true /\
  whatwg_origin idna_marker w_https [119] None (http_redirect_location [47] (standalone_clean [47] t))
  = WTuple w_https [101;118;105;108;46;99;111;109] None.
Proof. exists [47;92;101;118;105;108;46;99;111;109]. vm_compute. split; reflexivity. Qed.
Print Assumptions c04_raw_validation_unsafe.

(** ... while Canonical on the same bytes is safe: the backslash is escaped before validation and emission. *)
Example c04_canonical_escapes_backslash :
  http_redirect_location [47] (standalone_canonical [47] [47;92;101;118;105;108;46;99;111;109])
  = [47;37;53;67;101;118;105;108;46;99;111;109].
Proof. vm_compute. reflexivity. Qed.

(** Non-vacuity: a non-default redirect is produced and kept. "/a/b/..?x=\\y#z" -> Location "/a?x=\\y#z"
    (http.Redirect applies path.Clean; the query keeps its raw backslash, which no longer matters). *)
Example c04_nonvacuous_standalone :
  standalone_canonical [47] [47;97;47;98;47;46;46;63;120;61;92;121;35;122] <> url_string (matching_path [47]) /\
  http_redirect_location [47;111] (standalone_canonical [47] [47;97;47;98;47;46;46;63;120;61;92;121;35;122])
  = [47;97;63;120;61;92;121;35;122].
Proof. vm_compute. split; [intros H; discriminate H|reflexivity]. Qed.

(** L5 (Go level). AbsoluteValidator accepts only strings that ParseRequestURI parses to an http(s) URL whose Host is
    non-empty and equals an allowed domain, or whose Hostname() equals it, or whose Host ends with "." ++ domain. *)
Theorem c04_absolute_valid_host : forall domains t, absolute_valid domains t = true ->
  exists v, parse_request_uri t = Some v /\
    (u_scheme v = s_http \/ u_scheme v = s_https) /\ u_host v <> [] /\
    exists d, In d domains /\ d <> [] /\
      (u_host v = d \/ hostname v = d \/ exists pre, u_host v = pre ++ dotted d).
Proof. exact absolute_valid_host. Qed.
Print Assumptions c04_absolute_valid_host.

(** L5 (authority agreement). For every string t accepted by AbsoluteValidator (SSO server: [SSO domain]; SSO proxy:
    ingress hosts), t = scheme "://" authority tail, where the authority that Go validated is exactly the substring the
    WHATWG parser takes as authority after skipping slashes and backslashes (it contains no "/", "\", "?", "#", and the
    tail starts with "/" or "?" or is empty); Go's Host is parsed from the text after the LAST "@", which is also the
    text WHATWG's host state reads. So "https://a.b\@evil", "https://evil#@a.b", "https://a.b@evil" style confusions
    cannot pass: both parsers look at the same host text. *)
Theorem c04_absolute_valid_authority : forall domains t, absolute_valid domains t = true ->
  exists sch0 authority tail user v,
    t = sch0 ++ 58 :: 47 :: 47 :: authority ++ tail /\
    parse_request_uri t = Some v /\ u_scheme v = to_lower sch0 /\ (u_scheme v = s_http \/ u_scheme v = s_https) /\
    parse_authority authority = Some (user, u_host v) /\ authority <> [] /\
    take_authority (skip_slashes (47 :: 47 :: authority ++ tail)) = authority /\
    parse_host (after_last_at authority) = Some (u_host v).
Proof.
  intros domains t H.
  destruct (absolute_valid_authority domains t H) as (sch0 & au & tail & user & v & H1 & H2 & H3 & H4 & H5 & H6 & H7).
  exists sch0, au, tail, user, v. repeat split; try assumption. now apply parse_authority_hostpart with user.
Qed.
Print Assumptions c04_absolute_valid_authority.

(** Non-vacuity of the authority theorem and agreement on a concrete accepted URL with userinfo and port:
    "https://u:p@a.b:8443/p?q" resolves (WHATWG) to host a.b, port 8443. (A sub-domain WITH a port, e.g. x.a.b:8443,
    is rejected by isAllowedDomain because the suffix test is applied to Host including the port: safe side.) *)
Example c04_nonvacuous_authority :
  let t := [104;116;116;112;115;58;47;47;117;58;112;64;97;46;98;58;56;52;52;51;47;112;63;113] in
  absolute_valid [[97;46;98]] t = true /\
  whatwg_origin idna_marker w_https [119] None t = WTuple w_https [97;46;98] (Some 8443).
Proof. vm_compute. split; reflexivity. Qed.

(** The suffix rule needs its dot: "evila.b" is not accepted for the domain "a.b" while "x.a.b" is. *)
Example c04_nonvacuous_absolute :
  absolute_valid [[97;46;98]] [104;116;116;112;115;58;47;47;120;46;97;46;98;47] = true /\
  absolute_valid [[97;46;98]] [104;116;116;112;115;58;47;47;101;118;105;108;97;46;98;47] = false /\
  absolute_valid [[97;46;98]] [104;116;116;112;115;58;47;47;97;46;98;64;101;46;99;47] = false.
Proof. vm_compute. repeat split. Qed.

(** * The error handler's automatic retry (pkg/handler/error.go: Standalone.Retry -> http.Redirect 307; the error page's
    retry link). Model/RetryUri.v; compared with the real handler behind the real router on every 307 and every error page of
    `wwh retryloc`. The SSO server embeds Standalone (mode [RuSsoServer]); the SSO proxy has no error handler.

    Hypotheses used below, and why:
    - [ru_routed_shape u] (no opaque part; the escaped path is "/" followed by a non-slash): the error handler is reached only
      through the router, which dispatches on the path; for a record net/http builds from a request line it follows from
      "r.URL.Path starts with exactly one slash" (Proofs/RetryUriP.v [ru_request_url_shape], used by
      [c04_retry_from_request_line]). What Retry would return for other records is shown by [c04_retry_unrouted_refuted].
    - the matched ingress path is [ru_segs l] with [Forall ru_plain_seg l]: "" or "/seg/seg...", every segment non-empty, not
      "." / "..", made of bytes net/url writes unescaped in a path (letters, digits, - _ . ~ $ & + , : ; = @). Operator
      configuration; needed only for the LITERAL form of the callback branches (JoinPath cleans and re-escapes the prefix). *)

(** How net/http fills r.URL for the request-target forms (non-CONNECT): what Retry reads afterwards. *)
From Coq Require Import String.
From WW Require Import Base.BytesLit.

Example c04_retry_request_targets :
  (* origin-form *)
  option_map (fun u => (u_scheme u, u_host u, u_path u, u_rawquery u)) (ru_request_url (bs "/oauth2/login?a=b#c"))
    = Some ([], [], bs "/oauth2/login", bs "a=b#c") /\
  (* absolute-form, with userinfo *)
  option_map (fun u => (u_scheme u, u_user u, u_host u, u_path u)) (ru_request_url (bs "HTTP://u:p@Evil.Example:8443/oauth2/login"))
    = Some (bs "http", Some (bs "u", Some (bs "p")), bs "Evil.Example:8443", bs "/oauth2/login") /\
  (* scheme without authority / with empty authority / without a slash (opaque) *)
  option_map (fun u => (u_scheme u, u_host u, u_path u, u_omithost u)) (ru_request_url (bs "http:/oauth2/login"))
    = Some (bs "http", [], bs "/oauth2/login", true) /\
  option_map (fun u => (u_scheme u, u_host u, u_path u, u_omithost u)) (ru_request_url (bs "http:///oauth2/login"))
    = Some (bs "http", [], bs "/oauth2/login", false) /\
  option_map (fun u => (u_scheme u, u_opaque u, u_path u)) (ru_request_url (bs "http:oauth2/login"))
    = Some (bs "http", bs "oauth2/login", []) /\
  (* no authority parsing without a scheme: the doubled slash stays in the path *)
  option_map (fun u => (u_host u, u_path u)) (ru_request_url (bs "//evil.example/oauth2/login"))
    = Some ([], bs "//evil.example/oauth2/login") /\
  ru_request_url (bs "oauth2/login") = None.
Proof. vm_compute. repeat split. Qed.

(** (a), all branches: for every mode, configured path list, URL record of routed shape - any scheme, userinfo, host, query,
    fragment, flags - and login cookie (absent, or with any Referer; the Host header and X-Forwarded-Host are not inputs of Retry
    at all): the retry Location resolves, against ANY base URL, to that base's own origin. As a statement about its bytes: it
    starts with exactly one slash followed by no slash, backslash, space or control byte. The one other outcome, only in the last
    branch (the request URL with Scheme and Host blanked - not User) and only for a record WITH userinfo: the string
    "//userinfo@path?query" written as it is because url.Parse inside http.Redirect rejected it - and then no WHATWG parser makes
    a URL of it (empty host). Never a foreign origin. *)
Theorem c04_retry_location_safe : forall idna bscheme bhost bport m paths u referer l,
  ru_matching_path paths (u_path u) = ru_segs l -> Forall ru_plain_seg l -> ru_routed_shape u ->
  (whatwg_origin idna bscheme bhost bport (ru_retry_location m paths u referer) = WTuple bscheme bhost bport \/
   (u_user u <> None /\
    has_suffix (u_path u) (path_oauth2 ++ path_logout_callback) = false /\
    has_suffix (u_path u) (path_oauth2 ++ path_callback) = false /\
    whatwg_origin idna bscheme bhost bport (ru_retry_location m paths u referer) = WFail)) /\
  (one_slash (ru_retry_location m paths u referer) \/
   (exists ui, u_user u = Some ui /\
      ru_retry_location m paths u referer =
        hex_escape_non_ascii (47 :: 47 :: userinfo_string ui ++ 64 :: escaped_path u ++ query_fragment_string u) /\
      whatwg_origin idna bscheme bhost bport (ru_retry_location m paths u referer) = WFail)).
Proof. exact ru_retry_location_safe. Qed.
Print Assumptions c04_retry_location_safe.

(** (a) from the wire: for every request-target net/http accepts whose path starts with exactly one slash, every login cookie:
    a Location is produced and it stays on the origin it is resolved against; the refused "//userinfo@" case needs an
    absolute-form target with userinfo. *)
Theorem c04_retry_from_request_line : forall idna bscheme bhost bport m paths target referer u l,
  ru_request_url target = Some u ->
  has_prefix (u_path u) [47] = true -> has_prefix (u_path u) [47; 47] = false ->
  ru_matching_path paths (u_path u) = ru_segs l -> Forall ru_plain_seg l ->
  exists loc, ru_wire_location m paths target referer = Some loc /\
    (whatwg_origin idna bscheme bhost bport loc = WTuple bscheme bhost bport \/
     (u_user u <> None /\ u_scheme u <> [] /\ whatwg_origin idna bscheme bhost bport loc = WFail)).
Proof. exact ru_wire_location_origin. Qed.
Print Assumptions c04_retry_from_request_line.

(** (b) the callback branches, literally. Login callback: <matched ingress path>/oauth2/login?redirect=<QueryEscape(redirect)>,
    where the redirect is Clean(cookie Referer) when a login cookie with a non-empty Referer decrypts, else Canonical(r): in
    either case a redirect the mode's validator accepted, or the mode's default (for the standalone validator see
    c04_standalone_canonical_same_origin / c04_standalone_callback_same_origin above). Logout callback: <matched ingress
    path>/oauth2/logout. The request's scheme, userinfo, host, Host header and the rest of its query do not occur. *)
Theorem c04_retry_callback_branches : forall m paths u referer l,
  ru_matching_path paths (u_path u) = ru_segs l -> Forall ru_plain_seg l ->
  (has_suffix (u_path u) (path_oauth2 ++ path_logout_callback) = true ->
   ru_retry_location m paths u referer = ru_segs l ++ path_oauth2 ++ path_logout) /\
  (has_suffix (u_path u) (path_oauth2 ++ path_logout_callback) = false ->
   has_suffix (u_path u) (path_oauth2 ++ path_callback) = true ->
   ru_retry_location m paths u referer =
   ru_segs l ++ path_oauth2 ++ path_login ++ ru_login_query (ru_callback_redirect m (ru_segs l) u referer)) /\
  match m with
  | RuStandalone =>
      relative_valid (ru_callback_redirect m (ru_segs l) u referer) = true \/
      ru_callback_redirect m (ru_segs l) u referer = url_string (matching_path (ru_segs l))
  | RuSsoServer d f =>
      absolute_valid [d] (ru_callback_redirect m (ru_segs l) u referer) = true \/
      ru_callback_redirect m (ru_segs l) u referer = url_string f
  end.
Proof. exact ru_callback_branches. Qed.
Print Assumptions c04_retry_callback_branches.

(** Non-vacuity: ingress paths /app and /other, absolute-form callback naming a foreign host, login cookie with Referer "/x?y". *)
Example c04_retry_nonvacuous :
  let target := bs "https://evil.example/app/oauth2/callback?code=c&state=s" in
  exists u, ru_request_url target = Some u /\
    has_prefix (u_path u) [47] = true /\ has_prefix (u_path u) [47; 47] = false /\
    ru_matching_path [bs "/app"; bs "/other"] (u_path u) = ru_segs [bs "app"] /\
    ru_wire_location RuStandalone [bs "/app"; bs "/other"] target (Some (bs "/x?y"))
    = Some (bs "/app/oauth2/login?redirect=%2Fx%3Fy").
Proof. exact ru_callback_example. Qed.
Example c04_retry_nonvacuous_prefix : Forall ru_plain_seg [bs "app"].
Proof. exact ru_plain_prefix_app. Qed.

(** (a) as literally worded - "never starts with //" - is FALSE: GET https://u@app.example.com/oauth2/login?x#%zz with a
    failing login. The Location is "//u@/oauth2/login?x#%zz" (model and real code agree: `wwh retryloc` drives this form);
    browsers refuse it (WHATWG: empty host), which is why the theorems above end in "or the parser fails". *)
Theorem c04_retry_single_slash_refuted :
  let target := bs "https://u@app.example.com/oauth2/login?x#%zz" in
  exists u loc, ru_request_url target = Some u /\
    has_prefix (u_path u) [47] = true /\ has_prefix (u_path u) [47; 47] = false /\
    ru_wire_location RuStandalone [[]] target None = Some loc /\
    loc = bs "//u@/oauth2/login?x#%zz" /\
    whatwg_origin idna_marker w_https (bs "app.example.com") None loc = WFail.
Proof. exact ru_single_slash_witness. Qed.
Print Assumptions c04_retry_single_slash_refuted.

(** With a decodable tail http.Redirect cleans the same kind of target to a path on the ingress (the observed
    "/app.example.com@/oauth2/login": a wrong path on the right origin). *)
Example c04_retry_userinfo_cleaned :
  ru_wire_location RuStandalone [[]] (bs "https://app.example.com@evil.example/oauth2/login") None
  = Some (bs "/app.example.com@/oauth2/login").
Proof. exact ru_userinfo_cleaned_witness. Qed.

(** Why the routed shape is needed - what Retry returns for records the router never hands to the error handler.
    (1) An opaque request-target: the opaque part, a foreign origin. Its Path is empty, so the router gives it to the wildcard
    handler. (2) A path starting with "//" comes back as a scheme-relative reference; routed only under an ingress whose
    configured path starts with "//" (operator configuration). (3) A record net/http cannot build: userinfo and a path without
    leading slash. *)
Theorem c04_retry_unrouted_refuted :
  (let target := bs "http:https://evil.example/" in
   exists u loc, ru_request_url target = Some u /\ u_path u = [] /\ u_opaque u = bs "https://evil.example/" /\
     ru_wire_location RuStandalone [[]] target None = Some loc /\ loc = bs "https://evil.example/" /\
     whatwg_origin idna_marker w_https (bs "app.example.com") None loc = WTuple w_https (bs "evil.example") None) /\
  (let target := bs "//evil.example/oauth2/login" in
   exists u loc, ru_request_url target = Some u /\ u_path u = target /\
     ru_wire_location RuStandalone [bs "//evil.example"] target None = Some loc /\ loc = target /\
     whatwg_origin idna_marker w_https (bs "app.example.com") None loc = WTuple w_https (bs "evil.example") None) /\
  (let u := mkurl [] [] (Some (bs "x", None)) [] (bs "evil.example/oauth2/login") [] false false [] [] [] in
   ru_retry_location RuStandalone [[]] u None = bs "//x@evil.example/oauth2/login" /\
   whatwg_origin idna_marker w_https (bs "app.example.com") None (ru_retry_location RuStandalone [[]] u None)
   = WTuple w_https (bs "evil.example") None).
Proof. exact (conj ru_opaque_witness (conj ru_double_slash_witness ru_user_relpath_witness)). Qed.
Print Assumptions c04_retry_unrouted_refuted.

(** Blanking is load-bearing: the seeded variant (seeded/C04r3: the last branch returns r.RequestURI) sends an absolute-form
    target for a foreign host back as it came in, while the code as it is answers "/oauth2/login". *)
Theorem c04_retry_request_uri_refuted :
  let target := bs "http://evil.example/oauth2/login" in
  ru_wire_location_seeded RuStandalone [[]] target None = Some target /\
  whatwg_origin idna_marker w_https (bs "app.example.com") None target = WTuple w_http (bs "evil.example") None /\
  ru_wire_location RuStandalone [[]] target None = Some (bs "/oauth2/login").
Proof. exact ru_seeded_witness. Qed.
Print Assumptions c04_retry_request_uri_refuted.
