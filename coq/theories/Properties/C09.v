(** C09 — cookies and stored sessions are opaque, tamper-evident and key-separated.
    Cryptography is symbolic (ideal AEAD); the concrete cipher is exercised by `wwh crypto`
    (every bit flip / truncation of real ciphertexts, nonce uniqueness, key swaps), not proved. *)
From Coq Require Import NArith ZArith Bool List.
From WW Require Import Base.Bytes Base.AMap Model.Crypt Model.Auth Model.SessionTime Model.Machine
     Proofs.CryptP Proofs.AuthP Proofs.MachineP Proofs.MachineFaultP.
Import ListNotations.

(** Round trip, and only under the sealing key. *)
Theorem c09_roundtrip : forall rnd key pt, decrypt key (snd (encrypt rnd key pt)) = Some pt.
Proof. exact decrypt_encrypt. Qed.
Print Assumptions c09_roundtrip.

Theorem c09_other_key_fails : forall rnd k k' pt, k <> k' -> decrypt k' (snd (encrypt rnd k pt)) = None.
Proof. exact decrypt_other_key. Qed.
Print Assumptions c09_other_key_fails.

(** Whatever decrypts under a key was sealed, untouched, under that key. *)
Theorem c09_decrypt_only_sealed : forall key c pt, decrypt key c = Some pt -> exists n, c = Sealed key n pt.
Proof. exact decrypt_some. Qed.
Print Assumptions c09_decrypt_only_sealed.

(** Any modification, truncation or foreign byte string is rejected under every key. *)
Theorem c09_tampered_fails : forall key c,
  (exists b c0, c = Flipped b c0) \/ (exists l c0, c = TruncatedTo l c0) \/ (exists l c0, c = DropPrefix l c0) \/ (exists b, c = Junk b) ->
  decrypt key c = None.
Proof. exact tampered_fails. Qed.
Print Assumptions c09_tampered_fails.

(** Fresh nonces: over any sequence of encryptions (any keys, any plaintexts) no nonce repeats. *)
Theorem c09_nonces_never_repeat : forall rnd reqs, NoDup (map nonce_of (encrypt_all rnd reqs)).
Proof. exact nonces_never_repeat. Qed.
Print Assumptions c09_nonces_never_repeat.

(** Data keys are per session: over any sequence of logins - whatever session cookie of an earlier login (same
    browser, same or another provider session id) the callback request carries - no data key is used twice ... *)
Theorem c09_data_keys_never_repeat : forall rnd logins, NoDup (map st_dek (mint_all rnd logins)).
Proof. exact data_keys_never_repeat. Qed.
Print Assumptions c09_data_keys_never_repeat.

(** ... so the cookie of one login never opens the value stored for another login (an earlier or later session of
    the same browser included), whatever is substituted in the store. *)
Theorem c09_other_sessions_blob_rejected : forall rnd logins i j t u nonce data,
  nth_error (mint_all rnd logins) i = Some t -> nth_error (mint_all rnd logins) j = Some u -> i <> j ->
  open_with_ticket t u nonce data = None.
Proof. exact other_sessions_blob_rejected. Qed.
Print Assumptions c09_other_sessions_blob_rejected.

(* non-vacuity: a browser logs in, then logs in again carrying the first cookie, under another and under the same key *)
Example c09_other_sessions_blob_rejected_nonvacuous :
  let l := [(1%N, None); (2%N, Some 0%N); (1%N, Some 0%N)] in
  let t0 := {| st_key := 1%N; st_dek := 1%N |} in
  let t2 := {| st_key := 1%N; st_dek := 3%N |} in
  (nth_error (mint_all 1%N l) 0 = Some t0) /\ (nth_error (mint_all 1%N l) 2 = Some t2) /\ (open_with_ticket t0 t2 0%N [] = None).
Proof. repeat split. Qed.

(** Opacity of the login flow: the code verifier reaches the browser only inside the encrypted login cookie;
    the authorization URL carries its S256 image, never the value. *)
Theorem c09_verifier_not_in_front_channel : forall c q rnd ref par i k x,
  par <> VRnd (rnd + 2) ->
  In (k, x) (lo_browser (login_with c q rnd ref par i)) -> x <> VRnd (rnd + 2).
Proof. exact verifier_not_in_front_channel. Qed.
Print Assumptions c09_verifier_not_in_front_channel.

Theorem c09_login_cookie_sealed_under_deployment_key : forall c q rnd ref par i,
  lo_cookie (login_with c q rnd ref par i) = Some (CkEnc (a_key c) (login_cookie_fields c q i rnd ref)).
Proof. intros. unfold login_with. destruct (a_par c); reflexivity. Qed.
Print Assumptions c09_login_cookie_sealed_under_deployment_key.

(** Key separation for sessions: a request gets a session only through a successful read of a store entry
    that the data key carried in its own cookie opens (another session's blob, a re-login's blob, a foreign
    key: the data key does not match and the result is 'invalid'). *)
Theorem c09_session_only_with_own_data_key : forall c w t f start w' t' o,
  t_phase t = PGet start -> step c w t f = (w', t', o) ->
  (held_tok t' <> None \/ (exists old s, t_phase t' = PLock old s) \/
   (exists out, t_phase t' = PDone out /\ accepted (t_kind t) out = true)) ->
  exists e, store_get w (cookie_key (t_cookie t)) = Some e /\ e_dek e = cookie_dek (t_cookie t).
Proof. intros. edestruct first_read_needed as (_ & _ & _ & H'); eauto. Qed.
Print Assumptions c09_session_only_with_own_data_key.

(** A cookie that does not open under the deployment key, or is not a ticket, never yields a session:
    every request spawned with any cookie starts sessionless, and with a garbage / absent / non-ticket cookie it is
    answered at once without touching the store. *)
Theorem c09_bad_cookie_no_session : forall c k now,
  sessionless (spawn c k CGarbage now) /\ sessionless (spawn c k CNone now) /\ sessionless (spawn c k CNonJson now).
Proof. intros. repeat split; apply spawn_sessionless. Qed.
Print Assumptions c09_bad_cookie_no_session.

(** The callback accepts as login cookie only a term sealed under the deployment key (C02 uses this). *)
Theorem c09_login_cookie_only_under_deployment_key : forall c ck f,
  get_login_cookie c ck = Some f -> ck = CkEnc (a_key c) f.
Proof. intros c ck f H. now apply get_login_cookie_some in H as [H _]. Qed.
Print Assumptions c09_login_cookie_only_under_deployment_key.
