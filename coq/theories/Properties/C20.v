(** C20 — start-up refuses incomplete or unsafe configuration instead of running degraded.

    Model: Model/Config.v ([cf_run] = outcome class of the binary for a raw configuration = flags, WONDERWALL_*
    variables, provider-specific variables, and a discovery document). Only statements here; proofs are in
    Proofs/ConfigP.v. Quantification: ALL raw configurations (every channel of every setting absent / empty /
    any byte string; typed settings absent / malformed / any integer) and ALL discovery-document records.
    Library predicates (jwk.ParseKey, redis.ParseURL, reachability of the discovery URL, strconv / time parsing)
    are abstract: finite oracle sets / tags of the record, tied to the libraries by the correspondence driver. *)
From Coq Require Import String.
From Coq Require Import ZArith NArith List Bool.
From WW Require Import Base.Bytes Base.BytesLit Model.GoUrl Model.Config Proofs.ConfigP.
Import ListNotations.

(** Main equivalence, for every code variant [v] (lib/code_flags.json: enc_key_strict, wait_nonneg,
    ingress_pattern_strict): the process reaches ListenAndServe iff every typed setting parses and the resolved
    configuration satisfies the rule set that variant implements. *)
Theorem c20_starts_iff_rules : forall v r d,
  cf_starts v r d = true <-> cf_typed_ok r /\ cf_rules_impl v (cf_resolve_all r) d.
Proof. exact cf_starts_iff. Qed.
Print Assumptions c20_starts_iff_rules.

(** The outcome class 0 of [cf_run] (what the correspondence compares with the binary) is exactly [cf_starts]. *)
Theorem c20_run_zero_iff_starts : forall v r d, cf_run v r d = 0%Z <-> cf_starts v r d = true.
Proof. intros v r d. unfold cf_starts. symmetry. apply Z.eqb_eq. Qed.
Print Assumptions c20_run_zero_iff_starts.

(** THE CURRENT CODE (all three fixes): the process starts iff every typed setting parses and ALL documented rules hold
    ([cf_rules_doc]: strict key rule, 0 <= wait-before < graceful, ingress paths without route-pattern characters, ...).
    Both directions without proviso: no "key not blank" hypothesis, no "well-formed route patterns" hypothesis. *)
Theorem c20_starts_iff_documented_rules : forall r d,
  cf_starts cf_cur r d = true <-> cf_typed_ok r /\ cf_rules_doc (cf_resolve_all r) d.
Proof. exact cf_starts_iff_doc. Qed.
Print Assumptions c20_starts_iff_documented_rules.

(** its two directions, as the property text states them *)
Theorem c20_starts_only_if_documented_rules : forall r d,
  cf_starts cf_cur r d = true -> cf_typed_ok r /\ cf_rules_doc (cf_resolve_all r) d.
Proof. intros r d. apply cf_starts_iff_doc. Qed.
Print Assumptions c20_starts_only_if_documented_rules.

Theorem c20_documented_rules_start : forall r d,
  cf_typed_ok r -> cf_rules_doc (cf_resolve_all r) d -> cf_starts cf_cur r d = true.
Proof. intros r d Ht Hr. apply cf_starts_iff_doc. split; assumption. Qed.
Print Assumptions c20_documented_rules_start.

(** With the strict ingress rule router.New cannot panic: the rule implies well-formed route patterns. *)
Theorem c20_strict_ingress_no_router_panic : forall v c,
  cf_v_ingress_strict v = true -> cf_rule_ingress v c -> cf_router c = None.
Proof. intros v c Hv Hi. apply cf_router_none. exact (cf_strict_routes v c Hv Hi). Qed.
Print Assumptions c20_strict_ingress_no_router_panic.

(** A non-empty key that decodes to zero bytes (only CR / LF) is refused by the current code. *)
Theorem c20_blank_key_refused : forall k, k <> [] -> cf_b64_len k = Some 0%N ->
  cf_key_check cf_cur k = Some cf_E_key_length.
Proof. exact cf_blank_key_refused. Qed.
Print Assumptions c20_blank_key_refused.

(** Any variant: what starts satisfies the variant's core rules and the strict key rule unless the key is blank;
    the variant's core rules + strict key rule + well-formed route patterns start. (The provisos are needed exactly
    for the old variants, see the refutations below.) *)
Theorem c20_any_variant_sound : forall v r d,
  cf_starts v r d = true -> ~ cf_key_blank (cf_resolve_all r) ->
  cf_typed_ok r /\ cf_rules_core v (cf_resolve_all r) d /\ cf_rule_key_doc (cf_resolve_all r).
Proof. exact cf_starts_sound. Qed.
Print Assumptions c20_any_variant_sound.

Theorem c20_any_variant_complete : forall v r d,
  cf_typed_ok r -> cf_rules_core v (cf_resolve_all r) d -> cf_rule_key_doc (cf_resolve_all r) ->
  cf_rule_routes (cf_resolve_all r) -> cf_starts v r d = true.
Proof. exact cf_starts_complete. Qed.
Print Assumptions c20_any_variant_complete.

(** OLD key variant (fix 9e1f3d0 reverted): a key consisting of one line feed is "supplied", decodes to 0 bits, and the
    process starts with a random key; the current code answers with the bad-length error. *)
Theorem c20_blank_key_refuted : exists r d,
  cf_starts (mk_cf_variant false true true) r d = true /\ ~ cf_rule_key_doc (cf_resolve_all r) /\
  cf_run cf_cur r d = Zpos cf_E_key_length.
Proof. exists cf_ex_blank, cf_ex_disc. exact cf_blank_key_refuted. Qed.
Print Assumptions c20_blank_key_refuted.

(** OLD ingress variant (fix 9040a49 reverted): ingress https://app.example.com/x*y satisfied every then-documented rule
    and router.New panicked on it; the current code refuses it in ParseIngress. *)
Theorem c20_route_pattern_refuted : exists r d,
  cf_typed_ok r /\ cf_rules_doc_old (cf_resolve_all r) d /\
  cf_run (mk_cf_variant true true false) r d = Zpos cf_E_route /\ cf_run cf_cur r d = Zpos cf_E_ing_pattern.
Proof. exists cf_ex_star, cf_ex_disc. exact cf_route_pattern_refuted. Qed.
Print Assumptions c20_route_pattern_refuted.

(** Corollary used by C19: a running process has 0 <= wait-before < graceful (current code); W < G for any variant. *)
Theorem c20_starts_periods : forall r d, cf_starts cf_cur r d = true ->
  (0 <= cf_waitbefore (cf_resolve_all r) < cf_graceful (cf_resolve_all r))%Z.
Proof. exact cf_starts_periods_cur. Qed.
Print Assumptions c20_starts_periods.

Theorem c20_starts_periods_any_variant : forall v r d, cf_starts v r d = true ->
  (cf_waitbefore (cf_resolve_all r) < cf_graceful (cf_resolve_all r))%Z.
Proof. exact cf_starts_periods. Qed.
Print Assumptions c20_starts_periods_any_variant.

(** OLD periods variant (fix 164dd13 reverted): graceful 0s with wait-before -1s started; the current code refuses. *)
Theorem c20_negative_wait_accepted : exists r d,
  cf_starts (mk_cf_variant true false true) r d = true /\ (cf_waitbefore (cf_resolve_all r) < 0)%Z /\
  (cf_graceful (cf_resolve_all r) = 0)%Z /\ cf_run cf_cur r d = Zpos cf_E_wait_neg.
Proof. exists cf_ex_negw, cf_ex_disc. exact cf_negative_wait_accepted. Qed.
Print Assumptions c20_negative_wait_accepted.

(** Corollary used by C14: insecure cookies only when every ingress is plain-http localhost. *)
Theorem c20_insecure_only_localhost : forall v r d,
  cf_starts v r d = true -> cf_secure (cf_resolve_all r) = false ->
  Forall cf_localhost_http (cf_ingresses (cf_resolve_all r)).
Proof. exact cf_starts_insecure. Qed.
Print Assumptions c20_insecure_only_localhost.

(** At least one ingress, every ingress a valid http(s) URL with a host (and, current code, a pattern-free path). *)
Theorem c20_starts_ingress : forall v r d, cf_starts v r d = true ->
  cf_ingresses (cf_resolve_all r) <> [] /\ Forall (cf_valid_ingress v) (cf_ingresses (cf_resolve_all r)).
Proof. exact cf_starts_ingress. Qed.
Print Assumptions c20_starts_ingress.

(** SSO modes need a shared store, a cookie name, and their server-URL (proxy) or domain + default redirect (server). *)
Theorem c20_starts_sso : forall v r d, cf_starts v r d = true -> cf_ssoenabled (cf_resolve_all r) = true ->
  let c := cf_resolve_all r in
  (cf_redisaddr c <> [] \/ cf_redisuri c <> []) /\ cf_ssocookie c <> [] /\
  ((cf_ssomode c = cf_lit_proxy /\ cf_is_url (cf_ssoserverurl c)) \/
   (cf_ssomode c = cf_lit_server /\ cf_ssodomain c <> [] /\ cf_is_url (cf_ssoredirect c))).
Proof. intros v r d H He. exact (cf_starts_sso v r d H He). Qed.
Print Assumptions c20_starts_sso.

(** ... with the WHOLE redis section supplied ([cf_run_x]: redis.password, redis.username, redis.tls,
    redis.connection-idle-timeout on any channel, any value): an SSO mode that reaches ListenAndServe has redis.address
    or redis.uri; the other members of the Redis struct never stand in for a store. *)
Theorem c20_sso_store_whatever_redis_rest : forall v r x d, cf_run_x v r x d = 0%Z ->
  cf_ssoenabled (cf_resolve_all r) = true -> cf_redis_store_set (cf_redis_resolve r x) = true.
Proof. exact cf_run_x_sso_store. Qed.
Print Assumptions c20_sso_store_whatever_redis_rest.

Example c20_nonvacuous_sso_store_rest : forall d, cf_run_x cf_cur cf_ex_proxy cf_ex_rest_default d = 0%Z /\
  cf_ssoenabled (cf_resolve_all cf_ex_proxy) = true.
Proof. exact cf_ex_proxy_rest_starts. Qed.

(** pin: "the Redis struct differs from the Go zero value" is NOT the store test. Through config.Initialize the struct
    is never the zero value (flag default redis.tls = true), and a password alone makes it non-zero: both are refused. *)
Lemma pin_c20_redis_struct_nonzero_is_not_a_store : forall d,
  cf_redis_nonzero (cf_redis_resolve cf_ex_proxy_nostore cf_ex_rest_default) = true /\
  cf_run_x cf_cur cf_ex_proxy_nostore cf_ex_rest_default d = Zpos cf_E_sso_store /\
  cf_redis_nonzero (cf_redis_resolve cf_ex_proxy_nostore cf_ex_rest_password) = true /\
  cf_run_x cf_cur cf_ex_proxy_nostore cf_ex_rest_password d = Zpos cf_E_sso_store.
Proof. exact cf_ex_nostore_refused. Qed.
Print Assumptions pin_c20_redis_struct_nonzero_is_not_a_store.

(** With well-formed redis.tls / redis.connection-idle-timeout, [cf_run_x] is [cf_run]: every theorem above carries over. *)
Theorem c20_run_x_is_run : forall v r x d, cf_x_flag_bad x = false -> cf_x_env_bad x = false ->
  cf_run_x v r x d = cf_run v r d.
Proof. exact cf_run_x_well_formed. Qed.
Print Assumptions c20_run_x_is_run.

Example c20_nonvacuous_run_x_is_run : cf_x_flag_bad cf_ex_rest_password = false /\ cf_x_env_bad cf_ex_rest_password = false.
Proof. split; reflexivity. Qed.

(** Except for an SSO proxy: client id, credentials and discovery URL present; the discovery document supports the
    configured signing algorithm, acr (or its legacy translation) and locale. *)
Theorem c20_starts_openid : forall v r d, cf_starts v r d = true -> ~ cf_is_proxy (cf_resolve_all r) ->
  cf_rule_client (cf_resolve_all r) /\ cf_rule_disc (cf_resolve_all r) d.
Proof. exact cf_starts_openid. Qed.
Print Assumptions c20_starts_openid.

(** The discovery document must support the configured values LITERALLY: the configured authentication level is itself
    an element of acr_values_supported, or it is one of the two legacy names (Level3 / Level4) and its documented
    translation (idporten-loa-substantial / idporten-loa-high) is an element; the configured locale and signing
    algorithm are elements of their lists. No ordering of levels is involved. *)
Theorem c20_support_lists_literal : forall v r d, cf_starts v r d = true -> ~ cf_is_proxy (cf_resolve_all r) ->
  let c := cf_resolve_all r in
  (cf_acr c = [] \/ In (cf_acr c) (cf_d_acrs d) \/
   (cf_acr c = cf_lit_level3 /\ In cf_lit_loa_substantial (cf_d_acrs d)) \/
   (cf_acr c = cf_lit_level4 /\ In cf_lit_loa_high (cf_d_acrs d))) /\
  (cf_locale c = [] \/ In (cf_locale c) (cf_d_locales d)) /\
  In (cf_alg c) (cf_d_algs d).
Proof. exact cf_starts_support_literal. Qed.
Print Assumptions c20_support_lists_literal.

(** ... and a configuration whose level is not advertised in that literal sense never starts (whatever else is advertised). *)
Theorem c20_unadvertised_acr_refused : forall v r d, ~ cf_is_proxy (cf_resolve_all r) ->
  ~ cf_acr_literal (cf_acr (cf_resolve_all r)) (cf_d_acrs d) -> cf_starts v r d = false.
Proof. exact cf_unadvertised_acr_refused. Qed.
Print Assumptions c20_unadvertised_acr_refused.

(** The modern names have no translation: configured idporten-loa-substantial needs that very string in the list;
    configured Level3 needs Level3 or idporten-loa-substantial. A provider advertising only idporten-loa-high supports neither. *)
Theorem c20_substantial_needs_substantial : forall v r d, cf_starts v r d = true -> ~ cf_is_proxy (cf_resolve_all r) ->
  cf_acr (cf_resolve_all r) = cf_lit_loa_substantial -> In cf_lit_loa_substantial (cf_d_acrs d).
Proof. exact cf_substantial_needs_substantial. Qed.
Print Assumptions c20_substantial_needs_substantial.

Theorem c20_level3_needs_level3_or_substantial : forall v r d, cf_starts v r d = true -> ~ cf_is_proxy (cf_resolve_all r) ->
  cf_acr (cf_resolve_all r) = cf_lit_level3 -> In cf_lit_level3 (cf_d_acrs d) \/ In cf_lit_loa_substantial (cf_d_acrs d).
Proof. exact cf_level3_needs_level3_or_substantial. Qed.
Print Assumptions c20_level3_needs_level3_or_substantial.

(** Non-vacuity / the concrete rows: substantial or Level3 configured with only `high` advertised is refused with the acr
    error (as is high with only substantial, and a modern name with only the legacy name advertised); literal and
    translated matches start. *)
Example c20_nonvacuous_higher_level_not_enough :
  cf_run cf_cur (cf_ex_acr cf_lit_loa_substantial) (cf_ex_disc_acrs [cf_lit_loa_high]) = Zpos cf_E_acr /\
  cf_run cf_cur (cf_ex_acr cf_lit_level3) (cf_ex_disc_acrs [cf_lit_loa_high]) = Zpos cf_E_acr /\
  cf_run cf_cur (cf_ex_acr cf_lit_loa_substantial) (cf_ex_disc_acrs [cf_lit_loa_high; cf_lit_loa_substantial]) = 0%Z /\
  cf_run cf_cur (cf_ex_acr cf_lit_level3) (cf_ex_disc_acrs [cf_lit_loa_substantial]) = 0%Z.
Proof. destruct cf_higher_level_not_enough as (H1 & H2 & _ & _ & _ & H6 & H7 & _). repeat split; assumption. Qed.
Example c20_nonvacuous_not_proxy : ~ cf_is_proxy (cf_resolve_all (cf_ex_acr cf_lit_loa_substantial)).
Proof. intros [H _]. vm_compute in H. discriminate. Qed.

(** Upstream address parts: both or neither, port in 1..65535. *)
Theorem c20_starts_upstream : forall v r d, cf_starts v r d = true ->
  let c := cf_resolve_all r in
  (cf_upip c = [] /\ cf_upport c = 0%Z) \/ (cf_upip c <> [] /\ (1 <= cf_upport c <= 65535)%Z).
Proof. exact cf_starts_upstream. Qed.
Print Assumptions c20_starts_upstream.

(** A malformed typed setting on the effective channel never starts. *)
Theorem c20_malformed_typed_refused : forall v r d,
  cf_any_flag_bad r = true \/ cf_any_env_bad r = true -> cf_starts v r d = false.
Proof.
  intros v r d H. destruct (cf_starts v r d) eqn:E; [|reflexivity].
  apply cf_starts_iff in E. destruct E as [[H1 H2] _]. destruct H; congruence.
Qed.
Print Assumptions c20_malformed_typed_refused.

(** Documentation vs code. docs/configuration.md as it is NOW (AZURE_APP_JWK; idporten default acr idporten-loa-high)
    describes exactly the code's resolution of every setting, for every raw configuration. (That [cf_docs_now] is what
    the file says is checked on every run by lib/props/c20.py, which parses the file.) *)
Theorem c20_docs_resolution_agrees : forall r, cf_resolve_doc cf_docs_now r = cf_resolve_all r.
Proof. exact cf_docs_now_agree. Qed.
Print Assumptions c20_docs_resolution_agrees.

(** ... whereas the documentation BEFORE 111edb0 did not: its literal Azure example (AZURE_APP_CLIENT_ID,
    AZURE_APP_CLIENT_JWK, AZURE_APP_WELL_KNOWN_URL) satisfies every check under its own resolution, but the binary refuses
    it ("at least one of client-jwk or client-secret must be set"). *)
Theorem c20_docs_azure_jwk_refuted : exists r d,
  cf_boot cf_cur (cf_resolve_doc cf_docs_before r) d = None /\ cf_run cf_cur r d = Zpos cf_E_creds.
Proof. exists cf_ex_azure_docs, cf_ex_disc. exact cf_docs_azure_jwk_refuted. Qed.
Print Assumptions c20_docs_azure_jwk_refuted.

(** ... and before 8ed9a06 the documented idporten default acr was "Level4": against a provider that lists only
    Level3/Level4 the then-documented default passes and the code's default is refused. *)
Theorem c20_docs_idporten_acr_refuted : exists r d,
  cf_boot cf_cur (cf_resolve_doc cf_docs_before r) d = None /\ cf_run cf_cur r d = Zpos cf_E_acr.
Proof.
  exists cf_ex_idporten, cf_ex_disc_old. destruct cf_docs_idporten_acr_refuted as (H1 & H2 & _). split; assumption.
Qed.
Print Assumptions c20_docs_idporten_acr_refuted.

(** Channel precedence: flag (even empty) > WONDERWALL_ variable (non-empty) > provider variable (non-empty) > default. *)
Theorem c20_channel_precedence : forall dflt s p,
  (forall v, cf_sflag s = Some v -> cf_resolve dflt s p = v) /\
  (forall v, cf_sflag s = None -> cf_swenv s = Some v -> v <> [] -> cf_resolve dflt s p = v) /\
  (cf_sflag s = None -> cf_env_val (cf_swenv s) = None -> cf_env_val p = None -> cf_resolve dflt s p = dflt).
Proof.
  intros dflt s p. split; [|split].
  - intros v. apply cf_resolve_flag.
  - intros v. apply cf_resolve_wenv.
  - apply cf_resolve_default.
Qed.
Print Assumptions c20_channel_precedence.

(** Non-vacuity: configurations of the three modes that start (and hence satisfy the hypotheses above), and
    inhabitants of the hypotheses of the conditional theorems. *)
Example c20_nonvacuous_standalone : cf_starts cf_cur cf_ex_good cf_ex_disc = true.
Proof. exact cf_ex_good_starts. Qed.
Example c20_nonvacuous_sso_server : cf_starts cf_cur cf_ex_server cf_ex_disc = true.
Proof. exact cf_ex_server_starts. Qed.
Example c20_nonvacuous_sso_proxy : forall d, cf_starts cf_cur cf_ex_proxy d = true.
Proof. exact cf_ex_proxy_starts. Qed.
Example c20_nonvacuous_not_blank : ~ cf_key_blank (cf_resolve_all cf_ex_good).
Proof. intros [_ H]. vm_compute in H. discriminate. Qed.
Example c20_nonvacuous_insecure :
  cf_starts cf_cur (cf_ex_standalone (bs "http://localhost:8080"%string) cf_ex_key32 (cf_tfl false) cf_tabs cf_tabs) cf_ex_disc = true.
Proof. vm_compute. reflexivity. Qed.
Example c20_nonvacuous_documented : cf_typed_ok cf_ex_good /\ cf_rules_doc (cf_resolve_all cf_ex_good) cf_ex_disc.
Proof. exact (proj1 (cf_starts_iff_doc _ _) cf_ex_good_starts). Qed.
Example c20_nonvacuous_malformed :
  cf_starts cf_cur (cf_ex_standalone (bs "https://a.example.com"%string) cf_ex_key32 cf_tabs (mk_cf_tsrc CfBad CfAbsent) cf_tabs)
            cf_ex_disc = false.
Proof. vm_compute. reflexivity. Qed.

(** The ingress acceptance of this model and of the ingress model used by C04/C14 (Model/Redirect.v) coincide, up to
    the pattern-character rule of the current code (which Model/Redirect.v does not have). *)
Theorem c20_ingress_model_agrees : forall v s,
  cf_parse_ingress v s = None <->
  exists u, Model.Redirect.parse_ingress s = Some u /\ (cf_v_ingress_strict v = true -> cf_has_pattern (u_path u) = false).
Proof. exact cf_parse_ingress_agrees. Qed.
Print Assumptions c20_ingress_model_agrees.

(** The key rule on well-formed input: every standard base64 encoding of 32 bytes (43 alphabet characters followed by
    '=') passes, every 44-character unpadded-quantum string (33 bytes) is refused for its length. *)
Theorem c20_key_256_bits_accepted : forall v s c1 c2 c3,
  length s = 40%nat -> forallb cf_b64_char (s ++ [c1; c2; c3]) = true ->
  cf_key_check v (s ++ [c1; c2; c3; 61%N]) = None /\ cf_b64_len (s ++ [c1; c2; c3; 61%N]) = Some 32%N.
Proof.
  intros v s c1 c2 c3 Hl Hv. split; [exact (cf_key32_accepted s c1 c2 c3 Hl Hv v)|].
  exact (cf_b64_len_padded1 10 s c1 c2 c3 Hl Hv).
Qed.
Print Assumptions c20_key_256_bits_accepted.

Theorem c20_key_264_bits_refused : forall v s,
  length s = 44%nat -> forallb cf_b64_char s = true -> cf_key_check v s = Some cf_E_key_length.
Proof. intros v s Hl Hv. exact (cf_key33_refused s Hl Hv v). Qed.
Print Assumptions c20_key_264_bits_refused.

Example c20_nonvacuous_key : cf_key_check cf_cur cf_ex_key32 = None /\ length cf_ex_key32 = 44%nat.
Proof. vm_compute. split; reflexivity. Qed.

(** Non-vacuity of the statements about blank keys and pattern paths: a line feed is a blank key; the current code
    refuses it, refuses /x*y and /{id}, and accepts a plain path. *)
Example c20_nonvacuous_blank : ([10%N] : bytes) <> [] /\ cf_b64_len [10%N] = Some 0%N /\
  cf_key_check cf_cur [10%N] = Some cf_E_key_length /\ cf_key_check cf_old [10%N] = None.
Proof. repeat split; try discriminate; vm_compute; reflexivity. Qed.
Example c20_nonvacuous_pattern :
  cf_parse_ingress cf_cur (bs "https://a.example.com/{id}"%string) = Some cf_E_ing_pattern /\
  cf_parse_ingress cf_old (bs "https://a.example.com/{id}"%string) = None /\
  cf_parse_ingress cf_cur (bs "https://a.example.com/app/"%string) = None.
Proof. repeat split; vm_compute; reflexivity. Qed.
