(** C20 — start-up refuses incomplete or unsafe configuration instead of running degraded.

    Model: Model/Config.v ([cf_run] = outcome class of the binary for a raw configuration = flags, WONDERWALL_*
    variables, provider-specific variables, and a discovery document). Only statements here; proofs are in
    Proofs/ConfigP.v. Quantification: ALL raw configurations (every channel of every setting absent / empty /
    any byte string; typed settings absent / malformed / any integer) and ALL discovery-document records.
    Library predicates (jwk.ParseKey, redis.ParseURL, reachability of the discovery URL, strconv / time parsing)
    are abstract: finite oracle sets / tags of the record, tied to the libraries by the correspondence driver. *)
From Coq Require Import String.
From Coq Require Import ZArith NArith List Bool.
From WW Require Import Base.Bytes Base.BytesLit Model.GoUrl Model.Config Proofs.ConfigP.
Import ListNotations.

(** Main equivalence: the process reaches ListenAndServe iff every typed setting parses and the resolved
    configuration satisfies the rule set the code implements. *)
Theorem c20_starts_iff_rules : forall r d,
  cf_starts r d = true <-> cf_typed_ok r /\ cf_rules_impl (cf_resolve_all r) d.
Proof. exact cf_starts_iff. Qed.
Print Assumptions c20_starts_iff_rules.

(** The outcome class 0 of [cf_run] (what the correspondence compares with the binary) is exactly [cf_starts]. *)
Theorem c20_run_zero_iff_starts : forall r d, cf_run r d = 0%Z <-> cf_starts r d = true.
Proof. intros r d. unfold cf_starts. symmetry. apply Z.eqb_eq. Qed.
Print Assumptions c20_run_zero_iff_starts.

(** Soundness w.r.t. the property text: whatever starts satisfies every documented rule (strict key rule
    included), unless the supplied key string is blank (non-empty, decodes to zero bytes). *)
Theorem c20_starts_only_if_documented_rules : forall r d,
  cf_starts r d = true -> ~ cf_key_blank (cf_resolve_all r) ->
  cf_typed_ok r /\ cf_rules_doc (cf_resolve_all r) d.
Proof. exact cf_starts_sound. Qed.
Print Assumptions c20_starts_only_if_documented_rules.

(** ... and the hypothesis is needed: a key consisting of one line feed is "supplied", decodes to 0 bits, and the
    process starts with a random key. *)
Theorem c20_blank_key_refuted : exists r d,
  cf_starts r d = true /\ ~ cf_rule_key_doc (cf_resolve_all r).
Proof. exists cf_ex_blank, cf_ex_disc. exact cf_blank_key_refuted. Qed.
Print Assumptions c20_blank_key_refuted.

(** Completeness w.r.t. the property text: a configuration satisfying all documented rules does start, provided
    no ingress path is a malformed chi route pattern. *)
Theorem c20_documented_rules_start : forall r d,
  cf_typed_ok r -> cf_rules_doc (cf_resolve_all r) d -> cf_rule_routes (cf_resolve_all r) ->
  cf_starts r d = true.
Proof. exact cf_starts_complete. Qed.
Print Assumptions c20_documented_rules_start.

(** ... and the hypothesis is needed: ingress https://app.example.com/x*y satisfies every documented rule, and
    router.New panics on it. *)
Theorem c20_route_pattern_refuted : exists r d,
  cf_typed_ok r /\ cf_rules_doc (cf_resolve_all r) d /\ cf_starts r d = false.
Proof. exists cf_ex_star, cf_ex_disc. exact cf_route_pattern_refuted. Qed.
Print Assumptions c20_route_pattern_refuted.

(** Corollary used by C19: a running process has wait-before < graceful. *)
Theorem c20_starts_periods : forall r d, cf_starts r d = true ->
  (cf_waitbefore (cf_resolve_all r) < cf_graceful (cf_resolve_all r))%Z.
Proof. exact cf_starts_periods. Qed.
Print Assumptions c20_starts_periods.

(** ... but not that the periods are non-negative: graceful 0s with wait-before -1s starts. *)
Theorem c20_negative_wait_accepted : exists r d,
  cf_starts r d = true /\ (cf_waitbefore (cf_resolve_all r) < 0)%Z /\ (cf_graceful (cf_resolve_all r) = 0)%Z.
Proof. exists cf_ex_negw, cf_ex_disc. exact cf_negative_wait_accepted. Qed.
Print Assumptions c20_negative_wait_accepted.

(** Corollary used by C14: insecure cookies only when every ingress is plain-http localhost. *)
Theorem c20_insecure_only_localhost : forall r d,
  cf_starts r d = true -> cf_secure (cf_resolve_all r) = false ->
  Forall cf_localhost_http (cf_ingresses (cf_resolve_all r)).
Proof. exact cf_starts_insecure. Qed.
Print Assumptions c20_insecure_only_localhost.

(** At least one ingress, every ingress a valid http(s) URL with a host. *)
Theorem c20_starts_ingress : forall r d, cf_starts r d = true ->
  cf_ingresses (cf_resolve_all r) <> [] /\ Forall cf_valid_ingress (cf_ingresses (cf_resolve_all r)).
Proof. exact cf_starts_ingress. Qed.
Print Assumptions c20_starts_ingress.

(** SSO modes need a shared store, a cookie name, and their server-URL (proxy) or domain + default redirect (server). *)
Theorem c20_starts_sso : forall r d, cf_starts r d = true -> cf_ssoenabled (cf_resolve_all r) = true ->
  let c := cf_resolve_all r in
  (cf_redisaddr c <> [] \/ cf_redisuri c <> []) /\ cf_ssocookie c <> [] /\
  ((cf_ssomode c = cf_lit_proxy /\ cf_is_url (cf_ssoserverurl c)) \/
   (cf_ssomode c = cf_lit_server /\ cf_ssodomain c <> [] /\ cf_is_url (cf_ssoredirect c))).
Proof. intros r d H He. exact (cf_starts_sso r d H He). Qed.
Print Assumptions c20_starts_sso.

(** Except for an SSO proxy: client id, credentials and discovery URL present; the discovery document supports the
    configured signing algorithm, acr (or its legacy translation) and locale. *)
Theorem c20_starts_openid : forall r d, cf_starts r d = true -> ~ cf_is_proxy (cf_resolve_all r) ->
  cf_rule_client (cf_resolve_all r) /\ cf_rule_disc (cf_resolve_all r) d.
Proof. exact cf_starts_openid. Qed.
Print Assumptions c20_starts_openid.

(** Upstream address parts: both or neither, port in 1..65535. *)
Theorem c20_starts_upstream : forall r d, cf_starts r d = true ->
  let c := cf_resolve_all r in
  (cf_upip c = [] /\ cf_upport c = 0%Z) \/ (cf_upip c <> [] /\ (1 <= cf_upport c <= 65535)%Z).
Proof. exact cf_starts_upstream. Qed.
Print Assumptions c20_starts_upstream.

(** A malformed typed setting on the effective channel never starts. *)
Theorem c20_malformed_typed_refused : forall r d,
  cf_any_flag_bad r = true \/ cf_any_env_bad r = true -> cf_starts r d = false.
Proof.
  intros r d H. destruct (cf_starts r d) eqn:E; [|reflexivity].
  apply cf_starts_iff in E. destruct E as [[H1 H2] _]. destruct H; congruence.
Qed.
Print Assumptions c20_malformed_typed_refused.

(** Documentation vs code, provider-specific variables: following docs/configuration.md literally for Azure
    (AZURE_APP_CLIENT_ID, AZURE_APP_CLIENT_JWK, AZURE_APP_WELL_KNOWN_URL) satisfies every check under the documented
    resolution, but the binary refuses it ("at least one of client-jwk or client-secret must be set"): the code
    binds AZURE_APP_JWK. *)
Theorem c20_docs_azure_jwk_refuted : exists r d,
  cf_boot (cf_resolve_doc r) d = None /\ cf_run r d = Zpos cf_E_creds.
Proof. exists cf_ex_azure_docs, cf_ex_disc. exact cf_docs_azure_jwk_refuted. Qed.
Print Assumptions c20_docs_azure_jwk_refuted.

(** Documentation vs code, idporten default acr: the docs give "Level4", the code "idporten-loa-high"; against a
    provider that lists only Level3/Level4 the documented default passes and the code's default is refused. *)
Theorem c20_docs_idporten_acr_refuted : exists r d,
  cf_boot (cf_resolve_doc r) d = None /\ cf_run r d = Zpos cf_E_acr.
Proof.
  exists cf_ex_idporten, cf_ex_disc_old. destruct cf_docs_idporten_acr_refuted as (H1 & H2 & _). split; assumption.
Qed.
Print Assumptions c20_docs_idporten_acr_refuted.

(** Where the documentation's view of the channels coincides with the code's, the resolved configurations are equal. *)
Theorem c20_docs_view_agrees : forall r,
  cf_r_az_docjwk r = cf_r_az_jwk r ->
  (cf_provider_of (cf_resolve_all r) = CfIDPorten -> cf_acr_defaulted r = false) ->
  cf_resolve_doc r = cf_resolve_all r.
Proof. exact cf_docs_view_same. Qed.
Print Assumptions c20_docs_view_agrees.

(** Channel precedence: flag (even empty) > WONDERWALL_ variable (non-empty) > provider variable (non-empty) > default. *)
Theorem c20_channel_precedence : forall dflt s p,
  (forall v, cf_sflag s = Some v -> cf_resolve dflt s p = v) /\
  (forall v, cf_sflag s = None -> cf_swenv s = Some v -> v <> [] -> cf_resolve dflt s p = v) /\
  (cf_sflag s = None -> cf_env_val (cf_swenv s) = None -> cf_env_val p = None -> cf_resolve dflt s p = dflt).
Proof.
  intros dflt s p. split; [|split].
  - intros v. apply cf_resolve_flag.
  - intros v. apply cf_resolve_wenv.
  - apply cf_resolve_default.
Qed.
Print Assumptions c20_channel_precedence.

(** Non-vacuity: configurations of the three modes that start (and hence satisfy the hypotheses above), and
    inhabitants of the hypotheses of the conditional theorems. *)
Example c20_nonvacuous_standalone : cf_starts cf_ex_good cf_ex_disc = true.
Proof. exact cf_ex_good_starts. Qed.
Example c20_nonvacuous_sso_server : cf_starts cf_ex_server cf_ex_disc = true.
Proof. exact cf_ex_server_starts. Qed.
Example c20_nonvacuous_sso_proxy : forall d, cf_starts cf_ex_proxy d = true.
Proof. exact cf_ex_proxy_starts. Qed.
Example c20_nonvacuous_not_blank : ~ cf_key_blank (cf_resolve_all cf_ex_good).
Proof. intros [_ H]. vm_compute in H. discriminate. Qed.
Example c20_nonvacuous_insecure :
  cf_starts (cf_ex_standalone (bs "http://localhost:8080"%string) cf_ex_key32 (cf_tfl false) cf_tabs cf_tabs) cf_ex_disc = true.
Proof. vm_compute. reflexivity. Qed.
Example c20_nonvacuous_documented : cf_typed_ok cf_ex_good /\ cf_rules_doc (cf_resolve_all cf_ex_good) cf_ex_disc /\
  cf_rule_routes (cf_resolve_all cf_ex_good).
Proof.
  destruct (cf_starts_sound _ _ cf_ex_good_starts c20_nonvacuous_not_blank) as [H1 H2].
  pose proof (proj1 (cf_starts_iff _ _) cf_ex_good_starts) as (_ & _ & _ & H3). auto.
Qed.
Example c20_nonvacuous_malformed :
  cf_starts (cf_ex_standalone (bs "https://a.example.com"%string) cf_ex_key32 cf_tabs (mk_cf_tsrc CfBad CfAbsent) cf_tabs)
            cf_ex_disc = false.
Proof. vm_compute. reflexivity. Qed.

(** The ingress acceptance of this model and of the ingress model used by C04/C14 (Model/Redirect.v) coincide. *)
Theorem c20_ingress_model_agrees : forall s, cf_parse_ingress s = None <-> exists u, Model.Redirect.parse_ingress s = Some u.
Proof. exact cf_parse_ingress_agrees. Qed.
Print Assumptions c20_ingress_model_agrees.

(** The key rule on well-formed input: every standard base64 encoding of 32 bytes (43 alphabet characters followed by
    '=') passes, every 44-character unpadded-quantum string (33 bytes) is refused for its length. *)
Theorem c20_key_256_bits_accepted : forall s c1 c2 c3,
  length s = 40%nat -> forallb cf_b64_char (s ++ [c1; c2; c3]) = true ->
  cf_key_check (s ++ [c1; c2; c3; 61%N]) = None /\ cf_b64_len (s ++ [c1; c2; c3; 61%N]) = Some 32%N.
Proof.
  intros s c1 c2 c3 Hl Hv. split; [exact (cf_key32_accepted s c1 c2 c3 Hl Hv)|].
  exact (cf_b64_len_padded1 10 s c1 c2 c3 Hl Hv).
Qed.
Print Assumptions c20_key_256_bits_accepted.

Theorem c20_key_264_bits_refused : forall s,
  length s = 44%nat -> forallb cf_b64_char s = true -> cf_key_check s = Some cf_E_key_length.
Proof. exact cf_key33_refused. Qed.
Print Assumptions c20_key_264_bits_refused.

Example c20_nonvacuous_key : cf_key_check cf_ex_key32 = None /\ length cf_ex_key32 = 44%nat.
Proof. vm_compute. split; reflexivity. Qed.
