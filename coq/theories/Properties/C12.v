(** C12 — with auto-login on, only ignored paths reach the upstream unauthenticated.

    Statements only; proofs are in Proofs/GlobP.v (matcher: soundness, termination),
    Proofs/GlobCompleteP.v (matcher: completeness), Proofs/GlobSegP.v (character-level vs
    segment-wise semantics) and Proofs/AutoLoginP.v (New / NeedsLogin / cache / handler).

    [Matches pat s] (Proofs/GlobSpec.v) is the documented semantics: split on '/'; a literal matches
    itself, '*' any run of non-'/' bytes inside one segment, a segment equal to `**` zero or more whole
    segments (so `/x/**` matches `/x`); a `**` glued to other characters is two '*'.
    [glob_exec] is the transliteration of doublestar v4.8.1 [doMatchWithSeparator]; [glob_match]
    (Model/EntryGlob.v) is what the correspondence check runs against doublestar.Match.
    [clean_first] = false is the code as it is; true = path.Clean before matching. *)
From Coq Require Import NArith List Bool Lia.
From WW Require Import Gen.Params Base.Bytes Model.Glob Model.GlobFull Model.EntryGlob
  Proofs.GlobSpec Proofs.GlobSegP Proofs.GlobP Proofs.GlobCompleteP Proofs.AutoLoginP.
Import ListNotations.
Open Scope N_scope.

(** ** constants of the compiled code *)

Lemma pin_default_ignore_patterns :
  default_ignore_patterns =
  [[47; 102; 97; 118; 105; 99; 111; 110; 46; 105; 99; 111];      (* /favicon.ico *)
   [47; 114; 111; 98; 111; 116; 115; 46; 116; 120; 116]].        (* /robots.txt *)
Proof. reflexivity. Qed.

Lemma pin_login_path : s_oauth2_login = [47; 111; 97; 117; 116; 104; 50; 47; 108; 111; 103; 105; 110]. (* /oauth2/login *)
Proof. reflexivity. Qed.

Lemma pin_redirect_parameter : s_redirect_q = [63; 114; 101; 100; 105; 114; 101; 99; 116; 61]. (* ?redirect= *)
Proof. reflexivity. Qed.

(** ** the matcher *)

(** The loop always terminates within the fuel the model gives it (the out-of-fuel answer of
    [glob_exec] never occurs), for all byte strings. *)
Theorem c12_glob_total : forall pat name, exists b, glob_run pat name = Some b.
Proof. exact glob_run_total. Qed.
Print Assumptions c12_glob_total.

(** Soundness, all patterns and names: if the matcher says yes then the name matches by the documented
    semantics — provided the pattern does not end in `**/` (see the refutation below; [New] removes
    one trailing slash from every pattern). *)
Theorem c12_glob_sound : forall pat name,
  has_suffix pat [star; star; slash] = false ->
  glob_exec pat name = true -> Matches pat name.
Proof. exact glob_exec_sound. Qed.
Print Assumptions c12_glob_sound.

(** Without that hypothesis soundness fails: `a**/` is accepted for `a`. *)
Theorem c12_glob_trailing_dstar_slash_refuted :
  exists pat name, glob_exec pat name = true /\ ~ Matches pat name.
Proof.
  exists [97; star; star; slash], [97]. split; [vm_compute; reflexivity|].
  intros H. unfold Matches in H. vm_compute in H.
  inversion H; clear H; subst.
  match goal with H : SegsMatch _ [] |- _ => inversion H end.
Qed.
Print Assumptions c12_glob_trailing_dstar_slash_refuted.

(** Exactness: the matcher decides the documented semantics, for every pattern without `***` and
    without `*/**`, not ending in `**/`, and every non-empty name not ending in '/'. *)
Theorem c12_glob_exact : forall pat name,
  has_suffix pat [star; star; slash] = false ->
  complete_hyp pat name ->
  (glob_exec pat name = true <-> Matches pat name).
Proof. exact glob_exec_iff. Qed.
Print Assumptions c12_glob_exact.

(** Each completeness hypothesis is needed: doublestar's end-of-name test (isZeroLengthPattern) knows
    only "", "*", "**", "/**", "**/", "/**/". E.g. `/a*/**` does not match `/a` although `/a/**` does. *)
Theorem c12_glob_incomplete_refuted :
  (Matches [slash; 97; star; slash; star; star] [slash; 97] /\ glob_exec [slash; 97; star; slash; star; star] [slash; 97] = false) /\
  (Matches [star; star; star] [] /\ glob_exec [star; star; star] [] = false) /\
  (Matches [slash; star; star; slash; star] [slash] /\ glob_exec [slash; star; star; slash; star] [slash] = false).
Proof.
  repeat split; try (vm_compute; reflexivity); apply cm_matches.
  - apply cm_lit; [discriminate|]. apply cm_lit; [discriminate|]. apply cm_star_skip; [discriminate|]. apply cm_end_one.
  - exact (proj1 need_no_3star).
  - exact (proj1 need_no_trailing_slash).
Qed.
Print Assumptions c12_glob_incomplete_refuted.

(** ** NeedsLogin *)

(** Patterns as [New] builds them: every one comes from a non-empty default or configured pattern by
    removing one trailing slash; and every such pattern is present. *)
Theorem c12_patterns : forall configured q,
  In q (new_patterns default_ignore_patterns configured) <->
  exists p, In p (default_ignore_patterns ++ configured) /\ p <> [] /\ q = trim_trailing_slash p.
Proof.
  intros configured q. split; [apply new_patterns_in|].
  intros (p & Hin & Hne & ->). apply norm_patterns_complete; assumption.
Qed.
Print Assumptions c12_patterns.

(** Main implication for the code as it is and as announced ([clean_first] is a parameter): an
    unauthenticated request is let through only if some pattern matches — by the documented
    semantics — the string the code hands to the matcher, [norm_path clean_first path]:
    the URL path, '/' prepended if missing, (path.Clean'ed iff clean_first,) one trailing slash removed. *)
Theorem c12_forwarded_matches : forall clean_first configured path,
  let pats := new_patterns default_ignore_patterns configured in
  wf_pats pats ->
  needs_login glob_match clean_first true pats false path = false ->
  exists pat, In pat pats /\ Matches pat (norm_path clean_first path).
Proof. intros cf configured path pats. apply forwarded_matches. Qed.
Print Assumptions c12_forwarded_matches.

(** With path.Clean first (the fix) this is the property's statement: dot segments and the trailing
    slash are removed before matching. *)
Theorem c12_forwarded_matches_clean : forall configured path,
  let pats := new_patterns default_ignore_patterns configured in
  wf_pats pats ->
  needs_login glob_match true true pats false (slash :: path) = false ->
  exists pat, In pat pats /\ Matches pat (trim_trailing_slash (path_clean (slash :: path))).
Proof.
  intros configured path pats Hwf H.
  destruct (forwarded_matches true pats (slash :: path) Hwf H) as (pat & Hin & Hm).
  exists pat. split; [exact Hin|]. unfold norm_path in Hm. cbn [has_prefix] in Hm.
  rewrite N.eqb_refl in Hm. destruct path; exact Hm.
Qed.
Print Assumptions c12_forwarded_matches_clean.

(** The code as it is does NOT have that property: with ignore pattern `/public/**` the request path
    `/public/../admin` (also what `/public/..%2Fadmin` decodes to) is let through, although no pattern
    matches `/admin`. *)
Definition w_public : bytes := [47; 112; 117; 98; 108; 105; 99; 47; 42; 42].                       (* /public/** *)
Definition w_path : bytes := [47; 112; 117; 98; 108; 105; 99; 47; 46; 46; 47; 97; 100; 109; 105; 110]. (* /public/../admin *)

Ltac inv_kill := try discriminate; try (unfold dstar_pat, star, slash in *; congruence).
Ltac inv_all := repeat match goal with
  | H : SegsMatch _ _ |- _ => inversion H; clear H; subst; inv_kill
  | H : SegMatch _ _ |- _ => inversion H; clear H; subst; inv_kill
  end.

Theorem c12_dot_segments_refuted :
  exists configured path,
    let pats := new_patterns default_ignore_patterns configured in
    wf_pats pats /\
    needs_login glob_match false true pats false path = false /\
    path_clean path = [47; 97; 100; 109; 105; 110] /\                                  (* /admin *)
    ~ exists pat, In pat pats /\ Matches pat (trim_trailing_slash (path_clean path)).
Proof.
  exists [w_public], w_path. cbv zeta. split; [|split; [|split]].
  - intros pat Hin. vm_compute in Hin. destruct Hin as [<-|[<-|[<-|[]]]]; split; vm_compute; reflexivity.
  - vm_compute. reflexivity.
  - vm_compute. reflexivity.
  - intros (pat & Hin & Hm). vm_compute in Hin.
    destruct Hin as [<-|[<-|[<-|[]]]]; unfold Matches in Hm; vm_compute in Hm; inv_all.
Qed.
Print Assumptions c12_dot_segments_refuted.

(** On absolute paths without empty, "." or ".." segments the two variants hand the same string to the
    matcher, so there the code as it is satisfies the property as well. *)
Theorem c12_no_dot_segments : forall m enabled pats auth path segs,
  split_on slash path = [] :: segs -> segs <> [] -> Forall normal_seg segs ->
  path_clean path = path /\
  needs_login m false enabled pats auth path = needs_login m true enabled pats auth path.
Proof.
  intros m enabled pats auth path segs Hs Hne Hn. split; [exact (path_clean_id path segs Hs Hne Hn)|].
  unfold needs_login. rewrite (norm_path_clean_agree path segs Hs Hne Hn). reflexivity.
Qed.
Print Assumptions c12_no_dot_segments.

(** Conversely a path that matches is let through (under the matcher's completeness hypotheses). *)
Theorem c12_matching_forwarded : forall clean_first configured path pat,
  let pats := new_patterns default_ignore_patterns configured in
  wf_pats pats -> In pat pats ->
  complete_hyp pat (norm_path clean_first path) -> Matches pat (norm_path clean_first path) ->
  needs_login glob_match clean_first true pats false path = false.
Proof. intros cf configured path pat pats. apply matching_forwarded. Qed.
Print Assumptions c12_matching_forwarded.

(** No login is demanded from authenticated requests or when auto-login is off. *)
Theorem c12_off : forall m clean_first enabled pats auth path,
  auth = true \/ enabled = false -> needs_login m clean_first enabled pats auth path = false.
Proof. exact needs_login_off. Qed.
Print Assumptions c12_off.

(** Memoisation: any sequence of NeedsLogin calls on one AutoLogin value (cache initially empty, keyed
    by the normalised path) answers exactly like the un-memoised decision. *)
Theorem c12_memo : forall m clean_first enabled pats reqs,
  needs_login_seq m clean_first enabled pats [] reqs =
  map (fun ap => needs_login m clean_first enabled pats (fst ap) (snd ap)) reqs.
Proof. intros. apply needs_login_seq_spec. apply cache_ok_nil. Qed.
Print Assumptions c12_memo.

(** ** the response *)

(** A request without a valid session is either forwarded (and then NeedsLogin is false, so the
    theorems above apply) or answered by wonderwall: navigation -> 302, otherwise 401, in both cases
    with Location = LoginRelative(ingress path, target), target = requested URL (navigation) or the
    Referer, falling back to the ingress path. *)
Theorem c12_response : forall m clean_first seg pats ings r,
  (handler_unauth m clean_first seg true pats ings r = Forward /\ needs_login m clean_first true pats false (rq_path r) = false)
  \/ (needs_login m clean_first true pats false (rq_path r) = true /\
      let prefix := matching_path seg ings (rq_path r) [] in
      if is_navigation (rq_method r) (rq_mode r) (rq_dest r) (rq_accept r)
      then handler_unauth m clean_first seg true pats ings r = Redirect302 (login_relative prefix (rq_url_string r))
      else handler_unauth m clean_first seg true pats ings r =
           Unauthorized401 (login_relative prefix (match rq_referer r with [] => prefix | t => t end))
                           (accepts (rq_accept r) [s_any; s_app_json])).
Proof. exact handler_unauth_cases. Qed.
Print Assumptions c12_response.

(** The login URL names the return target: it is prefix ++ "/oauth2/login?redirect=" ++ escape target,
    and un-escaping the parameter gives the target back (all byte strings). *)
Theorem c12_login_url_names_target : forall prefix target, target <> [] -> wf_bytes target ->
  exists pre, login_relative prefix target = pre ++ s_oauth2_login ++ s_redirect_q ++ query_escape target /\
              query_unescape (3 * length target) (query_escape target) = target.
Proof.
  intros prefix target Hne Hwf. unfold login_relative.
  exists (if beq prefix [] || beq prefix [slash] then [] else prefix).
  split; [destruct target; [congruence|reflexivity]|].
  apply query_escape_roundtrip; [exact Hwf|lia].
Qed.
Print Assumptions c12_login_url_names_target.

(** ** non-vacuity *)

Example c12_nonvacuous :
  let pats := new_patterns default_ignore_patterns [w_public] in
  let s x := needs_login glob_match false true pats false x in
  wf_pats pats /\
  s [47; 112; 117; 98; 108; 105; 99; 47; 97] = false /\       (* /public/a : forwarded *)
  s [47; 112; 117; 98; 108; 105; 99; 47] = false /\           (* /public/  : forwarded *)
  s [47; 97; 100; 109; 105; 110] = true /\                    (* /admin    : login *)
  complete_hyp w_public [47; 112; 117; 98; 108; 105; 99; 47; 97] /\
  needs_login glob_match true true pats false w_path = true /\ (* with path.Clean: /public/../admin -> login *)
  handler_unauth glob_match false false true pats [[]]
    {| rq_method := s_GET; rq_mode := s_navigate; rq_dest := s_document; rq_accept := [s_text_html];
       rq_referer := []; rq_url_string := [47; 120]; rq_path := [47; 120] |}
  = Redirect302 (s_oauth2_login ++ s_redirect_q ++ [37; 50; 70; 120]).   (* /oauth2/login?redirect=%2Fx *)
Proof.
  cbv zeta. split; [|split; [|split; [|split; [|split; [|split]]]]]; try (vm_compute; reflexivity).
  - intros pat Hin. vm_compute in Hin. destruct Hin as [<-|[<-|[<-|[]]]]; split; vm_compute; reflexivity.
  - apply complete_hypb_spec. vm_compute. reflexivity.
Qed.
