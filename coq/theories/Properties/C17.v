(** C17 — automatic retries and login bounces are bounded; no endless redirect loop.
    Statements only; proofs are in Proofs/RetryP.v and Proofs/CookieJarP.v. [counter_step]/[counter_run] is the retry
    counter as the server reads it; [respond_error] (Model/Cookie.v) is shown to be that machine on the cookie the
    krequest carries; [rl_step]/[rl_run] is the logincount cookie in the browser. Both abstract machines, the handler
    model and the jar are compared with the real router + net/http/cookiejar on every run (`wwh retry`). *)
From Coq Require Import NArith ZArith List Bool String Ascii.
From WW Require Import Base.Bytes Gen.Params Model.CookieUrl Model.Cookie Model.Jar Model.Retry
  Proofs.CookieP Proofs.JarP Proofs.CookieJarP Proofs.RetryP.
Import ListNotations.
Open Scope Z_scope.

Definition b (s : string) : bytes := map N_of_ascii (list_ascii_of_string s).

Lemma pin_max_retry : max_auto_retry_attempts = 3. Proof. reflexivity. Qed.

(** (1) For every sequence of events (failures with any status, counter-clearing successes, other responses), from a
    fresh browser or any non-negative counter: no run of consecutive auto-retry redirects is longer than three.
    (The length bound only excludes overflow of Go's int after 2^63 requests.) *)
Theorem c17_at_most_three : forall c0 evs,
  (c0 = None \/ exists n, c0 = Some n /\ 0 <= n) ->
  (match c0 with Some n => n | None => 0 end) + Z.of_nat (List.length evs) < max_int ->
  (max_redirect_run (counter_run c0 evs) <= 3)%nat.
Proof. exact retry_runs_bounded. Qed.
Print Assumptions c17_at_most_three.

(** ... and if the failures persist (none of them a 429) the fourth answer is the terminal error page with the
    error's status, and so is every later one *)
Theorem c17_persistent_failures_terminal : forall st1 st2 st3 st4 rest,
  Forall (fun st => st <> 429) (st1 :: st2 :: st3 :: st4 :: rest) -> Z.of_nat (List.length rest) < 1000000 ->
  exists tail, counter_run None (map EvFail (st1 :: st2 :: st3 :: st4 :: rest)) =
               ObsRedirect :: ObsRedirect :: ObsRedirect :: ObsPage st4 :: tail /\
               Forall (fun o => o <> ObsRedirect) tail.
Proof. exact persistent_failures. Qed.
Print Assumptions c17_persistent_failures_terminal.

(** Failure causes. WHY a request failed (provider answers 4xx / 5xx for the whole retry budget / something that does
    not decode, provider endpoint never answers until the client's own timeout fires, connection refused, the request's
    context is cancelled, a session-store operation fails - plainly, with a deadline error, with a cancellation) reaches
    respondError for the log line only: the fault the handler model sees is the status. The scripts of `wwh retry` name a
    cause with every injected failure and the driver arranges exactly that fault on the real stack, so the correspondence
    run checks this cause-independence of the real code for login (pushed authorization request), callback (token endpoint,
    session creation) and logout / local logout (session lookup). *)
Theorem c17_cause_does_not_reach_the_counter : forall cfg r st pre k1 k2,
  fault_of_cause st k1 = fault_of_cause st k2 /\ fault_of_cause st k1 = CFErr st /\
  rs_kind (respond_error cfg r st pre) = (if auto_retries (r_retry r) st then CrRedirect307 else CrErrorPage).
Proof. intros. repeat split. unfold respond_error. destruct (auto_retries (r_retry r) st); reflexivity. Qed.
Print Assumptions c17_cause_does_not_reach_the_counter.

(** the counter machine with the causes spelled out, every cause counted (the code): (1) again, whatever the causes *)
Theorem c17_at_most_three_any_cause : forall counted evs,
  (forall k, counted k = true) -> Z.of_nat (List.length evs) < max_int ->
  (max_redirect_run (counter_run_sel counted None evs) <= 3)%nat.
Proof. exact retry_runs_bounded_any_cause. Qed.
Print Assumptions c17_at_most_three_any_cause.

(** ... and why every cause has to be counted: exempt ONE cause (say: "the request was interrupted, it says nothing
    about whether a retry would succeed") and a request that keeps failing for that cause - a provider endpoint that
    hangs - is answered with an automatic retry redirect every time, for ever: n failures, n consecutive redirects. *)
Theorem c17_uncounted_cause_refuted : forall counted k st n,
  counted k = false -> st <> 429 ->
  counter_run_sel counted None (repeat (st, k) n) = repeat ObsRedirect n /\
  max_redirect_run (counter_run_sel counted None (repeat (st, k) n)) = n.
Proof. intros counted k st n Hk Hst. split; [now apply uncounted_cause_loops|now apply uncounted_cause_unbounded]. Qed.
Print Assumptions c17_uncounted_cause_refuted.

Example c17_causes_nonvacuous :
  let all := fun _ : fcause => true in
  let but_timeouts := fun k => match k with FcProviderTimeout | FcStoreTimeout => false | _ => true end in
  counter_run_sel all None (repeat (500, FcProviderTimeout) 6) =
    [ObsRedirect; ObsRedirect; ObsRedirect; ObsPage 500; ObsPage 500; ObsPage 500] /\
  counter_run_sel all None [(500, FcProviderTimeout); (500, FcStore); (401, FcUnspecified); (500, FcClientCanceled); (500, FcProvider5xx)] =
    [ObsRedirect; ObsRedirect; ObsRedirect; ObsPage 500; ObsPage 500] /\
  counter_run_sel but_timeouts None (repeat (500, FcProviderTimeout) 6) = repeat ObsRedirect 6 /\
  counter_run_sel but_timeouts None (repeat (500, FcProviderRefused) 6) =
    [ObsRedirect; ObsRedirect; ObsRedirect; ObsPage 500; ObsPage 500; ObsPage 500].
Proof. vm_compute. repeat split; reflexivity. Qed.

(** (4) a rate-limited kresponse is never auto-retried, whatever the counter *)
Theorem c17_429_never_retried : forall cfg r pre c,
  rs_kind (respond_error cfg r 429 pre) = CrErrorPage /\ rs_status (respond_error cfg r 429 pre) = 429 /\
  snd (counter_step c (EvFail 429)) = ObsPage 429.
Proof. intros cfg r pre c. destruct (respond_error_429 cfg r pre). split; [|split]; auto using no_retry_on_429. Qed.
Print Assumptions c17_429_never_retried.

(** the handler's error path is this counter machine on the value of the krequest's retry cookie (absent or
    non-numeric reads as "no counter"), writes the successor into the retry cookie, and answers the error's status
    when it does not redirect; counters it wrote are read back unchanged *)
Theorem c17_handler_is_counter : forall cfg r st pre,
  counter_step (get_retry_attempts (r_retry r)) (EvFail st) =
  (Some (next_retry_value (r_retry r)),
   match rs_kind (respond_error cfg r st pre) with CrRedirect307 => ObsRedirect | _ => ObsPage st end) /\
  (rs_kind (respond_error cfg r st pre) = CrErrorPage -> rs_status (respond_error cfg r st pre) = st) /\
  In (site_emit cfg (r_mp r) S_error_set_retry (VLit (itoa (next_retry_value (r_retry r)))) 0)
     (rs_cookies (respond_error cfg r st pre)).
Proof. exact respond_error_counter. Qed.
Print Assumptions c17_handler_is_counter.

Theorem c17_counter_read_back : forall n, 0 <= n <= max_int -> get_retry_attempts (Some (itoa n)) = Some n.
Proof. exact counter_read_back. Qed.
Print Assumptions c17_counter_read_back.

(** (3) the counter is cleared by a successful login callback, by every logout callback and by a front-channel
    logout answered with 200: after such a kresponse (any history with one matching ingress path before it) the jar
    sends no retry cookie to any URL *)
Theorem c17_counter_cleared : forall e steps dt q f mp trust now u,
  Forall (fun s => kind_ok e mp (snd (fst s)) CkRetry) steps -> kind_ok e mp q CkRetry ->
  let b0 := sleep (run_jar_seq e {| b_jar := []; b_now := 0; b_session := false |} steps) dt in
  (q_ep q = EpCallback /\ rs_kind (fst (do_request e b0 q f)) = CrOther) \/ q_ep q = EpLogoutCallback \/
  (q_ep q = EpFrontChannel /\ rs_status (fst (do_request e b0 q f)) = 200) ->
  jar_cookie trust now u (b_jar (snd (do_request e b0 q f))) (cookie_name (e_cfg e) CkRetry) = None.
Proof.
  intros e steps dt q f mp trust now u Hs Hq b0 Hc. apply no_named_not_sent.
  apply (history_cleared e steps dt q f mp CkRetry Hs Hq).
  rewrite do_request_response in *. apply success_clears_retry. exact Hc.
Qed.
Print Assumptions c17_counter_cleared.

(** (2) scope: the retry cookie is filed under Path = matching ingress path ("/" if empty; "/" on the SSO server),
    and that Path covers (RFC 6265 path-match) the URL the 307 points to — always for a failed login callback or
    logout callback (redirected to <matching path>/oauth2/login resp. /logout), and for every other failed krequest
    (retried on its own URL) provided the matching path is a prefix of the krequest path at a segment boundary. *)
Theorem c17_retry_cookie_returns : forall e q v u,
  let mp := e_mp e (q_path q) in
  mp = [] \/ wf_path mp -> wf_path (q_path q) ->
  (q_ep q = EpCallback \/ q_ep q = EpLogoutCallback \/ seg_prefix mp (q_path q)) ->
  path_match (q_path (retry_target e q)) (jar_path u (site_emit (e_cfg e) mp S_error_set_retry v 0)) = true.
Proof.
  intros e q v u mp Hw Hq Hc. rewrite (retry_path (e_cfg e) mp v Hw u). now apply retry_target_covered.
Qed.
Print Assumptions c17_retry_cookie_returns.

(** With Ingresses.MatchingPath matching on segment boundaries (code since a1203b1, model flag cf_seg_prefix = true)
    the matching path is a segment-boundary prefix of the request path by construction ... *)
Theorem c17_matching_path_on_segment_boundary : forall paths req,
  let mp := matching_path true paths req in
  mp = [] \/ req = mp \/ exists r, req = mp ++ 47%N :: r.
Proof. exact matching_path_seg. Qed.
Print Assumptions c17_matching_path_on_segment_boundary.

(** ... so the retry cookie's Path covers the retry target for EVERY failed request, whatever the endpoint and the
    set of ingress paths: no side hypothesis left (the two well-formedness premises hold for every configuration
    whose ingresses parse, CookieJarP.matching_path_wf, and for every request path, which starts with "/"). *)
Theorem c17_retry_cookie_returns_fixed : forall e q v u,
  cf_seg_prefix (e_cfg e) = true ->
  let mp := e_mp e (q_path q) in
  mp = [] \/ wf_path mp -> wf_path (q_path q) ->
  path_match (q_path (retry_target e q)) (jar_path u (site_emit (e_cfg e) mp S_error_set_retry v 0)) = true.
Proof.
  intros e q v u Hs mp Hw Hq. rewrite (retry_path (e_cfg e) mp v Hw u). now apply retry_target_covered_seg.
Qed.
Print Assumptions c17_retry_cookie_returns_fixed.

(** Refutation without the segment-boundary hypothesis, for the OLD variant of MatchingPath (strings.HasPrefix,
    cf_seg_prefix = false, code before a1203b1): ingress paths "" and "/o" on one host. A failing
    GET /oauth2/login has matching path "/o" (strings.HasPrefix), the counter cookie gets Path=/o, which does not
    path-match /oauth2/login; the browser never returns it and is redirected for ever (here: 50 of 50 requests). *)
Definition lookalike_cfg (seg : bool) : kconfig :=
  {| cf_secure := true; cf_samesite := b "Lax"; cf_prefix := b "io.nais.wonderwall";
     cf_ingresses := [b "https://h.example.com"; b "https://h.example.com/o"];
     cf_sso_server := false; cf_sso_domain := []; cf_sso_name := []; cf_legacy := false;
     cf_rl_enabled := true; cf_rl_logins := 5; cf_rl_window := 5000000000; cf_seg_prefix := seg; cf_rl_ceil := true |}.

Definition env_of (c : kconfig) (host : string) : site_env :=
  {| e_cfg := c; e_ingresses := match parse_ingresses_full c with Some l => l | None => [] end;
     e_hostport := b host; e_https := true; e_host := b host; e_trust := false |}.

Definition rq (ep : kendpoint) (path : string) : breq := {| q_ep := ep; q_path := b path; q_prompt := false |}.

Theorem c17_retry_scope_refuted :
  validate_cookie (lookalike_cfg false) = VOk /\ parse_ingresses (lookalike_cfg false) = Some [[]; b "/o"] /\
  let e := env_of (lookalike_cfg false) "h.example.com" in
  let q := rq EpLogin "/oauth2/login" in
  e_mp e (q_path q) = b "/o" /\
  path_match (q_path (retry_target e q)) (b "/o") = false /\
  fst (follow 50 e false {| b_jar := []; b_now := 0; b_session := false |} q (repeat (CFErr 500) 60)) = repeat 307 50.
Proof. vm_compute. repeat split; reflexivity. Qed.
Print Assumptions c17_retry_scope_refuted.

(** the same deployment with the fixed MatchingPath: matching path "", cookie Path=/, three retries, then the page *)
Example c17_retry_scope_fixed :
  let e := env_of (lookalike_cfg true) "h.example.com" in
  let q := rq EpLogin "/oauth2/login" in
  e_mp e (q_path q) = [] /\
  e_mp e (b "/o/oauth2/login") = b "/o" /\
  fst (follow 50 e false {| b_jar := []; b_now := 0; b_session := false |} q (repeat (CFErr 500) 60)) = [307; 307; 307; 500].
Proof. vm_compute. repeat split; reflexivity. Qed.

(** Non-vacuity, on the composed model (handlers + jar + following browser): with the single ingress
    https://h.example.com/app a provider that keeps failing yields 307, 307, 307, 500; a callback that keeps
    failing while login itself works yields three round trips and then the 401 page; and after a successful
    login the next run of failures again gets three retries. *)
Definition single_cfg : kconfig :=
  {| cf_secure := true; cf_samesite := b "Lax"; cf_prefix := b "io.nais.wonderwall";
     cf_ingresses := [b "https://h.example.com/app"];
     cf_sso_server := false; cf_sso_domain := []; cf_sso_name := []; cf_legacy := false;
     cf_rl_enabled := true; cf_rl_logins := 5; cf_rl_window := 5000000000; cf_seg_prefix := true; cf_rl_ceil := true |}.

Example c17_nonvacuous :
  let e := env_of single_cfg "h.example.com" in
  let b0 := {| b_jar := []; b_now := 0; b_session := false |} in
  fst (follow 50 e false b0 (rq EpLogin "/app/oauth2/login") (repeat (CFErr 500) 20)) = [307; 307; 307; 500] /\
  fst (follow 50 e true b0 (rq EpCallback "/app/oauth2/callback")
         [CFErr 401; CFNone; CFErr 401; CFNone; CFErr 401; CFNone; CFErr 401; CFNone]) = [307; 302; 307; 302; 307; 302; 401] /\
  (let b1 := snd (follow 50 e false b0 (rq EpLogin "/app/oauth2/login") (repeat (CFErr 500) 20)) in
   let b2 := run_jar_seq e b1 [(0, rq EpLogin "/app/oauth2/login", CFNone); (0, rq EpCallback "/app/oauth2/callback", CFNone)] in
   fst (follow 50 e false b2 (rq EpLogin "/app/oauth2/login") (repeat (CFErr 500) 20)) = [307; 307; 307; 500]) /\
  seg_prefix (e_mp e (b "/app/oauth2/login")) (b "/app/oauth2/login").
Proof. vm_compute. repeat split; try reflexivity. right. right. eexists. reflexivity. Qed.

(** the same on the composed model with causes: a pushed-authorization endpoint that hangs, then refuses, then answers
    5xx ...: three retries and the page; login works but the token endpoint hangs at every callback: three round trips
    and the page; a logged-in browser whose logout keeps failing on the session store: three retries and the page. *)
Example c17_nonvacuous_causes :
  let e := env_of single_cfg "h.example.com" in
  let b0 := {| b_jar := []; b_now := 0; b_session := false |} in
  let f := fault_of_cause in
  fst (follow 50 e false b0 (rq EpLogin "/app/oauth2/login")
         [f 500 FcProviderTimeout; f 500 FcProviderRefused; f 500 FcProvider5xx; f 500 FcProviderTimeout; f 500 FcClientCanceled])
    = [307; 307; 307; 500] /\
  fst (follow 50 e true b0 (rq EpLogin "/app/oauth2/login")
         [CFNone; f 500 FcProviderTimeout; CFNone; f 500 FcStoreTimeout; CFNone; f 500 FcStoreCanceled; CFNone; f 500 FcProviderTimeout; CFNone])
    = [302; 307; 302; 307; 302; 307; 302; 500] /\
  (let b1 := run_jar_seq e b0 [(0, rq EpLogin "/app/oauth2/login", CFNone); (0, rq EpCallback "/app/oauth2/callback", CFNone)] in
   fst (follow 50 e false b1 (rq EpLogout "/app/oauth2/logout") (repeat (f 500 FcStoreTimeout) 9)) = [307; 307; 307; 500]).
Proof. vm_compute. repeat split; reflexivity. Qed.

(** (2b) several counters in one request. With nested ingress paths on one host (or two instances, one at the root and one
    below a path) the browser can hold a retry cookie per path and sends all that match, the one with the longest Path first
    (RFC 6265 5.4; Model/Jar.v [jar_select], compared with net/http/cookiejar on every run). The counter the server reads -
    http.Request.Cookie, the FIRST cookie of that name - is the value of a live cookie matching the request URL, and no other
    live matching cookie of that name has a longer Path: the failures under the more specific ingress are judged on that
    ingress's own counter, never on a stale one left on a less specific path. For every jar, URL and time: *)
Theorem c17_counter_read_is_most_specific : forall trust now u j name v,
  jar_cookie trust now u j name = Some v ->
  exists c, In c j /\ live now c = true /\ should_send trust u c = true /\ j_name c = name /\ j_value c = v /\
            forall c', In c' j -> live now c' = true -> should_send trust u c' = true -> j_name c' = name ->
                       (List.length (j_path c') <= List.length (j_path c))%nat.
Proof. exact jar_cookie_most_specific. Qed.
Print Assumptions c17_counter_read_is_most_specific.

(** Why it has to be the first. Ingresses https://h.example.com and https://h.example.com/b. A request at the root ingress
    fails once and its automatic retry succeeds (login abandoned at the provider): the browser keeps retry=1; Path=/. Then the
    provider is down for requests under /b. Reading the LAST same-named cookie ("the most recent one") judges every one of
    them on the stale value 1: redirected for ever (here 50 of 50 requests). Reading the first - the code, and [follow] - gives
    two more redirects and then the error page. *)
Definition root_and_b_cfg : kconfig :=
  {| cf_secure := true; cf_samesite := b "Lax"; cf_prefix := b "io.nais.wonderwall";
     cf_ingresses := [b "https://h.example.com"; b "https://h.example.com/b"];
     cf_sso_server := false; cf_sso_domain := []; cf_sso_name := []; cf_legacy := false;
     cf_rl_enabled := false; cf_rl_logins := 5; cf_rl_window := 5000000000; cf_seg_prefix := true; cf_rl_ceil := true |}.

Theorem c17_last_match_refuted :
  let e := env_of root_and_b_cfg "h.example.com" in
  let b0 := {| b_jar := []; b_now := 0; b_session := false |} in
  let '(sts, b1) := follow 50 e false b0 (rq EpLogin "/oauth2/login") [CFErr 500; CFNone] in
  let q := rq EpLogin "/b/oauth2/login" in
  sts = [307; 302] /\
  jar_cookie false 0 (origin_of e (q_path q)) (b_jar b1) (cookie_name root_and_b_cfg CkRetry) = Some (VLit (b "1")) /\
  fail_chain last_named 50 e b1 q 500 = repeat 307 50 /\
  fail_chain first_named 50 e b1 q 500 = [307; 307; 500] /\
  fst (follow 50 e false b1 q (repeat (CFErr 500) 60)) = [307; 307; 500].
Proof. vm_compute. repeat split; reflexivity. Qed.
Print Assumptions c17_last_match_refuted.

(** non-vacuity of c17_counter_read_is_most_specific: in that browser, after two failures under /b, a request under /b carries
    two retry cookies, "3" (Path=/b) before "1" (Path=/), and the one read is "3" *)
Example c17_most_specific_nonvacuous :
  let e := env_of root_and_b_cfg "h.example.com" in
  let b0 := {| b_jar := []; b_now := 0; b_session := false |} in
  let b1 := snd (follow 50 e false b0 (rq EpLogin "/oauth2/login") [CFErr 500; CFNone]) in
  let q := rq EpLogin "/b/oauth2/login" in
  let b2 := run_jar_seq e b1 [(0, q, CFErr 500); (0, q, CFErr 500)] in
  let name := cookie_name root_and_b_cfg CkRetry in
  map (fun c => (j_value c, j_path c)) (filter (fun c => beq (j_name c) name) (jar_select false 0 (origin_of e (q_path q)) (b_jar b2)))
    = [(VLit (b "3"), b "/b"); (VLit (b "1"), b "/")] /\
  jar_cookie false 0 (origin_of e (q_path q)) (b_jar b2) name = Some (VLit (b "3")) /\
  last_named name (jar_select false 0 (origin_of e (q_path q)) (b_jar b2)) = Some (VLit (b "1")).
Proof. vm_compute. repeat split; reflexivity. Qed.

(** (5) rate limit. [rl_step] is the logincount cookie seen by the rate limiter for a browser whose session cookie
    resolves to a stored session. With the limit enabled and a window of at least one whole second
    (W = whole seconds of the window): *)
Theorem c17_rate_limit_burst : forall cfg g0 gaps now,
  cf_rl_enabled cfg = true -> 0 < window_seconds cfg -> 0 < cf_rl_logins cfg ->
  Forall (fun g => 0 <= g) gaps -> fold_right Z.add 0 gaps < window_seconds cfg * jsecond ->
  (* all requests within one window of the first: krequest number k (from 0) is refused iff k >= logins *)
  rl_run cfg None now (g0 :: gaps) = map (fun k => cf_rl_logins cfg <=? Z.of_nat k) (seq 0 (S (List.length gaps))).
Proof. intros cfg g0 gaps now He Hw. exact (rl_burst_fresh cfg He Hw g0 gaps now). Qed.
Print Assumptions c17_rate_limit_burst.

(** single steps, exact: inside the window an attempt below the limit is counted and restarts the window, at the
    limit it is refused and nothing is written; once the window has passed since the last counted attempt the
    browser is treated like one without a counter *)
Theorem c17_rate_limit_steps : forall cfg n exp now,
  cf_rl_enabled cfg = true -> 0 < window_seconds cfg ->
  (now < exp -> rl_step cfg (Some (n, Some exp)) now =
                if cf_rl_logins cfg <=? n then (Some (n, Some exp), true)
                else (Some (n + 1, Some (now + window_seconds cfg * jsecond)), false)) /\
  (exp <= now -> snd (rl_step cfg (Some (n, Some exp)) now) = snd (rl_step cfg None now)) /\
  rl_step cfg None now = if cf_rl_logins cfg <=? 0 then (None, true)
                         else (Some (1, Some (now + window_seconds cfg * jsecond)), false).
Proof.
  intros cfg n exp now He Hw. split; [|split].
  - apply rl_within; assumption.
  - intros H. apply (rl_lapsed cfg He n exp now H).
  - apply rl_fresh; assumption.
Qed.
Print Assumptions c17_rate_limit_steps.

(** without a session, or with the limit disabled, never limited *)
Theorem c17_never_limited : forall cfg lc s,
  apply_login_rate_limit cfg false lc = RlSkip /\
  (cf_rl_enabled cfg = false -> apply_login_rate_limit cfg s lc = RlSkip) /\
  (cf_rl_enabled cfg = false -> forall st now gaps, Forall (fun x => x = false) (rl_run cfg st now gaps)).
Proof.
  intros cfg lc s. split; [apply rate_limit_needs_session|]. split; [apply rate_limit_disabled|].
  intros H st now gaps. now apply rl_run_disabled.
Qed.
Print Assumptions c17_never_limited.

(** Refutation of "the counter lapses after the window" for windows that are not whole seconds, for the OLD variant
    of applyLoginRateLimit (cf_rl_ceil = false, code before c75583b): the cookie's Max-Age is
    int(window.Seconds()); for 500ms that is 0, i.e. no Max-Age attribute, and the counter never lapses: with
    logins = 1 the second login is refused even ten seconds (or a day) after the first. For 1.5 s the counter lapses
    after 1 s already. *)
Theorem c17_subsecond_window_refuted :
  let cfg := fun w => {| cf_secure := true; cf_samesite := b "Lax"; cf_prefix := b "p"; cf_ingresses := [b "https://h.example.com"];
                         cf_sso_server := false; cf_sso_domain := []; cf_sso_name := []; cf_legacy := false;
                         cf_rl_enabled := true; cf_rl_logins := 1; cf_rl_window := w;
                         cf_seg_prefix := true; cf_rl_ceil := false |} in
  window_seconds (cfg 500000000) = 0 /\
  rl_run (cfg 500000000) None 0 [0; 10 * jsecond; 86400 * jsecond] = [false; true; true] /\
  rl_run (cfg 1500000000) None 0 [0; 1200000000] = [false; false].
Proof. vm_compute. repeat split; reflexivity. Qed.
Print Assumptions c17_subsecond_window_refuted.

(** With Max-Age = int(math.Ceil(window.Seconds())) (code since c75583b, model flag cf_rl_ceil = true) every window
    > 0 is covered, sub-second ones included. Max-Age has a granularity of whole seconds, so what holds is:
    the cookie lives W = ceil(window) seconds, window <= W < window + 1 s. *)
Theorem c17_window_rounded_up : forall cfg, cf_rl_ceil cfg = true -> 0 < cf_rl_window cfg ->
  0 < window_seconds cfg /\
  cf_rl_window cfg <= window_seconds cfg * jsecond < cf_rl_window cfg + jsecond.
Proof. exact window_seconds_ceil. Qed.
Print Assumptions c17_window_rounded_up.

(** Hence, for a counted attempt at time t (the cookie then expires at t + W):
    - NOT BEFORE the window has passed: an attempt earlier than t + window still sees the counter - it is refused at the
      limit and counted (restarting the window) below it;
    - AT THE LATEST less than one second after it: an attempt at or after t + window + 1 s (indeed at or after t + W)
      is treated exactly like one of a browser without counter.
    Between t + window and t + W (< 1 s) either can happen, depending on the fraction of the window. *)
Theorem c17_counter_lapses_after_window : forall cfg n t now,
  cf_rl_enabled cfg = true -> cf_rl_ceil cfg = true -> 0 < cf_rl_window cfg ->
  let W := window_seconds cfg * jsecond in
  (now < t + cf_rl_window cfg ->
     rl_step cfg (Some (n, Some (t + W))) now =
     if cf_rl_logins cfg <=? n then (Some (n, Some (t + W)), true) else (Some (n + 1, Some (now + W)), false)) /\
  (t + cf_rl_window cfg + jsecond <= now ->
     snd (rl_step cfg (Some (n, Some (t + W))) now) = snd (rl_step cfg None now)).
Proof.
  intros cfg n t now He Hc Hw W. destruct (window_seconds_ceil cfg Hc Hw) as [Hpos [Hlo Hhi]]. fold W in Hlo, Hhi. split.
  - intros H. apply rl_within; [assumption|assumption|]. apply Z.lt_le_trans with (t + cf_rl_window cfg); [exact H|].
    apply Z.add_le_mono_l. exact Hlo.
  - intros H. apply (rl_lapsed cfg He n (t + W) now).
    apply Z.le_trans with (t + cf_rl_window cfg + jsecond); [|exact H].
    rewrite <- Z.add_assoc. apply Z.add_le_mono_l. apply Z.lt_le_incl. exact Hhi.
Qed.
Print Assumptions c17_counter_lapses_after_window.

(** a burst inside the CONFIGURED window (not its rounding): all requests less than `window` after the first;
    request number k (from 0) is refused iff k >= logins - for every window > 0 *)
Theorem c17_rate_limit_burst_any_window : forall cfg g0 gaps now,
  cf_rl_enabled cfg = true -> cf_rl_ceil cfg = true -> 0 < cf_rl_window cfg -> 0 < cf_rl_logins cfg ->
  Forall (fun g => 0 <= g) gaps -> fold_right Z.add 0 gaps < cf_rl_window cfg ->
  rl_run cfg None now (g0 :: gaps) = map (fun k => cf_rl_logins cfg <=? Z.of_nat k) (seq 0 (S (List.length gaps))).
Proof.
  intros cfg g0 gaps now He Hc Hw Hl Hg Hs. destruct (window_seconds_ceil cfg Hc Hw) as [Hpos [Hlo _]].
  apply (rl_burst_fresh cfg He Hpos g0 gaps now Hl Hg). apply Z.lt_le_trans with (cf_rl_window cfg); assumption.
Qed.
Print Assumptions c17_rate_limit_burst_any_window.

(** the windows of the old refutation under the new code: 500ms lapses (after 1 s), 1.5 s is not cut short *)
Example c17_subsecond_window_fixed :
  let cfg := fun w => {| cf_secure := true; cf_samesite := b "Lax"; cf_prefix := b "p"; cf_ingresses := [b "https://h.example.com"];
                         cf_sso_server := false; cf_sso_domain := []; cf_sso_name := []; cf_legacy := false;
                         cf_rl_enabled := true; cf_rl_logins := 1; cf_rl_window := w;
                         cf_seg_prefix := true; cf_rl_ceil := true |} in
  window_seconds (cfg 500000000) = 1 /\ window_seconds (cfg 1500000000) = 2 /\ window_seconds (cfg 5000000000) = 5 /\
  window_seconds (cfg 1) = 1 /\
  rl_run (cfg 500000000) None 0 [0; 499999999; 10 * jsecond; 86400 * jsecond] = [false; true; false; false] /\
  rl_run (cfg 1500000000) None 0 [0; 1200000000; 2 * jsecond] = [false; true; false].
Proof. vm_compute. repeat split; reflexivity. Qed.

Example c17_rate_limit_nonvacuous :
  let cfg := {| cf_secure := true; cf_samesite := b "Lax"; cf_prefix := b "p"; cf_ingresses := [b "https://h.example.com"];
                cf_sso_server := false; cf_sso_domain := []; cf_sso_name := []; cf_legacy := false;
                cf_rl_enabled := true; cf_rl_logins := 2; cf_rl_window := 5 * jsecond;
                cf_seg_prefix := true; cf_rl_ceil := true |} in
  rl_run cfg None 0 [0; jsecond; jsecond; jsecond; 3 * jsecond - 1; jsecond] = [false; false; true; true; true; false].
Proof. vm_compute. reflexivity. Qed.

(** The cookie names. The rate limiter's counter lives in the browser under cookie.LoginCount, and the login handler writes
    the login cookie right after it in the SAME response: were the two names equal the browser would keep the second and the
    counter would never come back. [main_cnames] transliterates the package variables of pkg/cookie, ConfigureCookieNamesWithPrefix
    and the lines of cmd/wonderwall/main.go that call it (compared with the real variables on every run, `wwh cookies` kind
    cnames); it computes [cookie_name], the naming function every handler model uses ... *)
Theorem c17_names_as_configured_by_main : forall cfg k, cname_of (main_cnames cfg) k = cookie_name cfg k.
Proof. exact main_cnames_spec. Qed.
Print Assumptions c17_names_as_configured_by_main.

(** ... and for every prefix, every mode and every sso.session-cookie-name (other than wonderwall's own two fixed names) the
    counter's name differs from the name of every other cookie: all names are pairwise distinct. *)
Theorem c17_cookie_names_pairwise_distinct : forall cfg k1 k2,
  (cf_sso_server cfg = true ->
   cf_sso_name cfg <> with_prefix default_prefix n_logincount /\ cf_sso_name cfg <> n_legacy) ->
  k1 <> k2 -> cookie_name cfg k1 <> cookie_name cfg k2.
Proof. exact names_distinct_all. Qed.
Print Assumptions c17_cookie_names_pairwise_distinct.

(** What that excludes: a ConfigureCookieNamesWithPrefix that re-prefixes the counter with the login cookie's suffix gives
    both the same name as soon as a prefix is configured or SSO mode is on (never with the default configuration). *)
Theorem c17_counter_named_like_login_refuted : forall cfg,
  cf_sso_server cfg = true \/ cf_prefix cfg <> default_prefix ->
  nm_logincount (main_cnames_with configure_cnames_slip cfg) = nm_login (main_cnames_with configure_cnames_slip cfg).
Proof. exact slip_names_collide. Qed.
Print Assumptions c17_counter_named_like_login_refuted.

Example c17_cookie_names_nonvacuous :
  let cfg := fun pre sso nm => {| cf_secure := true; cf_samesite := b "Lax"; cf_prefix := pre; cf_ingresses := [b "https://h.example.com"];
                         cf_sso_server := sso; cf_sso_domain := b "example.com"; cf_sso_name := nm; cf_legacy := false;
                         cf_rl_enabled := true; cf_rl_logins := 1; cf_rl_window := 1;
                         cf_seg_prefix := true; cf_rl_ceil := true |} in
  main_cnames (cfg (b "io.nais.wonderwall") false []) = default_cnames /\
  nm_logincount (main_cnames (cfg (b "my.app") false [])) = b "io.nais.wonderwall.logincount" /\
  nm_login (main_cnames (cfg (b "my.app") false [])) = b "my.app.callback" /\
  nm_session (main_cnames (cfg (b "my.app") true (b "sso-session"))) = b "sso-session" /\
  nm_retry (main_cnames (cfg (b "my.app") true (b "sso-session"))) = b "sso-session.retry" /\
  nm_logincount (main_cnames_with configure_cnames_slip (cfg (b "my.app") false [])) = b "my.app.callback" /\
  main_cnames_with configure_cnames_slip (cfg (b "io.nais.wonderwall") false []) = default_cnames.
Proof. vm_compute. repeat split; reflexivity. Qed.
