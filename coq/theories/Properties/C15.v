(** C15 — owned endpoints are never proxied, refuse scripted fetches, are marked non-cacheable, and
    the error page reproduces request-supplied text only escaped.

    Statements only; proofs are in Proofs/RouterP.v and Proofs/HtmlEscP.v.  The route table of
    Model/Router.v is tied to pkg/router/router.go by the per-run comparison with chi.Walk's dump
    of the real router (`wwh router`, kind rtable) and by the request sweep; the path constants come
    from the compiled code (Gen/Params.v) and are pinned here.  Part 3 of the property (no token in
    any owned rt_response) is checked dynamically (`wwh owned`). *)
From Coq Require Import NArith List Bool String.
From WW Require Import Base.Bytes Base.BytesLit Gen.Params Model.Router Proofs.RouterP Proofs.UrlPathP Proofs.RouterPrefixP Proofs.IngressSetP.
Import ListNotations.
Open Scope N_scope.

(** ** Pins: the constants and the table the model was written against *)
Lemma pin_paths :
  path_oauth2 = bs "/oauth2" /\ path_login = bs "/login" /\ path_callback = bs "/callback" /\
  path_logout = bs "/logout" /\ path_logout_callback = bs "/logout/callback" /\
  path_logout_frontchannel = bs "/logout/frontchannel" /\ path_logout_local = bs "/logout/local" /\
  path_ping = bs "/ping" /\ path_session = bs "/session" /\ path_refresh = bs "/refresh" /\
  path_forwardauth = bs "/forwardauth".
Proof. vm_compute. repeat split. Qed.

(* (method, pattern, catch-all?) of the top-level table for one ingress without path, standalone mode *)
Lemma pin_route_table_top :
  map (fun r => (r_pat r, r_catch r, r_dest r))
      (top_routes {| rc_mode := Standalone; rc_idporten := false; rc_prefixes := [[]] |}) =
  [ (bs "/oauth2", false, TOauth); (bs "/oauth2/", false, TOauth); (bs "/oauth2/", true, TOauth);
    (bs "/", true, TWild) ].
Proof. vm_compute. reflexivity. Qed.

Lemma pin_route_table_oauth :
  map (fun r => (r_pat r, r_meths r, r_dest r))
      (oauth_routes {| rc_mode := Standalone; rc_idporten := false; rc_prefixes := [[]] |}) =
  [ (bs "/login", [MGet], OEndp EpLogin [MwNonNav]); (bs "/logout", [MGet], OEndp EpLogout [MwNonNav]);
    (bs "/login", [MHead], OEndp EpLogin [MwNonNav]); (bs "/logout", [MHead], OEndp EpLogout [MwNonNav]);
    (bs "/callback", [MGet], OEndp EpLoginCallback [MwNonNav]);
    (bs "/logout/callback", [MGet], OEndp EpLogoutCallback [MwNonNav]);
    (bs "/logout/frontchannel", [MGet], OEndp EpLogoutFrontChannel []);
    (bs "/logout/local", [MGet], OEndp EpLogoutLocal []); (bs "/logout/local", [MHead], OEndp EpLogoutLocal []);
    (bs "/ping", [MGet], OEndp EpPing []);
    (bs "/session", all_meths, OSession); (bs "/session/", all_meths, OSession); (bs "/session/", all_meths, OSession) ].
Proof. vm_compute. reflexivity. Qed.

Lemma pin_route_table_session :
  map (fun r => (r_pat r, r_meths r, r_dest r))
      (session_routes {| rc_mode := Standalone; rc_idporten := false; rc_prefixes := [[]] |}) =
  [ (bs "/", [MGet], EpSession); (bs "/refresh", [MGet], EpSessionRefresh); (bs "/refresh", [MPost], EpSessionRefresh);
    (bs "/forwardauth", [MGet], EpSessionForwardAuth) ].
Proof. vm_compute. reflexivity. Qed.

(** ** Part 1 — never proxied *)

(** For every configuration (mode, provider, any list of ingress prefixes), every method string and
    every routing key that is <prefix>/oauth2 or lies below it, the router never selects the
    catch-all proxy handler (src.Wildcard).  The routing key is what chi routes on: r.URL.RawPath
    when it is set, else r.URL.Path. *)
Theorem c15_owned_key_never_proxied : forall c method raw path,
  under_owned (rc_prefixes c) (routing_key raw path) -> route_req c method raw path <> OutWildcard.
Proof. exact route_never_wildcard_key. Qed.
Print Assumptions c15_owned_key_never_proxied.

(** The property as stated (decoded path under an owned subtree), under the hypothesis that Go kept no
    separate raw path (r.URL.RawPath = "", i.e. the request path was in its canonical encoding). *)
Theorem c15_owned_never_proxied : forall c method path,
  under_owned (rc_prefixes c) path -> route_req c method [] path <> OutWildcard.
Proof. exact owned_never_proxied. Qed.
Print Assumptions c15_owned_never_proxied.

(** Without that hypothesis the property is false in the model of the code: a percent-escape that
    Go keeps in RawPath hides the owned prefix from chi.  [pct_decode raw = Some path] is how
    net/url relates the two. *)
Theorem c15_escaped_path_refuted :
  exists c method raw path,
    pct_decode raw = Some path /\ under_owned (rc_prefixes c) path /\ route_req c method raw path = OutWildcard.
Proof.
  exists {| rc_mode := Standalone; rc_idporten := false; rc_prefixes := [[]] |}, s_get,
         (bs "/%6Fauth2/session"), (bs "/oauth2/session").
  split; [vm_compute; reflexivity|]. split; [|vm_compute; reflexivity].
  exists [], (bs "/session"). split; [now left|]. split; [reflexivity|]. right. eexists. reflexivity.
Qed.
Print Assumptions c15_escaped_path_refuted.

Theorem c15_escaped_slash_refuted :
  exists c method raw path,
    pct_decode raw = Some path /\ under_owned (rc_prefixes c) path /\ route_req c method raw path = OutWildcard.
Proof.
  exists {| rc_mode := SsoProxy; rc_idporten := false; rc_prefixes := [bs "/app"] |}, s_post,
         (bs "/app/oauth2%2Fsession/refresh"), (bs "/app/oauth2/session/refresh").
  split; [vm_compute; reflexivity|]. split; [|vm_compute; reflexivity].
  exists (bs "/app"), (bs "/session/refresh"). split; [now left|]. split; [reflexivity|]. right. eexists. reflexivity.
Qed.
Print Assumptions c15_escaped_slash_refuted.

(** In terms of the request target (net/url URL.setPath): every path has a canonical spelling
    (escape(path, encodePath)); Go accepts it, decodes it back to the path and keeps no RawPath ... *)
Theorem c15_canonical_spelling : forall path, wf_bytes path -> set_path (go_escape_path path) = Some (path, []).
Proof. exact set_path_canonical. Qed.
Print Assumptions c15_canonical_spelling.

(** ... hence the canonical spelling of every path in an owned subtree is never proxied; *)
Theorem c15_canonical_target_never_proxied : forall c method path,
  wf_bytes path -> under_owned (rc_prefixes c) path ->
  exists o, route_target c method (go_escape_path path) = Some o /\ o <> OutWildcard.
Proof. exact canonical_target_never_proxied. Qed.
Print Assumptions c15_canonical_target_never_proxied.

(** ... and whenever a target whose decoded path lies in an owned subtree IS proxied, it is a non-canonical
    spelling that Go kept as RawPath and whose raw bytes do not lie in an owned subtree. *)
Theorem c15_proxied_target_is_noncanonical : forall c method p path raw,
  set_path p = Some (path, raw) -> under_owned (rc_prefixes c) path ->
  route_req c method raw path = OutWildcard ->
  raw = p /\ p <> go_escape_path path /\ ~ under_owned (rc_prefixes c) p.
Proof. exact proxied_target_is_noncanonical. Qed.
Print Assumptions c15_proxied_target_is_noncanonical.

Example c15_target_nonvacuous :
  let c := {| rc_mode := Standalone; rc_idporten := false; rc_prefixes := [[]] |} in
  route_target c s_get (bs "/oauth2/session") = Some (OutOwned [] (Some (EpSession, [])) false) /\
  route_target c s_get (bs "/%6Fauth2/session") = Some OutWildcard /\
  route_target c s_get (bs "/oauth2%2Fsession") = Some OutWildcard /\
  route_target c s_get (bs "/oauth2/sess%69on") = Some (OutOwned [] None false) /\
  route_target c s_get (bs "/oauth2/%zz") = None /\
  set_path (bs "/a%20b") = Some (bs "/a b", []) /\ set_path (bs "/a%2fb") = Some (bs "/a/b", bs "/a%2fb").
Proof. vm_compute. repeat split. Qed.

(** Requests in an owned subtree with a method chi knows are answered inside the mount (by one of the
    owned handlers, or the sub-router's own 404 / 405). *)
Theorem c15_owned_answered_inside_mount : forall c method raw path,
  known_method method -> under_owned (rc_prefixes c) (routing_key raw path) ->
  exists pre r na, route_req c method raw path = OutOwned pre r na.
Proof. exact route_owned. Qed.
Print Assumptions c15_owned_answered_inside_mount.

(** Exact characterisation: for a method chi knows, the catch-all proxy handler is selected if and only if
    the routing key starts with "/", lies in no owned subtree, and is not the SSO server's "GET /". *)
Theorem c15_proxied_iff : forall c method raw path m,
  meth_of method = Some m ->
  (route_req c method raw path = OutWildcard <->
   has_prefix (routing_key raw path) [47] = true /\ ~ under_owned (rc_prefixes c) (routing_key raw path) /\
   ~ (is_server c = true /\ routing_key raw path = [47] /\ m = MGet)).
Proof. intros c method raw path m Hm. exact (route_wildcard_iff c method raw path m Hm). Qed.
Print Assumptions c15_proxied_iff.

(** ** Part 2 — interactive endpoints refuse non-navigational requests *)

(** IsNavigationRequest: GET, and either (Sec-Fetch-Mode, Sec-Fetch-Dest) = (navigate, document), or no
    fetch metadata at all and an Accept header listing text/html. *)
Theorem c15_is_navigation_spec : forall method h,
  is_navigation method h = true <->
  method = bs "GET" /\
  ((h_mode h = bs "navigate" /\ h_dest h = bs "document") \/
   (h_mode h = [] /\ h_dest h = [] /\ accepts_html (h_accept h) = true)).
Proof. exact is_navigation_spec. Qed.
Print Assumptions c15_is_navigation_spec.

(** Whenever routing selects login, logout or one of their callbacks (any mode, prefix, path), a request
    that carries both Sec-Fetch-Mode and Sec-Fetch-Dest and is not a navigation is answered 401 (with
    the NoCache headers) by the middleware. *)
Theorem c15_interactive_non_navigation_401 : forall c method raw path h pre e mws na,
  route_req c method raw path = OutOwned pre (Some (e, mws)) na -> interactive e = true ->
  has_sec_fetch h = true -> is_navigation method h = false ->
  respond c method raw path h = RStatus 401 true.
Proof. exact interactive_non_navigation_401. Qed.
Print Assumptions c15_interactive_non_navigation_401.

(** Consequently no interactive handler (hence no redirect to the identity provider) ever runs for such
    a request, whatever the method, path, prefix or mode. *)
Theorem c15_interactive_handler_never_runs : forall c method raw path h e nc,
  has_sec_fetch h = true -> is_navigation method h = false ->
  respond c method raw path h = RHandler e nc -> interactive e = false.
Proof. exact interactive_handler_never_runs. Qed.
Print Assumptions c15_interactive_handler_never_runs.

(** Prefix transparency (one ingress prefix p, any mode): routing <p>/oauth2<sub> is routing /oauth2<sub>
    in the configuration without prefix ... *)
Theorem c15_prefix_transparent : forall md idp p method sub,
  (sub = [] \/ exists r, sub = 47 :: r) ->
  route_req (cfg1 md idp p) method [] (p ++ path_oauth2 ++ sub) =
  route_req (cfg1 md idp []) method [] (path_oauth2 ++ sub).
Proof. exact prefix_transparent. Qed.
Print Assumptions c15_prefix_transparent.

(** ... so for every prefix and mode the documented endpoints are the ones reached, with the interactive
    group behind DisallowNonNavigationalRequests (parts 2 and 4 are not vacuous for any prefix). *)
Theorem c15_endpoints_for_every_prefix : forall md idp p,
  let c := cfg1 md idp p in
  route_req c s_get [] (p ++ path_oauth2 ++ path_login) = OutOwned [] (Some (EpLogin, interactive_mws c)) false /\
  route_req c s_head [] (p ++ path_oauth2 ++ path_login) = OutOwned [] (Some (EpLogin, interactive_mws c)) false /\
  route_req c s_get [] (p ++ path_oauth2 ++ path_logout) = OutOwned [] (Some (EpLogout, interactive_mws c)) false /\
  route_req c s_get [] (p ++ path_oauth2 ++ path_callback) = OutOwned [] (Some (EpLoginCallback, interactive_mws c)) false /\
  route_req c s_get [] (p ++ path_oauth2 ++ path_logout_callback) = OutOwned [] (Some (EpLogoutCallback, interactive_mws c)) false /\
  route_req c s_get [] (p ++ path_oauth2 ++ path_logout_frontchannel) = OutOwned [] (Some (EpLogoutFrontChannel, [])) false /\
  route_req c s_get [] (p ++ path_oauth2 ++ path_ping) = OutOwned [] (Some (EpPing, [])) false /\
  route_req c s_get [] (p ++ path_oauth2 ++ path_session) = OutOwned (session_mws c) (Some (EpSession, [])) false /\
  route_req c s_post [] (p ++ path_oauth2 ++ path_session ++ path_refresh) = OutOwned (session_mws c) (Some (EpSessionRefresh, [])) false /\
  route_req c s_get [] (p ++ path_oauth2 ++ path_session ++ path_forwardauth) = OutOwned (session_mws c) (Some (EpSessionForwardAuth, [])) false /\
  route_req c s_post [] (p ++ path_oauth2 ++ path_login) = OutOwned [] None true /\
  route_req c s_get [] (p ++ path_oauth2 ++ [47; 120]) = OutOwned [] None false.
Proof.
  intros md idp p c. unfold c.
  repeat split; rewrite prefix_transparent by (right; eexists; reflexivity); destruct md, idp; vm_compute; reflexivity.
Qed.
Print Assumptions c15_endpoints_for_every_prefix.

(** ** "for every ingress prefix": from the configured ingresses to the mounted prefixes

    router.New mounts <p>/oauth2 for every p of Ingresses.Paths(); Model/Router.v rt_parse_ingresses / rt_ingress_paths
    transliterate pkg/ingress.ParseIngresses (trailing slashes dropped, first ingress with a given String() kept, distinct
    paths) and are compared with the real ParseIngresses on every run (`wwh router`, kind rtingress; the requests of the
    sweep are aimed at the CONFIGURED prefixes, the route tables are those of the real router for the same lists).
    The mounted prefixes are exactly the configured paths, compared byte for byte ... *)
Theorem c15_mounted_prefixes_are_the_configured_paths : forall ings p,
  In p (rt_ingress_paths ings) <-> exists i, In i ings /\ p = trim_right_slashes (ri_path i).
Proof. exact ingress_paths_in. Qed.
Print Assumptions c15_mounted_prefixes_are_the_configured_paths.

Theorem c15_no_prefix_mounted_twice : forall ings, NoDup (rt_ingress_paths ings).
Proof. exact ingress_paths_nodup. Qed.
Print Assumptions c15_no_prefix_mounted_twice.

(** ... so EVERY distinct configured path prefix gets the owned mount - whatever else is configured (the same path in another
    letter case, the same path on another host or on a host spelt in another case, duplicates, trailing slashes, nested
    paths): a request for <prefix>/oauth2 or anything below it is never handed to the catch-all proxy handler, and with a
    method chi knows it is answered inside the mount. *)
Theorem c15_every_configured_prefix_never_proxied : forall md idp ings i method sub,
  In i ings -> (sub = [] \/ exists r, sub = 47 :: r) ->
  route_req (rconfig_of_ingresses md idp ings) method [] (trim_right_slashes (ri_path i) ++ path_oauth2 ++ sub) <> OutWildcard.
Proof. exact configured_prefix_never_proxied. Qed.
Print Assumptions c15_every_configured_prefix_never_proxied.

Theorem c15_every_configured_prefix_mounted : forall md idp ings i method sub,
  known_method method -> In i ings -> (sub = [] \/ exists r, sub = 47 :: r) ->
  exists pre r na,
    route_req (rconfig_of_ingresses md idp ings) method [] (trim_right_slashes (ri_path i) ++ path_oauth2 ++ sub) = OutOwned pre r na.
Proof. exact configured_prefix_owned. Qed.
Print Assumptions c15_every_configured_prefix_mounted.

(** Why the de-duplication has to compare paths byte for byte: with a key that folds the letter case of the whole ingress
    string ("URLs are case-insensitive in scheme and host") the second of https://h/Soknad, https://h/soknad is dropped
    and GET /soknad/oauth2/session reaches the catch-all proxy handler. *)
Theorem c15_case_folded_ingress_key_refuted :
  exists ings i, In i ings /\ ~ In (trim_right_slashes (ri_path i)) (ingress_paths_fold ings) /\
    route_req {| rc_mode := Standalone; rc_idporten := false; rc_prefixes := ingress_paths_fold ings |}
              s_get [] (trim_right_slashes (ri_path i) ++ path_oauth2 ++ path_session) = OutWildcard.
Proof.
  exists case_pair, {| ri_origin := bs "https://h"; ri_path := bs "/soknad" |}.
  split; [right; left; reflexivity|]. split; [|vm_compute; reflexivity].
  vm_compute. intros [H|[]]. discriminate H.
Qed.
Print Assumptions c15_case_folded_ingress_key_refuted.

Example c15_ingress_prefixes_nonvacuous :
  rt_ingress_paths case_pair = [bs "/Soknad"; bs "/soknad"] /\
  rt_ingress_paths [ {| ri_origin := bs "http://H"; ri_path := bs "/app/" |}; {| ri_origin := bs "http://h"; ri_path := bs "/app" |};
                  {| ri_origin := bs "http://h"; ri_path := bs "/app//" |}; {| ri_origin := bs "http://h"; ri_path := bs "/" |};
                  {| ri_origin := bs "http://h"; ri_path := bs "/app/sub" |} ] = [bs "/app"; []; bs "/app/sub"] /\
  route_req (rconfig_of_ingresses Standalone false case_pair) s_get [] (bs "/soknad/oauth2/session") =
    OutOwned [] (Some (EpSession, [])) false.
Proof. vm_compute. repeat split. Qed.

(** ** Part 4 — non-cacheable *)

(** Every rt_response produced for a routing key in an owned subtree - by a handler, by a middleware
    (401, preflight 204) or by the sub-routers (404, 405) - is produced after the NoCache headers
    were set, provided the method is one chi knows. *)
Theorem c15_owned_nocache : forall c method raw path h,
  known_method method -> under_owned (rc_prefixes c) (routing_key raw path) ->
  nocache_of (respond c method raw path h) = true.
Proof. exact owned_nocache. Qed.
Print Assumptions c15_owned_nocache.

(** For a method outside chi's table the top-level mux answers 405 before any middleware group runs:
    that rt_response is generated by wonderwall under an owned path without the NoCache headers. *)
Theorem c15_unknown_method_nocache_refuted :
  exists c method path h,
    under_owned (rc_prefixes c) path /\ respond c method [] path h = RStatus 405 false.
Proof.
  exists {| rc_mode := Standalone; rc_idporten := false; rc_prefixes := [[]] |}, (bs "FOO"), (bs "/oauth2/login"),
         {| h_mode := []; h_dest := []; h_accept := []; h_acrm := [] |}.
  split; [|vm_compute; reflexivity].
  exists [], (bs "/login"). split; [now left|]. split; [reflexivity|]. right. eexists. reflexivity.
Qed.
Print Assumptions c15_unknown_method_nocache_refuted.

(** ** Non-vacuity *)
Example c15_router_nonvacuous :
  let c := {| rc_mode := Standalone; rc_idporten := false; rc_prefixes := [bs "/app"] |} in
  let nav := {| h_mode := bs "navigate"; h_dest := bs "document"; h_accept := [bs "text/html"]; h_acrm := [] |} in
  let xhr := {| h_mode := bs "cors"; h_dest := bs "empty"; h_accept := [bs "*/*"]; h_acrm := [] |} in
  respond c s_get [] (bs "/app/oauth2/login") nav = RHandler EpLogin true /\
  respond c s_get [] (bs "/app/oauth2/login") xhr = RStatus 401 true /\
  respond c s_get [] (bs "/app/oauth2/session") xhr = RHandler EpSession true /\
  respond c s_get [] (bs "/app/oauth2/nope") nav = RStatus 404 true /\
  respond c s_post [] (bs "/app/oauth2/login") nav = RStatus 405 true /\
  respond c s_get [] (bs "/oauth2/login") nav = RHandler EpWildcard false /\
  respond c s_get [] (bs "/app/other") nav = RHandler EpWildcard false.
Proof. vm_compute. repeat split. Qed.

(** ** Part 5 — the error page *)
From WW Require Import Model.HtmlEsc Proofs.HtmlEscP.

(** For every byte string, the text written for {{.CorrelationID}} (and, after URL filtering and
    normalisation, for the two href attributes) contains no less-than, greater-than, double or single
    quote, plus sign or NUL byte. *)
Theorem c15_html_escape_no_markup : forall s x,
  In x (html_escape s) -> x <> 60 /\ x <> 62 /\ x <> 34 /\ x <> 39 /\ x <> 0.
Proof.
  intros s x H. pose proof (html_escape_safe s x H) as Hd. unfold html_dangerous in Hd.
  repeat split; intros ->; discriminate.
Qed.
Print Assumptions c15_html_escape_no_markup.

(** Every ampersand in the escaper's output is the first byte of one of the six entities it emits
    (&#34; &amp; &#39; &#43; &lt; &gt;). *)
Theorem c15_html_escape_ampersand : forall s pre post,
  html_escape s = pre ++ 38 :: post ->
  exists ent, In ent [bs "&#34;"; bs "&amp;"; bs "&#39;"; bs "&#43;"; bs "&lt;"; bs "&gt;"] /\
              has_prefix (38 :: post) ent = true.
Proof. exact html_escape_amp. Qed.
Print Assumptions c15_html_escape_ampersand.

(** urlFilter: the value is passed through or replaced by "#ZgotmplZ"; it is passed through only if it
    has no ':' , or a '/' before the first ':', or the text before the first ':' EqualFolds to http, https
    or mailto. *)
Theorem c15_url_filter : forall x,
  (url_filter x = x \/ url_filter x = bs "#ZgotmplZ") /\
  (forall p r, cut_byte 58 x = Some (p, r) -> contains_byte p 47 = false -> safe_scheme p = false ->
               url_filter x = bs "#ZgotmplZ") /\
  (forall p r, cut_byte 58 (url_filter x) = Some (p, r) -> contains_byte p 47 = false -> safe_scheme p = true).
Proof.
  intros x. split; [|split].
  - destruct (url_filter_cases x) as [(_ & ->)|(_ & ->)]; auto.
  - exact (url_filter_unsafe x).
  - exact (url_filter_scheme x).
Qed.
Print Assumptions c15_url_filter.

(** EqualFold on ASCII input is equality after lower-casing (the non-ASCII case is U+017F for s). *)
Theorem c15_safe_scheme_ascii : forall p, all_ascii p -> safe_scheme p = true ->
  to_lower p = bs "http" \/ to_lower p = bs "https" \/ to_lower p = bs "mailto".
Proof. exact safe_scheme_ascii. Qed.
Print Assumptions c15_safe_scheme_ascii.

(** The link target as the browser receives it (urlNormalizer (urlFilter x)): whenever the text before
    its first ':' is a syntactically valid URL scheme (ALPHA *(ALPHA / DIGIT / + / - / .)), that scheme is
    http, https or mailto - never javascript, data or vbscript. *)
Theorem c15_href_never_script_capable : forall x p r,
  cut_byte 58 (href_url x) = Some (p, r) -> valid_scheme p = true ->
  (to_lower p = bs "http" \/ to_lower p = bs "https" \/ to_lower p = bs "mailto") /\
  to_lower p <> bs "javascript" /\ to_lower p <> bs "data" /\ to_lower p <> bs "vbscript".
Proof.
  intros x p r Hc Hv. split; [exact (href_scheme_safe x p r Hc Hv)|exact (href_not_script x p r Hc Hv)].
Qed.
Print Assumptions c15_href_never_script_capable.

(** Reading back: decoding the six character references the escaper emits gives back the original text
    (any text without NUL), and in particular the href attribute's value, as an HTML parser decodes it, is
    exactly urlNormalizer (urlFilter x) - the URL the previous theorem speaks about. *)
Theorem c15_escape_roundtrip : forall s, ~ In 0 s -> html_unescape (html_escape s) = s.
Proof. exact html_unescape_escape'. Qed.
Print Assumptions c15_escape_roundtrip.

Theorem c15_href_value_as_parsed : forall x, wf_bytes x -> html_unescape (render_href x) = href_url x.
Proof. exact href_roundtrip. Qed.
Print Assumptions c15_href_value_as_parsed.

(** What is written between the quotes of href="...": only printable ASCII other than the quote
    characters, angle brackets, plus and space. *)
Theorem c15_href_attribute_bytes : forall x c, wf_bytes x -> In c (render_href x) ->
  32 < c < 127 /\ c <> 34 /\ c <> 39 /\ c <> 60 /\ c <> 62.
Proof.
  intros x c Hx Hc. destruct (render_href_safe x c Hx Hc) as (Hd & Hr). split; [exact Hr|].
  unfold html_dangerous in Hd. repeat split; intros ->; discriminate.
Qed.
Print Assumptions c15_href_attribute_bytes.

Example c15_htmlesc_nonvacuous :
  render_text (bs "<script>alert('x')</script>&") = bs "&lt;script&gt;alert(&#39;x&#39;)&lt;/script&gt;&amp;" /\
  render_href (bs "JaVaScRiPt:alert(1)") = bs "#ZgotmplZ" /\
  render_href (bs "/oauth2/login?redirect=/a b&x=""y""") = bs "/oauth2/login?redirect=/a%20b&amp;x=%22y%22" /\
  render_href (bs "https://example.com/") = bs "https://example.com/" /\
  cut_byte 58 (href_url (bs "HTTPS://h/")) = Some (bs "HTTPS", bs "//h/") /\ valid_scheme (bs "HTTPS") = true.
Proof. vm_compute. repeat split. Qed.
