(** C19 — shutdown drains in-flight requests and always terminates in time.

    PARTIAL: the theorems are about the timeline model Model/Shutdown.v, whose only structural fact about the code
    is the order  signal -> Sleep(W) -> Shutdown(ctx, timeout G - W) -> exit 0 / Fatal (exit 1)  of
    pkg/server/server.go:Start; http.Server.Shutdown, signal delivery and scheduling are the Go runtime's and are
    exercised only by the correspondence driver (built binary, real time, tolerance 0.7 s).
    Quantification: all integer W, G (ns), all finite lists of requests (arrival, upstream service time) with
    arbitrary integer times relative to the signal. Only statements; proofs in Proofs/ShutdownP.v. *)
From Coq Require Import ZArith List Bool Lia.
From WW Require Import Model.Shutdown Proofs.ShutdownP Model.Config Proofs.ConfigP.
Import ListNotations.
Open Scope Z_scope.

(** It exits no later than the graceful period after the signal (0 <= W < G: both guaranteed by start-up, see
    c19_exit_within_graceful_when_started below). *)
Theorem c19_exit_within_graceful : forall W G l, 0 <= W -> W < G -> sd_exit_time W G l <= G.
Proof. exact sd_exit_le_G. Qed.
Print Assumptions c19_exit_within_graceful.

(** In general the bound is max(0,W) + (G - W) ... *)
Theorem c19_exit_within_deadline : forall W G l, W < G -> sd_exit_time W G l <= Z.max 0 W + (G - W).
Proof. intros W G l H. rewrite <- sd_deadline_general. now apply sd_exit_le_deadline. Qed.
Print Assumptions c19_exit_within_deadline.

(** ... and the hypothesis 0 <= W is needed: BEFORE fix 164dd13 Config.Validate accepted a negative wait-before (C20:
    c20_negative_wait_accepted, about the old variant), and then the process could outlive G. *)
Theorem c19_negative_wait_refuted : exists W G l, W < G /\ G < sd_exit_time W G l.
Proof. exact sd_exit_le_G_negative_refuted. Qed.
Print Assumptions c19_negative_wait_refuted.

(** No accepted request is cut off while time remains. *)
Theorem c19_no_cutoff : forall W G q, 0 <= W ->
  sd_accepted W q = true -> sd_arrival q + sd_service q <= G -> sd_completes W G q = true.
Proof. exact sd_no_cutoff. Qed.
Print Assumptions c19_no_cutoff.

(** New requests are still served during the wait-before period, and refused after it. *)
Theorem c19_serving_during_wait : forall W q, sd_arrival q < W -> sd_accepted W q = true.
Proof. exact sd_serving_during_wait. Qed.
Print Assumptions c19_serving_during_wait.

Theorem c19_refusing_after_wait : forall W q, 0 <= sd_arrival q -> W <= sd_arrival q -> sd_accepted W q = false.
Proof. exact sd_refusing_after_wait. Qed.
Print Assumptions c19_refusing_after_wait.

(** It exits successfully shortly after the accepted requests have completed: not before any of them, not before the
    listener is closed, and at most one poll interval of http.Server.Shutdown (500 ms) after the last one -- provided
    the last one completes at least 500 ms before the deadline ... *)
Theorem c19_exit_when_drained : forall W G l,
  (forall q, In q l -> sd_accepted W q = true -> sd_completes W G q = true) ->
  sd_last W l + 500 * sd_ms < sd_deadline W G ->
  sd_exit_code W G l = 0 /\ sd_last W l <= sd_exit_time W G l <= sd_last W l + 500 * sd_ms /\
  (forall q, In q l -> sd_accepted W q = true -> sd_finish q <= sd_exit_time W G l) /\
  sd_close W <= sd_exit_time W G l.
Proof. exact sd_exit_when_drained. Qed.
Print Assumptions c19_exit_when_drained.

(** ... and that margin is needed ("exits successfully as soon as they have" is refuted for the last poll interval):
    W = 0.5 s, G = 2 s, one request completing at 1.65 s; Shutdown's polls fall at 1.511 s and 2.011 s, the deadline
    fires at 2 s, exit status 1 although nothing was cut off. *)
Theorem c19_drained_but_failure_refuted : exists W G l, 0 <= W /\ W < G /\
  (forall q, In q l -> sd_accepted W q = true -> sd_completes W G q = true /\ sd_finish q < sd_deadline W G) /\
  sd_exit_code W G l = 1.
Proof. exact sd_drained_but_failure_refuted. Qed.
Print Assumptions c19_drained_but_failure_refuted.

(** If they do not complete it exits anyway, at the deadline, with a failure status. *)
Theorem c19_exit_when_stuck : forall W G l q,
  In q l -> sd_accepted W q = true -> sd_completes W G q = false ->
  sd_exit_code W G l = 1 /\ sd_exit_time W G l = sd_deadline W G.
Proof. exact sd_exit_when_stuck. Qed.
Print Assumptions c19_exit_when_stuck.

Theorem c19_exit_code_zero_iff : forall W G l,
  sd_exit_code W G l = 0 <->
  (forall q, In q l -> sd_accepted W q = true -> sd_completes W G q = true) /\ sd_noticed W l < sd_deadline W G.
Proof. exact sd_exit_code_spec. Qed.
Print Assumptions c19_exit_code_zero_iff.

(** Every configuration with which the CURRENT code starts (C20's start predicate) has 0 <= W < G, hence exits within
    its graceful period, whatever the requests; and its Shutdown timeout is positive. *)
Theorem c19_exit_within_graceful_when_started : forall r d l, cf_starts cf_cur r d = true ->
  sd_exit_time (cf_waitbefore (cf_resolve_all r)) (cf_graceful (cf_resolve_all r)) l <= cf_graceful (cf_resolve_all r).
Proof. intros r d l H. destruct (cf_starts_periods_cur r d H) as [H0 H1]. now apply sd_exit_le_G. Qed.
Print Assumptions c19_exit_within_graceful_when_started.

Theorem c19_no_cutoff_when_started : forall r d q, cf_starts cf_cur r d = true ->
  let W := cf_waitbefore (cf_resolve_all r) in let G := cf_graceful (cf_resolve_all r) in
  sd_accepted W q = true -> sd_arrival q + sd_service q <= G -> sd_completes W G q = true.
Proof. intros r d q H W G. destruct (cf_starts_periods_cur r d H) as [H0 _]. now apply sd_no_cutoff. Qed.
Print Assumptions c19_no_cutoff_when_started.

Theorem c19_timeout_positive_when_started : forall v r d, cf_starts v r d = true ->
  0 < sd_timeout (cf_waitbefore (cf_resolve_all r)) (cf_graceful (cf_resolve_all r)).
Proof. intros v r d H. apply sd_timeout_pos. exact (cf_starts_periods v r d H). Qed.
Print Assumptions c19_timeout_positive_when_started.

(** The start-up check of the two periods in Model/Config.v is [sd_startable] (what the shutdown driver observes
    when it is handed a negative wait-before): with the fix, startable <-> 0 <= W < G. *)
Theorem c19_startable_iff : forall v c,
  cf_periods_validate v c = None <-> sd_startable (cf_v_wait_nonneg v) (cf_waitbefore c) (cf_graceful c) = true.
Proof. exact sd_startable_spec. Qed.
Print Assumptions c19_startable_iff.

Theorem c19_startable_nonneg : forall W G, sd_startable true W G = true <-> 0 <= W < G.
Proof. exact sd_startable_nonneg. Qed.
Print Assumptions c19_startable_nonneg.

(** Further termination signals. Model/Shutdown.v delivers every signal after the first to the process as the Go runtime
    does (registered kinds SIGHUP 1, SIGINT 2, SIGTERM 15, SIGQUIT 3 go into the one-slot channel that nobody reads again;
    any other kind has its default disposition and ends the process). The outcome - exit time, exit status, which requests
    are accepted and which complete - is a function of the FIRST signal only: further registered signals, of any kind, in
    any number, at any instants (during the wait-before period, while draining, after the exit) are no-ops ... *)
Theorem c19_first_signal_only : forall W G l extra,
  sd_all_handled extra = true -> sd_outcome W G l extra = sd_outcome W G l [].
Proof. exact sd_extra_signals_noop. Qed.
Print Assumptions c19_first_signal_only.

Theorem c19_one_signal_outcome : forall W G l,
  sd_outcome W G l [] = (sd_exit_time W G l, sd_exit_code W G l, map (sd_accepted W) l, map (sd_completes W G) l).
Proof. exact sd_outcome_one_signal. Qed.
Print Assumptions c19_one_signal_outcome.

(** ... so every statement above holds verbatim with further signals: *)
Theorem c19_further_signals_pointwise : forall W G l extra, sd_all_handled extra = true ->
  sd_exit_time_x W G l extra = sd_exit_time W G l /\ sd_exit_code_x W G l extra = sd_exit_code W G l /\
  (forall q, sd_accepted_x W G l extra q = sd_accepted W q) /\ (forall q, sd_completes_x W G l extra q = sd_completes W G q).
Proof. exact sd_extra_signals_pointwise. Qed.
Print Assumptions c19_further_signals_pointwise.

Theorem c19_no_cutoff_further_signals : forall W G l extra q, 0 <= W -> sd_all_handled extra = true ->
  sd_accepted_x W G l extra q = true -> sd_arrival q + sd_service q <= G -> sd_completes_x W G l extra q = true.
Proof.
  intros W G l extra q H0 He. destruct (sd_extra_signals_pointwise W G l extra He) as (_ & _ & Ha & Hc).
  rewrite Ha, Hc. now apply sd_no_cutoff.
Qed.
Print Assumptions c19_no_cutoff_further_signals.

Theorem c19_exit_within_graceful_further_signals : forall W G l extra, 0 <= W -> W < G -> sd_exit_time_x W G l extra <= G.
Proof. intros W G l extra H0 H1. pose proof (sd_exit_time_x_le W G l extra). pose proof (sd_exit_le_G W G l H0 H1). lia. Qed.
Print Assumptions c19_exit_within_graceful_further_signals.

(** ... and the restriction to the registered kinds is needed: an unregistered signal (SIGKILL) ends the process at once,
    cutting off a request although time remains, before the wait-before period is over, with a signal status. *)
Theorem c19_unregistered_signal_refuted :
  exists W G q extra, 0 <= W /\ W < G /\ sd_accepted W q = true /\ sd_finish q <= G /\
    sd_completes_x W G [q] extra q = false /\ sd_exit_code_x W G [q] extra = -9 /\ sd_exit_time_x W G [q] extra < W.
Proof. exact sd_unregistered_signal_kills. Qed.
Print Assumptions c19_unregistered_signal_refuted.

(** Non-vacuity: W = 1 s, G = 3 s; one request in flight at the signal that finishes in time, one arriving during
    the wait-before period that finishes in time, one too slow, one arriving after the listener closed. *)
Definition c19_ex : list sd_req :=
  [mk_sd_req (-200000000) 1500000000; mk_sd_req 500000000 2000000000; mk_sd_req 1300000000 100000000].
Example c19_nonvacuous_drained :
  sd_exit_code 1000000000 3000000000 c19_ex = 0 /\ sd_exit_time 1000000000 3000000000 c19_ex = 2511000000 /\
  map (sd_accepted 1000000000) c19_ex = [true; true; false].
Proof. vm_compute. repeat split. Qed.
Example c19_nonvacuous_stuck :
  sd_exit_code 1000000000 3000000000 (mk_sd_req (-200000000) 4000000000 :: c19_ex) = 1 /\
  sd_exit_time 1000000000 3000000000 (mk_sd_req (-200000000) 4000000000 :: c19_ex) = 3000000000.
Proof. vm_compute. split; reflexivity. Qed.
Example c19_nonvacuous_margin :
  (forall q, In q c19_ex -> sd_accepted 1000000000 q = true -> sd_completes 1000000000 4000000000 q = true) /\
  sd_last 1000000000 c19_ex + 500 * sd_ms < sd_deadline 1000000000 4000000000.
Proof.
  split; [|vm_compute; reflexivity].
  intros q [<-|[<-|[<-|[]]]] H; vm_compute in H |- *; congruence.
Qed.
(* a started configuration exists, so the ..._when_started corollaries are not vacuous *)
Example c19_nonvacuous_started : cf_starts cf_cur cf_ex_good cf_ex_disc = true /\
  sd_startable true (-1000000000) 1000000000 = false /\ sd_startable false (-1000000000) 1000000000 = true.
Proof. split; [exact cf_ex_good_starts|split; reflexivity]. Qed.
(* further signals: SIGTERM at 0.35 s (wait-before period), SIGHUP at 1.4 s (draining), SIGQUIT after the exit *)
Example c19_nonvacuous_further_signals :
  sd_all_handled [mk_sd_sig 350000000 15; mk_sd_sig 1400000000 1; mk_sd_sig 9000000000 3] = true /\
  sd_all_handled [mk_sd_sig 350000000 9] = false /\
  sd_exit_time_x 1000000000 3000000000 c19_ex [mk_sd_sig 350000000 15; mk_sd_sig 1400000000 1] = 2511000000.
Proof. vm_compute. repeat split. Qed.

(** The known finding (c19_drained_but_failure_refuted) with timings whose outcome does not hinge on a race: Shutdown timeout
    G - W = 761 ms, the request in flight completes 662 ms after the close instant: at least 99 ms after the latest possible
    instant of the 10th poll (562.1 ms), 99 ms before the deadline, and the 11th poll cannot come before 1011 ms, 250 ms after
    the deadline. Everything completes in time, yet the exit status is 1. The scenario is robust in the sense of
    Model/Shutdown.v:sd_robust for each wait-before period used by the driver; the timings used before (deadline 11 ms ahead
    of a poll: W = 0, G = 1 s, completion at 0.75 s) are not. *)
Definition c19_demo (W : Z) : list (sd_req * bool) := [(mk_sd_req (-250000000) (W + 662000000 + 250000000), true)].
Example c19_known_finding_robust :
  forallb (fun W => sd_robust W (W + 761000000) (c19_demo W)
                    && (sd_exit_code W (W + 761000000) (map fst (c19_demo W)) =? 1)
                    && sd_all_complete W (W + 761000000) (map fst (c19_demo W)))
          [0; 500000000; 1000000000] = true /\
  sd_robust 0 1000000000 [(mk_sd_req (-250000000) 1000000000, false)] = false.
Proof. vm_compute. split; reflexivity. Qed.
