(** C06 — no session outlives its maximum lifetime or its inactivity timeout. *)
From Coq Require Import ZArith NArith Bool List.
From WW Require Import Gen.Params Base.AMap Model.SessionTime Model.Machine Model.Entry
     Proofs.SessionTimeP Proofs.MachineP Proofs.MachineLifeP Proofs.MachineModeP.
Import ListNotations.
Open Scope Z_scope.

(** In every reachable state (any history, schedule, fault sequence): every session record - in the store or
    held by any request in any phase - ends exactly at creation + max lifetime, and with inactivity enabled
    carries a deadline at most the timeout after its last refresh. Refreshing therefore never moves the end. *)
Theorem c06_life_invariant : forall c es tau, life_inv c (run_events c (init_state tau) es).
Proof. exact life_invariant. Qed.
Print Assumptions c06_life_invariant.

Theorem c06_refresh_keeps_end : forall c cur a r secs now,
  created (sd_md (refreshed_data c cur a r secs now)) = created (sd_md cur) /\
  ends (sd_md (refreshed_data c cur a r secs now)) = ends (sd_md cur).
Proof. intros. destruct (refreshed_data_same_life c cur a r secs now) as (H1 & H2 & _). auto. Qed.
Print Assumptions c06_refresh_keeps_end.

(** A stored session is accepted at instant now only if now <= creation + max lifetime and, with inactivity
    enabled, now <= last refresh (or login) + timeout. Every handler accepts only through this test
    (first read, and the re-read under the lock before a grant). *)
Theorem c06_accepted_within_lifetime : forall c dek e now d,
  good c (e_data e) -> classify_entry dek e now = GOk d ->
  now <= created (sd_md d) + c_maxlife c /\
  match c_inact c with Some i => now <= refreshed (sd_md d) + i | None => True end.
Proof. exact accepted_within_lifetime. Qed.
Print Assumptions c06_accepted_within_lifetime.

(** Validity is exactly: has a token, now <= end, now <= deadline (strict comparisons as in the code). *)
Theorem c06_validate_exact : forall has_at m now,
  validate has_at m now = Valid <->
  has_at = true /\ now <= ends m /\ (forall t, timeout m = Some t -> now <= t).
Proof. exact validate_valid. Qed.
Print Assumptions c06_validate_exact.

(** A refresh grant is decided only right after the re-read under the lock returned a session that passes this
    test at that instant (and has a refresh token whose cooldown has passed): an ended or inactive session is
    never refreshed. *)
Theorem c06_grant_only_for_valid_session : forall c w t f old tok start w' t' o old' cur tok' start',
  t_phase t = PReread old tok start -> step c w t f = (w', t', o) -> t_phase t' = PIdp old' cur tok' start' ->
  exists e, store_get w (cookie_key (t_cookie t)) = Some e /\
            classify_entry (cookie_dek (t_cookie t)) e (w_clock w) = GOk cur /\
            has_rt cur = true /\ on_cooldown (c_tp c) (sd_md cur) (w_clock w) = false /\
            t_cancel t = false /\ f <> FStore.
Proof. exact grant_decision. Qed.
Print Assumptions c06_grant_only_for_valid_session.

Example c06_nonvacuous :
  let c := mk_config true false false (Some (1800 * second)) (7200 * second) 0 0 false false true true true in
  let s := run_events c (init_state 600) [ELogin 1 2; ETick (400 * second); ESpawn 1 KProxy (CTicket 1 1);
                                          ERun 1 FNone; ERun 1 FNone; ERun 1 FNone; ERun 1 FNone; ERun 1 FNone; ERun 1 FNone] in
  exists e, store_get (m_w s) 1 = Some e /\ sd_at (e_data e) = 2%N /\ ends (sd_md (e_data e)) = 7200 * second /\
            timeout (sd_md (e_data e)) = Some (2200 * second).
Proof. vm_compute. eexists. repeat split; reflexivity. Qed.
