(** C11 — store and identity-provider faults fail closed. Faults are arguments of [ERun]; every theorem
    quantifies over the fault. *)
From Coq Require Import ZArith NArith Bool List.
From WW Require Import Gen.Params Base.AMap Model.SessionTime Model.Machine Model.Entry
     Proofs.MachineP Proofs.MachineFaultP Proofs.MachineRefute.
Import ListNotations.
Open Scope Z_scope.

Lemma pin_retry_max : retry_max = 5 * second. Proof. reflexivity. Qed.

(** A token is written only for a session record: every other result of the session lookup / refresh
    (not found, invalid, rejected by the provider, cancelled, store or provider failure) forwards none;
    and the token written is never expired at that instant. *)
Theorem c11_token_only_from_session : forall c acr r now a i,
  finish_proxy c acr r now = OForward (Some a) i ->
  exists d, r = ROk d /\ a = sd_at d /\ has_at d = true /\ is_expired (sd_md d) now = false /\
            (acr <> 0%N -> acr_ok acr (sd_acr d) = true) /\
            i = (if c_idtoken c then Some (sd_idt d) else None).
Proof. exact finish_proxy_token. Qed.
Print Assumptions c11_token_only_from_session.

(** A request leaves its first read towards a session (lock acquisition, any later phase, or an accepted
    outcome) only through a successful, un-faulted, un-cancelled read of an entry that its cookie's data key
    opens: a session is never assumed without having been read in this request. *)
Theorem c11_session_needs_successful_read : forall c w t f start w' t' o,
  t_phase t = PGet start -> step c w t f = (w', t', o) ->
  (held_tok t' <> None \/ (exists old s, t_phase t' = PLock old s) \/
   (exists out, t_phase t' = PDone out /\ accepted (t_kind t) out = true)) ->
  o = ObGet (cookie_key (t_cookie t)) 1 /\ f <> FStore /\ t_cancel t = false /\
  exists e, store_get w (cookie_key (t_cookie t)) = Some e /\ e_dek e = cookie_dek (t_cookie t).
Proof. exact first_read_needed. Qed.
Print Assumptions c11_session_needs_successful_read.

(** A provider rejection (4xx) of the refresh grant makes the request unauthenticated, for every handler. *)
Theorem c11_provider_rejection_unauthenticated : forall c k old now,
  accepted k (finish_refresh c k old RInvalidExternal now) = false.
Proof. exact provider_rejection_unauthenticated. Qed.
Print Assumptions c11_provider_rejection_unauthenticated.

(** Absorption: a transient store fault (or provider 5xx) while the retry budget lasts changes nothing -
    the operation is simply attempted again, so the outcome equals the fault-free one. *)
Theorem c11_transient_store_fault_absorbed : forall c w t,
  store_phase (t_phase t) -> t_cancel t = false -> retry_left c (phase_start (t_phase t)) (w_clock w) = true ->
  fst (step c w t FStore) = (w, t).
Proof. exact transient_store_fault_stutters. Qed.
Print Assumptions c11_transient_store_fault_absorbed.

Theorem c11_transient_provider_fault_absorbed : forall c w t old cur tok start,
  t_phase t = PIdp old cur tok start -> t_cancel t = false -> retry_left c start (w_clock w) = true ->
  fst (step c w t FIdp5xx) = (w, t).
Proof. exact transient_provider_fault_stutters. Qed.
Print Assumptions c11_transient_provider_fault_absorbed.

(** Logout / local logout report success after the lookup only if the store answered (absent, or not this
    cookie's session); a lookup that failed with a store fault or cancellation never yields success. *)
Theorem c11_logout_lookup_failure_reported : forall c w t f start w' t' o,
  c_logout_strict c = true -> t_phase t = PGet start -> (t_kind t = KLogout \/ t_kind t = KLogoutLocal) ->
  step c w t f = (w', t', o) -> t_phase t' = PDone (logout_success (t_kind t)) ->
  t_cancel t = false /\ f <> FStore /\
  (store_get w (cookie_key (t_cookie t)) = None \/
   exists e, store_get w (cookie_key (t_cookie t)) = Some e /\ e_dek e <> cookie_dek (t_cookie t)).
Proof. exact logout_lookup_step. Qed.
Print Assumptions c11_logout_lookup_failure_reported.

(** ... and likewise after the delete. *)
Theorem c11_logout_delete_failure_reported : forall c w t f start key w' t' o,
  t_phase t = PDel start key -> step c w t f = (w', t', o) ->
  t_phase t' = PDone (logout_success (t_kind t)) ->
  (t_kind t = KLogout \/ t_kind t = KLogoutLocal \/ exists sid, t_kind t = KFront sid) ->
  alookup key (w_store w') = None /\ t_cancel t = false /\ f <> FStore.
Proof. intros. eapply logout_del_step; eauto. Qed.
Print Assumptions c11_logout_delete_failure_reported.

(** Pre-fix code (flag off): the lookup fails until the retry budget is gone, yet the logout answers 302. *)
Theorem c11_lenient_logout_refuted :
  let s := run_events (cfg_redis true true false) (init_state 3600) lenient_logout_schedule in
  thread_done s 1 (OStatus 302) /\ exists e, store_get (m_w s) 1 = Some e.
Proof. exact lenient_logout_reports_success. Qed.
Print Assumptions c11_lenient_logout_refuted.

(** Known finding: the refresh-lock acquisition is the one store operation without a retry wrapper. A single transient store
    fault there makes [Refresh] fail; the request falls back to the tokens it read, which have expired here, and is served without a
    token although the session is valid and the very same request without the fault is served with the refreshed token. *)
Theorem c11_lock_fault_not_absorbed_refuted :
  let pre := [ELogin 1 2; ETick (3601 * second); ESpawn 1 KProxy tk; ERun 1 FNone] in
  let rest := [ERun 1 FNone; ERun 1 FNone; ERun 1 FNone; ERun 1 FNone; ERun 1 FNone; ERun 1 FNone] in
  let faulted := run_events (cfg_redis true true true) (init_state 3600) (pre ++ [ERun 1 FStore] ++ rest) in
  let clean := run_events (cfg_redis true true true) (init_state 3600) (pre ++ rest) in
  thread_done faulted 1 (OForward None None) /\ thread_done clean 1 (OForward (Some 2%N) None).
Proof. vm_compute. split; eexists; split; reflexivity. Qed.
Print Assumptions c11_lock_fault_not_absorbed_refuted.
