From Coq Require Import ZArith NArith Bool List.
From WW Require Import Gen.Params Base.AMap Model.SessionTime Model.Machine Model.Entry Proofs.MachineRefute.
Import ListNotations.
Open Scope Z_scope.
Theorem c11_lenient_logout_refuted :
  let s := run_events (cfg_redis true true false) (init_state 3600) lenient_logout_schedule in
  thread_done s 1 (OStatus 302) /\ exists e, store_get (m_w s) 1 = Some e.
Proof. exact lenient_logout_reports_success. Qed.
Print Assumptions c11_lenient_logout_refuted.
