(** C08 — automatic refresh follows the documented schedule, cooldown and mode rules.
    Only statements; every proof is [exact] of a lemma in Proofs/. The parameters are
    those dumped from the compiled Go code (Gen/Params.v); the [pin_*] lemmas tie them to
    the documented values and break when the code's constants change. *)
From Coq Require Import ZArith Bool Lia.
From Coq Require Import NArith List.
From WW Require Import Gen.Params Base.AMap Model.SessionTime Model.Machine Model.Entry Proofs.SessionTimeP Proofs.MachineP Proofs.MachineModeP.
Open Scope Z_scope.

Lemma pin_refresh_leeway : leeway P0 = 300 * second. Proof. reflexivity. Qed.
Lemma pin_refresh_min_interval : min_interval P0 = 60 * second. Proof. reflexivity. Qed.

(** Never earlier than five minutes before expiry (or the half-way point to the inactivity
    timeout when that is sooner), and never during the cooldown. *)
Theorem c08_never_early : forall m now,
  should_refresh P0 m now = true -> is_expired m now = false ->
  cooldown_end P0 m <= now /\
  (expire m - 300 * second < now \/
   exists t, timeout m = Some t /\ refreshed m + Z.quot (t - refreshed m) 2 < now).
Proof.
  intros m now H He. destruct (never_early P0 m now H He) as (Hn & Hc). split; [exact Hc|].
  destruct (next_candidate_spec P0 m) as [Heq|(t & Ht & Heq & _)].
  - left. rewrite Heq in Hn. exact Hn.
  - right. exists t. split; [exact Ht|]. rewrite Heq in Hn. exact Hn.
Qed.
Print Assumptions c08_never_early.

(** Always once the token has expired; an expired token is never held back by the cooldown. *)
Theorem c08_expired_always : forall m now, refreshed m <= now ->
  is_expired m now = true -> should_refresh P0 m now = true /\ on_cooldown P0 m now = false.
Proof.
  intros m now Hr He. split; [exact (expired_should P0 m now He)|].
  exact (expired_not_cooldown P0 m now Hr ltac:(cbv; discriminate) He).
Qed.
Print Assumptions c08_expired_always.

(** Never while the cooldown is running. *)
Theorem c08_cooldown_blocks : forall m now, refreshed m <= now ->
  on_cooldown P0 m now = true -> should_refresh P0 m now = false.
Proof.
  intros m now Hr Hc. destruct (is_expired m now) eqn:He.
  - pose proof (expired_not_cooldown P0 m now Hr ltac:(cbv; discriminate) He). congruence.
  - exact (cooldown_blocks P0 m now He Hc).
Qed.
Print Assumptions c08_cooldown_blocks.

(** The cooldown is at most one minute, and half the token lifetime for short-lived tokens. *)
Theorem c08_cooldown_bound : forall m,
  cooldown_end P0 m - refreshed m <= 60 * second /\
  (token_lifetime m <= 120 * second -> cooldown_end P0 m = refreshed m + Z.quot (token_lifetime m) 2).
Proof.
  intros m. split.
  - exact (cooldown_le_min P0 m ltac:(cbv; discriminate)).
  - exact (cooldown_short P0 m).
Qed.
Print Assumptions c08_cooldown_bound.

(** A session that keeps being used always gets a refresh opportunity before its token expires. *)
Theorem c08_opportunity : forall m, 0 < token_lifetime m ->
  exists a b, a < b /\ b <= expire m /\
    forall now, a < now <= b ->
      is_expired m now = false /\ should_refresh P0 m now = true /\ on_cooldown P0 m now = false.
Proof. intros m Hl. exact (opportunity P0 m Hl eq_refl eq_refl). Qed.
Print Assumptions c08_opportunity.

(** Exact schedule: for a live token, refresh is due iff now is past both the candidate instant and the cooldown. *)
Theorem c08_schedule_exact : forall m now, is_expired m now = false ->
  (should_refresh P0 m now = true <-> next_candidate P0 m < now /\ cooldown_end P0 m < now).
Proof. exact (should_refresh_iff P0). Qed.
Print Assumptions c08_schedule_exact.

(** The metadata endpoint's values are the stated functions of the same record. *)
Theorem c08_verbose_consistent : forall m now,
  let v := verbose_of P0 m now in
  v_cooldown v = on_cooldown P0 m now /\
  v_active v = negb (is_timed_out m now) /\
  v_expire_in v = to_seconds (expire m - now) /\
  v_cooldown_secs v = to_seconds (cooldown_end P0 m - now) /\
  v_next_refresh_in v = to_seconds (next_refresh P0 m now - now) /\
  (v_expire_in v = 0 <-> expire m - now < second) /\
  (timeout m = None -> v_timeout_in v = -1).
Proof.
  intros m now v. repeat split; try reflexivity.
  - apply to_seconds_zero_iff.
  - apply to_seconds_zero_iff.
  - intros H. unfold v, verbose_of; cbn. now rewrite H.
Qed.
Print Assumptions c08_verbose_consistent.

(** Mode rules, for every run of the session machine (any history, schedule, fault sequence): a request of a kind
    that never refreshes - session info, SSO-proxy requests, every logout variant, and proxied / forward-auth
    requests when the mode disables automatic refresh (SSO without forward-auth) - is only ever reading, deleting
    or done: it takes no lock, makes no grant, writes nothing. Grants come only from proxied / forward-auth requests
    (automatic) and the refresh endpoint (manual). *)
Theorem c08_only_refreshing_kinds_refresh : forall c es tau tid th,
  alookup tid (m_ts (run_events c (init_state tau) es)) = Some th ->
  never_refreshes c (t_kind th) -> simple_phase (t_phase th).
Proof. exact only_refreshing_kinds_refresh. Qed.
Print Assumptions c08_only_refreshing_kinds_refresh.

(** No grant during the cooldown, without a refresh token, or for a session that is not valid at that instant. *)
Theorem c08_grant_needs_rt_and_no_cooldown : forall c w t f old tok start w' t' o old' cur tok' start',
  t_phase t = PReread old tok start -> step c w t f = (w', t', o) -> t_phase t' = PIdp old' cur tok' start' ->
  exists e, store_get w (cookie_key (t_cookie t)) = Some e /\
            classify_entry (cookie_dek (t_cookie t)) e (w_clock w) = GOk cur /\
            has_rt cur = true /\ on_cooldown (c_tp c) (sd_md cur) (w_clock w) = false /\
            t_cancel t = false /\ f <> FStore.
Proof. exact grant_decision. Qed.
Print Assumptions c08_grant_needs_rt_and_no_cooldown.

(** Manual refresh during the cooldown is idempotent: 200 with the unchanged record, no operation. *)
Theorem c08_manual_refresh_idempotent : forall c d now,
  can_refresh c d now = false -> start_refresh c KRefresh d now = PDone (OMeta 200 d now).
Proof. exact manual_refresh_idempotent. Qed.
Print Assumptions c08_manual_refresh_idempotent.

(** Non-vacuity: a concrete one-hour token, 56 minutes old, is due and not on cooldown. *)
Example c08_nonvacuous :
  let m := {| created := 0; ends := 36000 * second; timeout := None; expire := 3600 * second; refreshed := 0 |} in
  should_refresh P0 m (3360 * second) = true /\ is_expired m (3360 * second) = false /\
  should_refresh P0 m (3300 * second) = false.
Proof. vm_compute. auto. Qed.
