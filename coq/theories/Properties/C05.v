(** C05 — logout is final, whatever runs concurrently.
    The machine's event lists cover every interleaving at the granularity of store commands /
    lock operations / provider calls, any number of threads, faults, cancellation and crashes. *)
From Coq Require Import ZArith NArith Bool List.
From WW Require Import Gen.Params Base.AMap Model.SessionTime Model.Machine Model.Entry
     Proofs.MachineP Proofs.MachineFaultP Proofs.MachineRefute.
(* the browser model (last clause, "a cookie-honouring browser no longer holds the session cookie"): required, not imported *)
From WW Require Base.Bytes Model.CookieUrl Model.Cookie Model.Jar Model.Retry Proofs.CookieP Proofs.CookieJarP Proofs.SsoProxyJarP.
Import ListNotations.
Open Scope Z_scope.

(** With the single conditional write, a session entry that is absent (deleted by a logout) never
    reappears, for every continuation in which nobody logs in again under that session id. *)
Theorem c05_deleted_stays_deleted : forall c k es s,
  c_upd_atomic c = true -> Forall (not_login_of k) es ->
  alookup k (w_store (m_w s)) = None ->
  alookup k (w_store (m_w (run_events c s es))) = None.
Proof. exact absent_stays_absent. Qed.
Print Assumptions c05_deleted_stays_deleted.

(** A logout-type request reports success only (a) after its delete command was executed (the key is then
    absent), or (b) when the store answered that no such session exists for that cookie - never after a failed
    or cancelled lookup / delete. *)
Theorem c05_success_means_deleted : forall c w t f start key w' t' o,
  t_phase t = PDel start key -> step c w t f = (w', t', o) ->
  t_phase t' = PDone (logout_success (t_kind t)) ->
  (t_kind t = KLogout \/ t_kind t = KLogoutLocal \/ exists sid, t_kind t = KFront sid) ->
  alookup key (w_store w') = None /\ t_cancel t = false /\ f <> FStore.
Proof. intros. eapply logout_del_step; eauto. Qed.
Print Assumptions c05_success_means_deleted.

(** Every request that starts (fresh thread id) while the entry is absent, in any continuation without a
    re-login for that id, is never given a session: it is only ever reading, or refused (not authenticated,
    not 200/204 on the session endpoints), and never reaches the provider call. *)
Theorem c05_later_requests_unauthenticated : forall c k tid es s,
  c_upd_atomic c = true -> Forall (not_login_of k) es ->
  alookup k (w_store (m_w s)) = None -> alookup tid (m_ts s) = None ->
  forall th, alookup tid (m_ts (run_events c s es)) = Some th -> cookie_key (t_cookie th) = k -> sessionless th.
Proof. exact later_requests_sessionless. Qed.
Print Assumptions c05_later_requests_unauthenticated.

(** Why the conditional write is needed (pre-fix code, flag off): the logout answers 302 and the entry is back,
    without expiry. Replayed on the real code before the fix. *)
Theorem c05_update_race_refuted :
  let s := run_events (cfg_redis false false false) (init_state 3600) race_schedule in
  thread_done s 2 (OStatus 302) /\ exists e, store_get (m_w s) 1 = Some e /\ e_exp e = None.
Proof. exact update_race_resurrects. Qed.
Print Assumptions c05_update_race_refuted.

(** The hypothesis "no re-login under the same id" cannot be dropped: on the current (fixed) code an in-flight
    refresh overwrites the entry of a re-login; the logged-out cookie then authenticates again. Known finding. *)
Theorem c05_relogin_overwrite_refuted :
  let s := run_events (cfg_redis true true true) (init_state 3600) relogin_schedule in
  thread_done s 2 (OStatus 204) /\ thread_done s 3 (OForward (Some 2%N) None).
Proof. exact relogin_overwrite. Qed.
Print Assumptions c05_relogin_overwrite_refuted.

(** Non-vacuity: after the local logout of the witness schedule (without the re-login) the key is absent. *)
Example c05_nonvacuous :
  let s := run_events (cfg_redis true true true) (init_state 3600)
             [ELogin 1 2; ESpawn 2 KLogoutLocal tk; ERun 2 FNone; ERun 2 FNone] in
  alookup 1%N (w_store (m_w s)) = None /\ thread_done s 2 (OStatus 204).
Proof. vm_compute. split; [reflexivity|eexists; split; reflexivity]. Qed.

(** ** "... and a cookie-honouring browser no longer holds the session cookie"
    The browser is Model/Jar.v (RFC 6265 storage model, compared with net/http/cookiejar on every run), the Set-Cookie headers of
    the logout endpoints are Model/Cookie.v [handle] (compared with the real router on every run, `wwh cookies` / `wwh
    ssocookies`). A browser with an empty jar talks to one host of the deployment; [steps] is ANY sequence of requests (any
    endpoints, waiting times, failures). On an SSO server, or when all requests have the same matching ingress path (one
    ingress path per host), after a logout, local logout or front-channel logout that was not answered through the error
    handler the jar sends the session cookie to no URL at any time. (With nested ingress paths on one host this fails:
    Properties/C14.v c14_nested_prefix_refuted, known finding.) *)
Theorem c05_browser_drops_session_cookie : forall cfg ings e steps dt q f mp trust now u,
  Cookie.parse_ingresses_full cfg = Some ings -> Retry.e_cfg e = cfg -> Retry.e_ingresses e = ings ->
  (Cookie.cf_sso_server cfg = true \/
   Forall (fun s => CookieP.eff_path (Retry.e_mp e (Retry.q_path (snd (fst s)))) = CookieP.eff_path mp) steps /\
   CookieP.eff_path (Retry.e_mp e (Retry.q_path q)) = CookieP.eff_path mp) ->
  Retry.q_ep q = Cookie.EpLogout \/ Retry.q_ep q = Cookie.EpLogoutLocal \/ Retry.q_ep q = Cookie.EpFrontChannel ->
  let b0 := Retry.sleep (CookieJarP.run_jar_seq e {| Retry.b_jar := []; Retry.b_now := 0; Retry.b_session := false |} steps) dt in
  Cookie.rs_kind (fst (Retry.do_request e b0 q f)) = Cookie.CrOther ->
  Jar.jar_cookie trust now u (Retry.b_jar (snd (Retry.do_request e b0 q f))) (Cookie.cookie_name (Retry.e_cfg e) Cookie.CkSession) = None.
Proof. exact SsoProxyJarP.jar_after_logout_same_path. Qed.
Print Assumptions c05_browser_drops_session_cookie.

(** The same for an SSO deployment with both parties - the SSO server [e] and an SSO proxy [pe] in front of an application on
    the same SSO domain, which relays local and front-channel logout to the server and the server's answer (every Set-Cookie
    header included) back: after ANY history of requests to either party, a logout at the server or THROUGH THE PROXY that is
    not answered through the error handler leaves the browser without a session cookie for any URL. *)
Theorem c05_browser_drops_session_cookie_via_sso_proxy : forall e pe steps dt (px : bool) q f mp trust now u,
  SsoProxyJarP.same_deployment e pe mp Cookie.CkSession ->
  Forall (SsoProxyJarP.px_kind_ok e pe mp Cookie.CkSession) steps -> CookieJarP.kind_ok (if px then pe else e) mp q Cookie.CkSession ->
  (if px then Retry.q_ep q = Cookie.EpLogoutLocal \/ Retry.q_ep q = Cookie.EpFrontChannel
   else Retry.q_ep q = Cookie.EpLogout \/ Retry.q_ep q = Cookie.EpLogoutLocal \/ Retry.q_ep q = Cookie.EpFrontChannel) ->
  let b0 := Retry.sleep (SsoProxyJarP.run_jar_seq_px e pe {| Retry.b_jar := []; Retry.b_now := 0; Retry.b_session := false |} steps) dt in
  Cookie.rs_kind (fst (SsoProxyJarP.px_step e pe px b0 q f)) = Cookie.CrOther ->
  Jar.jar_cookie trust now u (Retry.b_jar (snd (SsoProxyJarP.px_step e pe px b0 q f))) (Cookie.cookie_name (Retry.e_cfg e) Cookie.CkSession) = None.
Proof. exact SsoProxyJarP.jar_after_logout_sso_proxy. Qed.
Print Assumptions c05_browser_drops_session_cookie_via_sso_proxy.

(** ---- Which store entry a logout removes (pkg/session/id.go ExternalID, session_manager.go key / DeleteForExternalID;
    Model/SessionKey.v, tied to the code by `wwh sesskey`). ---- *)
From WW Require Model.SessionKey Proofs.SessionKeyP.

(** The front-channel logout the provider sends for the `sid` it put into the ID token deletes exactly the entry the login
    callback wrote - whatever the discovery document requires and whatever `session_state` the callback carried. *)
Theorem c05_frontchannel_logout_hits_the_login_entry : forall provider client sid sid_required session_state ss_required generated,
  SessionKey.login_key provider client (SessionKey.external_id (Some sid) sid_required session_state ss_required) generated
  = Some (SessionKey.frontchannel_key provider client sid).
Proof. exact SessionKeyP.frontchannel_hits_login_key. Qed.
Print Assumptions c05_frontchannel_logout_hits_the_login_entry.

(** What must NOT change: within a deployment a logout for one provider session id never removes the entry of a session with
    another id (the key determines the id), for all byte strings. *)
Theorem c05_logout_removes_no_other_session : forall provider client sid sid',
  SessionKey.frontchannel_key provider client sid = SessionKey.store_key provider client sid' -> sid = sid'.
Proof. exact SessionKeyP.frontchannel_hits_only_its_session. Qed.
Print Assumptions c05_logout_removes_no_other_session.

(** Deployments sharing one store (replicas of different applications, SSO): when provider names and client ids contain no
    colon the key determines provider, client and id, so no deployment's logout, refresh or re-login touches another
    deployment's entry ... *)
Theorem c05_store_keys_separate_deployments : forall p1 c1 a p2 c2 b,
  ~ In SessionKey.colon p1 -> ~ In SessionKey.colon p2 -> ~ In SessionKey.colon c1 -> ~ In SessionKey.colon c2 ->
  SessionKey.store_key p1 c1 a = SessionKey.store_key p2 c2 b -> p1 = p2 /\ c1 = c2 /\ a = b.
Proof. exact SessionKeyP.store_key_inj_all. Qed.
Print Assumptions c05_store_keys_separate_deployments.

(** ... and the hypothesis cannot be dropped: client ids "a:b" and "a" share keys (outside C05's quantifier - one session,
    replicas of ONE deployment - and not raised; recorded in DESIGN.md 0.4 as an observation). *)
Theorem c05_store_keys_colon_client_refuted :
  exists p c1 a c2 b, c1 <> c2 /\ SessionKey.store_key p c1 a = SessionKey.store_key p c2 b.
Proof. exact SessionKeyP.store_key_colon_collision. Qed.
Print Assumptions c05_store_keys_colon_client_refuted.

(** Non-vacuity: the callback never yields an EMPTY id on its own (an empty `session_state` counts as absent); only a provider
    that issues `"sid": ""` can make all its users share one key. *)
Theorem c05_callback_never_supplies_empty_id : forall sid_required session_state ss_required,
  SessionKey.external_id None sid_required session_state ss_required <> SessionKey.ExtId nil.
Proof. exact SessionKeyP.external_id_never_empty_from_callback. Qed.
Print Assumptions c05_callback_never_supplies_empty_id.
