(** C05 — logout is final, whatever runs concurrently.
    The machine's event lists cover every interleaving at the granularity of store commands /
    lock operations / provider calls, any number of threads, faults, cancellation and crashes. *)
From Coq Require Import ZArith NArith Bool List.
From WW Require Import Gen.Params Base.AMap Model.SessionTime Model.Machine Model.Entry
     Proofs.MachineP Proofs.MachineFaultP Proofs.MachineRefute.
Import ListNotations.
Open Scope Z_scope.

(** With the single conditional write, a session entry that is absent (deleted by a logout) never
    reappears, for every continuation in which nobody logs in again under that session id. *)
Theorem c05_deleted_stays_deleted : forall c k es s,
  c_upd_atomic c = true -> Forall (not_login_of k) es ->
  alookup k (w_store (m_w s)) = None ->
  alookup k (w_store (m_w (run_events c s es))) = None.
Proof. exact absent_stays_absent. Qed.
Print Assumptions c05_deleted_stays_deleted.

(** A logout-type request reports success only (a) after its delete command was executed (the key is then
    absent), or (b) when the store answered that no such session exists for that cookie - never after a failed
    or cancelled lookup / delete. *)
Theorem c05_success_means_deleted : forall c w t f start key w' t' o,
  t_phase t = PDel start key -> step c w t f = (w', t', o) ->
  t_phase t' = PDone (logout_success (t_kind t)) ->
  (t_kind t = KLogout \/ t_kind t = KLogoutLocal \/ exists sid, t_kind t = KFront sid) ->
  alookup key (w_store w') = None /\ t_cancel t = false /\ f <> FStore.
Proof. intros. eapply logout_del_step; eauto. Qed.
Print Assumptions c05_success_means_deleted.

(** Every request that starts (fresh thread id) while the entry is absent, in any continuation without a
    re-login for that id, is never given a session: it is only ever reading, or refused (not authenticated,
    not 200/204 on the session endpoints), and never reaches the provider call. *)
Theorem c05_later_requests_unauthenticated : forall c k tid es s,
  c_upd_atomic c = true -> Forall (not_login_of k) es ->
  alookup k (w_store (m_w s)) = None -> alookup tid (m_ts s) = None ->
  forall th, alookup tid (m_ts (run_events c s es)) = Some th -> cookie_key (t_cookie th) = k -> sessionless th.
Proof. exact later_requests_sessionless. Qed.
Print Assumptions c05_later_requests_unauthenticated.

(** Why the conditional write is needed (pre-fix code, flag off): the logout answers 302 and the entry is back,
    without expiry. Replayed on the real code before the fix. *)
Theorem c05_update_race_refuted :
  let s := run_events (cfg_redis false false false) (init_state 3600) race_schedule in
  thread_done s 2 (OStatus 302) /\ exists e, store_get (m_w s) 1 = Some e /\ e_exp e = None.
Proof. exact update_race_resurrects. Qed.
Print Assumptions c05_update_race_refuted.

(** The hypothesis "no re-login under the same id" cannot be dropped: on the current (fixed) code an in-flight
    refresh overwrites the entry of a re-login; the logged-out cookie then authenticates again. Known finding. *)
Theorem c05_relogin_overwrite_refuted :
  let s := run_events (cfg_redis true true true) (init_state 3600) relogin_schedule in
  thread_done s 2 (OStatus 204) /\ thread_done s 3 (OForward (Some 2%N) None).
Proof. exact relogin_overwrite. Qed.
Print Assumptions c05_relogin_overwrite_refuted.

(** Non-vacuity: after the local logout of the witness schedule (without the re-login) the key is absent. *)
Example c05_nonvacuous :
  let s := run_events (cfg_redis true true true) (init_state 3600)
             [ELogin 1 2; ESpawn 2 KLogoutLocal tk; ERun 2 FNone; ERun 2 FNone] in
  alookup 1%N (w_store (m_w s)) = None /\ thread_done s 2 (OStatus 204).
Proof. vm_compute. split; [reflexivity|eexists; split; reflexivity]. Qed.
