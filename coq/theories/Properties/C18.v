(** C18 — secrets never appear in logs. PARTIAL: the site table is regenerated from /repo's AST on every run but
    the classification of argument expressions (lib/log_classes.json) and the meaning of the classes are trusted;
    every log line actually produced in the explored histories / schedules / fault sequences and the binary's
    start-up output are scanned for the secrets the harness minted (dynamic part of the check). *)
From Coq Require Import NArith List Bool.
From WW Require Import Model.Logs Gen.LogSites Proofs.LogsP.
Import ListNotations.

(** Every logging call site of the current source tree passes only classified, non-secret arguments: a new
    log statement with an unclassified (or secret) argument breaks this obligation. *)
Theorem c18_sites_public : forallb site_ok log_sites = true.
Proof. vm_compute. reflexivity. Qed.
Print Assumptions c18_sites_public.

(** Start-up banner: with the userinfo of redis.uri masked, no configured secret is printed, whichever
    secrets the operator supplied ... *)
Theorem c18_banner_masked : forall c, banner_leaks true c = [].
Proof. exact banner_masked_no_leak. Qed.
Print Assumptions c18_banner_masked.

(** ... the pre-fix banner printed redis.uri verbatim: a password embedded there was logged at info level,
    and that is the only secret it leaked. *)
Theorem c18_banner_uri_refuted : banner_leaks false [BRedisUriPassword] = [BRedisUriPassword].
Proof. exact banner_unmasked_uri_leaks. Qed.
Print Assumptions c18_banner_uri_refuted.

Theorem c18_banner_leaks_only_uri : forall c s, In s (banner_leaks false c) -> s = BRedisUriPassword.
Proof. exact banner_leaks_only_uri. Qed.
Print Assumptions c18_banner_leaks_only_uri.
