(** C18 — secrets never appear in logs. PARTIAL: the site table is regenerated from /repo's AST on every run but
    the classification of argument expressions (lib/log_classes.json) and the meaning of the classes are trusted;
    every log line actually produced in the explored histories / schedules / fault sequences and the binary's
    start-up output are scanned for the secrets the harness minted (dynamic part of the check). *)
From Coq Require Import NArith List Bool.
From WW Require Import Base.Bytes Model.GoUrl Model.Logs Gen.LogSites Proofs.LogsP.
Import ListNotations.

(** Every logging call site of the current source tree passes only classified, non-secret arguments: a new
    log statement with an unclassified (or secret) argument breaks this obligation. *)
Theorem c18_sites_public : forallb site_ok log_sites = true.
Proof. vm_compute. reflexivity. Qed.
Print Assumptions c18_sites_public.

(** Start-up banner: with the userinfo of redis.uri masked, no configured secret is printed, whichever
    secrets the operator supplied ... *)
Theorem c18_banner_masked : forall c, banner_leaks true c = [].
Proof. exact banner_masked_no_leak. Qed.
Print Assumptions c18_banner_masked.

(** ... the pre-fix banner printed redis.uri verbatim: a password embedded there was logged at info level,
    and that is the only secret it leaked. *)
Theorem c18_banner_uri_refuted : banner_leaks false [BRedisUriPassword] = [BRedisUriPassword].
Proof. exact banner_unmasked_uri_leaks. Qed.
Print Assumptions c18_banner_uri_refuted.

Theorem c18_banner_leaks_only_uri : forall c s, In s (banner_leaks false c) -> s = BRedisUriPassword.
Proof. exact banner_leaks_only_uri. Qed.
Print Assumptions c18_banner_leaks_only_uri.

(** The redis.uri field of the banner (Model/Logs.v:redact_uri_password = pkg/config/config.go:redactURIPassword over the
    net/url model Model/GoUrl.v; compared with the built binary on every run for a sweep of password spellings).
    What is printed is computed from the PARSED URL with the value of the password forgotten: two configured values whose
    parsed URLs differ at most in the value of the password print identically - for every spelling of either password
    (literal sub-delimiters, upper- or lower-case percent-encoding, unnecessarily encoded characters, empty), every user
    name, host, path, query and fragment, and every replacement text. *)
Theorem c18_banner_uri_password_independent : forall s1 s2 u1 u2 rep,
  is_empty s1 = false -> is_empty s2 = false -> parse_url s1 = Some u1 -> parse_url s2 = Some u2 ->
  url_erase_password u1 = url_erase_password u2 ->
  redact_uri_password s1 rep = redact_uri_password s2 rep.
Proof. exact redact_uri_password_independent. Qed.
Print Assumptions c18_banner_uri_password_independent.

Theorem c18_banner_uri_from_erased : forall uri rep u, is_empty uri = false -> parse_url uri = Some u ->
  redact_uri_password uri rep = url_string (url_set_password (url_erase_password u) rep).
Proof. exact redact_uri_via_erased. Qed.
Print Assumptions c18_banner_uri_from_erased.

(** A non-empty value that url.Parse rejects is not printed at all. *)
Theorem c18_banner_uri_unparseable : forall uri rep,
  is_empty uri = false -> parse_url uri = None -> redact_uri_password uri rep = rep.
Proof. exact redact_uri_unparseable. Qed.
Print Assumptions c18_banner_uri_unparseable.

(** The pre-fix banner printed the value verbatim, whatever it was. *)
Theorem c18_banner_uri_unmasked_verbatim : forall uri, banner_uri_field false uri = uri.
Proof. reflexivity. Qed.
Print Assumptions c18_banner_uri_unmasked_verbatim.

(** Non-vacuity: redis://u:a%2fb@h/0 , redis://u:x!y*@h/0 and redis://u:@h/0 have parsed URLs that differ only in the
    password (a/b, x!y*, empty); all three are printed as redis://u:%2A%2AREDACTED%2A%2A@h/0 ; redis://u:%zz@h is
    rejected by url.Parse and printed as **REDACTED**. *)
Definition c18_ex_uri (pw : bytes) : bytes := [114;101;100;105;115;58;47;47;117;58] ++ pw ++ [64;104;47;48].
Example c18_nonvacuous_uri :
  (exists u1 u2 u3, parse_url (c18_ex_uri [97;37;50;102;98]) = Some u1 /\ parse_url (c18_ex_uri [120;33;121;42]) = Some u2 /\
     parse_url (c18_ex_uri []) = Some u3 /\
     url_erase_password u1 = url_erase_password u2 /\ url_erase_password u2 = url_erase_password u3 /\
     uri_password (c18_ex_uri [97;37;50;102;98]) = Some [97;47;98] /\ uri_password (c18_ex_uri [120;33;121;42]) = Some [120;33;121;42]) /\
  redact_uri_password (c18_ex_uri [97;37;50;102;98]) redacted_text =
    [114;101;100;105;115;58;47;47;117;58;37;50;65;37;50;65;82;69;68;65;67;84;69;68;37;50;65;37;50;65;64;104;47;48] /\
  parse_url (c18_ex_uri [37;122;122]) = None /\ redact_uri_password (c18_ex_uri [37;122;122]) redacted_text = redacted_text.
Proof.
  split; [|vm_compute; repeat split].
  eexists; eexists; eexists. vm_compute. repeat split.
Qed.
