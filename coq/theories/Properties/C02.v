(** C02 — the login callback creates a session only for the login this browser itself started. *)
From Coq Require Import NArith ZArith Bool List.
From WW Require Import Base.Bytes Model.Auth Proofs.AuthP.
Import ListNotations.
Open Scope N_scope.

(** The authorization code is sent to the provider only if: the cookie under the login-cookie name opens under
    the deployment key to a record f, there is no error parameter, the state parameter is present and equals
    f.state, the iss parameter equals the issuer when the provider advertises issuer identification, (with the
    strict cookie check) f has state, nonce, verifier and redirect URI - and then the token request carries
    exactly the query's code, f's verifier and f's redirect URI. For every query, cookie term and provider. *)
Theorem c02_code_sent_only_after_checks : forall c tok jti r body,
  In (BToken body) (co_back (callback c tok jti r)) ->
  exists f, checks_passed c r f /\
            body = [(PClientId, VStr (a_client_id c)); (PCode, cb_code r); (PCodeVerifier, fget FVerifier f);
                    (PGrantType, VStr s_authorization_code); (PRedirectUri, fget FRedirectURI f)] ++ client_auth c jti.
Proof. exact code_sent_only_after_checks. Qed.
Print Assumptions c02_code_sent_only_after_checks.

(** When any browser-side check fails, nothing is sent to the provider and no session results. *)
Theorem c02_failed_check_sends_nothing : forall c tok jti r e,
  callback_checks c r = inl e -> co_back (callback c tok jti r) = [] /\ co_session (callback c tok jti r) = false.
Proof. exact failed_check_sends_nothing. Qed.
Print Assumptions c02_failed_check_sends_nothing.

(** A session results only when all checks passed and the provider's answer validated against that cookie. *)
Theorem c02_session_only_after_checks : forall c tok jti r,
  co_session (callback c tok jti r) = true ->
  exists f g, callback_checks c r = inr (f, g) /\ checks_passed c r f /\ tok f (g ++ client_auth c jti) = true.
Proof. exact session_only_after_checks. Qed.
Print Assumptions c02_session_only_after_checks.

(** ... and the store is unchanged: every key and every value it held before the callback (the session this browser
    already has, other users' sessions) is still there afterwards, for every store content. *)
Theorem c02_failed_check_store_unchanged : forall c tok jti r e newk newv s,
  callback_checks c r = inl e -> callback_store c tok jti r newk newv s = s.
Proof. exact failed_check_store_unchanged. Qed.
Print Assumptions c02_failed_check_store_unchanged.

(** The same for every callback that does not end in a session, whatever the reason (code not redeemed, token
    response refused). *)
Theorem c02_refused_callback_store_unchanged : forall c tok jti r newk newv s,
  co_session (callback c tok jti r) = false -> callback_store c tok jti r newk newv s = s.
Proof. exact refused_callback_store_unchanged. Qed.
Print Assumptions c02_refused_callback_store_unchanged.

(** A successful callback touches the entry of the session it creates and nothing else. *)
Theorem c02_callback_touches_only_new_session : forall c tok jti r newk newv s k,
  k <> newk -> astore_get k (callback_store c tok jti r newk newv s) = astore_get k s.
Proof. exact callback_store_other_keys. Qed.
Print Assumptions c02_callback_touches_only_new_session.

(* non-vacuity: a failing check exists (no cookie at all), and then a two-entry store stays as it is *)
Example c02_failed_check_store_unchanged_nonvacuous : forall c tok jti,
  let r := {| cb_state := VStr []; cb_code := VStr []; cb_iss := VStr []; cb_error := VStr []; cb_cookie := CkNone |} in
  callback_checks c r = inl CbNoCookie /\ callback_store c tok jti r 7 0 [(1, 11); (2, 12)] = [(1, 11); (2, 12)].
Proof. intros c tok jti. split; reflexivity. Qed.

(** The login cookie is cleared on every callback. *)
Theorem c02_login_cookie_always_cleared : forall c tok jti r, co_clears_login (callback c tok jti r) = true.
Proof. exact callback_always_clears_login_cookie. Qed.
Print Assumptions c02_login_cookie_always_cleared.

(** Binding to the attempt: the cookie minted for attempt rnd1 passes the checks only with the state of that
    same attempt (states are distinct fresh draws, C13). *)
Theorem c02_callback_binds_attempt : forall c q1 i1 rnd1 ref1 rnd2 r f,
  cb_cookie r = CkEnc (a_key c) (login_cookie_fields c q1 i1 rnd1 ref1) ->
  cb_state r = VRnd (rnd2 + 1) -> checks_passed c r f -> rnd1 = rnd2.
Proof. exact callback_binds_attempt. Qed.
Print Assumptions c02_callback_binds_attempt.

(** Another cookie type's ciphertext under the login-cookie name: with the strict check this deployment's logout
    cookie is rejected ... *)
Theorem c02_strict_rejects_logout_cookie : forall c s rt,
  a_cookie_strict c = true -> get_login_cookie c (CkEnc (a_key c) (logout_fields s rt)) = None.
Proof. exact strict_rejects_logout_cookie. Qed.
Print Assumptions c02_strict_rejects_logout_cookie.

(** ... without it (pre-fix code) the logout cookie plus its browser-visible state passes every check and the
    code is posted with an empty verifier and redirect URI. *)
Theorem c02_logout_cookie_refuted : forall c tok jti s rt code,
  a_cookie_strict c = false -> a_iss_supported c = false -> s <> VStr [] ->
  exists body, co_back (callback c tok jti {| cb_state := s; cb_code := code; cb_iss := VStr []; cb_error := VStr [];
                                              cb_cookie := CkEnc (a_key c) (logout_fields s rt) |}) = [BToken body] /\
               In (PCodeVerifier, VStr []) body /\ In (PRedirectUri, VStr []) body /\ In (PCode, code) body.
Proof. exact lenient_accepts_logout_cookie. Qed.
Print Assumptions c02_logout_cookie_refuted.
