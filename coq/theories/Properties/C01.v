(** C01 — the upstream gets a bearer token only for a valid session, and it is that session's. *)
From Coq Require Import ZArith NArith Bool List.
From WW Require Import Gen.Params Base.AMap Model.SessionTime Model.Machine Model.Entry
     Proofs.MachineP Proofs.MachineLifeP Proofs.MachineFaultP Proofs.MachineModeP.
Import ListNotations.
Open Scope Z_scope.

(** The decision that writes the headers: a token is written only for a session record with an access token
    that is unexpired at that instant and satisfies the configured level; the value is that record's token,
    the ID-token header is written iff configured and is that record's ID token. The client's own
    Authorization value is not an input of the decision. *)
Theorem c01_token_written_only_for_valid_session : forall c acr r now a i,
  finish_proxy c acr r now = OForward (Some a) i ->
  exists d, r = ROk d /\ a = sd_at d /\ has_at d = true /\ is_expired (sd_md d) now = false /\
            (acr <> 0%N -> acr_ok acr (sd_acr d) = true) /\
            i = (if c_idtoken c then Some (sd_idt d) else None).
Proof. exact finish_proxy_token. Qed.
Print Assumptions c01_token_written_only_for_valid_session.

(** Conversely such a record always gets its own token. *)
Theorem c01_valid_session_always_served : forall c acr d now,
  has_at d = true -> is_expired (sd_md d) now = false -> (acr = 0%N \/ acr_ok acr (sd_acr d) = true) ->
  finish_proxy c acr (ROk d) now = OForward (Some (sd_at d)) (if c_idtoken c then Some (sd_idt d) else None).
Proof. exact finish_proxy_valid. Qed.
Print Assumptions c01_valid_session_always_served.

(** and anything that is not a session record is never given a token. *)
Theorem c01_no_session_no_token : forall c acr r now a i,
  (forall d, r <> ROk d) -> finish_proxy c acr r now <> OForward (Some a) i.
Proof. exact finish_proxy_no_session. Qed.
Print Assumptions c01_no_session_no_token.

(** The direct path (standalone and SSO-proxy instances): if the request finishes with a token right after its
    read, then at that very moment the store holds an entry under the cookie's key which the cookie's data key
    opens, which has not ended, has not timed out, holds an unexpired access token, and the token is exactly
    that entry's (likewise the ID token); the read was neither faulted nor cancelled. *)
Theorem c01_direct_path_token_is_stored_sessions : forall c w t f start w' t' o a i,
  t_phase t = PGet start -> (t_kind t = KProxy \/ t_kind t = KSsoProxy) ->
  step c w t f = (w', t', o) -> t_phase t' = PDone (OForward (Some a) i) ->
  exists e, store_get w (cookie_key (t_cookie t)) = Some e /\ e_dek e = cookie_dek (t_cookie t) /\
            a = sd_at (e_data e) /\ has_at (e_data e) = true /\
            w_clock w <= ends (sd_md (e_data e)) /\
            (forall x, timeout (sd_md (e_data e)) = Some x -> w_clock w <= x) /\
            is_expired (sd_md (e_data e)) (w_clock w) = false /\
            i = (if c_idtoken c then Some (sd_idt (e_data e)) else None) /\
            t_cancel t = false /\ f <> FStore.
Proof. exact proxy_direct_token. Qed.
Print Assumptions c01_direct_path_token_is_stored_sessions.

(** SSO-proxy instance (never refreshes): a readable, valid, unexpired, sufficiently authenticated session is
    always served with its token. *)
Theorem c01_proxy_instance_serves_valid_session : forall c w t start e,
  t_phase t = PGet start -> t_kind t = KSsoProxy -> t_cancel t = false ->
  store_get w (cookie_key (t_cookie t)) = Some e -> e_dek e = cookie_dek (t_cookie t) ->
  has_at (e_data e) = true -> w_clock w <= ends (sd_md (e_data e)) ->
  (forall x, timeout (sd_md (e_data e)) = Some x -> w_clock w <= x) ->
  is_expired (sd_md (e_data e)) (w_clock w) = false ->
  (c_proxy_acr c = 0%N \/ acr_ok (c_proxy_acr c) (sd_acr (e_data e)) = true) ->
  t_phase (snd (fst (step c w t FNone))) =
    PDone (OForward (Some (sd_at (e_data e))) (if c_idtoken c then Some (sd_idt (e_data e)) else None)).
Proof. exact proxy_direct_valid. Qed.
Print Assumptions c01_proxy_instance_serves_valid_session.

(** The refresh path keeps the session's identity: the refreshed record has the same session id, ID token,
    authentication level and life span as the one it was made from. *)
Theorem c01_refresh_keeps_identity : forall c cur a r secs now,
  created (sd_md (refreshed_data c cur a r secs now)) = created (sd_md cur) /\
  ends (sd_md (refreshed_data c cur a r secs now)) = ends (sd_md cur) /\
  sd_sid (refreshed_data c cur a r secs now) = sd_sid cur /\
  sd_idt (refreshed_data c cur a r secs now) = sd_idt cur /\
  sd_acr (refreshed_data c cur a r secs now) = sd_acr cur.
Proof. exact refreshed_data_same_life. Qed.
Print Assumptions c01_refresh_keeps_identity.

(** The refresh path: the conditional write of the refreshing request stores, under the cookie's key and data key,
    exactly the record it then answers with - so the token it forwards is the one now in the store. *)
Theorem c01_refresh_path_token_is_stored : forall c w t old new tok start e,
  t_phase t = PUpdSet old new tok start -> t_cancel t = false ->
  store_get w (cookie_key (t_cookie t)) = Some e ->
  let w' := fst (fst (step c w t FNone)) in let t' := snd (fst (step c w t FNone)) in
  alookup (cookie_key (t_cookie t)) (w_store w') =
    Some {| e_dek := cookie_dek (t_cookie t); e_data := new; e_exp := e_exp e |} /\
  t_phase t' = to_unlock c t old tok (ROk new) (w_clock w).
Proof. exact refresh_write_stores_answer. Qed.
Print Assumptions c01_refresh_path_token_is_stored.

Example c01_nonvacuous :
  let s := run_events (mk_config true false false None (7200 * second) 2 0 true false true true true) (init_state 3600)
             [ELogin 1 2; ESpawn 1 KProxy (CTicket 1 1); ERun 1 FNone] in
  exists th, alookup 1%N (m_ts s) = Some th /\ t_phase th = PDone (OForward (Some 1%N) (Some 1%N)).
Proof. vm_compute. eexists. split; reflexivity. Qed.
