(** C03 — only an ID token passing every OpenID Connect check can create a session. *)
From Coq Require Import NArith ZArith Bool List.
From WW Require Import Gen.Params Base.Bytes Model.IdToken Model.EntryIdToken Proofs.IdTokenP.
Import ListNotations.
Open Scope Z_scope.

Lemma pin_acceptable_skew : acceptable_skew = 5 * second. Proof. reflexivity. Qed.

(** The sequential checker (early returns as in the code) accepts a token iff: its signature verifies under the
    first published key carrying the token's kid, with THAT KEY's algorithm (which must be a signature algorithm
    with a verifier; the key must not be an encryption key); iss = issuer; sub present; aud contains the client id
    and, when there are several audiences, all are trusted; exp and iat present; exp / iat / nbf hold within the
    skew after truncation to seconds; nonce = the login attempt's nonce; sid present when required; acr present
    when a level is configured and at least the requested level. For all tokens, key sets, configurations, times. *)
Theorem c03_accept_iff_all_checks : forall c nonce cookie_acr ks t now,
  idtoken_validate c nonce cookie_acr ks t now = true <-> accept_spec c nonce cookie_acr ks t now.
Proof. exact idtoken_validate_iff. Qed.
Print Assumptions c03_accept_iff_all_checks.

(** On the current code (strict expiry) an accepted token is unexpired within the skew: no exemption for exp = 0. *)
Theorem c03_accepted_not_expired : forall c nonce ca ks t now,
  v_exp_strict c = true -> idtoken_validate c nonce ca ks t now = true ->
  exists e, t_exp t = Some e /\ trunc_s now < trunc_s e + v_skew c.
Proof. exact accepted_not_expired. Qed.
Print Assumptions c03_accepted_not_expired.

(** Before that fix (flag off) jwx's treatment of a zero time as 'absent' let "exp": 0 through. *)
Example c03_epoch_exp_refuted :
  let c := mk_icfg [105]%N [99]%N [] false false false in
  let k := {| k_kid := [107]%N; k_mat := 1%N; k_alg := Some ARS256; k_use := USig |} in
  let t := {| t_kid := Some [107]%N; t_hdr_alg := ARS256; t_signed := Some (1%N, ARS256); t_iss := Some [105]%N; t_sub := Some [115]%N;
              t_aud := Some [[99]%N]; t_exp := Some 0; t_iat := Some (10 * second); t_nbf := None;
              t_nonce := Some [110]%N; t_sid := true; t_acr_present := false; t_acr := [] |} in
  idtoken_validate c [110]%N [] [k] t (946684800 * second) = true.
Proof. vm_compute. reflexivity. Qed.

(** A token response leads to acceptance only if it contains a well-formed string id_token that passes. *)
Theorem c03_only_valid_id_token : forall c nonce ca ks r now,
  new_tokens c nonce ca ks r now = true -> exists t, r = RespToken t /\ accept_spec c nonce ca ks t now.
Proof. exact new_tokens_needs_token. Qed.
Print Assumptions c03_only_valid_id_token.

(** Never 'none', never unsigned, never a symmetric algorithm keyed by public material: whatever the header says,
    a token not signed under a published key with that key's own algorithm is rejected. *)
Theorem c03_unsigned_rejected : forall c nonce ca ks t now,
  t_signed t = None -> idtoken_validate c nonce ca ks t now = false.
Proof. exact none_and_unsigned_rejected. Qed.
Print Assumptions c03_unsigned_rejected.

Theorem c03_symmetric_confusion_rejected : forall c nonce ca ks t now m,
  (forall k, In k ks -> k_alg k <> Some AHS256) -> t_signed t = Some (m, AHS256) ->
  idtoken_validate c nonce ca ks t now = false.
Proof. exact symmetric_confusion_rejected. Qed.
Print Assumptions c03_symmetric_confusion_rejected.

Theorem c03_wrong_key_or_algorithm_rejected : forall c nonce ca ks t now,
  (forall kid k a, t_kid t = Some kid -> lookup_kid kid ks = Some k -> k_alg k = Some a -> t_signed t <> Some (k_mat k, a)) ->
  idtoken_validate c nonce ca ks t now = false.
Proof. exact wrong_signature_rejected. Qed.
Print Assumptions c03_wrong_key_or_algorithm_rejected.

(** Keys published without "alg" are given the configured algorithm: afterwards every key has one. *)
Theorem c03_keys_have_algorithm_after_mutation : forall dflt ks k, In k (mutate_keys dflt ks) -> k_alg k <> None.
Proof. exact mutate_keys_alg. Qed.
Print Assumptions c03_keys_have_algorithm_after_mutation.

(** acr ordering with the tables of the compiled code: high satisfies substantial, not the reverse; legacy names map. *)
Example c03_acr_order :
  acr_validate acr_legacy_mapping s_substantial s_high = true /\
  acr_validate acr_legacy_mapping s_high s_substantial = false /\
  acr_validate acr_legacy_mapping [76;101;118;101;108;51]%N s_high = true /\         (* Level3 *)
  acr_validate acr_legacy_mapping [76;101;118;101;108;52]%N s_substantial = false.   (* Level4 *)
Proof. vm_compute. auto. Qed.

Example c03_nonvacuous :
  let c := mk_icfg [105]%N [99]%N [] true false true in
  let k := {| k_kid := [107]%N; k_mat := 1%N; k_alg := Some ARS256; k_use := USig |} in
  let t := {| t_kid := Some [107]%N; t_hdr_alg := ARS256; t_signed := Some (1%N, ARS256); t_iss := Some [105]%N; t_sub := Some [115]%N;
              t_aud := Some [[99]%N]; t_exp := Some (100 * second); t_iat := Some (10 * second); t_nbf := None;
              t_nonce := Some [110]%N; t_sid := true; t_acr_present := false; t_acr := [] |} in
  idtoken_validate c [110]%N [] [k] t (50 * second) = true /\ idtoken_validate c [110]%N [] [k] t (105 * second) = false.
Proof. vm_compute. auto. Qed.
