(** C14 — cookies carry safe attributes and are cleared with the scope they were set with.
    Statements only; proofs are in Proofs/CookieP.v, JarP.v, CookieJarP.v. The model (Model/Cookie.v, CookieUrl.v,
    Jar.v, Retry.v) is a transliteration of the Go code and is compared with it on every run (`wwh cookies`). *)
From Coq Require Import NArith ZArith List Bool String Ascii.
From WW Require Import Base.Bytes Gen.Params Model.CookieUrl Model.Cookie Model.Jar Model.Retry
  Proofs.CookieP Proofs.JarP Proofs.CookieJarP Proofs.SsoProxyJarP Proofs.CookieLeftoverP.
Import ListNotations.
Open Scope Z_scope.

Definition b (s : string) : bytes := map N_of_ascii (list_ascii_of_string s).

(** (1)+(2) Every Set-Cookie of every kresponse of every handler, in every configuration and for every krequest:
    HttpOnly; Secure exactly when configured; SameSite=None only on the SSO server with same-site "None" configured,
    and never on the login cookie. *)
Theorem c14_attributes : forall cfg r sc, In sc (rs_cookies (handle cfg r)) ->
  c_httponly sc = true /\
  c_secure sc = cf_secure cfg /\
  (c_samesite sc = SSNone -> cf_samesite cfg = s_none /\ cf_sso_server cfg = true).
Proof.
  intros cfg r sc Hin.
  pose proof (proj1 (Forall_forall _ _) (handle_sites cfg r) sc Hin) as (s & v & m & ->).
  split; [apply emit_httponly|]. split; [apply emit_secure|].
  intros H. apply emit_samesite_none in H as (H1 & H2 & _). auto.
Qed.
Print Assumptions c14_attributes.

(** the login cookie (set and clear) is always SameSite=Lax *)
Theorem c14_login_cookie_lax : forall cfg mp s v m, site_kind s = CkLogin -> c_samesite (site_emit cfg mp s v m) = SSLax.
Proof. intros cfg mp s v m H. rewrite emit_samesite, site_options_samesite, H. reflexivity. Qed.
Print Assumptions c14_login_cookie_lax.

(** (1) the exemption: a configuration that passes start-up validation with secure cookies disabled has only ingresses
    that url.ParseRequestURI reads as scheme "http" and host name (port stripped, ASCII case folded) "localhost".
    Ingress strings outside the modelled fragment of net/url make [validate_cookie] answer VUnmodelled, not VOk. *)
Theorem c14_insecure_only_localhost : forall cfg, validate_cookie cfg = VOk -> cf_secure cfg = false ->
  Forall (fun raw => exists sch host path, parse_request_uri raw = UOk sch host path /\
                     sch = s_http /\ to_lower (hostname host) = s_localhost) (cf_ingresses cfg).
Proof. exact validate_insecure_localhost. Qed.
Print Assumptions c14_insecure_only_localhost.

(** (3) scope. Standalone: no Domain; Path = matching ingress path of the krequest, "/" if that is empty; the logout
    and the legacy cookie always have Path=/. SSO server: Domain = sso.domain and Path=/ for every cookie. *)
Theorem c14_scope_standalone : forall cfg mp s v m, cf_sso_server cfg = false ->
  c_domain (site_emit cfg mp s v m) = [] /\
  c_path (site_emit cfg mp s v m) = if path_from_request s then eff_path mp else slash.
Proof. exact site_scope_standalone. Qed.
Print Assumptions c14_scope_standalone.

Theorem c14_scope_sso : forall cfg mp s v m, cf_sso_server cfg = true ->
  c_domain (site_emit cfg mp s v m) = cf_sso_domain cfg /\ c_path (site_emit cfg mp s v m) = slash.
Proof. exact site_scope_sso. Qed.
Print Assumptions c14_scope_sso.

(** (4) every clear has the name, Domain and Path of every set of the same cookie — unconditionally on the SSO
    server and for the logout/legacy cookies, otherwise when both requests have the same matching ingress path *)
Theorem c14_clear_matches_set : forall cfg mp1 mp2 sc ss v1 m1 v2 m2,
  site_is_clear sc = true -> site_is_clear ss = false -> site_kind sc = site_kind ss ->
  (cf_sso_server cfg = true \/ path_from_request sc = false \/ eff_path mp1 = eff_path mp2) ->
  scope (site_emit cfg mp1 sc v1 m1) = scope (site_emit cfg mp2 ss v2 m2).
Proof. intros cfg mp1 mp2 sc ss v1 m1 v2 m2 _ _. apply clear_matches_set. Qed.
Print Assumptions c14_clear_matches_set.

(** ... and in the browser: set (n,d,p) followed by a clear (n,d,p) from the same host leaves no cookie (n,d,p);
    everything else in the jar is untouched *)
Theorem c14_set_then_clear_absent : forall now1 now2 u1 u2 c1 c2 j D ho e,
  c_name c2 = c_name c1 -> c_domain c2 = c_domain c1 -> jar_path u2 c2 = jar_path u1 c1 -> u_host u2 = u_host u1 ->
  c_maxage c2 < 0 -> domain_and_type (u_host u1) (c_domain c1) = Some (D, ho) ->
  In e (jar_set now2 u2 c2 (jar_set now1 u1 c1 j)) ->
  same_id (c_name c1) D (jar_path u1 c1) e = false /\ In e j.
Proof. exact set_then_clear. Qed.
Print Assumptions c14_set_then_clear_absent.

(** Histories. A browser with an empty jar talks to one host of the deployment; [steps] is any sequence of
    requests (any endpoints, waiting times, failures). If all requests have the same matching ingress path
    ([kind_ok]: trivially true on the SSO server and for a deployment with one ingress path), then

    after any logout, local logout or front-channel logout not answered through the error handler, the jar sends the
    session cookie to no URL at any time: *)
Theorem c14_jar_after_logout : forall e steps dt q f mp trust now u,
  Forall (fun s => kind_ok e mp (snd (fst s)) CkSession) steps -> kind_ok e mp q CkSession ->
  q_ep q = EpLogout \/ q_ep q = EpLogoutLocal \/ q_ep q = EpFrontChannel ->
  let b0 := sleep (run_jar_seq e {| b_jar := []; b_now := 0; b_session := false |} steps) dt in
  rs_kind (fst (do_request e b0 q f)) = CrOther ->
  jar_cookie trust now u (b_jar (snd (do_request e b0 q f))) (cookie_name (e_cfg e) CkSession) = None.
Proof.
  intros e steps dt q f mp trust now u Hs Hq Hep b0 Hk. apply no_named_not_sent.
  apply (history_cleared e steps dt q f mp CkSession Hs Hq).
  rewrite do_request_response in *. apply logout_clears_session; assumption.
Qed.
Print Assumptions c14_jar_after_logout.

(** the same for an environment built from a configuration whose ingresses parse: the only hypothesis left is
    "SSO server, or every krequest of the history and the logout have the same matching ingress path" *)
Theorem c14_jar_after_logout_same_path : forall cfg ings e steps dt q f mp trust now u,
  parse_ingresses_full cfg = Some ings -> e_cfg e = cfg -> e_ingresses e = ings ->
  (cf_sso_server cfg = true \/
   Forall (fun s => eff_path (e_mp e (q_path (snd (fst s)))) = eff_path mp) steps /\
   eff_path (e_mp e (q_path q)) = eff_path mp) ->
  q_ep q = EpLogout \/ q_ep q = EpLogoutLocal \/ q_ep q = EpFrontChannel ->
  let b0 := sleep (run_jar_seq e {| b_jar := []; b_now := 0; b_session := false |} steps) dt in
  rs_kind (fst (do_request e b0 q f)) = CrOther ->
  jar_cookie trust now u (b_jar (snd (do_request e b0 q f))) (cookie_name (e_cfg e) CkSession) = None.
Proof.
  intros cfg ings e steps dt q f mp trust now u Hp Hc Hi Hs Hep.
  apply (c14_jar_after_logout e steps dt q f mp trust now u); [| |exact Hep].
  - apply Forall_forall. intros s Hin. apply (kind_ok_of_same_path cfg ings e mp _ CkSession Hp Hc Hi eq_refl).
    destruct Hs as [Hs|[Hs _]]; [now left|right]. exact (proj1 (Forall_forall _ _) Hs s Hin).
  - apply (kind_ok_of_same_path cfg ings e mp _ CkSession Hp Hc Hi eq_refl).
    destruct Hs as [Hs|[_ Hs]]; [now left|now right].
Qed.
Print Assumptions c14_jar_after_logout_same_path.

(** after every callback, successful or not, no login cookie: *)
Theorem c14_jar_after_callback : forall e steps dt q f mp trust now u,
  Forall (fun s => kind_ok e mp (snd (fst s)) CkLogin) steps -> kind_ok e mp q CkLogin -> q_ep q = EpCallback ->
  let b0 := sleep (run_jar_seq e {| b_jar := []; b_now := 0; b_session := false |} steps) dt in
  jar_cookie trust now u (b_jar (snd (do_request e b0 q f))) (cookie_name (e_cfg e) CkLogin) = None.
Proof.
  intros e steps dt q f mp trust now u Hs Hq Hep b0. apply no_named_not_sent.
  apply (history_cleared e steps dt q f mp CkLogin Hs Hq).
  rewrite do_request_response. now apply callback_clears_login.
Qed.
Print Assumptions c14_jar_after_callback.

(** after the logout callback no logout cookie — for every history, nested ingresses included, because the logout
    cookie is set and cleared with the handler's own options: *)
Theorem c14_jar_after_logout_callback : forall e steps dt q f trust now u,
  q_ep q = EpLogoutCallback ->
  let b0 := sleep (run_jar_seq e {| b_jar := []; b_now := 0; b_session := false |} steps) dt in
  jar_cookie trust now u (b_jar (snd (do_request e b0 q f))) (cookie_name (e_cfg e) CkLogout) = None.
Proof.
  intros e steps dt q f trust now u Hep b0. apply no_named_not_sent.
  apply (history_cleared e steps dt q f [] CkLogout).
  - apply Forall_forall. intros s _. right. reflexivity.
  - right. reflexivity.
  - rewrite do_request_response. now apply logout_callback_clears_logout.
Qed.
Print Assumptions c14_jar_after_logout_callback.

(** SSO deployments with BOTH parties. The browser talks to the SSO server [e] (where every login happens) and to an SSO
    proxy [pe] in front of an application on the same SSO domain; the proxy relays local and front-channel logout to the
    server together with the request's cookies and relays the server's answer - every Set-Cookie header included - back
    (Model/Retry.v do_request_proxy; compared with the real handler.NewSSOProxy in front of the real SSO server router
    on every run, `wwh cookies` kind cpscript). [same_deployment]: one cookie configuration, and both hosts lie under
    the SSO domain (the browser files the session cookie under the same Domain and Path whichever host sent it).
    After ANY history of requests to either party, a logout - at the server, or relayed through the proxy - that is not
    answered through the error handler leaves the browser without a session cookie for any URL: *)
Theorem c14_jar_after_logout_sso_proxy : forall e pe steps dt (px : bool) q f mp trust now u,
  same_deployment e pe mp CkSession ->
  Forall (px_kind_ok e pe mp CkSession) steps -> kind_ok (if px then pe else e) mp q CkSession ->
  (if px then q_ep q = EpLogoutLocal \/ q_ep q = EpFrontChannel
   else q_ep q = EpLogout \/ q_ep q = EpLogoutLocal \/ q_ep q = EpFrontChannel) ->
  let b0 := sleep (run_jar_seq_px e pe {| b_jar := []; b_now := 0; b_session := false |} steps) dt in
  rs_kind (fst (px_step e pe px b0 q f)) = CrOther ->
  jar_cookie trust now u (b_jar (snd (px_step e pe px b0 q f))) (cookie_name (e_cfg e) CkSession) = None.
Proof.
  intros e pe steps dt px q f mp trust now u Hd Hs Hq Hep b0 Hk. apply no_named_not_sent.
  apply (px_history_cleared e pe steps dt px q f mp CkSession Hd Hs Hq).
  - intros ->. exact Hep.
  - fold b0. unfold px_step in *. destruct px.
    + assert (Hrel : do_request_proxy pe b0 q f = do_request pe b0 q f).
      { unfold do_request_proxy. destruct Hep as [-> | ->]; reflexivity. }
      rewrite Hrel in *. rewrite do_request_response in *. destruct Hd as [Hc _]. rewrite <- Hc.
      apply logout_clears_session; [|exact Hk]. cbn [r_ep build_request]. tauto.
    + rewrite do_request_response in *. apply logout_clears_session; assumption.
Qed.
Print Assumptions c14_jar_after_logout_sso_proxy.

Definition sso_cfg : kconfig :=
  {| cf_secure := true; cf_samesite := b "Lax"; cf_prefix := b "io.nais.wonderwall";
     cf_ingresses := [b "https://sso.example.com"];
     cf_sso_server := true; cf_sso_domain := b "example.com"; cf_sso_name := b "sso.session"; cf_legacy := false;
     cf_rl_enabled := false; cf_rl_logins := 5; cf_rl_window := 5000000000; cf_seg_prefix := true; cf_rl_ceil := true |}.

Example c14_sso_proxy_nonvacuous :
  let e := {| e_cfg := sso_cfg; e_ingresses := [(b "sso.example.com", [])]; e_hostport := b "sso.example.com"; e_https := true;
              e_host := b "sso.example.com"; e_trust := false |} in
  let pe := {| e_cfg := sso_cfg; e_ingresses := [(b "app.example.com", b "/app")]; e_hostport := b "app.example.com"; e_https := true;
               e_host := b "app.example.com"; e_trust := false |} in
  let login := [(false, 0, {| q_ep := EpLogin; q_path := b "/oauth2/login"; q_prompt := false |}, CFNone);
                (false, 0, {| q_ep := EpCallback; q_path := b "/oauth2/callback"; q_prompt := false |}, CFNone);
                (true, 0, {| q_ep := EpLogin; q_path := b "/app/oauth2/login"; q_prompt := false |}, CFNone)] in
  let q := {| q_ep := EpLogoutLocal; q_path := b "/app/oauth2/logout/local"; q_prompt := false |} in
  let at_app := {| u_https := true; u_host := b "app.example.com"; u_path := b "/app/page" |} in
  let at_sso := {| u_https := true; u_host := b "sso.example.com"; u_path := b "/" |} in
  let b1 := run_jar_seq_px e pe {| b_jar := []; b_now := 0; b_session := false |} login in
  same_deployment e pe [] CkSession /\ Forall (px_kind_ok e pe [] CkSession) login /\ kind_ok pe [] q CkSession /\
  jar_cookie false 1 at_app (b_jar b1) (cookie_name sso_cfg CkSession) = Some VOpaque /\
  jar_cookie false 1 at_sso (b_jar b1) (cookie_name sso_cfg CkSession) = Some VOpaque /\
  rs_status (fst (px_step e pe true b1 q CFNone)) = 204 /\
  jar_cookie false 1 at_app (b_jar (snd (px_step e pe true b1 q CFNone))) (cookie_name sso_cfg CkSession) = None /\
  jar_cookie false 1 at_sso (b_jar (snd (px_step e pe true b1 q CFNone))) (cookie_name sso_cfg CkSession) = None.
Proof.
  assert (K : forall env q0, cf_sso_server (e_cfg env) = true ->
                e_mp env (q_path q0) = [] \/ wf_path (e_mp env (q_path q0)) -> kind_ok env [] q0 CkSession).
  { intros env q0 Hs Hw. left. split; [reflexivity|]. split; [now left|exact Hw]. }
  split; [split; reflexivity|]. split.
  { apply Forall_cons; [|apply Forall_cons; [|apply Forall_cons; [|apply Forall_nil]]]; unfold px_kind_ok;
      (apply K; [reflexivity|]); vm_compute; first [now left | right; eexists; reflexivity]. }
  split. { apply K; [reflexivity|]. vm_compute. right. eexists. reflexivity. }
  vm_compute. repeat split; reflexivity.
Qed.

(** Refutation of (4) without the same-matching-path hypothesis: two ingresses on one host with nested paths.
    Login under "/" stores the session cookie with Path=/; the local logout of the application under /app answers
    204 and clears Path=/app; the browser still sends the session cookie to every URL of the host. *)
Definition nested_cfg : kconfig :=
  {| cf_secure := true; cf_samesite := b "Lax"; cf_prefix := b "io.nais.wonderwall";
     cf_ingresses := [b "https://h.example.com"; b "https://h.example.com/app"];
     cf_sso_server := false; cf_sso_domain := []; cf_sso_name := []; cf_legacy := false;
     cf_rl_enabled := true; cf_rl_logins := 5; cf_rl_window := 5000000000; cf_seg_prefix := true; cf_rl_ceil := true |}.

Definition env_of (c : kconfig) (host : string) : site_env :=
  {| e_cfg := c; e_ingresses := match parse_ingresses_full c with Some l => l | None => [] end;
     e_hostport := b host; e_https := true; e_host := b host; e_trust := false |}.

Definition rq (ep : kendpoint) (path : string) : breq := {| q_ep := ep; q_path := b path; q_prompt := false |}.

Theorem c14_nested_prefix_refuted :
  validate_cookie nested_cfg = VOk /\ parse_ingresses nested_cfg = Some [[]; b "/app"] /\
  let e := env_of nested_cfg "h.example.com" in
  let b1 := run_jar_seq e {| b_jar := []; b_now := 0; b_session := false |}
              [(0, rq EpLogin "/oauth2/login", CFNone); (0, rq EpCallback "/oauth2/callback", CFNone)] in
  let '(rs, b2) := do_request e b1 (rq EpLogoutLocal "/app/oauth2/logout/local") CFNone in
  rs_status rs = 204 /\ rs_kind rs = CrOther /\
  map scope (rs_cookies rs) = [(b "io.nais.wonderwall.session", [], b "/app")] /\
  jar_cookie false 1 {| u_https := true; u_host := b "h.example.com"; u_path := b "/" |} (b_jar b2)
             (cookie_name nested_cfg CkSession) = Some VOpaque /\
  jar_cookie false 1 {| u_https := true; u_host := b "h.example.com"; u_path := b "/app/x" |} (b_jar b2)
             (cookie_name nested_cfg CkSession) = Some VOpaque.
Proof. vm_compute. repeat split; reflexivity. Qed.
Print Assumptions c14_nested_prefix_refuted.

(** Non-vacuity of c14_jar_after_logout: with the single ingress https://h.example.com/app every krequest has the
    matching path /app; after login + callback the jar sends the session cookie, after the logout it does not. *)
Definition single_cfg : kconfig :=
  {| cf_secure := true; cf_samesite := b "Lax"; cf_prefix := b "io.nais.wonderwall";
     cf_ingresses := [b "https://h.example.com/app"];
     cf_sso_server := false; cf_sso_domain := []; cf_sso_name := []; cf_legacy := false;
     cf_rl_enabled := true; cf_rl_logins := 5; cf_rl_window := 5000000000; cf_seg_prefix := true; cf_rl_ceil := true |}.

(** Names: "the same name ... it used when setting it" presupposes that a name identifies a cookie: for every prefix, every
    mode and every sso.session-cookie-name other than wonderwall's own two fixed names (the login counter's and the legacy
    cookie's) the six cookie names are pairwise different, so no Set-Cookie of one kind ever replaces or clears a cookie of
    another kind in the browser. *)
Theorem c14_cookie_names_pairwise_distinct : forall cfg k1 k2,
  (cf_sso_server cfg = true ->
   cf_sso_name cfg <> with_prefix default_prefix n_logincount /\ cf_sso_name cfg <> n_legacy) ->
  k1 <> k2 -> cookie_name cfg k1 <> cookie_name cfg k2.
Proof. exact names_distinct_all. Qed.
Print Assumptions c14_cookie_names_pairwise_distinct.

Example c14_nonvacuous :
  let e := env_of single_cfg "h.example.com" in
  let steps := [(0, rq EpLogin "/app/oauth2/login", CFNone); (0, rq EpCallback "/app/oauth2/callback", CFNone)] in
  let q := rq EpLogoutLocal "/app/oauth2/logout/local" in
  let u := {| u_https := true; u_host := b "h.example.com"; u_path := b "/app/page" |} in
  let b1 := run_jar_seq e {| b_jar := []; b_now := 0; b_session := false |} steps in
  Forall (fun s => kind_ok e (b "/app") (snd (fst s)) CkSession) steps /\ kind_ok e (b "/app") q CkSession /\
  jar_cookie false 1 u (b_jar b1) (cookie_name single_cfg CkSession) = Some VOpaque /\
  jar_cookie false 1 u (b_jar b1) (cookie_name single_cfg CkLogin) = None /\
  rs_kind (fst (do_request e b1 q CFNone)) = CrOther /\
  jar_cookie false 1 u (b_jar (snd (do_request e b1 q CFNone))) (cookie_name single_cfg CkSession) = None.
Proof.
  cbv zeta.
  split; [|split].
  - apply Forall_cons; [|apply Forall_cons; [|apply Forall_nil]];
      (left; split; [reflexivity|]; unfold same_mp; split; [right; vm_compute; reflexivity|right; vm_compute; eexists; reflexivity]).
  - left. split; [reflexivity|]. unfold same_mp. split; [right; vm_compute; reflexivity|right; vm_compute; eexists; reflexivity].
  - vm_compute. repeat split; reflexivity.
Qed.

(** Non-vacuity of the validation theorem: http://localhost:8080 is accepted with secure cookies disabled,
    http://app.example.com and https://localhost are refused. *)
Example c14_validate_nonvacuous :
  let cfg := fun ing => {| cf_secure := false; cf_samesite := b "Lax"; cf_prefix := b "p"; cf_ingresses := [b ing];
                           cf_sso_server := false; cf_sso_domain := []; cf_sso_name := []; cf_legacy := false;
                           cf_rl_enabled := true; cf_rl_logins := 5; cf_rl_window := 5000000000; cf_seg_prefix := true; cf_rl_ceil := true |} in
  validate_cookie (cfg "http://LocalHost:8080/app"%string) = VOk /\
  validate_cookie (cfg "http://app.example.com"%string) = VReject /\
  validate_cookie (cfg "https://localhost"%string) = VReject /\
  validate_cookie (cfg "http://localhost.evil.com"%string) = VReject.
Proof. vm_compute. repeat split; reflexivity. Qed.

(** (3') "without a Domain in standalone mode", whatever else the configuration carries: an instance that is not an SSO server
    answers every request exactly as it would with empty sso.domain / sso.session-cookie-name - status and every Set-Cookie
    header (name, value, Domain, Path, SameSite, Secure, Max-Age). Settings of a mode the instance is not in are dead.
    (Tied to the real code by the cookie histories under standalone configurations with left-over sso.* settings.) *)
Theorem c14_standalone_ignores_sso_settings : forall cfg d n r, cf_sso_server cfg = false ->
  handle (with_sso_leftover cfg d n) r = handle cfg r.
Proof. exact standalone_handle_ignores_sso_leftover. Qed.
Print Assumptions c14_standalone_ignores_sso_settings.

Theorem c14_standalone_emit_ignores_sso_settings : forall cfg d n mp s v m, cf_sso_server cfg = false ->
  site_emit (with_sso_leftover cfg d n) mp s v m = site_emit cfg mp s v m.
Proof. exact standalone_emit_ignores_sso_leftover. Qed.
Print Assumptions c14_standalone_emit_ignores_sso_settings.

Theorem c14_standalone_names_ignore_sso_settings : forall cfg d n k, cf_sso_server cfg = false ->
  cookie_name (with_sso_leftover cfg d n) k = cookie_name cfg k.
Proof. exact standalone_names_ignore_sso_leftover. Qed.
Print Assumptions c14_standalone_names_ignore_sso_settings.

(** Non-vacuity: with sso.domain = example.com left in the configuration, the session cookie of a standalone instance has no
    Domain; the same settings on an SSO server put Domain=example.com on it. *)
Example c14_leftover_nonvacuous :
  let mk := fun sso => {| cf_secure := true; cf_samesite := b "None"; cf_prefix := b "io.nais.wonderwall";
                cf_ingresses := [b "https://app.example.com"]; cf_sso_server := sso;
                cf_sso_domain := []; cf_sso_name := []; cf_legacy := false; cf_rl_enabled := false; cf_rl_logins := 5;
                cf_rl_window := 5000000000; cf_seg_prefix := true; cf_rl_ceil := true |} in
  c_domain (site_emit (with_sso_leftover (mk false) (b "example.com") (b "sso.session.name")) [] S_callback_set_session VOpaque 3600) = [] /\
  c_domain (site_emit (with_sso_leftover (mk true) (b "example.com") (b "sso.session.name")) [] S_callback_set_session VOpaque 3600) = b "example.com".
Proof. vm_compute. split; reflexivity. Qed.
