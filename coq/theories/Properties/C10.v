From Coq Require Import ZArith NArith Bool List.
From WW Require Import Gen.Params Base.AMap Model.SessionTime Model.Machine Model.Entry Proofs.MachineRefute.
Import ListNotations.
Open Scope Z_scope.
Theorem c10_update_race_refuted :
  let s := run_events (cfg_redis false false false) (init_state 3600) race_schedule in
  thread_done s 2 (OStatus 302) /\ exists e, store_get (m_w s) 1 = Some e /\ e_exp e = None.
Proof. exact update_race_resurrects. Qed.
Print Assumptions c10_update_race_refuted.
