(** C10 — store contents are always expiry-bounded, also after a crash at any point. *)
From Coq Require Import ZArith NArith Bool List.
From WW Require Import Gen.Params Base.AMap Model.SessionTime Model.Machine Model.Entry
     Proofs.MachineP Proofs.MachineRefute.
Import ListNotations.
Open Scope Z_scope.

Lemma pin_lock_lease : lock_duration = 10 * second. Proof. reflexivity. Qed.
Lemma pin_lock_acquire_timeout : lock_acquire_timeout = 15 * second. Proof. reflexivity. Qed.

(** In every state reachable by any event list (every interleaving, any thread abandoned at any operation
    boundary = crashed, any fault, any clock advance): every session entry of the shared store has an expiry
    at most max-lifetime ahead, every lock entry an expiry at most one lease ahead. *)
Theorem c10_ttl_invariant : forall c es tau,
  c_upd_atomic c = true -> 0 <= c_maxlife c ->
  ttl_inv c (m_w (run_events c (init_state tau) es)).
Proof. intros. apply ttl_invariant; auto. apply ttl_inv_init. Qed.
Print Assumptions c10_ttl_invariant.

(** What a reader sees: a positive remaining time-to-live, no longer than the maximum lifetime. *)
Theorem c10_live_entry_ttl : forall c w k e,
  ttl_inv c w -> c_redis c = true -> store_get w k = Some e ->
  exists x, e_exp e = Some x /\ 0 < x - w_clock w <= c_maxlife c.
Proof. exact live_entry_ttl. Qed.
Print Assumptions c10_live_entry_ttl.

(** A lock left by a crashed refresher is gone once the (ten-second) lease has passed. *)
Theorem c10_lock_gone_after_lease : forall c w k d,
  ttl_inv c w -> c_lock_lease c <= d -> lock_get (set_clock w (w_clock w + d)) k = None.
Proof. exact lock_gone_after_lease. Qed.
Print Assumptions c10_lock_gone_after_lease.

(** Pre-fix code (flag off): the update race leaves an entry without any expiry. *)
Theorem c10_immortal_key_refuted :
  let s := run_events (cfg_redis false false false) (init_state 3600) race_schedule in
  thread_done s 2 (OStatus 302) /\ exists e, store_get (m_w s) 1 = Some e /\ e_exp e = None.
Proof. exact update_race_resurrects. Qed.
Print Assumptions c10_immortal_key_refuted.

Example c10_nonvacuous :
  let s := run_events (cfg_redis true true true) (init_state 3600) [ELogin 1 2; ETick (100 * second)] in
  exists e, store_get (m_w s) 1 = Some e /\ e_exp e = Some (7200 * second).
Proof. vm_compute. eexists. split; reflexivity. Qed.

(** * Lineage form: the expiry of an entry is the creation of the session it holds plus the maximum lifetime *)
From WW Require Import Proofs.MachineLifeP Proofs.MachineTtlP.

(** Setting: the shared (Redis) store with the single conditional write (the current code); ANY event list:
    every interleaving of any number of request threads, every fault, cancellation, crash (a thread that is
    never run again), ticks, provider changes.
    Hypothesis (proved form: the history-level one): no session id is logged in twice in the history,
    [NoDup (login_sids es)] with [login_sids es] the ids of the [ELogin] events of [es] in order.
    Conclusion, for every entry of the store in the final state: its expiry is exactly the end of the session
    record it holds, and that is the record's creation time plus the maximum lifetime. *)
Theorem c10_expiry_is_creation_plus_max_lifetime : forall c tau es,
  c_redis c = true -> c_upd_atomic c = true -> NoDup (login_sids es) ->
  forall k e, alookup k (w_store (m_w (run_events c (init_state tau) es))) = Some e ->
    e_exp e = Some (sd_ends (e_data e)) /\ sd_ends (e_data e) = sd_created (e_data e) + c_maxlife c.
Proof. exact expiry_is_session_end. Qed.
Print Assumptions c10_expiry_is_creation_plus_max_lifetime.

(** In the property's words: the expiry is never later than creation + maximum lifetime (it is equal to it). *)
Theorem c10_expiry_never_later_than_creation_plus_max_lifetime : forall c tau es,
  c_redis c = true -> c_upd_atomic c = true -> NoDup (login_sids es) ->
  forall k e, alookup k (w_store (m_w (run_events c (init_state tau) es))) = Some e ->
    exists x, e_exp e = Some x /\ x = sd_created (e_data e) + c_maxlife c /\ x <= sd_created (e_data e) + c_maxlife c.
Proof. exact expiry_never_later. Qed.
Print Assumptions c10_expiry_never_later_than_creation_plus_max_lifetime.

(** What a reader of the store sees at time now: a live entry has the positive remaining time-to-live
    (creation + maximum lifetime) - now. *)
Theorem c10_remaining_ttl : forall c tau es,
  c_redis c = true -> c_upd_atomic c = true -> NoDup (login_sids es) ->
  let w := m_w (run_events c (init_state tau) es) in
  forall k e, store_get w k = Some e ->
    exists x, e_exp e = Some x /\
              x - w_clock w = sd_created (e_data e) + c_maxlife c - w_clock w /\
              0 < x - w_clock w.
Proof. exact live_entry_remaining_ttl. Qed.
Print Assumptions c10_remaining_ttl.

(** The same conclusion under the weaker, state-level hypothesis [login_quiet]: no successful login happens under
    a session id while a request thread whose cookie names that id holds a record it may still write (it is
    between its re-read under the lock and its store update). [NoDup (login_sids es)] implies it. *)
Theorem c10_expiry_is_creation_plus_max_lifetime_quiet : forall c tau es,
  c_redis c = true -> c_upd_atomic c = true -> login_quiet c (init_state tau) es ->
  forall k e, alookup k (w_store (m_w (run_events c (init_state tau) es))) = Some e ->
    e_exp e = Some (sd_ends (e_data e)) /\ sd_ends (e_data e) = sd_created (e_data e) + c_maxlife c.
Proof. exact expiry_is_session_end_quiet. Qed.
Print Assumptions c10_expiry_is_creation_plus_max_lifetime_quiet.

Theorem c10_no_relogin_implies_quiet : forall c tau es,
  c_upd_atomic c = true -> NoDup (login_sids es) -> login_quiet c (init_state tau) es.
Proof. exact nodup_login_quiet. Qed.
Print Assumptions c10_no_relogin_implies_quiet.

(** The invariant behind it (store entries AND the records held by threads), from any state satisfying it. *)
Theorem c10_lineage_invariant : forall c s0 es,
  c_redis c = true -> c_upd_atomic c = true -> lin_inv s0 -> login_quiet c s0 es ->
  lin_inv (run_events c s0 es).
Proof. exact lin_inv_run. Qed.
Print Assumptions c10_lineage_invariant.

(** The hypothesis cannot be dropped (known finding c10-stale-refresh-overwrites-relogin, current code): on
    [relogin_schedule] session id 1 is logged in twice, the in-flight refresh of the logged-out first session
    overwrites the re-login's entry (SET XX KEEPTTL), and the live entry then expires 3601 s - the re-login
    delay - AFTER the creation + maximum lifetime of the session record it holds. *)
Theorem c10_relogin_expiry_refuted :
  let c := cfg_redis true true true in
  let s := run_events c (init_state 3600) relogin_schedule in
  c_redis c = true /\ c_upd_atomic c = true /\ login_sids relogin_schedule = [1; 1]%N /\
  ~ NoDup (login_sids relogin_schedule) /\ ~ login_quiet c (init_state 3600) relogin_schedule /\
  exists e, store_get (m_w s) 1 = Some e /\
            sd_ends (e_data e) = sd_created (e_data e) + c_maxlife c /\
            e_exp e = Some (sd_created (e_data e) + c_maxlife c + 3601 * second).
Proof. exact relogin_expiry_refuted. Qed.
Print Assumptions c10_relogin_expiry_refuted.

(** Non-vacuity: three sessions created at 0 s, 10 s, 20 s; the first is refreshed (one accepted grant, the entry
    now holds refresh token 4), the third is logged out; no id is logged in twice; the two remaining entries are
    live and expire at creation + 7200 s. *)
Example c10_lineage_nonvacuous :
  let c := cfg_redis true true true in
  let s := run_events c (init_state 3600) lineage_schedule in
  c_redis c = true /\ c_upd_atomic c = true /\ NoDup (login_sids lineage_schedule) /\
  w_idp_log (m_w s) = [IdpGrant 1 true] /\
  thread_done s 1 (OForward (Some 4%N) None) /\ thread_done s 2 (OStatus 204) /\
  (exists e, store_get (m_w s) 1 = Some e /\ sd_rt (e_data e) = 4%N /\ sd_created (e_data e) = 0 /\
             e_exp e = Some (7200 * second)) /\
  (exists e, store_get (m_w s) 2 = Some e /\ sd_created (e_data e) = 10 * second /\
             e_exp e = Some (7210 * second)) /\
  store_get (m_w s) 3 = None.
Proof. exact lineage_nonvacuous. Qed.
Print Assumptions c10_lineage_nonvacuous.
