(** C10 — store contents are always expiry-bounded, also after a crash at any point. *)
From Coq Require Import ZArith NArith Bool List.
From WW Require Import Gen.Params Base.AMap Model.SessionTime Model.Machine Model.Entry
     Proofs.MachineP Proofs.MachineRefute.
Import ListNotations.
Open Scope Z_scope.

Lemma pin_lock_lease : lock_duration = 10 * second. Proof. reflexivity. Qed.
Lemma pin_lock_acquire_timeout : lock_acquire_timeout = 15 * second. Proof. reflexivity. Qed.

(** In every state reachable by any event list (every interleaving, any thread abandoned at any operation
    boundary = crashed, any fault, any clock advance): every session entry of the shared store has an expiry
    at most max-lifetime ahead, every lock entry an expiry at most one lease ahead. *)
Theorem c10_ttl_invariant : forall c es tau,
  c_upd_atomic c = true -> 0 <= c_maxlife c ->
  ttl_inv c (m_w (run_events c (init_state tau) es)).
Proof. intros. apply ttl_invariant; auto. apply ttl_inv_init. Qed.
Print Assumptions c10_ttl_invariant.

(** What a reader sees: a positive remaining time-to-live, no longer than the maximum lifetime. *)
Theorem c10_live_entry_ttl : forall c w k e,
  ttl_inv c w -> c_redis c = true -> store_get w k = Some e ->
  exists x, e_exp e = Some x /\ 0 < x - w_clock w <= c_maxlife c.
Proof. exact live_entry_ttl. Qed.
Print Assumptions c10_live_entry_ttl.

(** A lock left by a crashed refresher is gone once the (ten-second) lease has passed. *)
Theorem c10_lock_gone_after_lease : forall c w k d,
  ttl_inv c w -> c_lock_lease c <= d -> lock_get (set_clock w (w_clock w + d)) k = None.
Proof. exact lock_gone_after_lease. Qed.
Print Assumptions c10_lock_gone_after_lease.

(** Pre-fix code (flag off): the update race leaves an entry without any expiry. *)
Theorem c10_immortal_key_refuted :
  let s := run_events (cfg_redis false false false) (init_state 3600) race_schedule in
  thread_done s 2 (OStatus 302) /\ exists e, store_get (m_w s) 1 = Some e /\ e_exp e = None.
Proof. exact update_race_resurrects. Qed.
Print Assumptions c10_immortal_key_refuted.

Example c10_nonvacuous :
  let s := run_events (cfg_redis true true true) (init_state 3600) [ELogin 1 2; ETick (100 * second)] in
  exists e, store_get (m_w s) 1 = Some e /\ e_exp e = Some (7200 * second).
Proof. vm_compute. eexists. split; reflexivity. Qed.
