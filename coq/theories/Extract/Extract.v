(** Extraction of the executable model to OCaml. Only ExtrOcamlBasic is used;
    positive/N/Z stay Coq datatypes. Compiled outside the Makefile, in ml/gen. *)
Require Extraction.
Require Import ExtrOcamlBasic.
From WW Require Import Model.Entry.
Extraction "model.ml" entry_meta entry_machine mk_config.
