(** doublestar.Match (v4.8.1, match.go doMatchWithSeparator) for patterns that may also contain
    '?', character classes '[...]' and '\\' escapes. Same representation as Model/Glob.v (suffixes
    for indices). Used by the correspondence check only for patterns outside the proved fragment.
    NOT modelled: '{a,b}' alternatives ([has_brace] patterns are rejected by the entry point) and
    the error value (NeedsLogin discards it; a bad pattern yields false). Bytes, not runes. *)
From Coq Require Import NArith List Bool Arith.
From WW Require Import Base.Bytes Model.Glob.
Import ListNotations.
Open Scope N_scope.

Definition has_brace (pat : bytes) : bool := existsb (fun c => c =? 123) pat.

(* indexUnescapedByte(s, c, true) <> -1, returning the suffix after the found byte *)
Fixpoint after_unescaped (s : bytes) (c : N) : option bytes :=
  match s with
  | [] => None
  | x :: r =>
    if x =? 92 then match r with [] => None | _ :: r' => after_unescaped r' c end
    else if x =? c then Some r else after_unescaped r c
  end.

Definition rune_error : N := 65533.

Definition decode1 (r : bytes) : N * bytes :=
  match r with h :: t => (h, t) | [] => (rune_error, []) end.

(* the `for patIdx < patLen && pattern[patIdx] != ']'` loop of a character class *)
Fixpoint class_loop (fuel : nat) (ps : bytes) (nr : N) (last : option N) : bool * bytes :=
  match fuel with
  | O => (false, ps)
  | S f =>
    match ps with
    | [] => (false, [])
    | x :: r =>
      if x =? 93 then (false, ps)
      else
        let nonrange :=
          let '(pr, r1) := if x =? 92 then decode1 r else (x, r) in
          if pr =? nr then (true, r1) else class_loop f r1 nr (Some pr) in
        match last with
        | Some l =>
          if x =? 45 then
            match r with
            | y :: r' =>
              if negb (y =? 93) then
                let r1 := if y =? 92 then r' else r in
                let '(hi, r2) := decode1 r1 in
                if (l <=? nr) && (nr <=? hi) then (true, r2) else class_loop f r2 nr None
              else nonrange
            | [] => nonrange
            end
          else nonrange
        | None => nonrange
        end
    end
  end.

Definition step_full (p n : bytes) (sos : bool) (ds st : reg) : step_result :=
  match n with
  | [] => Done (zero_length p)
  | c :: n' =>
    match p with
    | [] => backtrack ds st
    | x :: p1 =>
      if x =? star then step p n sos ds st
      else if x =? 63 then                       (* '?' *)
        if c =? slash then backtrack ds st else Next p1 n' false ds st
      else if x =? 91 then                       (* '[' *)
        match p1 with
        | [] => Done false
        | y :: p2 =>
          let negate := (y =? 33) || (y =? 94) in
          let p3 := if negate then p2 else p1 in
          match p3 with
          | [] => Done false
          | z :: _ =>
            if z =? 93 then Done false
            else
              let '(matched, rest) := class_loop (S (length p3)) p3 c None in
              if Bool.eqb matched negate then
                match rest with [] => Done false | _ => backtrack ds st end
              else
                match after_unescaped rest 93 with
                | None => Done false
                | Some p4 => Next p4 n' false ds st
                end
          end
        end
      else if x =? 92 then                       (* '\\' *)
        match p1 with
        | [] => Done false
        | y :: p2 => if y =? c then Next p2 n' (y =? slash) ds st else backtrack ds st
        end
      else step p n sos ds st
    end
  end.

Fixpoint run_full (fuel : nat) (p n : bytes) (sos : bool) (ds st : reg) : option bool :=
  match fuel with
  | O => None
  | S f =>
    match step_full p n sos ds st with
    | Done b => Some b
    | Next p' n' sos' ds' st' => run_full f p' n' sos' ds' st'
    end
  end.

Definition glob_full_run (pat name : bytes) : option bool :=
  if has_brace pat then None
  else run_full (glob_fuel pat name) pat name true None None.

Definition glob_full (pat name : bytes) : bool :=
  match glob_full_run pat name with Some b => b | None => false end.
