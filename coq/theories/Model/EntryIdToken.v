(** Entry point of Model/IdToken.v for `wwh idtoken`. *)
From Coq Require Import NArith ZArith Bool List.
From WW Require Import Gen.Params Base.Bytes Model.IdToken.
Import ListNotations.
Open Scope Z_scope.

Definition mk_icfg (issuer client_id : bytes) (trusted : list bytes) (sid_required acr_configured exp_strict : bool) : icfg :=
  {| v_issuer := issuer; v_client_id := client_id; v_trusted := trusted; v_sid_required := sid_required;
     v_acr_configured := acr_configured; v_acr_legacy := acr_legacy_mapping; v_skew := acceptable_skew; v_exp_strict := exp_strict |}.

(* mutate = the key set went through provider.keySetMutator with default RS256 *)
Definition entry_idtoken (c : icfg) (mutate : bool) (ks : list jkey) (nonce cookie_acr : bytes) (r : tokresp) (now : Z) : bool :=
  new_tokens c nonce cookie_acr (if mutate then mutate_keys ARS256 ks else ks) r now.
