(** Model of the part of Go's net/url that wonderwall's start-up validation and ingress
    parsing rely on: [url.ParseRequestURI] (net/url/url.go: parse with viaRequest = true,
    getScheme, parseAuthority, parseHost, validOptionalPort, shouldEscape in host mode),
    [URL.Hostname] (splitHostPort) and [strings.EqualFold] on ASCII.

    Fragment: the transliteration is exact for byte strings that are pure ASCII and contain
    none of '%', '[', ']', '@' (no percent-escapes, IPv6 literals or userinfo). For any other
    input the model answers [UOut] ("not modelled") instead of guessing; the correspondence
    driver checks that classification too. No proofs in this file. *)
From Coq Require Import NArith List Bool.
From WW Require Import Base.Bytes.
Import ListNotations.
Open Scope N_scope.

Inductive purl :=
| UErr                                   (* url.ParseRequestURI returns an error *)
| UOut                                   (* outside the modelled fragment *)
| UOk (scheme host path : bytes).        (* Scheme, Host (with port), Path; Opaque urls have host = path = "" *)

Definition is_alpha (c : N) : bool := ((97 <=? c) && (c <=? 122)) || ((65 <=? c) && (c <=? 90)).
Definition is_digit (c : N) : bool := (48 <=? c) && (c <=? 57).

(* stringContainsCTLByte *)
Definition is_ctl (c : N) : bool := (c <? 32) || (c =? 127).

(* '%' 37, '@' 64, '[' 91, ']' 93, or non-ASCII *)
Definition out_of_fragment (c : N) : bool := (128 <=? c) || (c =? 37) || (c =? 64) || (c =? 91) || (c =? 93).

(* getScheme: None = error "missing protocol scheme"; Some (scheme, rest) *)
Fixpoint get_scheme_go (first : bool) (pre s whole : bytes) : option (bytes * bytes) :=
  match s with
  | [] => Some ([], whole)
  | c :: r =>
    if is_alpha c then get_scheme_go false (pre ++ [c]) r whole
    else if is_digit c || (c =? 43) || (c =? 45) || (c =? 46) then
      (if first then Some ([], whole) else get_scheme_go false (pre ++ [c]) r whole)
    else if c =? 58 then (if first then None else Some (pre, r))
    else Some ([], whole)
  end.
Definition get_scheme (s : bytes) : option (bytes * bytes) := get_scheme_go true [] s s.

(* strings.Cut(s, sep) before-part / after-part for one byte *)
Fixpoint cut_before (sep : N) (s : bytes) : bytes :=
  match s with [] => [] | c :: r => if c =? sep then [] else c :: cut_before sep r end.
Fixpoint cut_from (sep : N) (s : bytes) : bytes :=   (* from the separator (inclusive) on; [] if absent *)
  match s with [] => [] | c :: r => if c =? sep then s else cut_from sep r end.

(* strings.LastIndex for one byte: the part before the last occurrence and the part from it on *)
Fixpoint last_split (sep : N) (s : bytes) : option (bytes * bytes) :=
  match s with
  | [] => None
  | c :: r =>
    match last_split sep r with
    | Some (a, b) => Some (c :: a, b)
    | None => if c =? sep then Some ([], s) else None
    end
  end.

(* validOptionalPort *)
Definition valid_optional_port (p : bytes) : bool :=
  match p with [] => true | c :: r => (c =? 58) && forallb is_digit r end.

(* not (shouldEscape c encodeHost), for ASCII c *)
Definition host_byte_ok (c : N) : bool :=
  is_alpha c || is_digit c ||
  existsb (N.eqb c) [33; 36; 38; 39; 40; 41; 42; 43; 44; 59; 61; 58; 91; 93; 60; 62; 34] ||
  existsb (N.eqb c) [45; 95; 46; 126].

(* parseHost without '[' and '%' *)
Definition parse_host (h : bytes) : option bytes :=
  let port_ok := match last_split 58 h with Some (_, cp) => valid_optional_port cp | None => true end in
  if port_ok && forallb host_byte_ok h then Some h else None.

Definition nonempty (s : bytes) : bool := match s with [] => false | _ => true end.

(* url.ParseRequestURI *)
Definition parse_request_uri (s : bytes) : purl :=
  if existsb is_ctl s then UErr
  else if existsb out_of_fragment s then UOut
  else match s with
  | [] => UErr
  | _ =>
    if beq s [42] then UOk [] [] [42]
    else match get_scheme s with
    | None => UErr
    | Some (sch0, rest0) =>
      let sch := to_lower sch0 in
      let rest := cut_before 63 rest0 in
      if negb (has_prefix rest [47]) then (if nonempty sch then UOk sch [] [] else UErr)
      else if nonempty sch && has_prefix rest [47; 47] then
        let a := skipn 2 rest in
        let authority := cut_before 47 a in
        let rest' := cut_from 47 a in
        match parse_host authority with
        | None => UErr
        | Some h => UOk sch h rest'
        end
      else UOk sch [] rest
    end
  end.

(* URL.Hostname = splitHostPort(host) without brackets *)
Definition hostname (h : bytes) : bytes :=
  match last_split 58 h with
  | Some (a, cp) => if valid_optional_port cp then a else h
  | None => h
  end.

(* strings.EqualFold restricted to ASCII operands *)
Definition equal_fold (a b : bytes) : bool := beq (to_lower a) (to_lower b).

(* strings.TrimRight(s, "/") *)
Definition trim_right_slash (s : bytes) : bytes :=
  rev ((fix go (l : bytes) : bytes := match l with 47 :: r => go r | _ => l end) (rev s)).
