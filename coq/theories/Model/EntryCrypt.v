From Coq Require Import NArith List Bool.
From WW Require Import Base.Bytes Model.Crypt.
Import ListNotations.
Open Scope N_scope.

(* op: 0 untouched, 1 bit flip, 2 truncation to a proper prefix, 3 prefix dropped, 4 junk *)
Definition entry_crypt (seal_key open_key op arg : N) (pt : bytes) : option bytes :=
  let c := Sealed seal_key 0 pt in
  let c' := match op with
            | 0 => c | 1 => Flipped arg c | 2 => TruncatedTo arg c | 3 => DropPrefix arg c | _ => Junk pt
            end in
  decrypt open_key c'.

(* the data keys of a sequence of logins (the random source starts at 1), and whether the cookie of login i opens the
   stored value of login j (positions from 0; out of range = no) *)
Definition entry_mint (logins : list (N * option N)) : list N := map st_dek (mint_all 1 logins).

Definition entry_dekswap (logins : list (N * option N)) (i j : N) : bool :=
  let ts := mint_all 1 logins in
  match nth_error ts (N.to_nat i), nth_error ts (N.to_nat j) with
  | Some t, Some u => match open_with_ticket t u 0 [] with Some _ => true | None => false end
  | _, _ => false
  end.
