From Coq Require Import NArith List Bool.
From WW Require Import Base.Bytes Model.Crypt.
Import ListNotations.
Open Scope N_scope.

(* op: 0 untouched, 1 bit flip, 2 truncation to a proper prefix, 3 prefix dropped, 4 junk *)
Definition entry_crypt (seal_key open_key op arg : N) (pt : bytes) : option bytes :=
  let c := Sealed seal_key 0 pt in
  let c' := match op with
            | 0 => c | 1 => Flipped arg c | 2 => TruncatedTo arg c | 3 => DropPrefix arg c | _ => Junk pt
            end in
  decrypt open_key c'.
