(** Model of the auto-login decision of wonderwall (property C12).

    Transliterates, over byte strings ([list N]):
    - github.com/bmatcuk/doublestar/v4 v4.8.1 match.go [doMatchWithSeparator] / [isZeroLengthPattern]
      with separator '/', for the pattern fragment {literal bytes, '*', '**', '/'} ([glob_exec]);
      indices into pattern/name are represented by the corresponding suffixes, the two pairs of
      back-track registers by [option (pattern suffix * name suffix)];
    - (Model/GlobFull.v extends the loop with '?', '[...]' and '\\' for the correspondence on patterns
      outside the fragment; '{..,..}' alternatives are not modelled);
    - pkg/handler/autologin/autologin.go [New] (pattern normalisation) and [NeedsLogin] (incl. the
      sync.Map cache);
    - internal/http/request.go [IsNavigationRequest], [Accepts];
    - pkg/handler/reverseproxy.go [Handler] decision and [handleAutologin];
    - pkg/url/url.go [LoginRelative]; pkg/ingress [MatchingPath]; Go's path.Clean, url.QueryEscape.

    No proofs here (Proofs/GlobP.v). Strings compare by bytes; Go compares runes: identical for
    valid UTF-8, see the assumptions recorded by lib/props/c12.py. *)
From Coq Require Import NArith List Bool Arith.
From WW Require Import Gen.Params Base.Bytes.
Import ListNotations.
Open Scope N_scope.

Definition slash : N := 47.
Definition star : N := 42.
Definition dot : N := 46.

(** * doublestar.Match on the fragment *)

Definition reg := option (bytes * bytes).

Definition dstar_pat : bytes := [star; star].

(* isZeroLengthPattern (no '{' in the fragment) *)
Definition zero_length (p : bytes) : bool :=
  beq p [] || beq p [star] || beq p [star; star] || beq p [slash; star; star]
  || beq p [star; star; slash] || beq p [slash; star; star; slash].

(* the `**` back-track scan: advance past the next separator *)
Fixpoint after_sep (n : bytes) : option bytes :=
  match n with
  | [] => None
  | c :: r => if c =? slash then Some r else after_sep r
  end.

Inductive step_result :=
| Done (b : bool)
| Next (p n : bytes) (sos : bool) (ds st : reg).

(* the code after the `switch` (break): `*` back-track, then `**` back-track, else no match *)
Definition backtrack (ds st : reg) : step_result :=
  let dsb :=
    match ds with
    | Some (dp, dn) =>
      match after_sep dn with
      | Some r => Next dp r true (Some (dp, r)) st
      | None => Done false
      end
    | None => Done false
    end in
  match st with
  | Some (sp, d :: sn') => if negb (d =? slash) then Next sp sn' false ds (Some (sp, sn')) else dsb
  | _ => dsb
  end.

(* one iteration of `for nameIdx < nameLen` (or the code after the loop when the name is exhausted) *)
Definition step (p n : bytes) (sos : bool) (ds st : reg) : step_result :=
  match n with
  | [] => Done (zero_length p)
  | c :: n' =>
    match p with
    | [] => backtrack ds st
    | x :: p1 =>
      if x =? star then
        match p1 with
        | y :: p2 =>
          if y =? star then
            if sos then
              match p2 with
              | [] => Done true
              | z :: p3 => if z =? slash then Next p3 n true (Some (p3, n)) None
                           else Next p2 n false ds (Some (p2, n))
              end
            else Next p2 n false ds (Some (p2, n))
          else Next p1 n false ds (Some (p1, n))
        | [] => Next p1 n false ds (Some (p1, n))
        end
      else if x =? c then Next p1 n' (x =? slash) ds st
      else backtrack ds st
    end
  end.

Fixpoint run (fuel : nat) (p n : bytes) (sos : bool) (ds st : reg) : option bool :=
  match fuel with
  | O => None
  | S f =>
    match step p n sos ds st with
    | Done b => Some b
    | Next p' n' sos' ds' st' => run f p' n' sos' ds' st'
    end
  end.

Definition glob_fuel (pat name : bytes) : nat :=
  ((length name + 2) * (length name + 2) * (length pat + 1) + 1)%nat.

Definition glob_run (pat name : bytes) : option bool :=
  run (glob_fuel pat name) pat name true None None.

Definition glob_exec (pat name : bytes) : bool :=
  match glob_run pat name with Some b => b | None => false end.

(* the pattern fragment: no '?', '[', '{', '\\' (and no '}' / ',' restrictions needed) *)
Definition meta_byte (c : N) : bool := (c =? 63) || (c =? 91) || (c =? 123) || (c =? 92).
Definition in_fragment (pat : bytes) : bool := forallb (fun c => negb (meta_byte c)) pat.

(** * path.Clean (Go) *)

Definition dotdot : bytes := [dot; dot].

(* segments processed left to right; [stk] is the reversed output *)
Fixpoint clean_segs (rooted : bool) (segs : list bytes) (stk : list bytes) : list bytes :=
  match segs with
  | [] => rev stk
  | s :: r =>
    if beq s [] || beq s [dot] then clean_segs rooted r stk
    else if beq s dotdot then
      match stk with
      | t :: stk' => if beq t dotdot then clean_segs rooted r (s :: stk) else clean_segs rooted r stk'
      | [] => if rooted then clean_segs rooted r stk else clean_segs rooted r [s]
      end
    else clean_segs rooted r (s :: stk)
  end.

Definition path_clean (p : bytes) : bytes :=
  match p with
  | [] => [dot]
  | c :: _ =>
    let rooted := c =? slash in
    let out := join [slash] (clean_segs rooted (split_on slash p) []) in
    if rooted then slash :: out else match out with [] => [dot] | _ => out end
  end.

(** * autologin.New / NeedsLogin *)

(* `if path != "/" { path = strings.TrimSuffix(path, "/") }` *)
Definition trim_trailing_slash (p : bytes) : bytes :=
  if beq p [slash] then p else trim_suffix p [slash].

Fixpoint mem_bytes (x : bytes) (l : list bytes) : bool :=
  match l with [] => false | y :: r => beq x y || mem_bytes x r end.

(* New: skip empty, trim one trailing slash, de-duplicate keeping first occurrences.
   [seen] holds the patterns appended so far, in reverse order. *)
Fixpoint norm_patterns (l : list bytes) (seen : list bytes) : list bytes :=
  match l with
  | [] => rev seen
  | p :: r =>
    match p with
    | [] => norm_patterns r seen
    | _ => let q := trim_trailing_slash p in
           if mem_bytes q seen then norm_patterns r seen else norm_patterns r (q :: seen)
    end
  end.

Definition new_patterns (defaults configured : list bytes) : list bytes :=
  norm_patterns (defaults ++ configured) [].

(* the string handed to doublestar.Match and used as the cache key.
   [clean_first] = false is the current code; true = path.Clean applied after the leading-slash
   repair (the announced fix). *)
Definition norm_path (clean_first : bool) (urlpath : bytes) : bytes :=
  let p := if has_prefix urlpath [slash] then urlpath else slash :: urlpath in
  let p := if clean_first then path_clean p else p in
  trim_trailing_slash p.

(* doublestar.Match as used by NeedsLogin (`match, _ :=`): parameterised so that Entry can plug in the
   matcher that also covers patterns outside the fragment *)
Definition any_match (m : bytes -> bytes -> bool) (pats : list bytes) (path : bytes) : bool :=
  existsb (fun pat => m pat path) pats.

Definition cache := list (bytes * bool).

Fixpoint cache_load (c : cache) (k : bytes) : option bool :=
  match c with
  | [] => None
  | (k', v) :: r => if beq k k' then Some v else cache_load r k
  end.

(* NeedsLogin: returns the decision and the cache afterwards *)
Definition needs_login_c (m : bytes -> bytes -> bool) (clean_first enabled : bool) (pats : list bytes)
           (c : cache) (authenticated : bool) (urlpath : bytes) : bool * cache :=
  if authenticated || negb enabled then (false, c)
  else
    let path := norm_path clean_first urlpath in
    match cache_load c path with
    | Some r => (r, c)
    | None => let r := negb (any_match m pats path) in (r, (path, r) :: c)
    end.

(* the un-memoised decision *)
Definition needs_login (m : bytes -> bytes -> bool) (clean_first enabled : bool) (pats : list bytes)
           (authenticated : bool) (urlpath : bytes) : bool :=
  if authenticated || negb enabled then false
  else negb (any_match m pats (norm_path clean_first urlpath)).

(* a sequence of NeedsLogin calls on one AutoLogin value *)
Fixpoint needs_login_seq (m : bytes -> bytes -> bool) (clean_first enabled : bool) (pats : list bytes)
         (c : cache) (reqs : list (bool * bytes)) : list bool :=
  match reqs with
  | [] => []
  | (a, p) :: r =>
    let '(d, c') := needs_login_c m clean_first enabled pats c a p in
    d :: needs_login_seq m clean_first enabled pats c' r
  end.

(** * IsNavigationRequest / Accepts *)

Definition is_space (c : N) : bool :=
  (c =? 32) || ((9 <=? c) && (c <=? 13)).

Fixpoint trim_left (s : bytes) : bytes :=
  match s with c :: r => if is_space c then trim_left r else s | [] => [] end.
Definition trim_space (s : bytes) : bytes := rev (trim_left (rev (trim_left s))).

Definition media_type (v : bytes) : bytes :=
  match split_on 59 (trim_space (to_lower v)) with x :: _ => x | [] => [] end.

(* Accepts(r, accepted...) over all values of the Accept header *)
Definition accepts (accept_headers : list bytes) (accepted : list bytes) : bool :=
  existsb (fun h => existsb (fun v => mem_bytes (media_type v) accepted) (split_on 44 h)) accept_headers.

Definition s_GET : bytes := [71; 69; 84].
Definition s_navigate : bytes := [110; 97; 118; 105; 103; 97; 116; 101].
Definition s_document : bytes := [100; 111; 99; 117; 109; 101; 110; 116].
Definition s_text_html : bytes := [116; 101; 120; 116; 47; 104; 116; 109; 108].
Definition s_any : bytes := [42; 47; 42].
Definition s_app_json : bytes := [97; 112; 112; 108; 105; 99; 97; 116; 105; 111; 110; 47; 106; 115; 111; 110].

Definition is_navigation (method mode dest : bytes) (accept_headers : list bytes) : bool :=
  if negb (beq method s_GET) then false
  else if beq mode [] && beq dest [] then accepts accept_headers [s_text_html]
  else beq mode s_navigate && beq dest s_document.

(** * url.QueryEscape, LoginRelative, MatchingPath *)

Definition hex_digit (d : N) : N := if d <? 10 then 48 + d else 55 + d.

Definition unreserved (c : N) : bool :=
  ((97 <=? c) && (c <=? 122)) || ((65 <=? c) && (c <=? 90)) || ((48 <=? c) && (c <=? 57))
  || (c =? 45) || (c =? 95) || (c =? 46) || (c =? 126).

Fixpoint query_escape (s : bytes) : bytes :=
  match s with
  | [] => []
  | c :: r =>
    if unreserved c then c :: query_escape r
    else if c =? 32 then 43 :: query_escape r
    else 37 :: hex_digit (c / 16) :: hex_digit (c mod 16) :: query_escape r
  end.

(* paths.OAuth2 ++ paths.Login, from the compiled code *)
Definition s_oauth2_login : bytes := path_oauth2 ++ path_login.
(* "?" ++ RedirectQueryParameter ++ "=" *)
Definition s_redirect_q : bytes := 63 :: redirect_query_parameter ++ [61].

(* LoginRelative(prefix, redirect) for a prefix that is "" or a clean absolute path of unreserved
   bytes and '/' (ingress paths): JoinPath(prefix, "/oauth2", "/login") ++ "?redirect=" ++ QueryEscape *)
Definition login_relative (prefix redirect : bytes) : bytes :=
  (if beq prefix [] || beq prefix [slash] then [] else prefix) ++ s_oauth2_login ++
  match redirect with [] => [] | _ => s_redirect_q ++ query_escape redirect end.

(* Ingresses.MatchingPath: the longest configured non-empty ingress path that is a prefix;
   seg = true: on a segment boundary (hasPathPrefix, the current code), false: strings.HasPrefix *)
Definition ingress_prefix (seg : bool) (reqpath p : bytes) : bool :=
  if seg then beq reqpath p || has_prefix reqpath (p ++ [slash]) else has_prefix reqpath p.

Fixpoint matching_path (seg : bool) (paths : list bytes) (reqpath : bytes) (result : bytes) : bytes :=
  match paths with
  | [] => result
  | p :: r =>
    if negb (beq p []) && ingress_prefix seg reqpath p && (length result <? length p)%nat
    then matching_path seg r reqpath p else matching_path seg r reqpath result
  end.

(** * the wildcard handler's decision for a request without a valid session *)

Inductive response :=
| Forward                                   (* handed to the upstream round-tripper *)
| Redirect302 (location : bytes)
| Unauthorized401 (location : bytes) (json : bool).

Record request := {
  rq_method : bytes;
  rq_mode : bytes;            (* Sec-Fetch-Mode (first value) *)
  rq_dest : bytes;            (* Sec-Fetch-Dest *)
  rq_accept : list bytes;     (* all Accept header values *)
  rq_referer : bytes;
  rq_url_string : bytes;      (* r.URL.String(): escaped path ++ ?query *)
  rq_path : bytes             (* r.URL.Path (percent-decoded) *)
}.

Definition handle_autologin (prefix : bytes) (r : request) : response :=
  if is_navigation (rq_method r) (rq_mode r) (rq_dest r) (rq_accept r) then
    Redirect302 (login_relative prefix (rq_url_string r))
  else
    let target := match rq_referer r with [] => prefix | t => t end in
    Unauthorized401 (login_relative prefix target) (accepts (rq_accept r) [s_any; s_app_json]).

Definition handler_unauth (m : bytes -> bytes -> bool) (clean_first seg enabled : bool) (pats ingress_paths : list bytes)
           (r : request) : response :=
  if needs_login m clean_first enabled pats false (rq_path r)
  then handle_autologin (matching_path seg ingress_paths (rq_path r) []) r
  else Forward.
