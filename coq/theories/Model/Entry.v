(** Entry points of the executable model used by the correspondence check.
    Inputs and outputs are flattened to integers / byte lists so that the OCaml
    driver (ml/driver.ml) only parses and prints. Parameters come from
    Gen/Params.v, which is regenerated from the compiled Go code on every run. *)
From Coq Require Import ZArith Bool List.
From WW Require Import Gen.Params Model.SessionTime.
Import ListNotations.
Open Scope Z_scope.

Definition P0 : tparams := {| min_interval := refresh_min_interval; leeway := refresh_leeway |}.

Definition zb (b : bool) : Z := if b then 1 else 0.

Definition validity_code (v : validity) : Z :=
  match v with Valid => 0 | InvalidNoToken => 1 | InvalidEnded => 2 | InvalidInactive => 3 end.

(* mirrors the output columns of `wwh metagrid` *)
Definition entry_meta (now : Z) (m : meta) : list Z :=
  let v := verbose_of P0 m now in
  [ zb (is_ended m now); zb (is_expired m now); zb (is_timed_out m now); token_lifetime m;
    cooldown_end P0 m; zb (on_cooldown P0 m now); next_refresh P0 m now; zb (should_refresh P0 m now);
    v_ends_in v; zb (v_active v); v_timeout_in v; v_expire_in v; v_next_refresh_in v;
    zb (v_cooldown v); v_cooldown_secs v; validity_code (validate true m now) ].
