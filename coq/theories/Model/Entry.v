(** Entry points of the executable model used by the correspondence check.
    Inputs and outputs are flattened to integers / byte lists so that the OCaml
    driver (ml/driver.ml) only parses and prints. Parameters come from
    Gen/Params.v, which is regenerated from the compiled Go code on every run. *)
From Coq Require Import ZArith Bool List.
From WW Require Import Gen.Params Model.SessionTime.
Import ListNotations.
Open Scope Z_scope.

Definition P0 : tparams := {| min_interval := refresh_min_interval; leeway := refresh_leeway |}.

Definition zb (b : bool) : Z := if b then 1 else 0.

Definition validity_code (v : validity) : Z :=
  match v with Valid => 0 | InvalidNoToken => 1 | InvalidEnded => 2 | InvalidInactive => 3 end.

(* mirrors the output columns of `wwh metagrid` *)
Definition entry_meta (now : Z) (m : meta) : list Z :=
  let v := verbose_of P0 m now in
  [ zb (is_ended m now); zb (is_expired m now); zb (is_timed_out m now); token_lifetime m;
    cooldown_end P0 m; zb (on_cooldown P0 m now); next_refresh P0 m now; zb (should_refresh P0 m now);
    v_ends_in v; zb (v_active v); v_timeout_in v; v_expire_in v; v_next_refresh_in v;
    zb (v_cooldown v); v_cooldown_secs v; validity_code (validate true m now) ].

(** * Session machine (Model/Machine.v) *)
From WW Require Import Base.AMap Model.Machine.

Definition zn (n : N) : Z := Z.of_N n.

Definition obs_code (o : obs) : list Z :=
  match o with
  | ObNone => [0]
  | ObGet k r => [1; zn k; r]
  | ObSetKeep k r => [2; zn k; r]
  | ObDel k r => [3; zn k; r]
  | ObLock k r => [4; zn k; r]
  | ObUnlock k r => [5; zn k; r]
  | ObIdp rt r => [6; zn rt; r]
  end.

Definition outcome_code (c : config) (o : outcome) : list Z :=
  match o with
  | OForward a i => [1; match a with Some x => zn x | None => -1 end; match i with Some x => zn x | None => -1 end]
  | OStatus s => [2; s]
  | OMeta s d now =>
    let v := verbose_of (c_tp c) (sd_md d) now in
    [3; s; v_ends_in v; zb (v_active v); v_timeout_in v; v_expire_in v;
     (if auto_refresh_disabled c then -1 else v_next_refresh_in v); zb (v_cooldown v); v_cooldown_secs v]
  end.

Fixpoint insert_sorted {A} (key : A -> N) (x : A) (l : list A) : list A :=
  match l with
  | [] => [x]
  | y :: r => if N.leb (key x) (key y) then x :: l else y :: insert_sorted key x r
  end.

Definition sort_by {A} (key : A -> N) (l : list A) : list A := fold_right (insert_sorted key) [] l.

Definition snapshot (c : config) (w : world) : list Z :=
  let now := w_clock w in
  let es := sort_by fst (filter (fun ke => entry_live now (snd ke)) (w_store w)) in
  (* the in-memory store's lock table is private to the process: not observable *)
  let ls := if c_redis c then sort_by fst (filter (fun kl => now <? l_exp (snd kl)) (w_locks w)) else [] in
  [Z.of_nat (length es)] ++
  flat_map (fun ke => let e := snd ke in
     let m := sd_md (e_data e) in
     [zn (fst ke); match e_exp e with Some x => x - now | None => -1 end; zn (e_dek e);
      zn (sd_at (e_data e)); zn (sd_rt (e_data e)); zn (sd_acr (e_data e));
      created m; ends m; match timeout m with Some t => t | None => -1 end; expire m; refreshed m]) es ++
  [Z.of_nat (length ls)] ++
  flat_map (fun kl => [zn (fst kl); l_exp (snd kl) - now]) ls.

Definition event_thread (e : event) : option N :=
  match e with ERun t _ => Some t | ESpawn t _ _ => Some t | _ => None end.

Definition thread_outcome (c : config) (s : mstate) (e : event) : list Z :=
  match event_thread e with
  | Some t => match alookup t (m_ts s) with
              | Some th => match t_phase th with PDone o => outcome_code c o | _ => [0] end
              | None => [0]
              end
  | None => [0]
  end.

(* per event: observation of the operation, outcome if the thread finished, snapshot of store and locks *)
Fixpoint run_observe (c : config) (s : mstate) (es : list event) : list (list Z) :=
  match es with
  | [] => []
  | e :: r => let '(s', o) := apply_event c s e in
              (obs_code o ++ [-7] ++ thread_outcome c s' e ++ [-7] ++ snapshot c (m_w s')) :: run_observe c s' r
  end.

Definition mk_config (redis sso fwd : bool) (inact : option Z) (maxlife : Z) (acr pacr : N) (idtok autologin : bool)
           (upd_atomic memlock logout_strict : bool) : config :=
  {| c_redis := redis; c_sso := sso; c_fwdauth := fwd; c_inact := inact; c_maxlife := maxlife; c_acr := acr; c_proxy_acr := pacr;
     c_idtoken := idtok; c_autologin := autologin; c_upd_atomic := upd_atomic; c_memlock := memlock;
     c_logout_strict := logout_strict; c_tp := P0; c_lock_lease := lock_duration;
     c_lock_timeout := lock_acquire_timeout; c_retry_max := retry_max |}.

Definition entry_machine (c : config) (tau : Z) (es : list event) : list (list Z) :=
  run_observe c (init_state tau) es.
