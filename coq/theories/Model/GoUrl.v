(** Model of the parts of Go's net/url (go1.24.2), path.Clean and net/http.Redirect that decide
    which bytes wonderwall puts in a Location header. Transliterated function by function from
    the toolchain sources (net/url/url.go, path/path.go, net/http/server.go, net/http/http.go).
    Strings are byte lists. Errors are [None]. NO proofs here. *)
From Coq Require Import NArith List Bool.
From WW Require Import Base.Bytes.
Import ListNotations.
Open Scope N_scope.

(** * character classes *)
Definition is_empty (s : bytes) : bool := match s with [] => true | _ => false end.
Definition is_alpha (c : N) : bool := ((97 <=? c) && (c <=? 122)) || ((65 <=? c) && (c <=? 90)).
Definition is_digit (c : N) : bool := (48 <=? c) && (c <=? 57).
Definition mem_byte (c : N) (l : list N) : bool := existsb (N.eqb c) l.
Definition is_hex (c : N) : bool :=
  is_digit c || ((97 <=? c) && (c <=? 102)) || ((65 <=? c) && (c <=? 70)).
Definition unhex (c : N) : N :=
  if is_digit c then c - 48
  else if (97 <=? c) && (c <=? 102) then c - 97 + 10
  else if (65 <=? c) && (c <=? 70) then c - 65 + 10
  else 0.
Definition upperhex (n : N) : N := if n <? 10 then 48 + n else 55 + n.
Definition lowerhex (n : N) : N := if n <? 10 then 48 + n else 87 + n.

Inductive encoding := EPath | EPathSegment | EHost | EZone | EUserPassword | EQueryComponent | EFragment.

Definition is_hostmode (m : encoding) : bool := match m with EHost | EZone => true | _ => false end.
Definition is_fragmode (m : encoding) : bool := match m with EFragment => true | _ => false end.
Definition is_querymode (m : encoding) : bool := match m with EQueryComponent => true | _ => false end.

(* func shouldEscape(c byte, mode encoding) bool *)
Definition should_escape (c : N) (mode : encoding) : bool :=
  if is_alpha c || is_digit c then false
  else if is_hostmode mode && mem_byte c [33;36;38;39;40;41;42;43;44;59;61;58;91;93;60;62;34] then false
  else if mem_byte c [45;95;46;126] then false
  else if mem_byte c [36;38;43;44;47;58;59;61;63;64] then
    match mode with
    | EPath => c =? 63
    | EPathSegment => mem_byte c [47;59;44;63]
    | EUserPassword => mem_byte c [64;47;63;58]
    | EQueryComponent => true
    | EFragment => false
    | EHost | EZone => true
    end
  else if is_fragmode mode && mem_byte c [33;40;41;42] then false
  else true.

(* func unescape(s string, mode encoding) (string, error): one pass; an error anywhere is an error *)
Fixpoint unescape (mode : encoding) (s : bytes) : option bytes :=
  match s with
  | [] => Some []
  | c :: r =>
    if c =? 37 then
      match r with
      | a :: b :: r' =>
        if is_hex a && is_hex b then
          let is25 := (a =? 50) && (b =? 53) in
          let v := unhex a * 16 + unhex b in
          if (match mode with EHost => true | _ => false end) && (unhex a <? 8) && negb is25 then None
          else if (match mode with EZone => true | _ => false end) && negb is25 && negb (v =? 32) && should_escape v EHost then None
          else option_map (cons v) (unescape mode r')
        else None
      | _ => None
      end
    else if c =? 43 then
      option_map (cons (if is_querymode mode then 32 else 43)) (unescape mode r)
    else if is_hostmode mode && (c <? 128) && should_escape c mode then None
    else option_map (cons c) (unescape mode r)
  end.

(* func escape(s string, mode encoding) string *)
Definition escape_byte (mode : encoding) (c : N) : bytes :=
  if (c =? 32) && is_querymode mode then [43]
  else if should_escape c mode then [37; upperhex ((c / 16) mod 16); upperhex (c mod 16)]
  else [c].
Definition escape (s : bytes) (mode : encoding) : bytes := flat_map (escape_byte mode) s.

(* func validEncoded(s string, mode encoding) bool *)
Definition valid_encoded_byte (mode : encoding) (c : N) : bool :=
  if mem_byte c [33;36;38;39;40;41;42;43;44;59;61;58;64] then true
  else if mem_byte c [91;93] then true
  else if c =? 37 then true
  else negb (should_escape c mode).
Definition valid_encoded (s : bytes) (mode : encoding) : bool := forallb (valid_encoded_byte mode) s.

(** * URL record *)
Record url := mkurl {
  u_scheme : bytes; u_opaque : bytes;
  u_user : option (bytes * option bytes);   (* username, password when passwordSet *)
  u_host : bytes; u_path : bytes; u_rawpath : bytes; u_omithost : bool; u_forcequery : bool;
  u_rawquery : bytes; u_fragment : bytes; u_rawfragment : bytes }.

Definition empty_url : url := mkurl [] [] None [] [] [] false false [] [] [].

(* strings.Cut on a single byte: (before, Some after) when found *)
Fixpoint cut_byte (c : N) (s : bytes) : bytes * option bytes :=
  match s with
  | [] => ([], None)
  | x :: r => if x =? c then ([], Some r)
              else let '(a, b) := cut_byte c r in (x :: a, b)
  end.

Definition count_byte (c : N) (s : bytes) : nat := length (filter (N.eqb c) s).

(* strings.LastIndex for one byte: (before, after) around the LAST occurrence *)
Fixpoint cut_last (c : N) (s : bytes) : option (bytes * bytes) :=
  match s with
  | [] => None
  | x :: r =>
    match cut_last c r with
    | Some (a, b) => Some (x :: a, b)
    | None => if x =? c then Some ([], r) else None
    end
  end.

Definition is_ctl (b : N) : bool := (b <? 32) || (b =? 127).
Definition contains_ctl (s : bytes) : bool := existsb is_ctl s.

(* func getScheme(rawURL string) (scheme, path string, err error); [None] = error.
   [acc] holds the bytes read so far in reverse; [orig] is the whole input. *)
Fixpoint get_scheme_aux (s : bytes) (acc : bytes) (orig : bytes) : option (bytes * bytes) :=
  match s with
  | [] => Some ([], orig)
  | c :: r =>
    if is_alpha c then get_scheme_aux r (c :: acc) orig
    else if is_digit c || mem_byte c [43;45;46] then
      (if is_empty acc then Some ([], orig) else get_scheme_aux r (c :: acc) orig)
    else if c =? 58 then
      (if is_empty acc then None else Some (rev acc, r))
    else Some ([], orig)
  end.
Definition get_scheme (s : bytes) : option (bytes * bytes) := get_scheme_aux s [] s.

(* func validOptionalPort(port string) bool *)
Definition valid_optional_port (p : bytes) : bool :=
  match p with
  | [] => true
  | c :: r => (c =? 58) && forallb is_digit r
  end.

(* func validUserinfo(s string) bool  (range over runes: any byte >= 0x80 yields a rune outside the set) *)
Definition valid_userinfo_byte (c : N) : bool :=
  is_alpha c || is_digit c || mem_byte c [45;46;95;58;126;33;36;38;39;40;41;42;43;44;59;61;37;64].
Definition valid_userinfo (s : bytes) : bool := forallb valid_userinfo_byte s.

(* strings.Index(s, "%25"): split before the first occurrence *)
Fixpoint index_pct25 (s : bytes) : option (bytes * bytes) :=
  match s with
  | [] => None
  | c :: r =>
    if has_prefix s [37;50;53] then Some ([], s)
    else match index_pct25 r with Some (a, b) => Some (c :: a, b) | None => None end
  end.

Definition opt_bind {A B} (o : option A) (f : A -> option B) : option B :=
  match o with Some x => f x | None => None end.

(* func parseHost(host string) (string, error) *)
Definition parse_host (host : bytes) : option bytes :=
  if has_prefix host [91] then
    match cut_last 93 host with
    | None => None
    | Some (before, colonport) =>       (* before = host[:i], colonport = host[i+1:] *)
      if negb (valid_optional_port colonport) then None
      else match index_pct25 before with
           | Some (h1, zonepart) =>       (* host[:zone], host[zone:i] *)
             opt_bind (unescape EHost h1) (fun host1 =>
             opt_bind (unescape EZone zonepart) (fun host2 =>
             opt_bind (unescape EHost (93 :: colonport)) (fun host3 =>
             Some (host1 ++ host2 ++ host3))))
           | None => unescape EHost host
           end
    end
  else
    match cut_last 58 host with
    | Some (_, afterc) => if negb (valid_optional_port (58 :: afterc)) then None else unescape EHost host
    | None => unescape EHost host
    end.

(* func parseAuthority(authority string) (user *Userinfo, host string, err error) *)
Definition parse_authority (authority : bytes) : option (option (bytes * option bytes) * bytes) :=
  match cut_last 64 authority with
  | None => opt_bind (parse_host authority) (fun h => Some (None, h))
  | Some (userinfo, hostpart) =>
    opt_bind (parse_host hostpart) (fun h =>
    if negb (valid_userinfo userinfo) then None
    else match cut_byte 58 userinfo with
         | (_, None) => opt_bind (unescape EUserPassword userinfo) (fun un => Some (Some (un, None), h))
         | (un, Some pw) =>
           opt_bind (unescape EUserPassword un) (fun un' =>
           opt_bind (unescape EUserPassword pw) (fun pw' => Some (Some (un', Some pw'), h)))
         end)
  end.

(* func (u *URL) setPath(p string) error: returns (Path, RawPath) *)
Definition set_path (p : bytes) : option (bytes * bytes) :=
  opt_bind (unescape EPath p) (fun path =>
  if beq p (escape path EPath) then Some (path, []) else Some (path, p)).

Definition set_fragment (f : bytes) : option (bytes * bytes) :=
  opt_bind (unescape EFragment f) (fun frag =>
  if beq f (escape frag EFragment) then Some (frag, []) else Some (frag, f)).

Definition remove_last (s : bytes) : bytes := removelast s.

(* the '?' handling of parse: (rest, ForceQuery, RawQuery) *)
Definition split_query_go (rest0 : bytes) : bytes * bool * bytes :=
  if has_suffix rest0 [63] && Nat.eqb (count_byte 63 rest0) 1 then (remove_last rest0, true, [])
  else match cut_byte 63 rest0 with (a, Some b) => (a, false, b) | (a, None) => (a, false, []) end.

(* parse after the scheme and the query have been split off *)
Definition parse_rest (scheme rest : bytes) (viaRequest forceq : bool) (rawq : bytes) : option url :=
  let noslash := negb (has_prefix rest [47]) in
  if noslash && negb (is_empty scheme) then
    Some (mkurl scheme rest None [] [] [] false forceq rawq [] [])
  else if noslash && viaRequest then None
  else if noslash && contains_byte (fst (cut_byte 47 rest)) 58 then None
  else
    let do_auth := (negb (is_empty scheme) || (negb viaRequest && negb (has_prefix rest [47;47;47])))
                   && has_prefix rest [47;47] in
    if do_auth then
      let a0 := skipn 2 rest in
      let '(authority, rest') :=
        match cut_byte 47 a0 with (a, Some b) => (a, 47 :: b) | (a, None) => (a, []) end in
      opt_bind (parse_authority authority) (fun '(user, host) =>
      opt_bind (set_path rest') (fun '(path, rawpath) =>
      Some (mkurl scheme [] user host path rawpath false forceq rawq [] [])))
    else
      let omit := negb (is_empty scheme) && has_prefix rest [47] in
      opt_bind (set_path rest) (fun '(path, rawpath) =>
      Some (mkurl scheme [] None [] path rawpath omit forceq rawq [] [])).

(* func parse(rawURL string, viaRequest bool) ( *URL, error) *)
Definition parse (rawURL : bytes) (viaRequest : bool) : option url :=
  if contains_ctl rawURL then None
  else if is_empty rawURL && viaRequest then None
  else if beq rawURL [42] then Some (mkurl [] [] None [] [42] [] false false [] [] [])
  else
    opt_bind (get_scheme rawURL) (fun '(scheme0, rest0) =>
    let '(rest, forceq, rawq) := split_query_go rest0 in
    parse_rest (to_lower scheme0) rest viaRequest forceq rawq).

(* func ParseRequestURI(rawURL string) ( *URL, error) *)
Definition parse_request_uri (s : bytes) : option url := parse s true.

(* func Parse(rawURL string) ( *URL, error) *)
Definition parse_url (s : bytes) : option url :=
  let '(u, frag) := cut_byte 35 s in
  opt_bind (parse u false) (fun url0 =>
  match frag with
  | None | Some [] => Some url0
  | Some f =>
    opt_bind (set_fragment f) (fun '(fr, rawfr) =>
    Some (mkurl (u_scheme url0) (u_opaque url0) (u_user url0) (u_host url0) (u_path url0) (u_rawpath url0)
                (u_omithost url0) (u_forcequery url0) (u_rawquery url0) fr rawfr))
  end).

(* func (u *URL) EscapedPath() string *)
Definition escaped_path (u : url) : bytes :=
  if negb (is_empty (u_rawpath u)) && valid_encoded (u_rawpath u) EPath
     && (match unescape EPath (u_rawpath u) with Some p => beq p (u_path u) | None => false end)
  then u_rawpath u
  else if beq (u_path u) [42] then [42]
  else escape (u_path u) EPath.

(* func (u *URL) EscapedFragment() string *)
Definition escaped_fragment (u : url) : bytes :=
  if negb (is_empty (u_rawfragment u)) && valid_encoded (u_rawfragment u) EFragment
     && (match unescape EFragment (u_rawfragment u) with Some f => beq f (u_fragment u) | None => false end)
  then u_rawfragment u
  else escape (u_fragment u) EFragment.

(* func (u *Userinfo) String() string *)
Definition userinfo_string (ui : bytes * option bytes) : bytes :=
  escape (fst ui) EUserPassword ++
  match snd ui with Some p => 58 :: escape p EUserPassword | None => [] end.

Definition has_user (u : url) : bool := match u_user u with Some _ => true | None => false end.

(* the part of (u *URL).String() written before the path when Opaque == "" *)
Definition authority_string (u : url) : bytes :=
  if negb (is_empty (u_scheme u)) || negb (is_empty (u_host u)) || has_user u then
    if u_omithost u && is_empty (u_host u) && negb (has_user u) then []
    else
      (if negb (is_empty (u_host u)) || negb (is_empty (u_path u)) || has_user u then [47;47] else []) ++
      (match u_user u with Some ui => userinfo_string ui ++ [64] | None => [] end) ++
      (if negb (is_empty (u_host u)) then escape (u_host u) EHost else [])
  else [].

Definition query_fragment_string (u : url) : bytes :=
  (if u_forcequery u || negb (is_empty (u_rawquery u)) then 63 :: u_rawquery u else []) ++
  (if negb (is_empty (u_fragment u)) then 35 :: escaped_fragment u else []).

(* func (u *URL) String() string *)
Definition url_string (u : url) : bytes :=
  let s1 := if negb (is_empty (u_scheme u)) then u_scheme u ++ [58] else [] in
  (if negb (is_empty (u_opaque u)) then s1 ++ u_opaque u
   else
     let buf := s1 ++ authority_string u in
     let path := escaped_path u in
     let buf := if negb (is_empty path) && negb (has_prefix path [47]) && negb (is_empty (u_host u))
                then buf ++ [47] else buf in
     let buf := if is_empty buf
                then (if contains_byte (fst (cut_byte 47 path)) 58 then [46;47] else [])
                else buf in
     buf ++ path)
  ++ query_fragment_string u.

(* func splitHostPort(hostPort string) (host, port string) ; (u *URL).Hostname() *)
Definition split_host_port (hostport : bytes) : bytes * bytes :=
  let '(host, port) :=
    match cut_last 58 hostport with
    | Some (h, p) => if valid_optional_port (58 :: p) then (h, p) else (hostport, [])
    | None => (hostport, [])
    end in
  if has_prefix host [91] && has_suffix host [93]
  then (removelast (tl host), port) else (host, port).
Definition hostname (u : url) : bytes := fst (split_host_port (u_host u)).

(** * path.Clean (lazybuf made explicit: [out] is the bytes written so far, w = length out) *)
Fixpoint span_noslash (s : bytes) : bytes * bytes :=
  match s with
  | [] => ([], [])
  | c :: r => if c =? 47 then ([], s) else let '(a, b) := span_noslash r in (c :: a, b)
  end.

(* out.w--; for out.w > dotdot && out.index(out.w) != '/' { out.w-- } : returns the final w *)
Fixpoint backtrack (out : bytes) (w dotdot : nat) (fuel : nat) : nat :=
  match fuel with
  | O => w
  | S f => if Nat.ltb dotdot w && negb (nth w out 0 =? 47) then backtrack out (w - 1) dotdot f else w
  end.

Fixpoint clean_loop (fuel : nat) (rooted : bool) (rest : bytes) (out : bytes) (dotdot : nat) : bytes :=
  match fuel with
  | O => out
  | S f =>
    match rest with
    | [] => out
    | c :: r1 =>
      if c =? 47 then clean_loop f rooted r1 out dotdot
      else if (c =? 46) && (match r1 with [] => true | d :: _ => d =? 47 end) then
        clean_loop f rooted r1 out dotdot
      else if (c =? 46) && (match r1 with
                            | d :: r2 => (d =? 46) && (match r2 with [] => true | e :: _ => e =? 47 end)
                            | [] => false end) then
        let r2 := tl r1 in
        if Nat.ltb dotdot (length out) then
          let w := backtrack out (length out - 1) dotdot (length out) in
          clean_loop f rooted r2 (firstn w out) dotdot
        else if negb rooted then
          let out1 := if Nat.ltb 0 (length out) then out ++ [47] else out in
          let out2 := out1 ++ [46;46] in
          clean_loop f rooted r2 out2 (length out2)
        else clean_loop f rooted r2 out dotdot
      else
        let out1 := if (rooted && negb (Nat.eqb (length out) 1)) || (negb rooted && negb (Nat.eqb (length out) 0))
                    then out ++ [47] else out in
        let '(elem, r') := span_noslash rest in
        clean_loop f rooted r' (out1 ++ elem) dotdot
    end
  end.

(* func Clean(path string) string *)
Definition path_clean (p : bytes) : bytes :=
  match p with
  | [] => [46]
  | c :: r =>
    let rooted := c =? 47 in
    let out := if rooted then clean_loop (S (length p)) true r [47] 1
               else clean_loop (S (length p)) false p [] 0 in
    if is_empty out then [46] else out
  end.

(* path.Split(p): dir part (through the final slash) *)
Definition path_split_dir (p : bytes) : bytes :=
  match cut_last 47 p with Some (a, _) => a ++ [47] | None => [] end.

(* net/http hexEscapeNonASCII *)
Definition hex_escape_non_ascii (s : bytes) : bytes :=
  flat_map (fun c => if 128 <=? c then [37; lowerhex ((c / 16) mod 16); lowerhex (c mod 16)] else [c]) s.

(* split at the first '?', the query keeps its '?' *)
Fixpoint split_query (s : bytes) : bytes * bytes :=
  match s with
  | [] => ([], [])
  | c :: r => if c =? 63 then ([], s) else let '(a, b) := split_query r in (c :: a, b)
  end.

(* the rewriting of the url argument done by net/http.Redirect; [oldpath] = r.URL.Path *)
Definition http_redirect_rewrite (oldpath target : bytes) : bytes :=
  match parse_url target with
  | Some u =>
    if is_empty (u_scheme u) && is_empty (u_host u) then
      let oldpath := if is_empty oldpath then [47] else oldpath in
      let url1 := if negb (has_prefix target [47]) then path_split_dir oldpath ++ target else target in
      let '(p, query) := split_query url1 in
      let trailing := has_suffix p [47] in
      let c := path_clean p in
      let c := if trailing && negb (has_suffix c [47]) then c ++ [47] else c in
      c ++ query
    else target
  | None => target
  end.

(* the Location header value set by http.Redirect(w, r, target, code) *)
Definition http_redirect_location (oldpath target : bytes) : bytes :=
  hex_escape_non_ascii (http_redirect_rewrite oldpath target).
