(** Model of /repo/pkg/url/validator.go and redirect.go (the three Redirect implementations),
    transliterated. The request is reduced to what these functions read from it: the value of
    the [redirect] query parameter, the ingress path / ingress URL stored in the request context
    by the ingress middleware. NO proofs here. *)
From Coq Require Import NArith List Bool.
From WW Require Import Base.Bytes Model.GoUrl.
Import ListNotations.
Open Scope N_scope.

(** * invalidRedirectRegex = [/\\](?:[\s\v]*|\.{1,2})[/\\]   (unanchored MatchString)
    \s = [\t\n\f\r ] in RE2, \v = 0x0B. *)
Definition is_sl (c : N) : bool := (c =? 47) || (c =? 92).
Definition is_ws (c : N) : bool := (c =? 9) || (c =? 10) || (c =? 11) || (c =? 12) || (c =? 13) || (c =? 32).
Fixpoint skip_ws (s : bytes) : bytes :=
  match s with
  | c :: r => if is_ws c then skip_ws r else s
  | [] => []
  end.
Definition starts_sl (s : bytes) : bool := match s with c :: _ => is_sl c | [] => false end.
(* [r] is the text following a slash or backslash *)
Definition dots_then_sl (r : bytes) : bool :=
  match r with
  | c :: r1 => (c =? 46) && (starts_sl r1 || (match r1 with d :: r2 => (d =? 46) && starts_sl r2 | [] => false end))
  | [] => false
  end.
Definition after_first (r : bytes) : bool := starts_sl (skip_ws r) || dots_then_sl r.
Fixpoint regex_match (s : bytes) : bool :=
  match s with
  | [] => false
  | c :: r => (is_sl c && after_first r) || regex_match r
  end.

(* the regex source this matcher was written for; Properties/C04.v pins Gen.Params.redirect_regex_src to it *)
Definition regex_src_expected : bytes :=
  [91;47;92;92;93;40;63;58;91;92;115;92;118;93;42;124;92;46;123;49;44;50;125;41;91;47;92;92;93].

(* func isValidAbsolutePath(redirect string) bool *)
Definition is_valid_absolute_path (s : bytes) : bool :=
  has_prefix s [47] && negb (has_prefix s [47;47]) && negb (regex_match s).

(* func parsableRequestURI(r, redirect) ( *url.URL, bool) *)
Definition parsable_request_uri (s : bytes) : option url :=
  if is_empty s then None else parse_request_uri s.

Definition is_relative_url (u : url) : bool := is_empty (u_scheme u) && is_empty (u_host u).
Definition s_http : bytes := [104;116;116;112].
Definition s_https : bytes := [104;116;116;112;115].
Definition is_valid_scheme (u : url) : bool := beq (u_scheme u) s_http || beq (u_scheme u) s_https.

(* func (v *RelativeValidator) IsValidRedirect(r, redirect) bool *)
Definition relative_valid (s : bytes) : bool :=
  match parsable_request_uri s with
  | Some u => is_relative_url u && is_valid_absolute_path (url_string u)
  | None => false
  end.

(* func isAllowedDomain(u *url.URL, allowed string) bool *)
Definition is_allowed_domain (u : url) (allowed : bytes) : bool :=
  if is_empty allowed then false
  else
    let host := u_host u in
    let hn := hostname u in
    if beq host allowed || beq hn allowed then true
    else has_suffix host (if has_prefix allowed [46] then allowed else 46 :: allowed).

(* func isAllowedHost(u *url.URL, allowedDomains []string) bool *)
Definition is_allowed_host (u : url) (domains : list bytes) : bool :=
  if is_empty (u_host u) || is_empty (hostname u) || (match domains with [] => true | _ => false end) then false
  else existsb (is_allowed_domain u) domains.

(* func (v *AbsoluteValidator) IsValidRedirect(r, redirect) bool *)
Definition absolute_valid (domains : list bytes) (s : bytes) : bool :=
  match parsable_request_uri s with
  | Some u => negb (is_relative_url u) && is_valid_scheme u && is_allowed_host u domains
  | None => false
  end.

(* func clean(r, v, target, fallbackTarget) string *)
Definition clean (valid : bytes -> bool) (target : bytes) (fallback : url) : bytes :=
  if valid target then target else url_string fallback.

(** * StandaloneRedirect *)
(* func MatchingPath(r) *url.URL ; [ipath] = the ingress path in the request context ("" if none) *)
Definition matching_path (ipath : bytes) : url :=
  mkurl [] [] None [] (if is_empty ipath then [47] else ipath) [] false false [] [] [].

Definition with_scheme_host (u : url) (scheme host : bytes) : url :=
  mkurl scheme (u_opaque u) (u_user u) host (u_path u) (u_rawpath u) (u_omithost u) (u_forcequery u)
        (u_rawquery u) (u_fragment u) (u_rawfragment u).

Definition standalone_clean (ipath target : bytes) : bytes :=
  clean relative_valid target (matching_path ipath).

(* the string handed to Clean by Canonical *)
Definition standalone_reserialise (ipath param : bytes) : bytes :=
  let redirect := match parse_url param with Some u => u | None => matching_path ipath end in
  url_string (with_scheme_host redirect [] []).

Definition standalone_canonical (ipath param : bytes) : bytes :=
  standalone_clean ipath (standalone_reserialise ipath param).

(** * SSOServerRedirect: [fallback] = url.ParseRequestURI(config.SSO.ServerDefaultRedirectURL),
      validator = AbsoluteValidator([config.SSO.Domain]) *)
Definition ssoserver_clean (domain : bytes) (fallback : url) (target : bytes) : bytes :=
  clean (absolute_valid [domain]) target fallback.

Definition ssoserver_reserialise (fallback : url) (param : bytes) : bytes :=
  url_string (match parse_url param with Some u => u | None => fallback end).

Definition ssoserver_canonical (domain : bytes) (fallback : url) (param : bytes) : bytes :=
  ssoserver_clean domain fallback (ssoserver_reserialise fallback param).

(** * SSOProxyRedirect: [ing] = the matching ingress URL (or, when none matches, the single configured one),
      [fallback] = ingresses.Single().NewURL(), validator = AbsoluteValidator(ingresses.Hosts()) *)
Definition ssoproxy_clean (hosts : list bytes) (fallback : url) (target : bytes) : bytes :=
  clean (absolute_valid hosts) target fallback.

Definition ssoproxy_reserialise (ing : url) (param : bytes) : bytes :=
  url_string
    (match parse_url param with
     | Some p => mkurl (u_scheme ing) (u_opaque ing) (u_user ing) (u_host ing) (u_path p) (u_rawpath ing)
                       (u_omithost ing) (u_forcequery ing) (u_rawquery p) (u_fragment p) (u_rawfragment ing)
     | None => ing
     end).

Definition ssoproxy_canonical (hosts : list bytes) (ing fallback : url) (param : bytes) : bytes :=
  ssoproxy_clean hosts fallback (ssoproxy_reserialise ing param).

(* func ParseIngress(ingress string) ( *Ingress, error) : the URL part *)
Fixpoint trim_right_slash_rev (r : bytes) : bytes :=
  match r with c :: r' => if c =? 47 then trim_right_slash_rev r' else r | [] => [] end.
Definition trim_right_slash (s : bytes) : bytes := rev (trim_right_slash_rev (rev s)).

Definition parse_ingress (s : bytes) : option url :=
  if is_empty s then None
  else opt_bind (parse_request_uri s) (fun u =>
    if is_empty (u_host u) then None
    else if negb (is_valid_scheme u) then None
    else Some (mkurl (u_scheme u) (u_opaque u) (u_user u) (u_host u) (trim_right_slash (u_path u)) (u_rawpath u)
                     (u_omithost u) (u_forcequery u) (u_rawquery u) (u_fragment u) (u_rawfragment u))).

(** * SSOProxy.Login / SSOProxy.Logout (pkg/handler/handler_sso_proxy.go): the redirect handed to the SSO server.
    The request is reduced to its Host, its URL path and the [redirect] parameter; [ings] are the parsed configured
    ingresses, [fallback] is ingresses.Single() as chosen when the handler was built. X-Forwarded-Host is not modelled
    (the driver does not send it). *)
(* func hasPathPrefix(path, prefix string) bool *)
Definition spx_has_path_prefix (path pfx : bytes) : bool := beq path pfx || has_prefix path (pfx ++ [47]).

(* func (i *Ingresses) MatchingPath(r) string : the longest configured ingress path (of ANY host) that prefixes the request path *)
Definition spx_matching_path (ings : list url) (reqpath : bytes) : bytes :=
  fold_left (fun res ing =>
               let p := u_path ing in
               if negb (is_empty p) && spx_has_path_prefix reqpath p && Nat.ltb (length res) (length p) then p else res)
            ings [].

(* func (i *Ingresses) MatchingIngress(r) (Ingress, bool) *)
Definition spx_matching_ingress (ings : list url) (reqhost reqpath : bytes) : option url :=
  let mp := spx_matching_path ings reqpath in
  find (fun ing => beq (u_host ing) reqhost && beq (u_path ing) mp) ings.

(* the base redirect of SSOProxyRedirect.Canonical: MatchingIngress(r), else the fallback *)
Definition spx_base_ingress (ings : list url) (fallback : url) (reqhost reqpath : bytes) : url :=
  match spx_matching_ingress ings reqhost reqpath with Some i => i | None => fallback end.

(* SSOProxy.Login: canonicalRedirect := s.Redirect.Canonical(r); url.Login(target, canonicalRedirect) sets the
   parameter when it is non-empty *)
Definition spx_login_handover (ings : list url) (fallback : url) (reqhost reqpath param : bytes) : option bytes :=
  let c := ssoproxy_canonical (map u_host ings) (spx_base_ingress ings fallback reqhost reqpath) fallback param in
  if is_empty c then None else Some c.

(* SSOProxy.Logout: only when the request carries a non-empty redirect parameter *)
Definition spx_logout_handover (ings : list url) (fallback : url) (reqhost reqpath param : bytes) : option bytes :=
  if is_empty param then None else spx_login_handover ings fallback reqhost reqpath param.
