(** Model of the automatic-retry target of the error handler: /repo/pkg/handler/error.go [Standalone.Retry]
    (callers: [respondError] -> http.Redirect(w, r, retryUri, 307); [defaultErrorResponse] -> href="{{.RetryURI}}"
    of templates/error.gohtml). The SSO server embeds Standalone (same Retry, other Redirect implementation); the
    SSO proxy has no error handler. Transliterated together with what it calls:
    pkg/handler/path.go [GetPath], pkg/ingress [MatchingPath, hasPathPrefix], pkg/url/url.go [LoginRelative, Login],
    net/url [URL.JoinPath, URL.Query / parseQuery, Values.Get / Set / Encode, QueryEscape], path.Join, and the part of
    net/http's request reader that fills r.URL and r.RequestURI from the request line (readRequest, non-CONNECT).
    The request is reduced to what Retry reads: r.URL, the ingress path stored by the ingress middleware (a function
    of r.URL.Path and the configured ingress paths) and the Referer field of the decrypted login cookie.
    r.Host, the Host header and X-Forwarded-Host are NOT read (they only decide the matching ingress URL, which
    Retry does not use). NO proofs here. *)
From Coq Require Import NArith List Bool.
From WW Require Import Gen.Params Base.Bytes Model.GoUrl Model.Redirect.
Import ListNotations.
Open Scope N_scope.

(** * net/http: the request line
    readRequest: req.RequestURI = the request-target as written; for a method other than CONNECT
    req.URL, err = url.ParseRequestURI(req.RequestURI); an error rejects the request (400) before any handler runs.
    Forms:  origin-form "/p?q"                 -> Path, RawQuery
            absolute-form "http://h/p?q"       -> Scheme, (User,) Host, Path, RawQuery
            scheme without authority "http:/p" -> Scheme, Path, OmitHost;   "http:p" -> Scheme, Opaque
            empty authority "http:///p"        -> Scheme, Path
            "//h/p"                            -> Path = "//h/p" (no authority parsing in a request-URI without scheme)
            "*"                                -> Path = "*"
    A "#" is not special in a request-URI (it stays in RawQuery, or escaped in Path). *)
Definition ru_request_url (target : bytes) : option url := parse_request_uri target.
Definition ru_request_uri (target : bytes) : bytes := target.

(** * net/url: URL.Query().Get(key) *)
(* func parseQuery(m Values, query string): the accepted (key, value) pairs in order; a pair containing ';' or with
   an escaping error is skipped (the error is dropped by URL.Query) *)
Definition ru_query_pairs (q : bytes) : list (bytes * bytes) :=
  flat_map (fun kv =>
    if contains_byte kv 59 then []
    else if is_empty kv then []
    else
      let '(k, v) := cut_byte 61 kv in
      match unescape EQueryComponent k with
      | None => []
      | Some k' =>
        match unescape EQueryComponent (match v with Some x => x | None => [] end) with
        | None => []
        | Some v' => [(k', v')]
        end
      end) (split_on 38 q).

(* func (v Values) Get(key string) string *)
Definition ru_query_get (key q : bytes) : bytes :=
  match find (fun kv => beq (fst kv) key) (ru_query_pairs q) with
  | Some kv => snd kv
  | None => []
  end.

(* func QueryEscape(s string) string *)
Definition ru_query_escape (s : bytes) : bytes := escape s EQueryComponent.

(** * path.Join, URL.JoinPath *)
(* the buffer of path.Join: elements are skipped while nothing has been written *)
Fixpoint ru_join_buf (buf : bytes) (elems : list bytes) : bytes :=
  match elems with
  | [] => buf
  | e :: r =>
    if negb (is_empty buf) || negb (is_empty e)
    then ru_join_buf ((if negb (is_empty buf) then buf ++ [47] else buf) ++ e) r
    else ru_join_buf buf r
  end.

(* func Join(elem ...string) string *)
Definition ru_path_join (elems : list bytes) : bytes :=
  if forallb is_empty elems then [] else path_clean (ru_join_buf [] elems).

Definition ru_with_path (u : url) (path rawpath : bytes) : url :=
  mkurl (u_scheme u) (u_opaque u) (u_user u) (u_host u) path rawpath (u_omithost u) (u_forcequery u)
        (u_rawquery u) (u_fragment u) (u_rawfragment u).

Definition ru_with_rawquery (u : url) (q : bytes) : url :=
  mkurl (u_scheme u) (u_opaque u) (u_user u) (u_host u) (u_path u) (u_rawpath u) (u_omithost u) (u_forcequery u)
        q (u_fragment u) (u_rawfragment u).

(* func (u *URL) JoinPath(elem ...string) *URL ; an error of setPath leaves the copy unchanged *)
Definition ru_join_path (u : url) (elem : list bytes) : url :=
  let rel := negb (has_prefix (escaped_path u) [47]) in
  let e0 := if rel then 47 :: escaped_path u else escaped_path u in
  let j := ru_path_join (e0 :: elem) in
  let p := if rel then tl j else j in
  let p := if has_suffix (last elem e0) [47] && negb (has_suffix p [47]) then p ++ [47] else p in
  match set_path p with
  | Some (path, rawpath) => ru_with_path u path rawpath
  | None => u
  end.

(** * pkg/url/url.go *)
(* func Login(target *url.URL, redirect string) string, for a target without query:
   v := u.Query(); v.Set("redirect", redirect); u.RawQuery = v.Encode() *)
Definition ru_login (target : url) (redirect : bytes) : bytes :=
  let u := ru_join_path target [path_oauth2; path_login] in
  url_string
    (if negb (is_empty redirect)
     then ru_with_rawquery u (ru_query_escape redirect_query_parameter ++ 61 :: ru_query_escape redirect)
     else u).

(* func LoginRelative(prefix, redirect string) string *)
Definition ru_login_relative (prefix redirect : bytes) : bytes :=
  ru_login (mkurl [] [] None [] (if is_empty prefix then [47] else prefix) [] false false [] [] []) redirect.

(** * pkg/ingress, pkg/handler/path.go *)
(* func hasPathPrefix(path, prefix string) bool *)
Definition ru_has_path_prefix (path pfx : bytes) : bool := beq path pfx || has_prefix path (pfx ++ [47]).

(* func (i *Ingresses) MatchingPath(r) string ; [paths] = the distinct configured ingress paths (any order: two
   different paths of one length cannot both be segment prefixes of the same request path) *)
Definition ru_matching_path (paths : list bytes) (reqpath : bytes) : bytes :=
  fold_left (fun res p =>
               if negb (is_empty p) && ru_has_path_prefix reqpath p && Nat.ltb (length res) (length p) then p else res)
            paths [].

(** * the Redirect implementation of the handler *)
Inductive ru_mode :=
| RuStandalone
| RuSsoServer (domain : bytes) (fallback : url).   (* SSO domain, url.ParseRequestURI(sso.server-default-redirect-url) *)

Definition ru_canonical (m : ru_mode) (ipath param : bytes) : bytes :=
  match m with
  | RuStandalone => standalone_canonical ipath param
  | RuSsoServer d f => ssoserver_canonical d f param
  end.

Definition ru_clean (m : ru_mode) (ipath target : bytes) : bytes :=
  match m with
  | RuStandalone => standalone_clean ipath target
  | RuSsoServer d f => ssoserver_clean d f target
  end.

(** * func (s *Standalone) Retry(r *http.Request, loginCookie *openid.LoginCookie) string
    [u] = r.URL, [paths] = s.GetIngresses().Paths(), [referer] = None when loginCookie == nil *)
Definition ru_blank (u : url) : url := with_scheme_host u [] [].

Definition ru_retry (m : ru_mode) (paths : list bytes) (u : url) (referer : option bytes) : bytes :=
  let request_path := u_path u in
  let ingress_path := ru_matching_path paths request_path in
  if has_suffix request_path (path_oauth2 ++ path_logout_callback) then
    ingress_path ++ path_oauth2 ++ path_logout
  else if has_suffix request_path (path_oauth2 ++ path_callback) then
    let redirect := ru_canonical m ingress_path (ru_query_get redirect_query_parameter (u_rawquery u)) in
    let redirect :=
      match referer with
      | Some ref => if negb (is_empty ref) then ru_clean m ingress_path ref else redirect
      | None => redirect
      end in
    ru_login_relative ingress_path redirect
  else url_string (ru_blank u).

(* respondError: http.Redirect(w, r, retryUri, http.StatusTemporaryRedirect): the Location header *)
Definition ru_retry_location (m : ru_mode) (paths : list bytes) (u : url) (referer : option bytes) : bytes :=
  http_redirect_location (u_path u) (ru_retry m paths u referer).

(* from the request line to the Location; None = net/http rejects the request line *)
Definition ru_wire_location (m : ru_mode) (paths : list bytes) (target : bytes) (referer : option bytes) : option bytes :=
  match ru_request_url target with
  | Some u => Some (ru_retry_location m paths u referer)
  | None => None
  end.

(** * the seeded variant (seeded/C04r3): the last branch of Retry returns r.RequestURI instead of the blanked URL *)
Definition ru_retry_seeded (m : ru_mode) (paths : list bytes) (u : url) (request_uri : bytes) (referer : option bytes) : bytes :=
  let request_path := u_path u in
  if has_suffix request_path (path_oauth2 ++ path_logout_callback)
     || has_suffix request_path (path_oauth2 ++ path_callback)
  then ru_retry m paths u referer
  else request_uri.

Definition ru_wire_location_seeded (m : ru_mode) (paths : list bytes) (target : bytes) (referer : option bytes) : option bytes :=
  match ru_request_url target with
  | Some u => Some (http_redirect_location (u_path u) (ru_retry_seeded m paths u (ru_request_uri target) referer))
  | None => None
  end.
