(** Entry points of the C12 model for the correspondence check (flattened types). *)
From Coq Require Import NArith List Bool.
From WW Require Import Gen.Params Base.Bytes Model.Glob Model.GlobFull.
Import ListNotations.
Open Scope N_scope.

(* doublestar.Match's boolean: the proved fragment matcher on the fragment, the full transliteration
   outside it *)
Definition glob_match (pat name : bytes) : bool :=
  if in_fragment pat then glob_exec pat name else glob_full pat name.

(* 0 / 1 = result; 2 = out of fuel (never expected) *)
Definition entry_glob (pat name : bytes) : N :=
  if in_fragment pat then
    match glob_run pat name with Some true => 1 | Some false => 0 | None => 2 end
  else match glob_full_run pat name with Some true => 1 | Some false => 0 | None => 2 end.

Definition entry_clean (p : bytes) : bytes := path_clean p.

Definition entry_patterns (configured : list bytes) : list bytes :=
  new_patterns default_ignore_patterns configured.

Definition entry_needs (clean_first enabled : bool) (configured : list bytes) (reqs : list (bool * bytes))
  : list bytes * list bool :=
  let pats := entry_patterns configured in
  (pats, needs_login_seq glob_match clean_first enabled pats [] reqs).

Definition entry_route (clean_first seg : bool) (configured ingress_paths : list bytes) (r : request) : response :=
  handler_unauth glob_match clean_first seg true (entry_patterns configured) ingress_paths r.
