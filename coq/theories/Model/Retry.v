(** A cookie-keeping browser (Model/Jar.v) talking to wonderwall's cookie-relevant handler behaviour
    (Model/Cookie.v [handle]): krequest sequences, automatic following of retry redirects
    (error.go Retry / respondError) and the login rate limit (handler.go applyLoginRateLimit).
    Executable definitions only; proofs are in Proofs/RetryP.v. *)
From Coq Require Import NArith ZArith List Bool.
From WW Require Import Base.Bytes Gen.Params Model.CookieUrl Model.Cookie Model.Jar.
Import ListNotations.
Open Scope Z_scope.

(* ------------------------------------------------------------------ one krequest of the browser *)

Record browser := {
  b_jar : jar;
  b_now : Z;              (* absolute time, ns *)
  b_session : bool        (* a server-side session exists for the session cookie the browser holds *)
}.

Record breq := { q_ep : kendpoint; q_path : bytes; q_prompt : bool }.

Record site_env := {
  e_cfg : kconfig;
  e_ingresses : list (bytes * bytes);   (* (Host, Path) of the parsed ingresses *)
  e_hostport : bytes;     (* Host header the browser sends *)
  e_https : bool;         (* scheme the browser uses *)
  e_host : bytes;         (* canonical host the browser talks to *)
  e_trust : bool          (* Jar trust_localhost *)
}.

Definition e_paths (e : site_env) : list bytes := map snd (e_ingresses e).

(* Ingresses.MatchingPath for a request path, in the variant of the code the configuration names *)
Definition e_mp (e : site_env) (req : bytes) : bytes := matching_path (cf_seg_prefix (e_cfg e)) (e_paths e) req.

Definition origin_of (e : site_env) (path : bytes) : origin :=
  {| u_https := e_https e; u_host := e_host e; u_path := path |}.

Definition lit_of (v : option cvalue) : option bytes :=
  match v with Some (VLit b) => Some b | Some VOpaque => Some [120%N] | None => None end.

(* the krequest as the server sees it: matching path and the cookies the jar sends *)
Definition build_request (e : site_env) (b : browser) (q : breq) (f : cfault) : krequest :=
  let u := origin_of e (q_path q) in
  let ck := fun k => jar_cookie (e_trust e) (b_now b) u (b_jar b) (cookie_name (e_cfg e) k) in
  {| r_ep := q_ep q;
     r_mp := e_mp e (q_path q);
     r_retry := lit_of (ck CkRetry);
     r_logincount := lit_of (ck CkLoginCount);
     r_has_session := b_session b && match ck CkSession with Some _ => true | None => false end;
     r_has_login := match ck CkLogin with Some _ => true | None => false end;
     r_ingress_ok := matching_ingress (e_ingresses e) (e_hostport e) (e_mp e (q_path q));
     r_prompt := q_prompt q;
     r_fault := f |}.

Definition is_err (f : cfault) : bool := match f with CFErr _ => true | _ => false end.

(* effect of the handled krequest on the server-side session *)
Definition session_after (r : krequest) (rs : kresponse) (had : bool) : bool :=
  match r_ep r, r_fault r with
  | EpCallback, CFNone => if r_has_login r then true else had
  | EpLogout, CFNone => if r_has_session r && r_ingress_ok r then false else had
  | EpLogoutLocal, CFNone => if r_has_session r then false else had
  | EpFrontChannel, CFNone => false
  | EpLogin, CFNone => if r_prompt r && r_has_session r && r_ingress_ok r then false else had
  | _, _ => had
  end.

Definition do_request (e : site_env) (b : browser) (q : breq) (f : cfault) : kresponse * browser :=
  let r := build_request e b q f in
  let rs := handle (e_cfg e) r in
  (* reading the cookies for the krequest drops the expired entries (cookiejar does so lazily) *)
  (rs, {| b_jar := jar_set_all (b_now b) (origin_of e (q_path q)) (rs_cookies rs) (jar_gc (b_now b) (b_jar b));
          b_now := b_now b;
          b_session := session_after r rs (b_session b) |}).

(* An SSO deployment with both parties: the SSO server and an SSO proxy (handler_sso_proxy.go) in front of an application
   on the same SSO domain. [pe] is the proxy as the browser sees it - its scheme, host, Host header and its own ingresses -
   with the deployment's cookie configuration (names, SSO domain: shared by server and proxy). A request to the proxy:
   - LogoutLocal, LogoutFrontChannel: r.URL.Path is rewritten to the server's route and the request is relayed through
     SSOServerReverseProxy with its cookies; the server's answer - status and every Set-Cookie header - is relayed back:
     the server's [handle] on the cookies the browser sends to the PROXY's URL; the browser files the cookies under the
     proxy's origin;
   - Login, Logout and the two callbacks: a 302 (to the server, resp. to the proxy's own login) that sets no cookie. *)
Definition do_request_proxy (pe : site_env) (b : browser) (q : breq) (f : cfault) : kresponse * browser :=
  match q_ep q with
  | EpLogoutLocal | EpFrontChannel => do_request pe b q f
  | _ => ({| rs_status := 302; rs_kind := CrOther; rs_cookies := [] |}, b)
  end.

Definition sleep (b : browser) (dt : Z) : browser :=
  {| b_jar := b_jar b; b_now := b_now b + dt; b_session := b_session b |}.

(* ------------------------------------------------------------------ error.go Retry: where the 307 points *)

Definition retry_target (e : site_env) (q : breq) : breq :=
  let mp := e_mp e (q_path q) in
  match q_ep q with
  | EpLogoutCallback => {| q_ep := EpLogout; q_path := mp ++ path_oauth2 ++ path_logout; q_prompt := false |}
  | EpCallback => {| q_ep := EpLogin; q_path := mp ++ path_oauth2 ++ path_login; q_prompt := false |}
  | _ => q
  end.

(* after a successful login start the provider sends the browser to the callback of the matching ingress *)
Definition callback_of (e : site_env) (q : breq) : breq :=
  let mp := e_mp e (q_path q) in
  {| q_ep := EpCallback; q_path := mp ++ path_oauth2 ++ path_callback; q_prompt := false |}.

(* The browser follows 307 auto-retries (and, when [via_idp], the login -> provider -> callback round trip);
   the environment decides per krequest whether it fails. Returns the status codes seen. *)
Fixpoint follow (fuel : nat) (e : site_env) (via_idp : bool) (b : browser) (q : breq) (fs : list cfault)
  : list Z * browser :=
  match fuel, fs with
  | O, _ => ([], b)
  | _, [] => ([], b)
  | S n, f :: fs' =>
    let '(rs, b') := do_request e b q f in
    match rs_kind rs with
    | CrRedirect307 => let '(l, b'') := follow n e via_idp b' (retry_target e q) fs' in (rs_status rs :: l, b'')
    | CrErrorPage => ([rs_status rs], b')
    | CrOther =>
      if via_idp && match q_ep q with EpLogin => true | _ => false end
      then let '(l, b'') := follow n e via_idp b' (callback_of e q) fs' in (rs_status rs :: l, b'')
      else ([rs_status rs], b')
    end
  end.

(* Persistent failures (status [st]) of one request that is retried on its own URL, in a browser with any jar, with the
   lookup of the retry cookie in the Cookie header as a parameter. [pick := first_named] is the code (pkg/cookie Get =
   http.Request.Cookie) and then this is [follow] on a constant fault list; any other [pick] only serves to state what the
   first-match rule is needed for (Properties/C17.v c17_last_match_refuted). Returns the status codes seen. *)
Definition with_retry (r : krequest) (rc : option bytes) : krequest :=
  {| r_ep := r_ep r; r_mp := r_mp r; r_retry := rc; r_logincount := r_logincount r; r_has_session := r_has_session r;
     r_has_login := r_has_login r; r_ingress_ok := r_ingress_ok r; r_prompt := r_prompt r; r_fault := r_fault r |}.

Fixpoint fail_chain (pick : bytes -> list jcookie -> option cvalue) (fuel : nat) (e : site_env) (b : browser) (q : breq) (st : Z)
  : list Z :=
  match fuel with
  | O => []
  | S n =>
    let u := origin_of e (q_path q) in
    let rc := lit_of (pick (cookie_name (e_cfg e) CkRetry) (jar_select (e_trust e) (b_now b) u (b_jar b))) in
    let rs := handle (e_cfg e) (with_retry (build_request e b q (CFErr st)) rc) in
    let b' := {| b_jar := jar_set_all (b_now b) u (rs_cookies rs) (jar_gc (b_now b) (b_jar b));
                 b_now := b_now b; b_session := b_session b |} in
    match rs_kind rs with
    | CrRedirect307 => rs_status rs :: fail_chain pick n e b' q st
    | _ => [rs_status rs]
    end
  end.

(* explicit krequest sequence with waiting times (no following) *)
Fixpoint run_seq (e : site_env) (b : browser) (steps : list (Z * breq * cfault)) : list (kresponse * browser) :=
  match steps with
  | [] => []
  | (dt, q, f) :: r =>
    let '(rs, b') := do_request e (sleep b dt) q f in
    (rs, b') :: run_seq e b' r
  end.

(* ------------------------------------------------------------------ abstract view used by the theorems *)

(* The retry counter as the server reads it, and what one krequest does to it. *)
Inductive revent :=
| EvFail (status : Z)      (* a krequest answered through respondError *)
| EvClear                  (* successful login callback / logout callback / front-channel logout *)
| EvOther.                 (* any other kresponse: counter untouched *)

Inductive robs := ObsRedirect | ObsPage (status : Z) | ObsOk.

Definition counter_step (c : option Z) (ev : revent) : option Z * robs :=
  match ev with
  | EvFail st =>
    let c' := Some (match c with Some p => wrap64 (p + 1) | None => 1 end) in
    if (match c with None => true | Some a => a <? max_auto_retry_attempts end) && negb (st =? 429)
    then (c', ObsRedirect) else (c', ObsPage st)
  | EvClear => (None, ObsOk)
  | EvOther => (c, ObsOk)
  end.

Fixpoint counter_run (c : option Z) (evs : list revent) : list robs :=
  match evs with
  | [] => []
  | ev :: r => let '(c', o) := counter_step c ev in o :: counter_run c' r
  end.

(* length of the longest run of consecutive auto-retry redirects *)
Fixpoint max_run_go (cur best : nat) (l : list robs) : nat :=
  match l with
  | [] => Nat.max cur best
  | ObsRedirect :: r => max_run_go (S cur) best r
  | _ :: r => max_run_go O (Nat.max cur best) r
  end.
Definition max_redirect_run (l : list robs) : nat := max_run_go O O l.

(* ------------------------------------------------------------------ failure causes *)

(** WHY a request fails is the environment's business. The handlers pass the cause to respondError, which uses it for
    the log line only: the status, the counter cookie and the decision redirect / error page do not depend on it.
    The browser scripts name a cause with every injected failure (the driver arranges exactly that fault on the real
    stack); the handler model sees the status alone. *)
Inductive fcause :=
| FcUnspecified        (* as injected before causes were told apart: provider answers 4xx / error parameter, bad state,
                          missing login cookie *)
| FcProvider5xx        (* the provider endpoint answers 5xx for the whole retry budget *)
| FcProviderMalformed  (* 2xx with a body that does not decode *)
| FcProviderTimeout    (* the endpoint accepts the connection and never answers: the client's own timeout fires
                          (context.DeadlineExceeded in the error chain) *)
| FcProviderRefused    (* connection refused *)
| FcClientCanceled     (* the request's context is cancelled while the handler waits for the provider
                          (context.Canceled in the error chain) *)
| FcStore              (* a session-store operation fails *)
| FcStoreTimeout       (* ... with a deadline error in its chain *)
| FcStoreCanceled.     (* ... with a cancellation in its chain *)

Definition fault_of_cause (st : Z) (k : fcause) : cfault := CFErr st.

(** The counter machine with the cause made explicit, and with a parameter saying which causes are COUNTED (written
    into the cookie). The code counts all of them ([fun _ => true], [counter_step]); the parameter exists to state
    why it has to: see Proofs/RetryP.v [uncounted_cause_loops]. The decision is taken on the counter read, as in
    respondError; only the value written differs. *)
Definition counter_step_sel (counted : fcause -> bool) (c : option Z) (st : Z) (k : fcause) : option Z * robs :=
  let '(c', o) := counter_step c (EvFail st) in ((if counted k then c' else c), o).

Fixpoint counter_run_sel (counted : fcause -> bool) (c : option Z) (evs : list (Z * fcause)) : list robs :=
  match evs with
  | [] => []
  | (st, k) :: r => let '(c', o) := counter_step_sel counted c st k in o :: counter_run_sel counted c' r
  end.

(* ------------------------------------------------------------------ rate limit, abstract *)

(* logincount cookie in the browser: value and expiry *)
Definition rl_state := option (Z * option Z).   (* value, expiry (None: session cookie, never lapses) *)

(* one login krequest at time [now] by a browser with a valid session; true = 429 *)
Definition rl_step (c : kconfig) (st : rl_state) (now : Z) : rl_state * bool :=
  let seen := match st with
              | Some (n, Some exp) => if now <? exp then Some n else None
              | Some (n, None) => Some n
              | None => None
              end in
  let attempts := match seen with Some n => n | None => 0 end in
  if negb (cf_rl_enabled c) then (st, false)
  else if cf_rl_logins c <=? attempts then (st, true)
  else let ws := window_seconds c in
       ((if 0 <? ws then Some (attempts + 1, Some (now + ws * jsecond))      (* Max-Age = ws *)
         else if ws =? 0 then Some (attempts + 1, None)                      (* MaxAge 0: no attribute *)
         else None), false).                                                 (* MaxAge < 0: deletes *)

Fixpoint rl_run (c : kconfig) (st : rl_state) (now : Z) (gaps : list Z) : list bool :=
  match gaps with
  | [] => []
  | g :: r => let '(st', lim) := rl_step c st (now + g) in lim :: rl_run c st' (now + g) r
  end.
