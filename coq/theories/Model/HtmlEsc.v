(** Model of the html/template escapers that templates/error.gohtml relies on (Go 1.24.2,
    src/html/template/html.go, url.go), for plain string values:
    - {{.CorrelationID}} in element content: htmlEscaper = htmlReplacer(s, htmlReplacementTable, badRunes=true);
    - href="{{.RetryURI}}", href="{{.DefaultRedirectURI}}" (double-quoted URL attribute):
      urlFilter | urlNormalizer | attrEscaper, attrEscaper being the same htmlReplacer call.
    htmlReplacer decodes runes, but every table entry is below 0x3f and with badRunes=true nothing else
    is rewritten, so it acts byte by byte (bytes >= 0x80, valid UTF-8 or not, are copied).
    strings.EqualFold against the ASCII words http / https / mailto: besides ASCII case folding the
    only match is U+017F (long s, bytes C5 BF) for 's' (unicode.SimpleFold orbit S s U+017F). *)
From Coq Require Import String.
From Coq Require Import NArith List Bool.
From WW Require Import Base.Bytes Base.BytesLit.
Import ListNotations.
Open Scope N_scope.

(** * htmlReplacementTable *)
Definition ent_quot := Eval vm_compute in bs "&#34;".
Definition ent_amp := Eval vm_compute in bs "&amp;".
Definition ent_apos := Eval vm_compute in bs "&#39;".
Definition ent_plus := Eval vm_compute in bs "&#43;".
Definition ent_lt := Eval vm_compute in bs "&lt;".
Definition ent_gt := Eval vm_compute in bs "&gt;".
Definition repl_nul : bytes := [239; 191; 189].   (* "�" *)

Definition html_repl (c : N) : bytes :=
  if c =? 0 then repl_nul
  else if c =? 34 then ent_quot
  else if c =? 38 then ent_amp
  else if c =? 39 then ent_apos
  else if c =? 43 then ent_plus
  else if c =? 60 then ent_lt
  else if c =? 62 then ent_gt
  else [c].

(* htmlEscaper / attrEscaper on a plain string *)
Definition html_escape (s : bytes) : bytes := flat_map html_repl s.

(** * urlFilter *)
Definition fail_safe := Eval vm_compute in bs "ZgotmplZ".
Definition w_http := Eval vm_compute in bs "http".
Definition w_https := Eval vm_compute in bs "https".
Definition w_mailto := Eval vm_compute in bs "mailto".

(* strings.Cut(s, ":") *)
Fixpoint cut_byte (sep : N) (s : bytes) : option (bytes * bytes) :=
  match s with
  | [] => None
  | c :: r => if c =? sep then Some ([], r)
              else match cut_byte sep r with Some (a, b) => Some (c :: a, b) | None => None end
  end.

(* strings.EqualFold(s, t) for t a word of lower-case ASCII letters *)
Fixpoint equal_fold_lower (s t : bytes) : bool :=
  match t with
  | [] => match s with [] => true | _ => false end
  | tc :: t' =>
    match s with
    | [] => false
    | sc :: s' =>
      if (sc =? tc) || ((65 <=? sc) && (sc <=? 90) && (sc + 32 =? tc)) then equal_fold_lower s' t'
      else if tc =? 115 then
        match s with
        | a :: b :: s'' => if (a =? 197) && (b =? 191) then equal_fold_lower s'' t' else false
        | _ => false
        end
      else false
    end
  end.

Definition safe_scheme (p : bytes) : bool :=
  equal_fold_lower p w_http || equal_fold_lower p w_https || equal_fold_lower p w_mailto.

Definition is_safe_url (s : bytes) : bool :=
  match cut_byte 58 s with
  | Some (proto, _) => if contains_byte proto 47 then true else safe_scheme proto
  | None => true
  end.

Definition url_filter (s : bytes) : bytes := if is_safe_url s then s else 35 :: fail_safe.

(** * urlNormalizer = processURLOnto(s, norm = true) *)
Definition is_alnum (c : N) : bool :=
  ((97 <=? c) && (c <=? 122)) || ((65 <=? c) && (c <=? 90)) || ((48 <=? c) && (c <=? 57)).

Definition is_hex (c : N) : bool :=
  ((48 <=? c) && (c <=? 57)) || ((97 <=? c) && (c <=? 102)) || ((65 <=? c) && (c <=? 70)).

(* ! # $ & * + , / : ; = ? @ [ ]   and   - . _ ~ *)
Definition url_keep (c : N) : bool :=
  (c =? 33) || (c =? 35) || (c =? 36) || (c =? 38) || (c =? 42) || (c =? 43) || (c =? 44) || (c =? 47) ||
  (c =? 58) || (c =? 59) || (c =? 61) || (c =? 63) || (c =? 64) || (c =? 91) || (c =? 93) ||
  (c =? 45) || (c =? 46) || (c =? 95) || (c =? 126) || is_alnum c.

Definition hex_digit (n : N) : N := if n <? 10 then 48 + n else 87 + n.
Definition pct_encode (c : N) : bytes := [37; hex_digit (c / 16); hex_digit (c mod 16)].   (* "%%%02x" *)

Fixpoint url_normalize (s : bytes) : bytes :=
  match s with
  | [] => []
  | c :: r =>
    if url_keep c then c :: url_normalize r
    else if (c =? 37) && (match r with a :: b :: _ => is_hex a && is_hex b | _ => false end) then c :: url_normalize r
    else pct_encode c ++ url_normalize r
  end.

(** * What templates/error.gohtml renders *)
Definition render_text (s : bytes) : bytes := html_escape s.                       (* ID: {{.CorrelationID}} *)
Definition href_url (x : bytes) : bytes := url_normalize (url_filter x).           (* the attribute's value *)
Definition render_href (x : bytes) : bytes := html_escape (href_url x).            (* as written between the quotes *)

(** * A URL scheme as a browser recognises it: ALPHA *( ALPHA / DIGIT / "+" / "-" / "." ) before the first ":" *)
Definition is_alpha (c : N) : bool := ((97 <=? c) && (c <=? 122)) || ((65 <=? c) && (c <=? 90)).
Definition scheme_char (c : N) : bool := is_alnum c || (c =? 43) || (c =? 45) || (c =? 46).
Definition valid_scheme (p : bytes) : bool :=
  match p with c :: _ => is_alpha c && forallb scheme_char p | [] => false end.

(** * The reader's side (not code of the repository): decoding of the six character references the
    escaper emits, as an HTML parser does inside text and attribute values.  Used only to state that
    the attribute value the browser sees is [href_url x]. *)
Definition strip_entity (s : bytes) : option (N * bytes) :=
  if has_prefix s ent_quot then Some (34, skipn 5 s)
  else if has_prefix s ent_amp then Some (38, skipn 5 s)
  else if has_prefix s ent_apos then Some (39, skipn 5 s)
  else if has_prefix s ent_plus then Some (43, skipn 5 s)
  else if has_prefix s ent_lt then Some (60, skipn 4 s)
  else if has_prefix s ent_gt then Some (62, skipn 4 s)
  else None.

Fixpoint html_unescape_fuel (n : nat) (s : bytes) : bytes :=
  match n with
  | O => []
  | S n' =>
    match s with
    | [] => []
    | c :: r =>
      match strip_entity s with
      | Some (d, rest) => d :: html_unescape_fuel n' rest
      | None => c :: html_unescape_fuel n' r
      end
    end
  end.

Definition html_unescape (s : bytes) : bytes := html_unescape_fuel (length s) s.
