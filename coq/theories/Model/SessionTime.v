(** Model of pkg/session/data.go: Metadata and its time predicates.
    Time is Z nanoseconds; Go's zero time.Time (TimeoutAt "absent") is [None].
    Transliterated line by line, including truncating division ([Z.quot]) and
    the strictness of every comparison (After/Before are strict). *)
From Coq Require Import ZArith Bool.
Open Scope Z_scope.

Record tparams := { min_interval : Z; leeway : Z }.

Record meta := { created : Z; ends : Z; timeout : option Z; expire : Z; refreshed : Z }.

Definition second : Z := 1000000000.

(* NewMetadata(expiresIn, endsIn) at instant now *)
Definition new_meta (now expires_in ends_in : Z) : meta :=
  {| created := now; ends := now + ends_in; timeout := None;
     expire := now + expires_in; refreshed := now |}.

Definition is_ended (m : meta) (now : Z) : bool := ends m <? now.
Definition is_expired (m : meta) (now : Z) : bool := expire m <? now.
Definition is_timed_out (m : meta) (now : Z) : bool :=
  match timeout m with None => false | Some t => t <? now end.

Definition token_lifetime (m : meta) : Z := expire m - refreshed m.

Definition cooldown_end (P : tparams) (m : meta) : Z :=
  if token_lifetime m <=? min_interval P * 2
  then refreshed m + Z.quot (token_lifetime m) 2
  else refreshed m + min_interval P.

Definition on_cooldown (P : tparams) (m : meta) (now : Z) : bool := now <? cooldown_end P m.

(* the candidate instant before the "in the past" test of NextRefresh *)
Definition next_candidate (P : tparams) (m : meta) : Z :=
  let next := expire m - leeway P in
  match timeout m with
  | None => next
  | Some t => let half := refreshed m + Z.quot (t - refreshed m) 2 in
              if half <? next then half else next
  end.

Definition next_refresh (P : tparams) (m : meta) (now : Z) : Z :=
  let next := next_candidate P m in
  if next <? now then cooldown_end P m else next.

Definition should_refresh (P : tparams) (m : meta) (now : Z) : bool :=
  if is_expired m now then true
  else if on_cooldown P m now then false
  else next_refresh P m now <? now.

(* Metadata.Refresh(nextExpirySeconds) at instant now *)
Definition refresh_meta (m : meta) (now secs : Z) : meta :=
  {| created := created m; ends := ends m; timeout := timeout m;
     expire := now + secs * second; refreshed := now |}.

(* Metadata.WithTimeout(timeoutIn) at instant now *)
Definition with_timeout (m : meta) (now d : Z) : meta :=
  let t := now + d in
  {| created := created m; ends := ends m; timeout := Some t;
     expire := if t <? expire m then t else expire m; refreshed := refreshed m |}.

(* toSeconds: int64(d.Seconds()) truncates toward zero; non-positive -> 0 *)
Definition to_seconds (d : Z) : Z :=
  let i := Z.quot d second in if i <=? 0 then 0 else i.

Record verbose := {
  v_ends_in : Z; v_active : bool; v_timeout_in : Z;
  v_expire_in : Z; v_next_refresh_in : Z; v_cooldown : bool; v_cooldown_secs : Z }.

Definition verbose_of (P : tparams) (m : meta) (now : Z) : verbose :=
  {| v_ends_in := to_seconds (ends m - now);
     v_active := negb (is_timed_out m now);
     v_timeout_in := match timeout m with None => -1 | Some t => to_seconds (t - now) end;
     v_expire_in := to_seconds (expire m - now);
     v_next_refresh_in := to_seconds (next_refresh P m now - now);
     v_cooldown := on_cooldown P m now;
     v_cooldown_secs := to_seconds (cooldown_end P m - now) |}.

(* Data.Validate as far as it depends on time (access-token presence is [has_at]) *)
Inductive validity := Valid | InvalidNoToken | InvalidEnded | InvalidInactive.

Definition validate (has_at : bool) (m : meta) (now : Z) : validity :=
  if negb has_at then InvalidNoToken
  else if is_ended m now then InvalidEnded
  else if is_timed_out m now then InvalidInactive
  else Valid.
