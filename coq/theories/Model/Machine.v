(** The session machine: store, refresh lock, identity provider, clock and request
    threads, transliterated from
      pkg/session/session_manager.go (Create, Delete, GetOrRefresh, Refresh, update),
      pkg/session/session_reader.go (Get, getForTicket), store_redis.go, store_memory.go,
      lock.go (bsm/redislock obtain / release scripts), pkg/retry/retry.go (time budget),
      pkg/handler/handler.go (GetSession, Logout, LogoutLocal, LogoutFrontChannel, Session,
      SessionRefresh, SessionForwardAuth), pkg/handler/reverseproxy.go (Handler,
      getSessionWithValidToken, Rewrite), pkg/handler/acr, pkg/openid/acr.

    Handlers are defunctionalised: a thread is a request kind plus an explicit program
    point ([phase]); one [Run] event performs exactly one boundary operation (one Redis
    command, one lock script call, one token-endpoint call) atomically and then runs the
    pure code up to the next operation at the same clock value.  Time passes only through
    [Tick] events.  A thread that is never run again is a crashed handler.  Faults are
    arguments of [Run]; schedules, fault sequences and histories are event lists. *)
From Coq Require Import ZArith NArith Bool List.
From WW Require Import Base.AMap Model.SessionTime.
Import ListNotations.
Open Scope Z_scope.

(** * Configuration *)
Record config := {
  c_redis : bool;          (* shared Redis store (true) or in-memory store (false) *)
  c_sso : bool;            (* sso.enabled with mode server for the main instance (its Wildcard never proxies);
                              requests of kind KSsoProxy are served by an SSO-proxy instance sharing the store *)
  c_fwdauth : bool;        (* session.forward-auth *)
  c_inact : option Z;      (* session.inactivity(-timeout) *)
  c_maxlife : Z;           (* session.max-lifetime *)
  c_acr : N;               (* openid.acr-values as a code, 0 = not configured *)
  c_proxy_acr : N;         (* openid.acr-values of the SSO-proxy instance *)
  c_idtoken : bool;        (* upstream-include-id-token *)
  c_autologin : bool;      (* auto-login with no ignore pattern matching the request *)
  (* structure of the code that fixes changed; the correspondence runs at the values of the current tree *)
  c_upd_atomic : bool;     (* Store.Update is one conditional write (SET XX KEEPTTL / one critical section) *)
  c_memlock : bool;        (* the in-memory store has a real per-key lock *)
  c_logout_strict : bool;  (* Logout / LogoutLocal report a failed session lookup *)
  (* constants, from Gen/Params.v *)
  c_tp : tparams;
  c_lock_lease : Z;
  c_lock_timeout : Z;
  c_retry_max : Z
}.

Definition auto_refresh_disabled (c : config) : bool := c_sso c && negb (c_fwdauth c).

(** * Session data, store, locks, provider *)
Record sdata := { sd_sid : N; sd_at : N; sd_idt : N; sd_rt : N; sd_acr : N; sd_md : meta }.

Record entry := { e_dek : N; e_data : sdata; e_exp : option Z }.   (* absolute expiry; None = no TTL *)
Record lockent := { l_tok : N; l_exp : Z }.

Inductive idp_ev := IdpGrant (rt : N) (ok : bool).

Record world := {
  w_store : list (N * entry);
  w_locks : list (N * lockent);
  w_valid_rt : list (N * N);      (* refresh tokens the provider will still accept, with the access token issued with them *)
  w_next_id : N;                  (* next token id minted by the provider *)
  w_tau : Z;                      (* provider token lifetime, seconds *)
  w_rotate : bool;                (* provider rotates refresh tokens *)
  w_idp_log : list idp_ev;        (* newest first *)
  w_clock : Z;
  w_next_tok : N                  (* fresh counter for lock tokens and data keys *)
}.

Definition entry_live (now : Z) (e : entry) : bool :=
  match e_exp e with None => true | Some x => now <? x end.

Definition store_get (w : world) (k : N) : option entry :=
  match alookup k (w_store w) with
  | Some e => if entry_live (w_clock w) e then Some e else None
  | None => None
  end.

Definition lock_get (w : world) (k : N) : option lockent :=
  match alookup k (w_locks w) with
  | Some l => if w_clock w <? l_exp l then Some l else None
  | None => None
  end.

Definition set_store (w : world) (s : list (N * entry)) : world :=
  {| w_store := s; w_locks := w_locks w; w_valid_rt := w_valid_rt w; w_next_id := w_next_id w;
     w_tau := w_tau w; w_rotate := w_rotate w; w_idp_log := w_idp_log w; w_clock := w_clock w;
     w_next_tok := w_next_tok w |}.

Definition set_locks (w : world) (l : list (N * lockent)) (nt : N) : world :=
  {| w_store := w_store w; w_locks := l; w_valid_rt := w_valid_rt w; w_next_id := w_next_id w;
     w_tau := w_tau w; w_rotate := w_rotate w; w_idp_log := w_idp_log w; w_clock := w_clock w;
     w_next_tok := nt |}.

Definition set_idp (w : world) (v : list (N * N)) (nid : N) (lg : list idp_ev) : world :=
  {| w_store := w_store w; w_locks := w_locks w; w_valid_rt := v; w_next_id := nid;
     w_tau := w_tau w; w_rotate := w_rotate w; w_idp_log := lg; w_clock := w_clock w;
     w_next_tok := w_next_tok w |}.

Definition set_clock (w : world) (c : Z) : world :=
  {| w_store := w_store w; w_locks := w_locks w; w_valid_rt := w_valid_rt w; w_next_id := w_next_id w;
     w_tau := w_tau w; w_rotate := w_rotate w; w_idp_log := w_idp_log w; w_clock := c;
     w_next_tok := w_next_tok w |}.

Definition set_tau (w : world) (t : Z) (rot : bool) : world :=
  {| w_store := w_store w; w_locks := w_locks w; w_valid_rt := w_valid_rt w; w_next_id := w_next_id w;
     w_tau := t; w_rotate := rot; w_idp_log := w_idp_log w; w_clock := w_clock w;
     w_next_tok := w_next_tok w |}.

Definition set_next_tok (w : world) (nt : N) : world := set_locks w (w_locks w) nt.

(** * Requests and threads *)
Inductive cookie := CNone | CGarbage | CNonJson | CTicket (k dek : N).

Inductive rkind := KProxy | KSsoProxy | KInfo | KRefresh | KFwdAuth | KLogout | KLogoutLocal | KFront (sid : option N).

(* result of Refresh / error classes of the session package *)
Inductive rres :=
| ROk (d : sdata)
| RInvalid            (* session.ErrInvalid (ended, inactive, no token, undecryptable) *)
| RInvalidExternal    (* session.ErrInvalidExternal: provider rejected the refresh token *)
| RNotFound
| RCancelled          (* context.Canceled *)
| ROther.             (* store / provider / lock failure *)

Inductive outcome :=
| OForward (authz : option N) (idtok : option N)   (* upstream reached; Some a = header written with token a *)
| OStatus (code : Z)
| OMeta (code : Z) (d : sdata) (at_time : Z).       (* 200 with the verbose metadata of d evaluated at at_time *)

Inductive phase :=
| PGet (start : Z)
| PLock (old : sdata) (start : Z)
| PReread (old : sdata) (tok : N) (start : Z)
| PIdp (old cur : sdata) (tok : N) (start : Z)
| PUpdGet (old new : sdata) (tok : N) (start : Z)
| PUpdSet (old new : sdata) (tok : N) (start : Z)
| PUnlock (old : sdata) (tok : N) (res : rres)
| PDel (start : Z) (key : N)
| PDone (o : outcome).

Record thread := { t_kind : rkind; t_cookie : cookie; t_cancel : bool; t_phase : phase }.

Definition with_phase (t : thread) (p : phase) : thread :=
  {| t_kind := t_kind t; t_cookie := t_cookie t; t_cancel := t_cancel t; t_phase := p |}.

Definition cookie_key (c : cookie) : N := match c with CTicket k _ => k | _ => 0%N end.
Definition cookie_dek (c : cookie) : N := match c with CTicket _ d => d | _ => 0%N end.

(** * Pure pieces *)
Definition has_at (d : sdata) : bool := negb (N.eqb (sd_at d) 0).
Definition has_rt (d : sdata) : bool := negb (N.eqb (sd_rt d) 0).

Definition can_refresh (c : config) (d : sdata) (now : Z) : bool :=
  has_rt d && negb (on_cooldown (c_tp c) (sd_md d) now).

(* pkg/openid/acr.Validate on codes: 1 = idporten-loa-substantial, 2 = idporten-loa-high,
   3 = Level3, 4 = Level4, others compare by equality *)
Definition acr_ok (expected actual : N) : bool :=
  let e := if N.eqb expected 3 then 1%N else if N.eqb expected 4 then 2%N else expected in
  if N.eqb e 1 then N.eqb actual 1 || N.eqb actual 2
  else if N.eqb e 2 then N.eqb actual 2
  else N.eqb e actual.

(* Session.AccessToken + acr gate + autologin gate + Rewrite (reverseproxy.go) *)
Definition finish_proxy (c : config) (acr_req : N) (r : rres) (now : Z) : outcome :=
  let auth :=
    match r with
    | ROk d =>
      if has_at d && negb (is_expired (sd_md d) now)
      then if negb (N.eqb acr_req 0) && negb (acr_ok acr_req (sd_acr d)) then None else Some d
      else None
    | _ => None
    end in
  match auth with
  | Some d => OForward (Some (sd_at d)) (if c_idtoken c then Some (sd_idt d) else None)
  | None => if c_autologin c then OStatus 302 else OForward None None
  end.

Definition status_of_err (r : rres) : Z :=
  match r with
  | RCancelled => 499
  | RNotFound | RInvalid | RInvalidExternal => 401
  | _ => 500
  end.

(* SessionForwardAuth *)
Definition finish_fwdauth (c : config) (r : rres) : outcome :=
  if negb (c_fwdauth c) then OStatus 404
  else match r with
       | ROk _ => OStatus 204
       | RInvalid | RInvalidExternal | RNotFound => OStatus 401
       | _ => OStatus 500
       end.

(* what GetSession's caller sees after GetOrRefresh's error handling *)
Definition get_or_refresh_result (old : sdata) (r : rres) : rres :=
  match r with
  | ROk d => ROk d
  | RInvalid => RInvalid
  | RInvalidExternal => RInvalidExternal
  | _ => ROk old       (* fall back to the existing tokens *)
  end.

Definition finish_session_kind (c : config) (k : rkind) (r : rres) (now : Z) : outcome :=
  match k with
  | KProxy => finish_proxy c (c_acr c) r now
  | KSsoProxy => finish_proxy c (c_proxy_acr c) r now
  | KFwdAuth => finish_fwdauth c r
  | _ => OStatus 500
  end.

(* SessionRefresh's mapping of Refresh errors *)
Definition finish_refresh_endpoint (r : rres) (now : Z) : outcome :=
  match r with
  | ROk d => OMeta 200 d now
  | RInvalid | RInvalidExternal | RNotFound => OStatus 401
  | _ => OStatus 500
  end.

Definition finish_refresh (c : config) (k : rkind) (old : sdata) (r : rres) (now : Z) : outcome :=
  match k with
  | KRefresh => finish_refresh_endpoint r now
  | _ => finish_session_kind c k (get_or_refresh_result old r) now
  end.

(* entering Session.Refresh (first canRefresh test; memory store has no lock operation) *)
Definition start_refresh (c : config) (k : rkind) (d : sdata) (now : Z) : phase :=
  if negb (can_refresh c d now) then PDone (finish_refresh c k d (ROk d) now)
  else if c_redis c || c_memlock c then PLock d now
  else PReread d 0 now.

Definition logout_success (k : rkind) : outcome :=
  match k with KLogout => OStatus 302 | KLogoutLocal => OStatus 204 | _ => OStatus 200 end.

Definition logout_failure (k : rkind) : outcome :=
  match k with KFront _ => OStatus 202 | _ => OStatus 500 end.

(* result of reader.Get as the handlers see it *)
Inductive gres :=
| GOk (d : sdata)
| GInvalidWith (d : sdata) (inactive : bool)   (* Validate failed; the session is still returned *)
| GErr (r : rres).

Definition classify_entry (dek : N) (e : entry) (now : Z) : gres :=
  if negb (N.eqb (e_dek e) dek) then GErr RInvalid
  else match validate (has_at (e_data e)) (sd_md (e_data e)) now with
       | Valid => GOk (e_data e)
       | InvalidInactive => GInvalidWith (e_data e) true
       | _ => GInvalidWith (e_data e) false
       end.

Definition gres_rres (g : gres) : rres :=
  match g with GOk d => ROk d | GInvalidWith _ _ => RInvalid | GErr r => r end.

(* what each handler does with the result of its first Get *)
Definition after_get (c : config) (t : thread) (g : gres) (now : Z) : phase :=
  match t_kind t with
  | KProxy | KFwdAuth =>
    match g with
    | GOk d =>
      if negb (auto_refresh_disabled c) && should_refresh (c_tp c) (sd_md d) now
      then start_refresh c (t_kind t) d now
      else PDone (finish_session_kind c (t_kind t) (ROk d) now)
    | _ => PDone (finish_session_kind c (t_kind t) (gres_rres g) now)
    end
  | KSsoProxy => PDone (finish_proxy c (c_proxy_acr c) (gres_rres g) now)   (* SSOProxy.GetSession = Reader.Get: never refreshes *)
  | KInfo =>
    match g with
    | GOk d => PDone (OMeta 200 d now)
    | GInvalidWith d true => PDone (OMeta 200 d now)
    | _ => PDone (OStatus (status_of_err (gres_rres g)))
    end
  | KRefresh =>
    match g with
    | GOk d => start_refresh c KRefresh d now
    | _ => PDone (OStatus (status_of_err (gres_rres g)))
    end
  | KLogout | KLogoutLocal =>
    match g with
    | GOk d | GInvalidWith d _ => PDel now (cookie_key (t_cookie t))
    | GErr RNotFound | GErr RInvalid => PDone (logout_success (t_kind t))
    | GErr _ => if c_logout_strict c then PDone (logout_failure (t_kind t)) else PDone (logout_success (t_kind t))
    end
  | KFront _ => PDone (OStatus 500)
  end.

(** * Spawning a request *)
Definition spawn (c : config) (k : rkind) (ck : cookie) (now : Z) : thread :=
  let t0 := {| t_kind := k; t_cookie := ck; t_cancel := false; t_phase := PGet now |} in
  match k with
  | KFront None => with_phase t0 (PDone (OStatus 202))
  | KFront (Some sid) => with_phase t0 (PDel now sid)
  | KProxy => if c_sso c then with_phase t0 (PDone (OStatus 302)) else   (* SSOServer.Wildcard *)
    match ck with
    | CTicket _ _ => t0
    | CNone => with_phase t0 (after_get c t0 (GErr RNotFound) now)
    | CGarbage => with_phase t0 (after_get c t0 (GErr RInvalid) now)
    | CNonJson => with_phase t0 (after_get c t0 (GErr ROther) now)
    end
  | KFwdAuth => if negb (c_fwdauth c) then with_phase t0 (PDone (OStatus 404)) else
    match ck with
    | CTicket _ _ => t0
    | CNone => with_phase t0 (after_get c t0 (GErr RNotFound) now)
    | CGarbage => with_phase t0 (after_get c t0 (GErr RInvalid) now)
    | CNonJson => with_phase t0 (after_get c t0 (GErr ROther) now)
    end
  | _ =>
    match ck with
    | CTicket _ _ => t0
    | CNone => with_phase t0 (after_get c t0 (GErr RNotFound) now)
    | CGarbage => with_phase t0 (after_get c t0 (GErr RInvalid) now)
    | CNonJson => with_phase t0 (after_get c t0 (GErr ROther) now)
    end
  end.

(** * One step of one thread *)
Inductive fault := FNone | FStore | FIdp4xx | FIdp5xx | FIdpErr.

(* observation of the operation performed (for op-trace conformance) *)
Inductive obs :=
| ObNone
| ObGet (k : N) (res : Z)        (* 1 hit, 0 miss, -1 error, -2 cancelled *)
| ObSetKeep (k : N) (res : Z)    (* 1 ok, 0 not found (atomic variant), -1 error, -2 cancelled *)
| ObDel (k : N) (res : Z)
| ObLock (k : N) (res : Z)       (* 1 obtained, 0 not obtained, -1 error, -2 cancelled, -3 timed out (no command) *)
| ObUnlock (k : N) (res : Z)     (* 1 released, 0 not held, -1 error, -2 cancelled *)
| ObIdp (rt : N) (res : Z).      (* 1 tokens, 4 = 4xx, 5 = 5xx, -1 other error, -2 cancelled *)

Definition retry_left (c : config) (start now : Z) : bool := 0 <? c_retry_max c - (now - start).

Definition finish_unlock (c : config) (t : thread) (old : sdata) (res : rres) (now : Z) : phase :=
  PDone (finish_refresh c (t_kind t) old res now).

(* after the refresh body: release the lock if one was taken (Redis / fixed memory store) *)
Definition to_unlock (c : config) (t : thread) (old : sdata) (tok : N) (res : rres) (now : Z) : phase :=
  if c_redis c || c_memlock c then PUnlock old tok res else finish_unlock c t old res now.

Definition idp_refresh (w : world) (rt : N) : world * option (N * N * Z) :=
  match alookup rt (w_valid_rt w) with
  | Some _ =>
    let n := w_next_id w in
    let nrt := if w_rotate w then n else rt in
    let v := if w_rotate w then ainsert n n (adelete rt (w_valid_rt w)) else ainsert rt n (w_valid_rt w) in
    (set_idp w v (n + 1)%N (IdpGrant rt true :: w_idp_log w), Some (n, nrt, w_tau w))
  | None => (set_idp w (w_valid_rt w) (w_next_id w) (IdpGrant rt false :: w_idp_log w), None)
  end.

Definition refreshed_data (c : config) (cur : sdata) (at' rt' : N) (secs now : Z) : sdata :=
  let m1 := refresh_meta (sd_md cur) now secs in
  let m2 := match c_inact c with Some d => with_timeout m1 now d | None => m1 end in
  {| sd_sid := sd_sid cur; sd_at := at'; sd_idt := sd_idt cur; sd_rt := rt'; sd_acr := sd_acr cur; sd_md := m2 |}.

Definition lock_key (k : N) : N := k.   (* lock entries live in their own map *)

Definition step (c : config) (w : world) (t : thread) (f : fault) : world * thread * obs :=
  let now := w_clock w in
  let k := cookie_key (t_cookie t) in
  let dek := cookie_dek (t_cookie t) in
  let cancelled := t_cancel t in
  match t_phase t with
  | PDone _ => (w, t, ObNone)
  | PGet start =>
    if cancelled then (w, with_phase t (after_get c t (GErr RCancelled) now), ObGet k (-2))
    else match f with
    | FStore =>
      if retry_left c start now then (w, t, ObGet k (-1))
      else (w, with_phase t (after_get c t (GErr ROther) now), ObGet k (-1))
    | _ =>
      match store_get w k with
      | None => (w, with_phase t (after_get c t (GErr RNotFound) now), ObGet k 0)
      | Some e => (w, with_phase t (after_get c t (classify_entry dek e now) now), ObGet k 1)
      end
    end
  | PLock old start =>
    if cancelled then (w, with_phase t (finish_unlock c t old RCancelled now), ObLock k (-2))
    else if c_lock_timeout c <=? now - start then (w, with_phase t (finish_unlock c t old ROther now), ObLock k (-3))
    else match f with
    | FStore => (w, with_phase t (finish_unlock c t old ROther now), ObLock k (-1))
    | _ =>
      match lock_get w k with
      | Some _ => (w, t, ObLock k 0)
      | None =>
        let tok := w_next_tok w in
        (set_locks w (ainsert k {| l_tok := tok; l_exp := now + c_lock_lease c |} (w_locks w)) (tok + 1)%N,
         with_phase t (PReread old tok now), ObLock k 1)
      end
    end
  | PReread old tok start =>
    if cancelled then (w, with_phase t (to_unlock c t old tok RCancelled now), ObGet k (-2))
    else match f with
    | FStore =>
      if retry_left c start now then (w, t, ObGet k (-1))
      else (w, with_phase t (to_unlock c t old tok ROther now), ObGet k (-1))
    | _ =>
      match store_get w k with
      | None => (w, with_phase t (to_unlock c t old tok RNotFound now), ObGet k 0)
      | Some e =>
        match classify_entry dek e now with
        | GOk cur =>
          if can_refresh c cur now then (w, with_phase t (PIdp old cur tok now), ObGet k 1)
          else (w, with_phase t (to_unlock c t old tok (ROk cur) now), ObGet k 1)
        | g => (w, with_phase t (to_unlock c t old tok (gres_rres g) now), ObGet k 1)
        end
      end
    end
  | PIdp old cur tok start =>
    let rt := sd_rt cur in
    if cancelled then (w, with_phase t (to_unlock c t old tok RCancelled now), ObIdp rt (-2))
    else match f with
    | FIdp4xx => (w, with_phase t (to_unlock c t old tok RInvalidExternal now), ObIdp rt 4)
    | FIdp5xx =>
      if retry_left c start now then (w, t, ObIdp rt 5)
      else (w, with_phase t (to_unlock c t old tok ROther now), ObIdp rt 5)
    | FIdpErr => (w, with_phase t (to_unlock c t old tok ROther now), ObIdp rt (-1))
    | _ =>
      match idp_refresh w rt with
      | (w', Some (at', rt', secs)) =>
        (w', with_phase t (if c_upd_atomic c then PUpdSet old (refreshed_data c cur at' rt' secs now) tok now
                           else PUpdGet old (refreshed_data c cur at' rt' secs now) tok now), ObIdp rt 1)
      | (w', None) => (w', with_phase t (to_unlock c t old tok RInvalidExternal now), ObIdp rt 4)
      end
    end
  | PUpdGet old new tok start =>
    if cancelled then (w, with_phase t (to_unlock c t old tok RCancelled now), ObGet k (-2))
    else match f with
    | FStore =>
      if retry_left c start now then (w, t, ObGet k (-1))
      else (w, with_phase t (to_unlock c t old tok ROther now), ObGet k (-1))
    | _ =>
      match store_get w k with
      | None => (w, with_phase t (to_unlock c t old tok RNotFound now), ObGet k 0)
      | Some _ => (w, with_phase t (PUpdSet old new tok start), ObGet k 1)
      end
    end
  | PUpdSet old new tok start =>
    if cancelled then (w, with_phase t (to_unlock c t old tok RCancelled now), ObSetKeep k (-2))
    else match f with
    | FStore =>
      if retry_left c start now
      then (w, with_phase t (if c_upd_atomic c then PUpdSet old new tok start else PUpdGet old new tok start), ObSetKeep k (-1))
      else (w, with_phase t (to_unlock c t old tok ROther now), ObSetKeep k (-1))
    | _ =>
      match store_get w k with
      | Some e =>
        (* KEEPTTL keeps the remaining time to live *)
        (set_store w (ainsert k {| e_dek := dek; e_data := new; e_exp := e_exp e |} (w_store w)),
         with_phase t (to_unlock c t old tok (ROk new) now), ObSetKeep k 1)
      | None =>
        if c_upd_atomic c then (w, with_phase t (to_unlock c t old tok RNotFound now), ObSetKeep k 0)
        else (* SET KEEPTTL on a missing key creates it with no expiry *)
          (set_store w (ainsert k {| e_dek := dek; e_data := new; e_exp := None |} (w_store w)),
           with_phase t (to_unlock c t old tok (ROk new) now), ObSetKeep k 1)
      end
    end
  | PUnlock old tok res =>
    if cancelled then (w, with_phase t (finish_unlock c t old res now), ObUnlock k (-2))
    else match f with
    | FStore => (w, with_phase t (finish_unlock c t old res now), ObUnlock k (-1))
    | _ =>
      match lock_get w k with
      | Some l =>
        if N.eqb (l_tok l) tok
        then (set_locks w (adelete k (w_locks w)) (w_next_tok w), with_phase t (finish_unlock c t old res now), ObUnlock k 1)
        else (w, with_phase t (finish_unlock c t old res now), ObUnlock k 0)
      | None => (w, with_phase t (finish_unlock c t old res now), ObUnlock k 0)
      end
    end
  | PDel start key =>
    if cancelled then (w, with_phase t (PDone (logout_failure (t_kind t))), ObDel key (-2))
    else match f with
    | FStore =>
      if retry_left c start now then (w, t, ObDel key (-1))
      else (w, with_phase t (PDone (logout_failure (t_kind t))), ObDel key (-1))
    | _ =>
      (set_store w (adelete key (w_store w)), with_phase t (PDone (logout_success (t_kind t))),
       ObDel key (match store_get w key with Some _ => 1 | None => 0 end))
    end
  end.

(** * Events: schedules, histories and fault sequences are lists of these *)
Inductive event :=
| ETick (d : Z)
| ELogin (sid acr : N)                         (* a completed login + callback: provider mints, Create writes *)
| ESpawn (t : N) (k : rkind) (ck : cookie)
| ERun (t : N) (f : fault)
| ECancel (t : N)
| EProvider (tau : Z) (rotate : bool).        (* provider settings change *)

Record mstate := { m_w : world; m_ts : list (N * thread) }.

(* IDToken.Validate's acr rule: with a configured level the claim must be present and satisfy it *)
Definition login_acr_ok (c : config) (acr : N) : bool :=
  N.eqb (c_acr c) 0 || (negb (N.eqb acr 0) && acr_ok (c_acr c) acr).

Definition login (c : config) (w : world) (sid acr : N) : world :=
  let now := w_clock w in
  let n := w_next_id w in
  let dek := w_next_tok w in
  let m0 := new_meta now (w_tau w * second) (c_maxlife c) in
  let m1 := match c_inact c with Some d => with_timeout m0 now d | None => m0 end in
  let d := {| sd_sid := sid; sd_at := n; sd_idt := n; sd_rt := n; sd_acr := acr; sd_md := m1 |} in
  let e := {| e_dek := dek; e_data := d; e_exp := if c_redis c then Some (now + c_maxlife c) else None |} in
  if login_acr_ok c acr then
  {| w_store := ainsert sid e (w_store w); w_locks := w_locks w;
     w_valid_rt := ainsert n n (w_valid_rt w); w_next_id := (n + 1)%N; w_tau := w_tau w; w_rotate := w_rotate w;
     w_idp_log := w_idp_log w; w_clock := now; w_next_tok := (dek + 1)%N |}
  else (* the provider has issued the tokens, but the callback rejects the ID token: no session *)
  {| w_store := w_store w; w_locks := w_locks w;
     w_valid_rt := ainsert n n (w_valid_rt w); w_next_id := (n + 1)%N; w_tau := w_tau w; w_rotate := w_rotate w;
     w_idp_log := w_idp_log w; w_clock := now; w_next_tok := w_next_tok w |}.

Definition apply_event (c : config) (s : mstate) (e : event) : mstate * obs :=
  match e with
  | ETick d => ({| m_w := set_clock (m_w s) (w_clock (m_w s) + Z.max 0 d); m_ts := m_ts s |}, ObNone)
  | ELogin sid acr => ({| m_w := login c (m_w s) sid acr; m_ts := m_ts s |}, ObNone)
  | ESpawn t k ck =>
    match alookup t (m_ts s) with
    | Some _ => (s, ObNone)       (* thread ids are never reused *)
    | None => ({| m_w := m_w s; m_ts := ainsert t (spawn c k ck (w_clock (m_w s))) (m_ts s) |}, ObNone)
    end
  | ERun t f =>
    match alookup t (m_ts s) with
    | Some th => let '(w', th', o) := step c (m_w s) th f in
                 ({| m_w := w'; m_ts := ainsert t th' (m_ts s) |}, o)
    | None => (s, ObNone)
    end
  | ECancel t =>
    match alookup t (m_ts s) with
    | Some th => ({| m_w := m_w s;
                     m_ts := ainsert t {| t_kind := t_kind th; t_cookie := t_cookie th; t_cancel := true; t_phase := t_phase th |} (m_ts s) |}, ObNone)
    | None => (s, ObNone)
    end
  | EProvider tau rot => ({| m_w := set_tau (m_w s) tau rot; m_ts := m_ts s |}, ObNone)
  end.

Definition run_events (c : config) (s : mstate) (es : list event) : mstate :=
  fold_left (fun s e => fst (apply_event c s e)) es s.

Definition init_world (tau : Z) : world :=
  {| w_store := []; w_locks := []; w_valid_rt := []; w_next_id := 1; w_tau := tau; w_rotate := true;
     w_idp_log := []; w_clock := 0; w_next_tok := 1 |}.

Definition init_state (tau : Z) : mstate := {| m_w := init_world tau; m_ts := [] |}.
