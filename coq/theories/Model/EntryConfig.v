(** Entry points of the start-up configuration model for the correspondence driver (ml/handlers/h_config.ml). *)
From Coq Require Import ZArith NArith List Bool.
From WW Require Import Base.Bytes Model.GoUrl Model.Config.
Import ListNotations.
Open Scope N_scope.

(* EncryptionKeyOrGenerate on a raw key string: 0 / decode error / length error *)
Definition entry_cfkey (v : cf_variant) (k : bytes) : Z := cf_code (cf_key_check v k).

(* the three variant flags of lib/code_flags.json: enc_key_strict wait_nonneg ingress_pattern_strict *)
Definition mk_cf_variant_of (key_strict wait_nonneg ingress_strict : bool) : cf_variant :=
  mk_cf_variant key_strict wait_nonneg ingress_strict.

Definition cf_nth_s (l : list (option bytes)) (i : nat) : option bytes := nth i l None.
Definition cf_nth_t (l : list (cf_tv Z)) (i : nat) : cf_tv Z := nth i l CfAbsent.
Definition cf_tv_bool (t : cf_tv Z) : cf_tv bool :=
  match t with CfAbsent => CfAbsent | CfBad => CfBad | CfVal z => CfVal (negb (z =? 0)%Z) end.

(* string channels, in this order, two per setting (flag, WONDERWALL_ variable):
   0 provider 1 key 2 ingress 3 same-site 4 client-id 5 client-jwk 6 client-secret 7 well-known-url 8 alg 9 acr
   10 ui-locales 11 redis.address 12 redis.uri 13 sso.mode 14 sso.session-cookie-name 15 sso.domain
   16 sso.server-default-redirect-url 17 sso.server-url 18 upstream-ip ; then (index 38..44)
   IDPORTEN_CLIENT_ID IDPORTEN_CLIENT_JWK IDPORTEN_WELL_KNOWN_URL AZURE_APP_CLIENT_ID AZURE_APP_JWK
   AZURE_APP_WELL_KNOWN_URL AZURE_APP_CLIENT_JWK.
   then (index 45..48) redis.password (flag, WONDERWALL_ variable) and redis.username (flag, WONDERWALL_ variable).
   typed channels, two per setting: 0 cookie.secure 1 sso.enabled 2 upstream-port 3 graceful 4 wait-before
   5 redis.tls 6 redis.connection-idle-timeout *)
Definition cf_src_at (ss : list (option bytes)) (i : nat) : cf_ssrc :=
  mk_cf_ssrc (cf_nth_s ss (2 * i)) (cf_nth_s ss (2 * i + 1)).
Definition cf_tsrc_at (ts : list (cf_tv Z)) (i : nat) : cf_tsrc Z :=
  mk_cf_tsrc (cf_nth_t ts (2 * i)) (cf_nth_t ts (2 * i + 1)).
Definition cf_tsrc_bool_at (ts : list (cf_tv Z)) (i : nat) : cf_tsrc bool :=
  mk_cf_tsrc (cf_tv_bool (cf_nth_t ts (2 * i))) (cf_tv_bool (cf_nth_t ts (2 * i + 1))).

Definition mk_cf_raw_of (ss : list (option bytes)) (ts : list (cf_tv Z)) (oj ored ofetch : list bytes) : cf_raw :=
  mk_cf_raw (cf_src_at ss 0) (cf_src_at ss 1) (cf_src_at ss 2) (cf_src_at ss 3) (cf_src_at ss 4) (cf_src_at ss 5)
    (cf_src_at ss 6) (cf_src_at ss 7) (cf_src_at ss 8) (cf_src_at ss 9) (cf_src_at ss 10) (cf_src_at ss 11)
    (cf_src_at ss 12) (cf_src_at ss 13) (cf_src_at ss 14) (cf_src_at ss 15) (cf_src_at ss 16) (cf_src_at ss 17)
    (cf_src_at ss 18)
    (cf_nth_s ss 38) (cf_nth_s ss 39) (cf_nth_s ss 40) (cf_nth_s ss 41) (cf_nth_s ss 42) (cf_nth_s ss 43)
    (cf_nth_s ss 44)
    (cf_tsrc_bool_at ts 0) (cf_tsrc_bool_at ts 1) (cf_tsrc_at ts 2) (cf_tsrc_at ts 3) (cf_tsrc_at ts 4)
    oj ored ofetch.

Definition mk_cf_redis_rest_of (ss : list (option bytes)) (ts : list (cf_tv Z)) : cf_redis_rest :=
  mk_cf_redis_rest (mk_cf_ssrc (cf_nth_s ss 45) (cf_nth_s ss 46)) (mk_cf_ssrc (cf_nth_s ss 47) (cf_nth_s ss 48))
    (cf_tsrc_bool_at ts 5) (cf_tsrc_at ts 6).

(* the whole start-up: outcome class of the binary *)
Definition entry_cfrun (v : cf_variant) (ss : list (option bytes)) (ts : list (cf_tv Z)) (oj ored ofetch : list bytes)
    (djson dend djwks : bool) (algs acrs locs : list bytes) : Z :=
  cf_run_x v (mk_cf_raw_of ss ts oj ored ofetch) (mk_cf_redis_rest_of ss ts) (mk_cf_disc djson algs acrs locs dend djwks).

(* Config.Validate, ingress.ParseIngresses and the route patterns on an already resolved Config struct:
   [samesite; ingress (comma joined); alg; redis.address; redis.uri; sso.mode; cookie name; domain; default redirect;
    server url; upstream-ip]  and  [secure; sso.enabled; upstream-port; graceful; wait-before] *)
Definition entry_cfval (v : cf_variant) (s : list bytes) (z : list Z) : list Z :=
  let g i := nth i s [] in
  let h i := nth i z 0%Z in
  let c := mk_cf_cfg CfOpenID [] (cf_split_list (g 1%nat)) (g 0%nat) (negb (h 0%nat =? 0)%Z)
             [] [] [] [] (g 2%nat) [] [] (g 3%nat) (g 4%nat) (negb (h 1%nat =? 0)%Z) (g 5%nat) (g 6%nat) (g 7%nat)
             (g 8%nat) (g 9%nat) (g 10%nat) (h 2%nat) (h 3%nat) (h 4%nat) [] [] [] in
  (* router.New can only be run on an ingress list that ParseIngresses accepted *)
  [cf_code (cf_validate v c); cf_code (cf_parse_ingresses v c);
   match cf_parse_ingresses v c with None => cf_code (cf_router c) | Some _ => 0%Z end].
