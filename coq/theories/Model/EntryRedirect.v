(** Entry points of the redirect model for the correspondence driver (ml/handlers/h_redirect.ml).
    Every entry returns a list of byte strings that the handler prints as hex fields. *)
From Coq Require Import NArith List Bool.
From WW Require Import Base.Bytes Model.GoUrl Model.Redirect Model.Whatwg.
Import ListNotations.
Open Scope N_scope.

Definition bb (b : bool) : bytes := if b then [1] else [0].
Definition err_fields : list bytes := [[69]].   (* "E" *)

(* isValidAbsolutePath, regex *)
Definition entry_vap (s : bytes) : list bytes := [bb (is_valid_absolute_path s); bb (regex_match s)].

Definition url_fields (u : url) : list bytes :=
  [ u_scheme u; u_opaque u;
    (match u_user u with None => [0] | Some (_, None) => [1] | Some (_, Some _) => [2] end);
    (match u_user u with Some (n, _) => n | None => [] end);
    (match u_user u with Some (_, Some p) => p | _ => [] end);
    u_host u; u_path u; u_rawpath u; bb (u_omithost u) ++ bb (u_forcequery u); u_rawquery u;
    u_fragment u; u_rawfragment u; url_string u; hostname u; snd (split_host_port (u_host u)) ].

(* url.Parse (via=false) / url.ParseRequestURI (via=true): all fields, String(), Hostname(), Port() *)
Definition entry_parse (via : bool) (s : bytes) : list bytes :=
  match (if via then parse_request_uri s else parse_url s) with
  | Some u => url_fields u
  | None => err_fields
  end.

(* RelativeValidator / Clean on an arbitrary (not re-serialised) target, then http.Redirect *)
Definition entry_relclean (ipath reqpath target : bytes) : list bytes :=
  let c := standalone_clean ipath target in
  [bb (relative_valid target); c; http_redirect_location reqpath c].

(* StandaloneRedirect.Canonical, then http.Redirect *)
Definition entry_standalone (ipath reqpath param : bytes) : list bytes :=
  let c := standalone_canonical ipath param in
  [c; http_redirect_location reqpath c; standalone_clean ipath c].

(* AbsoluteValidator on an arbitrary target, with the isAllowedDomain verdict of the parsed URL *)
Definition entry_absvalid (domain target : bytes) : list bytes :=
  [bb (absolute_valid [domain] target);
   match parsable_request_uri target with
   | Some u => bb (is_allowed_domain u domain)
   | None => [69]
   end].

(* SSOServerRedirect: Canonical and Clean(raw), then http.Redirect *)
Definition entry_ssoserver (domain fallback reqpath param : bytes) : list bytes :=
  match parse_request_uri fallback with
  | None => err_fields
  | Some fb =>
    let c := ssoserver_canonical domain fb param in
    let r := ssoserver_clean domain fb param in
    [c; http_redirect_location reqpath c; r; http_redirect_location reqpath r; ssoserver_clean domain fb c]
  end.

(* SSOProxyRedirect with a single ingress: Canonical and Clean(raw), then http.Redirect *)
Definition entry_ssoproxy (ingress reqpath param : bytes) : list bytes :=
  match parse_ingress ingress with
  | None => err_fields
  | Some ing =>
    let hosts := [u_host ing] in
    let c := ssoproxy_canonical hosts ing ing param in
    let r := ssoproxy_clean hosts ing param in
    [c; http_redirect_location reqpath c; r; http_redirect_location reqpath r; ssoproxy_clean hosts ing c]
  end.

(* net/http.Redirect's Location for an arbitrary target *)
Definition entry_httpredirect (reqpath target : bytes) : list bytes :=
  [http_redirect_location reqpath target].

(* WHATWG origin of [input] resolved against base origin (scheme, host, port); port 0 = default *)
Definition nbytes (n : N) : bytes := [n / 65536; (n / 256) mod 256; n mod 256].
Definition entry_whatwg (bscheme bhost : bytes) (bport : N) (input : bytes) : list bytes :=
  match whatwg_origin idna_marker bscheme bhost (if bport =? 0 then None else Some bport) input with
  | WFail => [[70]]
  | WOther s => [[79]; s]
  | WTuple s h p => [[84]; s; h; match p with Some v => nbytes v | None => [] end]
  end.

(* SSOProxy.Login / Logout behind the real router: status, the URL the browser is sent to without its query
   (the SSO server URL ++ /oauth2/login | /oauth2/logout; [server] has no trailing slash and no query), whether a
   redirect parameter is handed over, and its value. [ingresses] are the configured ingress strings. *)
Fixpoint spx_parse_all (l : list bytes) : option (list url) :=
  match l with
  | [] => Some []
  | s :: r => match parse_ingress s, spx_parse_all r with
              | Some u, Some us => Some (u :: us)
              | _, _ => None
              end
  end.
Definition spx_path_login : bytes := [47;111;97;117;116;104;50;47;108;111;103;105;110].            (* /oauth2/login *)
Definition spx_path_logout : bytes := [47;111;97;117;116;104;50;47;108;111;103;111;117;116].       (* /oauth2/logout *)
Definition entry_spxhandler (ingresses : list bytes) (fallback server reqhost reqpath : bytes) (logout : bool) (param : bytes)
  : list bytes :=
  match spx_parse_all ingresses, parse_ingress fallback with
  | Some ings, Some fb =>
    let h := if logout then spx_logout_handover ings fb reqhost reqpath param
             else spx_login_handover ings fb reqhost reqpath param in
    [ [51;48;50];                                                     (* 302 *)
      server ++ (if logout then spx_path_logout else spx_path_login);
      bb (match h with Some _ => true | None => false end);
      match h with Some c => c | None => [] end ]
  | _, _ => err_fields
  end.
