(** Session identity: which store key a login writes, which key a front-channel logout deletes, and which key the refresh lock
    occupies.  Transliterates pkg/session/id.go (ExternalID), pkg/session/session_manager.go (manager.key,
    DeleteForExternalID) and pkg/session/lock.go (lockKey, KeyTemplate = "%s.lock").  No proofs here. *)
From Coq Require Import String.
From Coq Require Import NArith List Bool.
From WW Require Import Base.Bytes Base.BytesLit.
Import ListNotations.
Open Scope N_scope.

Definition colon : N := 58.
Definition lock_suffix : bytes := Eval vm_compute in bs ".lock"%string.

(** Outcome of [ExternalID]: an id taken from the provider / the callback, a freshly generated one (64 random bytes,
    base64), or an error (the callback fails, no session). *)
Inductive ext_out := ExtId (id : bytes) | ExtGenerated | ExtError.

(** [sid]: the ID token's `sid` claim when it is present AND a JSON string ([IDToken.StringClaim]; the empty string
    counts as present).  [session_state]: first value of the callback's `session_state` query parameter ("" when absent).
    The two `required` flags come from the discovery document (front-channel logout session support; check_session_iframe). *)
Definition external_id (sid : option bytes) (sid_required : bool) (session_state : bytes) (ss_required : bool) : ext_out :=
  match sid with
  | Some s => ExtId s
  | None =>
    if sid_required then ExtError
    else match session_state with
         | _ :: _ => ExtId session_state
         | [] => if ss_required then ExtError else ExtGenerated
         end
  end.

(** [manager.key]: fmt.Sprintf("%s:%s:%s", provider, clientID, externalSessionID). *)
Definition store_key (provider client ext : bytes) : bytes := provider ++ colon :: client ++ colon :: ext.

(** [lockKey]: fmt.Sprintf("%s.lock", key). *)
Definition lock_key (k : bytes) : bytes := k ++ lock_suffix.

(** What a login callback writes / what a front-channel logout with query parameter `sid` deletes. *)
Definition login_key (provider client : bytes) (o : ext_out) (generated : bytes) : option bytes :=
  match o with
  | ExtId s => Some (store_key provider client s)
  | ExtGenerated => Some (store_key provider client generated)
  | ExtError => None
  end.
Definition frontchannel_key (provider client sid_param : bytes) : bytes := store_key provider client sid_param.
