(** Entry points of the session-identity model (`wwh sesskey`). *)
From Coq Require Import NArith List Bool.
From WW Require Import Base.Bytes Model.SessionKey.
Import ListNotations.
Open Scope N_scope.

(** result: (kind, id) with kind 0 = id from provider / callback, 1 = generated, 2 = error *)
Definition entry_external_id (has_sid : bool) (sid : bytes) (sid_required : bool) (session_state : bytes) (ss_required : bool) : N * bytes :=
  match external_id (if has_sid then Some sid else None) sid_required session_state ss_required with
  | ExtId s => (0, s)
  | ExtGenerated => (1, [])
  | ExtError => (2, [])
  end.
Definition entry_store_key (provider client ext : bytes) : bytes := store_key provider client ext.
Definition entry_lock_key (provider client ext : bytes) : bytes := lock_key (store_key provider client ext).
