(** C20 — start-up configuration of the wonderwall binary.

    Transliteration of the ORDER and LOCATION of every check between process start and
    [http.Server.ListenAndServe]:
      cmd/wonderwall/main.go:run
        pkg/config/config.go:Initialize      (pflag parse, viper resolution flag > WONDERWALL_* > provider
                                              specific variable > default, UnmarshalExact, Config.Validate)
        internal/crypto/crypter.go:EncryptionKeyOrGenerate
        standalone / ssoServer / ssoProxy    (NewClientConfig, NewProviderConfig + ProviderMetadata.Validate,
                                              NewJwksProvider, NewStore, ParseIngresses, NewSSOServerRedirect,
                                              NewSSOProxy)
        pkg/router/router.go:New             (chi panics on a malformed route pattern built from an ingress path)
    [cf_run] returns 0 when the process reaches ListenAndServe and otherwise the class of the FIRST
    failing check (the classes are the fatal messages of the binary, see harness/cmd/wwh/startcfg.go).

    Concrete: channel resolution, comma splitting of the ingress list, url.ParseRequestURI (Model/GoUrl.v),
    host / scheme / localhost tests, the base64 decoder (length only), the chi pattern scanner, every
    comparison of Config.Validate.
    Abstract (finite oracle sets / booleans supplied by the driver from the LIBRARY functions, not from the
    code under test): strconv/time parsing of typed flags ([cf_tv]), jwk.ParseKey, redis.ParseURL, the
    reachability of the discovery URL, and the shape of the discovery document ([cf_disc]).
    No proofs here. *)
From Coq Require Import String.
From Coq Require Import ZArith NArith List Bool.
From WW Require Import Base.Bytes Base.BytesLit Model.GoUrl Model.Redirect.
Import ListNotations.
Open Scope N_scope.

(** * Supply channels *)

(* a typed setting as supplied on one channel: not supplied / does not parse / parsed value *)
Inductive cf_tv (A : Type) : Type := CfAbsent | CfBad | CfVal (a : A).
Arguments CfAbsent {A}. Arguments CfBad {A}. Arguments CfVal {A} a.

(* string setting: command-line flag, WONDERWALL_<NAME> ; [None] = not supplied, [Some []] = supplied empty *)
Record cf_ssrc := mk_cf_ssrc { cf_sflag : option bytes; cf_swenv : option bytes }.
Record cf_tsrc (A : Type) := mk_cf_tsrc { cf_tflag : cf_tv A; cf_twenv : cf_tv A }.
Arguments mk_cf_tsrc {A}. Arguments cf_tflag {A}. Arguments cf_twenv {A}.

(** the raw configuration: what is on the command line and in the environment *)
Record cf_raw := mk_cf_raw {
  cf_r_provider : cf_ssrc;  cf_r_key : cf_ssrc;       cf_r_ingress : cf_ssrc;  cf_r_samesite : cf_ssrc;
  cf_r_clientid : cf_ssrc;  cf_r_jwk : cf_ssrc;       cf_r_secret : cf_ssrc;   cf_r_wellknown : cf_ssrc;
  cf_r_alg : cf_ssrc;       cf_r_acr : cf_ssrc;       cf_r_locale : cf_ssrc;
  cf_r_redisaddr : cf_ssrc; cf_r_redisuri : cf_ssrc;
  cf_r_ssomode : cf_ssrc;   cf_r_ssocookie : cf_ssrc; cf_r_ssodomain : cf_ssrc;
  cf_r_ssoredirect : cf_ssrc; cf_r_ssoserverurl : cf_ssrc; cf_r_upip : cf_ssrc;
  (* provider specific variables; the last one is the name the DOCUMENTATION gives for the Azure JWK *)
  cf_r_idp_clientid : option bytes; cf_r_idp_jwk : option bytes; cf_r_idp_wellknown : option bytes;
  cf_r_az_clientid : option bytes;  cf_r_az_jwk : option bytes;  cf_r_az_wellknown : option bytes;
  cf_r_az_docjwk : option bytes;
  (* typed settings *)
  cf_r_secure : cf_tsrc bool; cf_r_ssoenabled : cf_tsrc bool; cf_r_upport : cf_tsrc Z;
  cf_r_graceful : cf_tsrc Z;  cf_r_waitbefore : cf_tsrc Z;
  (* library oracles: strings accepted by jwk.ParseKey / redis.ParseURL / URLs http.Get can fetch *)
  cf_r_ojwk : list bytes; cf_r_oredis : list bytes; cf_r_ofetch : list bytes }.

(** the discovery document served at the discovery URL (and the JWKS endpoint it names) *)
Record cf_disc := mk_cf_disc {
  cf_d_json : bool;            (* the body decodes into ProviderMetadata *)
  cf_d_algs : list bytes;      (* id_token_signing_alg_values_supported *)
  cf_d_acrs : list bytes;      (* acr_values_supported *)
  cf_d_locales : list bytes;   (* ui_locales_supported *)
  cf_d_endsession : bool;      (* end_session_endpoint parses (url.Parse) *)
  cf_d_jwks : bool }.          (* jwks_uri can be registered and fetched, and is a JWK set *)

Inductive cf_provider := CfOpenID | CfAzure | CfIDPorten.
Inductive cf_mode := CfStandalone | CfSSOServer | CfSSOProxy | CfSSOInvalid.

(** the resolved configuration (the [Config] struct after viper.UnmarshalExact) *)
Record cf_cfg := mk_cf_cfg {
  cf_provider_of : cf_provider; cf_key : bytes; cf_ingresses : list bytes; cf_samesite : bytes; cf_secure : bool;
  cf_clientid : bytes; cf_jwk : bytes; cf_secret : bytes; cf_wellknown : bytes;
  cf_alg : bytes; cf_acr : bytes; cf_locale : bytes;
  cf_redisaddr : bytes; cf_redisuri : bytes;
  cf_ssoenabled : bool; cf_ssomode : bytes; cf_ssocookie : bytes; cf_ssodomain : bytes;
  cf_ssoredirect : bytes; cf_ssoserverurl : bytes;
  cf_upip : bytes; cf_upport : Z; cf_graceful : Z; cf_waitbefore : Z;
  cf_ojwk : list bytes; cf_oredis : list bytes; cf_ofetch : list bytes }.

(** * viper resolution *)

(* viper.getEnv: an empty variable counts as unset (AllowEmptyEnv is off) *)
Definition cf_env_val (o : option bytes) : option bytes :=
  match o with Some [] => None | x => x end.

(* viper.find: flag if changed > AutomaticEnv WONDERWALL_* > BindEnv name > SetDefault > flag default *)
Definition cf_resolve (dflt : bytes) (s : cf_ssrc) (penv : option bytes) : bytes :=
  match cf_sflag s with
  | Some v => v
  | None =>
    match cf_env_val (cf_swenv s) with
    | Some v => v
    | None => match cf_env_val penv with Some v => v | None => dflt end
    end
  end.

Definition cf_lit_idporten : bytes := Eval vm_compute in bs "idporten"%string.
Definition cf_lit_azure : bytes := Eval vm_compute in bs "azure"%string.
Definition cf_lit_openid : bytes := Eval vm_compute in bs "openid"%string.
Definition cf_lit_lax : bytes := Eval vm_compute in bs "Lax"%string.
Definition cf_lit_none : bytes := Eval vm_compute in bs "None"%string.
Definition cf_lit_strict : bytes := Eval vm_compute in bs "Strict"%string.
Definition cf_lit_rs256 : bytes := Eval vm_compute in bs "RS256"%string.
Definition cf_lit_server : bytes := Eval vm_compute in bs "server"%string.
Definition cf_lit_proxy : bytes := Eval vm_compute in bs "proxy"%string.
Definition cf_lit_localhost : bytes := Eval vm_compute in bs "localhost"%string.
Definition cf_lit_http : bytes := Eval vm_compute in bs "http"%string.
Definition cf_lit_https : bytes := Eval vm_compute in bs "https"%string.
Definition cf_lit_loa_high : bytes := Eval vm_compute in bs "idporten-loa-high"%string.
Definition cf_lit_loa_substantial : bytes := Eval vm_compute in bs "idporten-loa-substantial"%string.
Definition cf_lit_level3 : bytes := Eval vm_compute in bs "Level3"%string.
Definition cf_lit_level4 : bytes := Eval vm_compute in bs "Level4"%string.
Definition cf_lit_nb : bytes := Eval vm_compute in bs "nb"%string.
Definition cf_lit_oauth2 : bytes := Eval vm_compute in bs "/oauth2"%string.

(* resolveOpenIdProvider: switch Provider(viper.GetString("openid.provider")) *)
Definition cf_provider_parse (s : bytes) : cf_provider :=
  if beq s cf_lit_idporten then CfIDPorten else if beq s cf_lit_azure then CfAzure else CfOpenID.

(* pflag StringSlice (CSV without quotes) and mapstructure StringToSliceHookFunc(","): "" is the empty list *)
Definition cf_split_list (raw : bytes) : list bytes :=
  match raw with [] => [] | _ => split_on 44 raw end.

Definition cf_tresolve {A} (dflt : A) (s : cf_tsrc A) : A :=
  match cf_tflag s with
  | CfVal a => a
  | _ => match cf_twenv s with CfVal a => a | _ => dflt end
  end.

Definition cf_tflag_bad {A} (s : cf_tsrc A) : bool := match cf_tflag s with CfBad => true | _ => false end.
(* the variable is only looked at when the flag was not given *)
Definition cf_twenv_bad {A} (s : cf_tsrc A) : bool :=
  match cf_tflag s, cf_twenv s with CfAbsent, CfBad => true | _, _ => false end.

(* flag.Parse (pflag.ExitOnError): exit status 2 *)
Definition cf_any_flag_bad (r : cf_raw) : bool :=
  cf_tflag_bad (cf_r_secure r) || cf_tflag_bad (cf_r_ssoenabled r) || cf_tflag_bad (cf_r_upport r)
  || cf_tflag_bad (cf_r_graceful r) || cf_tflag_bad (cf_r_waitbefore r).
(* viper.UnmarshalExact: "decoding failed" *)
Definition cf_any_env_bad (r : cf_raw) : bool :=
  cf_twenv_bad (cf_r_secure r) || cf_twenv_bad (cf_r_ssoenabled r) || cf_twenv_bad (cf_r_upport r)
  || cf_twenv_bad (cf_r_graceful r) || cf_twenv_bad (cf_r_waitbefore r).

Definition cf_pick (p : cf_provider) (idp az : option bytes) : option bytes :=
  match p with CfIDPorten => idp | CfAzure => az | CfOpenID => None end.

Definition cf_nossrc : cf_ssrc := mk_cf_ssrc None None.

Definition cf_resolve_all (r : cf_raw) : cf_cfg :=
  let p := cf_provider_parse (cf_resolve cf_lit_openid (cf_r_provider r) None) in
  mk_cf_cfg p
    (cf_resolve [] (cf_r_key r) None)
    (cf_split_list (cf_resolve [] (cf_r_ingress r) None))
    (cf_resolve cf_lit_lax (cf_r_samesite r) None)
    (cf_tresolve true (cf_r_secure r))
    (cf_resolve [] (cf_r_clientid r) (cf_pick p (cf_r_idp_clientid r) (cf_r_az_clientid r)))
    (cf_resolve [] (cf_r_jwk r) (cf_pick p (cf_r_idp_jwk r) (cf_r_az_jwk r)))
    (cf_resolve [] (cf_r_secret r) None)
    (cf_resolve [] (cf_r_wellknown r) (cf_pick p (cf_r_idp_wellknown r) (cf_r_az_wellknown r)))
    (cf_resolve cf_lit_rs256 (cf_r_alg r) None)
    (* viper.SetDefault for idporten sits between the environment and the flag default *)
    (cf_resolve (match p with CfIDPorten => cf_lit_loa_high | _ => [] end) (cf_r_acr r) None)
    (cf_resolve (match p with CfIDPorten => cf_lit_nb | _ => [] end) (cf_r_locale r) None)
    (cf_resolve [] (cf_r_redisaddr r) None)
    (cf_resolve [] (cf_r_redisuri r) None)
    (cf_tresolve false (cf_r_ssoenabled r))
    (cf_resolve cf_lit_server (cf_r_ssomode r) None)
    (cf_resolve [] (cf_r_ssocookie r) None)
    (cf_resolve [] (cf_r_ssodomain r) None)
    (cf_resolve [] (cf_r_ssoredirect r) None)
    (cf_resolve [] (cf_r_ssoserverurl r) None)
    (cf_resolve [] (cf_r_upip r) None)
    (cf_tresolve 0%Z (cf_r_upport r))
    (cf_tresolve 30000000000%Z (cf_r_graceful r))
    (cf_tresolve 0%Z (cf_r_waitbefore r))
    (cf_r_ojwk r) (cf_r_oredis r) (cf_r_ofetch r).

Definition cf_mode_of (c : cf_cfg) : cf_mode :=
  if negb (cf_ssoenabled c) then CfStandalone
  else if beq (cf_ssomode c) cf_lit_server then CfSSOServer
  else if beq (cf_ssomode c) cf_lit_proxy then CfSSOProxy
  else CfSSOInvalid.

(** * Code variants (lib/code_flags.json says which one the current tree has; DESIGN.md 0.3)
    [cf_v_key_strict]      fix 9e1f3d0: only an EMPTY key setting generates a key; anything else must decode to 32 bytes
                           (old: any string decoding to zero bytes, e.g. a lone line feed, counted as "no key")
    [cf_v_wait_nonneg]     fix 164dd13: Config.Validate refuses shutdown-wait-before-period < 0
    [cf_v_ingress_strict]  fix 9040a49: ParseIngress refuses a path containing '*', '{' or '}' (old: router.New panicked
                           on a malformed chi pattern, and /{id} started as a route parameter) *)
Record cf_variant := mk_cf_variant {
  cf_v_key_strict : bool; cf_v_wait_nonneg : bool; cf_v_ingress_strict : bool }.
Definition cf_cur : cf_variant := mk_cf_variant true true true.
Definition cf_old : cf_variant := mk_cf_variant false false false.

(** * Error classes (0 = the process listens) *)
Definition cf_E_flag : positive := 1%positive.        Definition cf_E_decode : positive := 2%positive.
Definition cf_E_samesite : positive := 10%positive.   Definition cf_E_insec_parse : positive := 11%positive.
Definition cf_E_insec_host : positive := 12%positive. Definition cf_E_insec_scheme : positive := 13%positive.
Definition cf_E_alg_jwa : positive := 14%positive.    Definition cf_E_sso_store : positive := 15%positive.
Definition cf_E_sso_cookie : positive := 16%positive. Definition cf_E_sso_serverurl : positive := 17%positive.
Definition cf_E_sso_domain : positive := 18%positive. Definition cf_E_sso_redirect : positive := 19%positive.
Definition cf_E_sso_mode : positive := 20%positive.   Definition cf_E_up_ip : positive := 21%positive.
Definition cf_E_up_port : positive := 22%positive.    Definition cf_E_up_range : positive := 23%positive.
Definition cf_E_periods : positive := 24%positive.    Definition cf_E_key_decode : positive := 30%positive.
Definition cf_E_key_length : positive := 31%positive. Definition cf_E_creds : positive := 40%positive.
Definition cf_E_jwk : positive := 41%positive.        Definition cf_E_clientid : positive := 42%positive.
Definition cf_E_wellknown : positive := 43%positive.  Definition cf_E_fetch : positive := 44%positive.
Definition cf_E_json : positive := 45%positive.       Definition cf_E_acr : positive := 46%positive.
Definition cf_E_locale : positive := 47%positive.     Definition cf_E_alg_disc : positive := 48%positive.
Definition cf_E_endsession : positive := 49%positive. Definition cf_E_jwks : positive := 50%positive.
Definition cf_E_redis : positive := 51%positive.      Definition cf_E_noingress : positive := 52%positive.
Definition cf_E_ing_empty : positive := 53%positive.  Definition cf_E_ing_parse : positive := 54%positive.
Definition cf_E_ing_host : positive := 55%positive.   Definition cf_E_ing_scheme : positive := 56%positive.
Definition cf_E_route : positive := 60%positive.
Definition cf_E_wait_neg : positive := 25%positive.
Definition cf_E_ing_pattern : positive := 57%positive.

Definition cf_mem (x : bytes) (l : list bytes) : bool := existsb (beq x) l.

(** * Config.Validate *)

Definition cf_samesite_ok (s : bytes) : bool := cf_mem s [cf_lit_lax; cf_lit_none; cf_lit_strict].

(* Cookie.Validate, loop body: url.ParseRequestURI; strings.EqualFold(u.Hostname(), "localhost"); u.Scheme != "http".
   EqualFold is modelled on ASCII (the letters of "localhost" other than 's' have no non-ASCII fold; U+017F for 's'
   is outside the byte alphabets of the correspondence). *)
Definition cf_insecure_one (ing : bytes) : option positive :=
  match parse_request_uri ing with
  | None => Some cf_E_insec_parse
  | Some u =>
    if negb (beq (to_lower (hostname u)) cf_lit_localhost) then Some cf_E_insec_host
    else if negb (beq (u_scheme u) cf_lit_http) then Some cf_E_insec_scheme
    else None
  end.

Fixpoint cf_first_err {A} (f : A -> option positive) (l : list A) : option positive :=
  match l with
  | [] => None
  | x :: r => match f x with Some e => Some e | None => cf_first_err f r end
  end.

Definition cf_cookie_validate (c : cf_cfg) : option positive :=
  if negb (cf_samesite_ok (cf_samesite c)) then Some cf_E_samesite
  else if cf_secure c then None
  else cf_first_err cf_insecure_one (cf_ingresses c).

(* jwa.SignatureAlgorithms() of lestrrat-go/jwx v2 *)
Definition cf_jwa_algs : list bytes := Eval vm_compute in
  map bs ["ES256"; "ES256K"; "ES384"; "ES512"; "EdDSA"; "HS256"; "HS384"; "HS512";
          "PS256"; "PS384"; "PS512"; "RS256"; "RS384"; "RS512"; "none"]%string.

Definition cf_openid_validate (c : cf_cfg) : option positive :=
  if cf_mem (cf_alg c) cf_jwa_algs then None else Some cf_E_alg_jwa.

Definition cf_url_ok (s : bytes) : bool :=
  match parse_request_uri s with Some _ => true | None => false end.

Definition cf_store_configured (c : cf_cfg) : bool :=
  negb (is_empty (cf_redisaddr c)) || negb (is_empty (cf_redisuri c)).

Definition cf_sso_validate (c : cf_cfg) : option positive :=
  if negb (cf_ssoenabled c) then None
  else if negb (cf_store_configured c) then Some cf_E_sso_store
  else if is_empty (cf_ssocookie c) then Some cf_E_sso_cookie
  else if beq (cf_ssomode c) cf_lit_proxy then
    if cf_url_ok (cf_ssoserverurl c) then None else Some cf_E_sso_serverurl
  else if beq (cf_ssomode c) cf_lit_server then
    if is_empty (cf_ssodomain c) then Some cf_E_sso_domain
    else if cf_url_ok (cf_ssoredirect c) then None else Some cf_E_sso_redirect
  else Some cf_E_sso_mode.

Definition cf_upstream_validate (c : cf_cfg) : option positive :=
  if is_empty (cf_upip c) && (cf_upport c =? 0)%Z then None
  else if is_empty (cf_upip c) then Some cf_E_up_ip
  else if (cf_upport c =? 0)%Z then Some cf_E_up_port
  else if (cf_upport c <? 1)%Z || (65535 <? cf_upport c)%Z then Some cf_E_up_range
  else None.

Definition cf_periods_validate (v : cf_variant) (c : cf_cfg) : option positive :=
  if cf_v_wait_nonneg v && (cf_waitbefore c <? 0)%Z then Some cf_E_wait_neg
  else if (cf_graceful c <=? cf_waitbefore c)%Z then Some cf_E_periods else None.

Definition cf_seq (a b : option positive) : option positive := match a with Some e => Some e | None => b end.

Definition cf_validate (v : cf_variant) (c : cf_cfg) : option positive :=
  cf_seq (cf_cookie_validate c) (cf_seq (cf_openid_validate c) (cf_seq (cf_sso_validate c)
    (cf_seq (cf_upstream_validate c) (cf_periods_validate v c)))).

(** * EncryptionKeyOrGenerate: base64.StdEncoding.DecodeString, length of the result *)

Definition cf_b64_char (c : N) : bool := is_alpha c || is_digit c || (c =? 43) || (c =? 47).
Definition cf_is_nl (c : N) : bool := (c =? 10) || (c =? 13).
Fixpoint cf_skip_nl (s : bytes) : bytes :=
  match s with c :: r => if cf_is_nl c then cf_skip_nl r else s | [] => [] end.

(* j = characters in the current quantum (0..3), n = bytes decoded so far; None = CorruptInputError *)
Fixpoint cf_b64_len_aux (s : bytes) (j n : N) : option N :=
  match s with
  | [] => if j =? 0 then Some n else None
  | c :: r =>
    if cf_is_nl c then cf_b64_len_aux r j n
    else if c =? 61 then
      if j <? 2 then None
      else if j =? 2 then
        match cf_skip_nl r with
        | c' :: r' => if (c' =? 61) && is_empty (cf_skip_nl r') then Some (n + 1) else None
        | [] => None
        end
      else if is_empty (cf_skip_nl r) then Some (n + 2) else None
    else if cf_b64_char c then
      if j =? 3 then cf_b64_len_aux r 0 (n + 3) else cf_b64_len_aux r (j + 1) n
    else None
  end.
Definition cf_b64_len (s : bytes) : option N := cf_b64_len_aux s 0 0.

(* old: a decode error is fatal only for a non-empty string (always the case); zero decoded bytes generate a key.
   current: only the empty string generates a key; everything else must decode, to exactly 32 bytes *)
Definition cf_key_check (v : cf_variant) (k : bytes) : option positive :=
  if cf_v_key_strict v then
    if is_empty k then None
    else match cf_b64_len k with
         | None => Some cf_E_key_decode
         | Some n => if n =? 32 then None else Some cf_E_key_length
         end
  else
    match cf_b64_len k with
    | None => if is_empty k then None else Some cf_E_key_decode
    | Some n => if (n =? 0) || (n =? 32) then None else Some cf_E_key_length
    end.

(** * NewClientConfig, NewProviderConfig, ProviderMetadata.Validate, NewJwksProvider *)

Definition cf_client_config (c : cf_cfg) : option positive :=
  if is_empty (cf_jwk c) && is_empty (cf_secret c) then Some cf_E_creds
  else if negb (is_empty (cf_jwk c)) && negb (cf_mem (cf_jwk c) (cf_ojwk c)) then Some cf_E_jwk
  else if is_empty (cf_clientid c) then Some cf_E_clientid
  else if is_empty (cf_wellknown c) then Some cf_E_wellknown
  else None.

(* acr.IDPortenLegacyMapping *)
Definition cf_acr_translate (a : bytes) : option bytes :=
  if beq a cf_lit_level3 then Some cf_lit_loa_substantial
  else if beq a cf_lit_level4 then Some cf_lit_loa_high else None.

Definition cf_acr_ok (acr : bytes) (d : cf_disc) : bool :=
  is_empty acr || cf_mem acr (cf_d_acrs d)
  || match cf_acr_translate acr with Some t => cf_mem t (cf_d_acrs d) | None => false end.
Definition cf_locale_ok (l : bytes) (d : cf_disc) : bool := is_empty l || cf_mem l (cf_d_locales d).
Definition cf_alg_ok (a : bytes) (d : cf_disc) : bool := cf_mem a (cf_d_algs d).

Definition cf_provider_config (c : cf_cfg) (d : cf_disc) : option positive :=
  if negb (cf_mem (cf_wellknown c) (cf_ofetch c)) then Some cf_E_fetch
  else if negb (cf_d_json d) then Some cf_E_json
  else if negb (cf_acr_ok (cf_acr c) d) then Some cf_E_acr
  else if negb (cf_locale_ok (cf_locale c) d) then Some cf_E_locale
  else if negb (cf_alg_ok (cf_alg c) d) then Some cf_E_alg_disc
  else if negb (cf_d_endsession d) then Some cf_E_endsession
  else None.

Definition cf_jwks_provider (d : cf_disc) : option positive := if cf_d_jwks d then None else Some cf_E_jwks.

(** * NewStore *)
Definition cf_new_store (c : cf_cfg) : option positive :=
  if negb (cf_store_configured c) then None
  else if negb (is_empty (cf_redisuri c)) && negb (cf_mem (cf_redisuri c) (cf_oredis c)) then Some cf_E_redis
  else None.   (* the Redis named by the configuration is up: environment *)

(** * ParseIngresses *)
(* strings.ContainsAny(path, "*{}") *)
Definition cf_pattern_byte (c : N) : bool := (c =? 42) || (c =? 123) || (c =? 125).
Definition cf_has_pattern (p : bytes) : bool := existsb cf_pattern_byte p.

Definition cf_parse_ingress (v : cf_variant) (s : bytes) : option positive :=
  if is_empty s then Some cf_E_ing_empty
  else match parse_request_uri s with
       | None => Some cf_E_ing_parse
       | Some u =>
         if is_empty (u_host u) then Some cf_E_ing_host
         else if negb (beq (u_scheme u) cf_lit_http || beq (u_scheme u) cf_lit_https) then Some cf_E_ing_scheme
         else if cf_v_ingress_strict v && cf_has_pattern (trim_right_slash (u_path u)) then Some cf_E_ing_pattern
         else None
       end.

Definition cf_parse_ingresses (v : cf_variant) (c : cf_cfg) : option positive :=
  match cf_ingresses c with
  | [] => Some cf_E_noingress
  | l => cf_first_err (cf_parse_ingress v) l
  end.

(** * router.New: r.Route(prefix + "/oauth2", ...) for every ingress path; chi's patNextSegment panics *)

(* the '{' at the head of [s] has been consumed ([depth] = 1 initially): content up to the matching '}' (nesting
   counted) and the rest after it; None = "route param closing delimiter '}' is missing" *)
Fixpoint cf_close_brace (s : bytes) (depth : nat) (acc : bytes) : option (bytes * bytes) :=
  match s with
  | [] => None
  | c :: r =>
    if c =? 123 then cf_close_brace r (S depth) (acc ++ [c])
    else if c =? 125 then
      match depth with
      | O => None                      (* not reached *)
      | S O => Some (acc, r)
      | S d => cf_close_brace r d (acc ++ [c])
      end
    else cf_close_brace r depth (acc ++ [c])
  end.

(* repeated patNextSegment over the pattern (tree.InsertRoute / patParamKeys); [fuel] = length of the pattern;
   [keys] = parameter names seen so far (a duplicate panics; the mount pattern ends in "/*" whose key is "*").
   Regular-expression parameters ({name:regex}) are outside the model. *)
Fixpoint cf_chi_ok (fuel : nat) (s : bytes) (keys : list bytes) : bool :=
  match fuel with
  | O => true
  | S f =>
    match s with
    | [] => true
    | c :: r =>
      if c =? 42 then is_empty r && negb (cf_mem [42] keys)   (* '*' before any '{': must be the last byte *)
      else if c =? 123 then
        match cf_close_brace r 1 [] with
        | Some (key, rest) => if cf_mem key keys then false else cf_chi_ok f rest (key :: keys)
        | None => false
        end
      else cf_chi_ok f r keys
    end
  end.

Definition cf_route_ok (ing : bytes) : bool :=
  match parse_request_uri ing with
  | Some u => let p := trim_right_slash (u_path u) ++ cf_lit_oauth2 ++ [47; 42] in cf_chi_ok (S (length p)) p []
  | None => true
  end.

Definition cf_router (c : cf_cfg) : option positive :=
  if forallb cf_route_ok (cf_ingresses c) then None else Some cf_E_route.

(** * main.run after Initialize *)
Definition cf_standalone (v : cf_variant) (c : cf_cfg) (d : cf_disc) : option positive :=
  cf_seq (cf_client_config c) (cf_seq (cf_provider_config c d) (cf_seq (cf_jwks_provider d)
    (cf_seq (cf_new_store c) (cf_parse_ingresses v c)))).

Definition cf_sso_server_redirect (c : cf_cfg) : option positive :=
  if cf_url_ok (cf_ssoredirect c) then None else Some cf_E_sso_redirect.

Definition cf_sso_proxy (v : cf_variant) (c : cf_cfg) : option positive :=
  cf_seq (cf_parse_ingresses v c) (cf_seq (cf_new_store c)
    (if cf_url_ok (cf_ssoserverurl c) then None else Some cf_E_sso_serverurl)).

Definition cf_handler (v : cf_variant) (c : cf_cfg) (d : cf_disc) : option positive :=
  match cf_mode_of c with
  | CfStandalone => cf_standalone v c d
  | CfSSOServer => cf_seq (cf_standalone v c d) (cf_sso_server_redirect c)
  | CfSSOProxy => cf_sso_proxy v c
  | CfSSOInvalid => Some cf_E_sso_mode
  end.

Definition cf_boot (v : cf_variant) (c : cf_cfg) (d : cf_disc) : option positive :=
  cf_seq (cf_validate v c) (cf_seq (cf_key_check v (cf_key c)) (cf_seq (cf_handler v c d) (cf_router c))).

Definition cf_code (o : option positive) : Z := match o with Some e => Zpos e | None => 0%Z end.

(** outcome of starting the binary: 0 = listening, otherwise the class of the first failing check *)
Definition cf_run (v : cf_variant) (r : cf_raw) (d : cf_disc) : Z :=
  if cf_any_flag_bad r then Zpos cf_E_flag
  else if cf_any_env_bad r then Zpos cf_E_decode
  else cf_code (cf_boot v (cf_resolve_all r) d).

Definition cf_starts (v : cf_variant) (r : cf_raw) (d : cf_disc) : bool := (cf_run v r d =? 0)%Z.

(** * The remaining settings of the redis section

    pkg/config/redis.go: besides redis.address and redis.uri the [Redis] struct carries redis.username,
    redis.password, redis.tls (flag default TRUE: [flag.Bool(RedisTLS, true, ...)]) and
    redis.connection-idle-timeout (default 0). They come through the same channels (flag, WONDERWALL_ variable), their
    typed members can be malformed like every other typed setting (flag.Parse: exit status 2; UnmarshalExact:
    "decoding failed"), and NO check between process start and ListenAndServe looks at them: SSO.Validate and
    session.NewStore test [len(Address) == 0 && len(URI) == 0] only; Redis.Client() uses them for a connection
    that is made only when a store is configured (environment). Note that the struct built by config.Initialize
    is never the Go zero value [Redis{}] unless redis.tls is switched off. *)
Record cf_redis_rest := mk_cf_redis_rest {
  cf_x_password : cf_ssrc; cf_x_username : cf_ssrc; cf_x_tls : cf_tsrc bool; cf_x_idle : cf_tsrc Z }.

(* the Redis struct after viper.UnmarshalExact *)
Record cf_redis_struct := mk_cf_redis_struct {
  cf_rs_address : bytes; cf_rs_username : bytes; cf_rs_password : bytes; cf_rs_tls : bool; cf_rs_uri : bytes;
  cf_rs_idle : Z }.

Definition cf_redis_resolve (r : cf_raw) (x : cf_redis_rest) : cf_redis_struct :=
  mk_cf_redis_struct (cf_resolve [] (cf_r_redisaddr r) None) (cf_resolve [] (cf_x_username x) None)
    (cf_resolve [] (cf_x_password x) None) (cf_tresolve true (cf_x_tls x)) (cf_resolve [] (cf_r_redisuri r) None)
    (cf_tresolve 0%Z (cf_x_idle x)).

(* SSO.Validate / session.NewStore: len(cfg.Redis.Address) == 0 && len(cfg.Redis.URI) == 0 means "no store" *)
Definition cf_redis_store_set (s : cf_redis_struct) : bool :=
  negb (is_empty (cf_rs_address s)) || negb (is_empty (cf_rs_uri s)).

(* [s != Redis{}]: what the code does NOT test *)
Definition cf_redis_nonzero (s : cf_redis_struct) : bool :=
  negb (is_empty (cf_rs_address s)) || negb (is_empty (cf_rs_username s)) || negb (is_empty (cf_rs_password s))
  || cf_rs_tls s || negb (is_empty (cf_rs_uri s)) || negb (cf_rs_idle s =? 0)%Z.

Definition cf_x_flag_bad (x : cf_redis_rest) : bool := cf_tflag_bad (cf_x_tls x) || cf_tflag_bad (cf_x_idle x).
Definition cf_x_env_bad (x : cf_redis_rest) : bool := cf_twenv_bad (cf_x_tls x) || cf_twenv_bad (cf_x_idle x).

(** outcome of starting the binary with the whole redis section supplied *)
Definition cf_run_x (v : cf_variant) (r : cf_raw) (x : cf_redis_rest) (d : cf_disc) : Z :=
  if cf_any_flag_bad r || cf_x_flag_bad x then Zpos cf_E_flag
  else if cf_any_env_bad r || cf_x_env_bad x then Zpos cf_E_decode
  else cf_code (cf_boot v (cf_resolve_all r) d).
