(** What an instance answers to a request OUTSIDE its own /oauth2 endpoints, by mode: the catch-all route of
    pkg/router/router.go (r.HandleFunc("/*", src.Wildcard)) and, in SSO-server mode, its GET / route, on top of the
    router model (Model/Router.v: chi routing on RawPath / Path, method table).

      pkg/handler/handler.go            func (s *Standalone) Wildcard: s.UpstreamProxy.Handler(s, w, r)  - the reverse proxy
      pkg/handler/handler_sso_server.go func (s *SSOServer) Wildcard:  http.Redirect(w, r, s.Config.SSO.ServerDefaultRedirectURL, 302)
      pkg/router/router.go              if cfg.SSO.IsServer() { r.Get("/", ... http.Redirect(w, r, paths.OAuth2+paths.Login, 302)) }

    The SSO server's Wildcard looks at NOTHING of the request (method, Sec-Fetch-Mode / Sec-Fetch-Dest, Accept, cookies):
    [sw_server_wildcard] has no request argument. No proofs here. *)
From Coq Require Import NArith List Bool.
From WW Require Import Base.Bytes Gen.Params Model.Router.
Import ListNotations.
Open Scope N_scope.

Inductive sw_answer :=
| SwRedirect (status : N) (location : bytes)   (* http.Redirect: nothing leaves the instance *)
| SwUpstream                                    (* handed to the reverse proxy: the request reaches the upstream *)
| SwStatus (status : N)                         (* answered by chi (405 for a method it does not know) *)
| SwOwned.                                      (* the request is for one of the instance's own endpoints (not modelled here) *)

(* handler_sso_server.go Wildcard *)
Definition sw_server_wildcard (default_url : bytes) : sw_answer := SwRedirect 302 default_url.

(* handler.go Wildcard of Standalone (and of the SSO proxy, which embeds its own reverse proxy) *)
Definition sw_proxying_wildcard : sw_answer := SwUpstream.

(* router.go: the SSO server's GET / *)
Definition sw_server_root : sw_answer := SwRedirect 302 (path_oauth2 ++ path_login).

Definition sw_wildcard (c : rconfig) (default_url : bytes) : sw_answer :=
  match rc_mode c with
  | SsoServer => sw_server_wildcard default_url
  | _ => sw_proxying_wildcard
  end.

Definition sw_respond (c : rconfig) (default_url method raw path : bytes) (h : hdrs) : sw_answer :=
  match respond c method raw path h with
  | RHandler EpWildcard _ => sw_wildcard c default_url
  | RHandler EpRoot _ => sw_server_root
  | RHandler _ _ => SwOwned
  | RStatus s _ => if under_ownedb (rc_prefixes c) path then SwOwned else SwStatus s
  end.
