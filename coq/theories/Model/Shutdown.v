(** C19 — shutdown timeline. A TIMELINE MODEL (partial): the one structural fact taken from the code
    (pkg/server/server.go:Start) is the order
        signal at 0  ->  time.Sleep(W)  ->  http.Server.Shutdown(ctx with timeout G - W)  ->  exit 0 / log.Fatalf (exit 1)
    http.Server.Shutdown (listeners closed at once, in-flight requests allowed to finish, polling until idle),
    signal delivery and scheduling are the Go runtime's and are NOT modelled beyond this timeline.
    Times are integers (ns) relative to the signal. A request is (arrival, service time at the upstream). No proofs here. *)
From Coq Require Import ZArith List Bool.
Import ListNotations.
Open Scope Z_scope.

(* Config.Validate lets the process start only with wait-before < graceful, and (fix 164dd13, flag [nonneg]) with
   wait-before >= 0; cf. Model/Config.v:cf_periods_validate, related in Proofs/ShutdownP.v *)
Definition sd_startable (nonneg : bool) (W G : Z) : bool := negb (nonneg && (W <? 0)) && (W <? G).

Record sd_req := mk_sd_req { sd_arrival : Z; sd_service : Z }.

(* time.Sleep of a non-positive duration returns immediately *)
Definition sd_close (W : Z) : Z := Z.max 0 W.
(* shutdownTimeout := graceful - waitBefore, counted from the end of the sleep *)
Definition sd_timeout (W G : Z) : Z := G - W.
Definition sd_deadline (W G : Z) : Z := sd_close W + sd_timeout W G.

Definition sd_finish (q : sd_req) : Z := sd_arrival q + sd_service q.
(* the listener accepts until Shutdown closes it *)
Definition sd_accepted (W : Z) (q : sd_req) : bool := sd_arrival q <? sd_close W.
Definition sd_completes (W G : Z) (q : sd_req) : bool := sd_accepted W q && (sd_finish q <=? sd_deadline W G).

Definition sd_all_complete (W G : Z) (l : list sd_req) : bool :=
  forallb (fun q => negb (sd_accepted W q) || sd_completes W G q) l.

(* the instant the last accepted request finishes (the close instant when there is none) *)
Fixpoint sd_last (W : Z) (l : list sd_req) : Z :=
  match l with
  | [] => sd_close W
  | q :: r => if sd_accepted W q then Z.max (sd_finish q) (sd_last W r) else sd_last W r
  end.

(* http.Server.Shutdown polls for idleness: at once, then after 1, 2, 4, ... ms (doubling, capped at 500 ms; the
   up-to-10 % jitter is ignored). Offsets of the polls from the close instant: 0, 1, 3, 7, ..., 511 ms, then every 500 ms.
   [sd_poll_after x] = offset of the first poll at or after offset x. *)
Definition sd_ms : Z := 1000000.
Definition sd_poll_early : list Z :=
  map (fun k => k * sd_ms) [0; 1; 3; 7; 15; 31; 63; 127; 255; 511].
Definition sd_poll_after (x : Z) : Z :=
  match find (fun p => x <=? p) sd_poll_early with
  | Some p => p
  | None => 511 * sd_ms + 500 * sd_ms * ((x - 511 * sd_ms + (500 * sd_ms - 1)) / (500 * sd_ms))
  end.

(* the instant Shutdown notices that everything is idle *)
Definition sd_noticed (W : Z) (l : list sd_req) : Z := sd_close W + sd_poll_after (sd_last W l - sd_close W).

(* Shutdown returns nil at the first poll that finds the server idle, unless the context deadline fires first
   (log.Fatalf in the watcher goroutine, exit status 1) *)
Definition sd_graceful (W G : Z) (l : list sd_req) : bool :=
  sd_all_complete W G l && (sd_noticed W l <? sd_deadline W G).
Definition sd_exit_time (W G : Z) (l : list sd_req) : Z :=
  if sd_graceful W G l then sd_noticed W l else sd_deadline W G.
Definition sd_exit_code (W G : Z) (l : list sd_req) : Z := if sd_graceful W G l then 0 else 1.
