(** C19 — shutdown timeline. A TIMELINE MODEL (partial): the one structural fact taken from the code
    (pkg/server/server.go:Start) is the order
        signal at 0  ->  time.Sleep(W)  ->  http.Server.Shutdown(ctx with timeout G - W)  ->  exit 0 / log.Fatalf (exit 1)
    http.Server.Shutdown (listeners closed at once, in-flight requests allowed to finish, polling until idle),
    signal delivery and scheduling are the Go runtime's and are NOT modelled beyond this timeline.
    Times are integers (ns) relative to the signal. A request is (arrival, service time at the upstream). No proofs here. *)
From Coq Require Import ZArith List Bool.
Import ListNotations.
Open Scope Z_scope.

(* Config.Validate lets the process start only with wait-before < graceful, and (fix 164dd13, flag [nonneg]) with
   wait-before >= 0; cf. Model/Config.v:cf_periods_validate, related in Proofs/ShutdownP.v *)
Definition sd_startable (nonneg : bool) (W G : Z) : bool := negb (nonneg && (W <? 0)) && (W <? G).

(* What the request makes the process do (proxy to the upstream; a login callback exchanging the code at the provider's
   token endpoint and, after a key rotation there, refreshing the JWKS; a session refresh; a logout) does not appear: the
   back-channel work of a request is part of its service time, and http.Server.Shutdown waits for the connection whatever
   the handler is doing. *)
Record sd_req := mk_sd_req { sd_arrival : Z; sd_service : Z }.

(* time.Sleep of a non-positive duration returns immediately *)
Definition sd_close (W : Z) : Z := Z.max 0 W.
(* shutdownTimeout := graceful - waitBefore, counted from the end of the sleep *)
Definition sd_timeout (W G : Z) : Z := G - W.
Definition sd_deadline (W G : Z) : Z := sd_close W + sd_timeout W G.

Definition sd_finish (q : sd_req) : Z := sd_arrival q + sd_service q.
(* the listener accepts until Shutdown closes it *)
Definition sd_accepted (W : Z) (q : sd_req) : bool := sd_arrival q <? sd_close W.
Definition sd_completes (W G : Z) (q : sd_req) : bool := sd_accepted W q && (sd_finish q <=? sd_deadline W G).

Definition sd_all_complete (W G : Z) (l : list sd_req) : bool :=
  forallb (fun q => negb (sd_accepted W q) || sd_completes W G q) l.

(* the instant the last accepted request finishes (the close instant when there is none) *)
Fixpoint sd_last (W : Z) (l : list sd_req) : Z :=
  match l with
  | [] => sd_close W
  | q :: r => if sd_accepted W q then Z.max (sd_finish q) (sd_last W r) else sd_last W r
  end.

(* http.Server.Shutdown polls for idleness: at once, then after 1, 2, 4, ... ms (doubling, capped at 500 ms; the
   up-to-10 % jitter is ignored). Offsets of the polls from the close instant: 0, 1, 3, 7, ..., 511 ms, then every 500 ms.
   [sd_poll_after x] = offset of the first poll at or after offset x. *)
Definition sd_ms : Z := 1000000.
Definition sd_poll_early : list Z :=
  map (fun k => k * sd_ms) [0; 1; 3; 7; 15; 31; 63; 127; 255; 511].
Definition sd_poll_after (x : Z) : Z :=
  match find (fun p => x <=? p) sd_poll_early with
  | Some p => p
  | None => 511 * sd_ms + 500 * sd_ms * ((x - 511 * sd_ms + (500 * sd_ms - 1)) / (500 * sd_ms))
  end.

(* the instant Shutdown notices that everything is idle *)
Definition sd_noticed (W : Z) (l : list sd_req) : Z := sd_close W + sd_poll_after (sd_last W l - sd_close W).

(* Shutdown returns nil at the first poll that finds the server idle, unless the context deadline fires first
   (log.Fatalf in the watcher goroutine, exit status 1) *)
Definition sd_graceful (W G : Z) (l : list sd_req) : bool :=
  sd_all_complete W G l && (sd_noticed W l <? sd_deadline W G).
Definition sd_exit_time (W G : Z) (l : list sd_req) : Z :=
  if sd_graceful W G l then sd_noticed W l else sd_deadline W G.
Definition sd_exit_code (W G : Z) (l : list sd_req) : Z := if sd_graceful W G l then 0 else 1.

(** * Further signals while the shutdown sequence is under way
    pkg/server/server.go:Start registers SIGHUP (1), SIGINT (2), SIGTERM (15) and SIGQUIT (3) with signal.Notify on a channel
    of capacity 1 and never un-registers them; its goroutine receives exactly ONE value from the channel (the signal at
    instant 0 of this timeline). What the Go runtime does with a signal that arrives while the process lives:
      registered      -> non-blocking send into the channel: buffered when the buffer is free, dropped otherwise. Nobody
                         reads the channel a second time, so the sequence under way is not affected;
      not registered  -> the default disposition; for the signals considered here (SIGKILL, ...) the process is terminated
                         by the signal at once (wait status "killed by signal k", reported as exit code -k).
    [extra] = the signals after the first, in order of delivery, instants relative to the first. *)
Definition sd_registered : list Z := [1; 2; 15; 3].
Definition sd_handled (k : Z) : bool := existsb (Z.eqb k) sd_registered.

Record sd_sig := mk_sd_sig { sd_sig_at : Z; sd_sig_kind : Z }.
Definition sd_all_handled (extra : list sd_sig) : bool := forallb (fun s => sd_handled (sd_sig_kind s)) extra.

Inductive sd_life :=
| SdAlive (buffered : option Z)      (* the channel's buffer *)
| SdKilled (at_ kind : Z).

Definition sd_deliver (st : sd_life) (s : sd_sig) : sd_life :=
  match st with
  | SdKilled _ _ => st
  | SdAlive buf =>
    if sd_handled (sd_sig_kind s)
    then SdAlive (match buf with None => Some (sd_sig_kind s) | Some _ => buf end)
    else SdKilled (sd_sig_at s) (sd_sig_kind s)
  end.

Definition sd_life_after (extra : list sd_sig) : sd_life := fold_left sd_deliver extra (SdAlive None).

(* a kill only matters while the process is still there *)
Definition sd_killed_at (W G : Z) (l : list sd_req) (extra : list sd_sig) : option (Z * Z) :=
  match sd_life_after extra with
  | SdKilled t k => if t <? sd_exit_time W G l then Some (t, k) else None
  | SdAlive _ => None
  end.

Definition sd_exit_time_x (W G : Z) (l : list sd_req) (extra : list sd_sig) : Z :=
  match sd_killed_at W G l extra with Some (t, _) => t | None => sd_exit_time W G l end.
Definition sd_exit_code_x (W G : Z) (l : list sd_req) (extra : list sd_sig) : Z :=
  match sd_killed_at W G l extra with Some (_, k) => - k | None => sd_exit_code W G l end.
Definition sd_accepted_x (W G : Z) (l : list sd_req) (extra : list sd_sig) (q : sd_req) : bool :=
  sd_accepted W q && match sd_killed_at W G l extra with Some (t, _) => sd_arrival q <? t | None => true end.
Definition sd_completes_x (W G : Z) (l : list sd_req) (extra : list sd_sig) (q : sd_req) : bool :=
  sd_completes W G q && match sd_killed_at W G l extra with Some (t, _) => sd_finish q <=? t | None => true end.

(* everything the driver observes *)
Definition sd_outcome (W G : Z) (l : list sd_req) (extra : list sd_sig) : Z * Z * list bool * list bool :=
  (sd_exit_time_x W G l extra, sd_exit_code_x W G l extra,
   map (sd_accepted_x W G l extra) l, map (sd_completes_x W G l extra) l).

(** * Robustness of a scenario against timing noise (used by the real-time driver and its comparison only)
    The driver plans instants relative to the signal; the process's own instants (listener close, Shutdown's polls, deadline)
    are relative to its reception of the signal, and each poll interval of http.Server.Shutdown is lengthened at random by up
    to 10 %: the poll with nominal offset p from the close instant falls in the window [p, p + p/10]. A scenario is ROBUST when
    no observable (accepted, completed, exit status) depends on the order of two instants that are closer than
      150 ms  a planned instant (arrival, completion) against the close instant / a poll window / the deadline,
       90 ms  the same for a completion that the driver synchronises to the process's own close instant (read from its log),
      250 ms  the deadline against the next possible poll (both inside the process; under load both timers can have expired
              when the goroutine runs, and then either may win).
    [sd_robust] = false: the comparison accepts either outcome (none such may occur in the quick tier). *)
Definition sd_m_plan : Z := 150 * sd_ms.
Definition sd_m_sync : Z := 90 * sd_ms.
Definition sd_m_deadline : Z := 250 * sd_ms.
Definition sd_margin (synced : bool) : Z := if synced then sd_m_sync else sd_m_plan.

(* nominal offsets of the polls that can matter for a Shutdown timeout T *)
Definition sd_poll_offsets (T : Z) : list Z :=
  sd_poll_early ++
  map (fun j => 511 * sd_ms + 500 * sd_ms * Z.of_nat j) (seq 1 (Z.to_nat (Z.min 200 (T / (500 * sd_ms) + 2)))).

Definition sd_robust (W G : Z) (l : list (sd_req * bool)) : bool :=
  let c := sd_close W in
  let T := sd_deadline W G in
  let acc := filter (fun p => sd_accepted W (fst p)) l in
  let wins := map (fun p => (c + p, c + p + p / 10)) (sd_poll_offsets (T - c)) in
  (* a request that is certainly still in flight at the deadline: status 1 whatever the polls *)
  let stuck := existsb (fun p => T <? sd_finish (fst p)) acc in
  (* some poll certainly falls after every completion and certainly before the deadline: status 0 *)
  let ok0 := existsb (fun w => forallb (fun p => sd_finish (fst p) + sd_margin (snd p) <=? fst w) acc
                               && (snd w + sd_m_plan <=? T)) wins in
  (* every poll certainly finds a request in flight or certainly comes after the deadline: drained, yet status 1 *)
  let ok1 := forallb (fun w => existsb (fun p => snd w + sd_margin (snd p) <=? sd_finish (fst p)) acc
                               || (T + sd_m_deadline <=? fst w)) wins in
  forallb (fun p => sd_m_plan <=? Z.abs (sd_arrival (fst p) - c)) l
  && forallb (fun p => sd_margin (snd p) <=? Z.abs (sd_finish (fst p) - T)) acc
  && ((T - c) / (500 * sd_ms) <? 198)
  && (stuck || ok0 || ok1).
