(** Entry points of the router / request-classification model for the correspondence check
    (`wwh router`). Flattened types only. *)
From Coq Require Import NArith List Bool.
From WW Require Import Base.Bytes Gen.Params Model.Router.
Import ListNotations.
Open Scope N_scope.

Definition nb (b : bool) : N := if b then 1 else 0.

Definition mode_of (n : N) : mode := if n =? 1 then SsoServer else if n =? 2 then SsoProxy else Standalone.

(* the configured ingresses as (scheme://host, URL.Path) pairs; the prefixes are what the model of ParseIngresses
   makes of them (Model/Router.v rt_ingress_paths) *)
Definition ings_of (l : list (bytes * bytes)) : list ringress :=
  map (fun x => {| ri_origin := fst x; ri_path := snd x |}) l.

Definition mk_rconfig (mode idporten : N) (ings : list (bytes * bytes)) : rconfig :=
  rconfig_of_ingresses (mode_of mode) (negb (idporten =? 0)) (ings_of ings).

(* Ingresses.Paths() for the configured ingresses (the driver sorts both sides) *)
Definition entry_ingress_paths (ings : list (bytes * bytes)) : list bytes := rt_ingress_paths (ings_of ings).

(* columns of `wwh router`: handler reached (rt_endpoint code, 0 = none), status (200 for the stub
   handlers), NoCache headers present, decoded path under an owned subtree *)
Definition entry_rt_route (mode idporten : N) (ings : list (bytes * bytes)) (method raw path hmode hdest : bytes)
           (accepts : list bytes) (acrm : bytes) : list N :=
  let c := mk_rconfig mode idporten ings in
  let h := {| h_mode := hmode; h_dest := hdest; h_accept := accepts; h_acrm := acrm |} in
  let owned := nb (under_ownedb (rc_prefixes c) path) in
  match respond c method raw path h with
  | RHandler e nc => [endpoint_code e; 200; nb nc; owned]
  | RStatus s nc => [0; s; nb nc; owned]
  end.

(* request.go predicates on their own: IsNavigationRequest, HasSecFetchMetadata, Accepts(text/html) *)
Definition entry_reqclass (method hmode hdest : bytes) (accepts : list bytes) : list N :=
  let h := {| h_mode := hmode; h_dest := hdest; h_accept := accepts; h_acrm := [] |} in
  [nb (is_navigation method h); nb (has_sec_fetch h); nb (accepts_html accepts)].

(* percent-decoding of a request path: [1; decoded] or [0] *)
Definition entry_pct_decode (s : bytes) : option bytes := pct_decode s.

(* URL.setPath: (Path, RawPath) for the path part of a request target *)
Definition entry_set_path (s : bytes) : option (bytes * bytes) := set_path s.

(* like entry_rt_route, but Path / RawPath are computed by the model from the request target's path *)
Definition entry_route_target (mode idporten : N) (ings : list (bytes * bytes)) (method p hmode hdest : bytes)
           (accepts : list bytes) (acrm : bytes) : list N :=
  match set_path p with
  | Some (path, raw) => entry_rt_route mode idporten ings method raw path hmode hdest accepts acrm
  | None => []
  end.

(** The route table in the shape chi.Walk reports it: (method code, full pattern, number of
    middlewares Walk sees).  [base] = length of the top-level r.Use stack. *)
Definition walk_rows {D} (pre : bytes) (nm : D -> N) (rs : list (route D)) : list (N * bytes * N) :=
  flat_map (fun r => map (fun m => (meth_code m, pre ++ r_pat r ++ (if r_catch r then [42] else []), nm (r_dest r))) (r_meths r)) rs.

Definition entry_route_table (mode idporten : N) (ings : list (bytes * bytes)) (base : N) : list (N * bytes * N) :=
  let c := mk_rconfig mode idporten ings in
  (* top level: GET / (inside the group: +2), catch-all Wildcard (+0); chi.Walk does not report the
     mount stubs (p, p/) and replaces the mount's catch-all row by the rows of the sub-router *)
  walk_rows [] (fun d => match d with TWild => base | _ => base + 2 end)
            (filter (fun r => match r_dest r with TOauth => false | _ => true end) (top_routes c))
  ++ flat_map (fun p =>
       let o := p ++ path_oauth2 in
       walk_rows o (fun d => match d with OEndp _ mws => base + N.of_nat (length mws) | OSession => base end)
                 (filter (fun r => match r_dest r with OSession => false | _ => true end) (oauth_routes c))
       ++ walk_rows (o ++ path_session) (fun _ => base + N.of_nat (length (session_mws c))) (session_routes c))
     (rc_prefixes c).
