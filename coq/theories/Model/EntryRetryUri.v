(** Entry points of the retry-URI model for the correspondence driver (ml/handlers/h_retryuri.ml,
    harness/cmd/wwh/retry.go [retryloc]). Flattened arguments; the result is a list of byte strings. *)
From Coq Require Import NArith List Bool.
From WW Require Import Base.Bytes Model.GoUrl Model.Redirect Model.RetryUri.
From WW Require Model.HtmlEsc.
Import ListNotations.
Open Scope N_scope.

Definition ru_entry_mode (sso : bool) (domain fallback : bytes) : option ru_mode :=
  if sso then
    match parse_request_uri fallback with
    | Some f => Some (RuSsoServer domain f)
    | None => None
    end
  else Some RuStandalone.

(* [sso], [domain], [fallback]: SSO-server mode, sso.domain, sso.server-default-redirect-url; [paths]: the configured
   ingress paths; [target]: the request-target of the request line; [has_cookie], [referer]: whether a login cookie
   decrypts, and its Referer field.
   Fields: Retry(r, loginCookie); the Location header http.Redirect writes for it; the text html/template writes
   between the quotes of href="{{.RetryURI}}". "E" when net/http rejects the request line. *)
Definition ru_entry_retry (sso : bool) (domain fallback : bytes) (paths : list bytes) (target : bytes)
           (has_cookie : bool) (referer : bytes) : list bytes :=
  match ru_entry_mode sso domain fallback, ru_request_url target with
  | Some m, Some u =>
    let r := ru_retry m paths u (if has_cookie then Some referer else None) in
    [r; http_redirect_location (u_path u) r; HtmlEsc.render_href r]
  | _, _ => [[69]]
  end.
