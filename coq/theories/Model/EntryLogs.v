From Coq Require Import NArith List Bool.
From WW Require Import Base.Bytes Model.Logs.
Import ListNotations.

(* bit i of the code: secret i supplied (0 key, 1 jwk, 2 client secret, 3 redis password, 4 password inside redis.uri) *)
Definition bconfig_of (bits : list bool) : bconfig :=
  flat_map (fun p : bool * bsecret => if fst p then [snd p] else [])
           (combine bits [BEncryptionKey; BClientJwk; BClientSecret; BRedisPassword; BRedisUriPassword]).

Definition bsecret_code (s : bsecret) : N :=
  match s with BEncryptionKey => 0 | BClientJwk => 1 | BClientSecret => 2 | BRedisPassword => 3 | BRedisUriPassword => 4 end%N.

Definition entry_banner (uri_masked : bool) (bits : list bool) : list N :=
  map bsecret_code (banner_leaks uri_masked (bconfig_of bits)).

(* the redis.uri field of the banner for a configured value *)
Definition entry_banner_uri (uri_masked : bool) (uri : bytes) : bytes := banner_uri_field uri_masked uri.
