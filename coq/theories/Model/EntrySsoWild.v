(** Entry point of Model/SsoWild.v for the correspondence check (`wwh ssowild`). Flattened types only. *)
From Coq Require Import NArith List Bool.
From WW Require Import Base.Bytes Gen.Params Model.Router Model.EntryRouter Model.SsoWild.
Import ListNotations.
Open Scope N_scope.

(* columns of `wwh ssowild`: kind (0 = redirect, 1 = reached the upstream, 2 = status only, 3 = own endpoint), status,
   Location, number of requests the upstream saw *)
Definition entry_sso_wild (mode : N) (ings : list (bytes * bytes)) (default_url method raw path hmode hdest : bytes)
           (accepts : list bytes) : N * N * bytes * N :=
  let c := mk_rconfig mode 0 ings in
  let h := {| h_mode := hmode; h_dest := hdest; h_accept := accepts; h_acrm := [] |} in
  match sw_respond c default_url method raw path h with
  | SwRedirect s loc => (0, s, loc, 0)
  | SwUpstream => (1, 200, [], 1)
  | SwStatus s => (2, s, [], 0)
  | SwOwned => (3, 0, [], 0)
  end.
