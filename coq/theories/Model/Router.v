(** Model of wonderwall's routing table (pkg/router/router.go:New) on top of go-chi v5.2.1,
    of the request classification of internal/http/request.go and of the middlewares that
    matter for C15 (chi middleware.NoCache, DisallowNonNavigationalRequests, rs/cors preflight).

    chi (mux.go / tree.go), restricted to what router.go uses - static patterns and a trailing
    catch-all [*]; no [{param}] segments:
    - routeHTTP: routing key = rctx.RoutePath, else r.URL.RawPath if non-empty, else r.URL.Path,
      else "/"; a method that is not one of chi's nine methods is answered 405 BEFORE routing;
    - tree.findRoute: descend the static radix edges as far as the key allows; a node whose
      pattern equals the whole key and that has a handler for the method wins; otherwise the
      deepest catch-all on the way is taken (its value is the rest of the key); if a node with
      the exact pattern existed but lacked the method, methodNotAllowed is flagged (-> 405,
      else 404).  The radix structure is abstracted to a flat table of (pattern, catch-all?,
      methods, destination): "exact match first, else the longest catch-all prefix".
    - Route(p, fn) = Mount: patterns p, p/ (all methods) and p/ + catch-all; the sub-router
      continues on "/" ++ the catch-all value (Mux.nextRoutePath).
    - Group / With: inline middlewares wrap the rt_endpoint handlers registered in the group
      (so they do not run for 404 / 405 of the enclosing mux); Use on a sub-router runs
      before that sub-router routes. *)
From Coq Require Import String.
From Coq Require Import NArith List Bool.
From WW Require Import Base.Bytes Base.BytesLit Gen.Params.
Import ListNotations.
Open Scope N_scope.

(** * Methods (chi tree.go methodMap) *)
Inductive meth := MConnect | MDelete | MGet | MHead | MOptions | MPatch | MPost | MPut | MTrace.

Definition meth_code (m : meth) : N :=
  match m with MConnect => 1 | MDelete => 2 | MGet => 3 | MHead => 4 | MOptions => 5
             | MPatch => 6 | MPost => 7 | MPut => 8 | MTrace => 9 end.
Definition meth_eqb (a b : meth) : bool := N.eqb (meth_code a) (meth_code b).

Definition s_connect := Eval vm_compute in bs "CONNECT"%string.
Definition s_delete := Eval vm_compute in bs "DELETE"%string.
Definition s_get := Eval vm_compute in bs "GET"%string.
Definition s_head := Eval vm_compute in bs "HEAD"%string.
Definition s_options := Eval vm_compute in bs "OPTIONS"%string.
Definition s_patch := Eval vm_compute in bs "PATCH"%string.
Definition s_post := Eval vm_compute in bs "POST"%string.
Definition s_put := Eval vm_compute in bs "PUT"%string.
Definition s_trace := Eval vm_compute in bs "TRACE"%string.

(* methodMap lookup: exact, case-sensitive *)
Definition meth_of (s : bytes) : option meth :=
  if beq s s_get then Some MGet else if beq s s_head then Some MHead
  else if beq s s_post then Some MPost else if beq s s_put then Some MPut
  else if beq s s_delete then Some MDelete else if beq s s_options then Some MOptions
  else if beq s s_patch then Some MPatch else if beq s s_trace then Some MTrace
  else if beq s s_connect then Some MConnect else None.

Definition all_meths : list meth := [MConnect; MDelete; MGet; MHead; MOptions; MPatch; MPost; MPut; MTrace].

Definition meth_in (m : meth) (l : list meth) : bool := existsb (meth_eqb m) l.

(** * chi's matcher over a flat table *)
Record route (D : Type) := mk_route { r_pat : bytes; r_catch : bool; r_meths : list meth; r_dest : D }.
Arguments mk_route {D}. Arguments r_pat {D}. Arguments r_catch {D}. Arguments r_meths {D}. Arguments r_dest {D}.

Inductive found (D : Type) := Found (d : D) (wild : bytes) | NotFound.
Arguments Found {D}. Arguments NotFound {D}.

Section Find.
  Context {D : Type}.

  (* a node whose pattern is the whole key, with a handler for the method *)
  Fixpoint find_exact (rs : list (route D)) (m : meth) (key : bytes) : option D :=
    match rs with
    | [] => None
    | r :: rs' =>
      if negb (r_catch r) && beq (r_pat r) key && meth_in m (r_meths r) then Some (r_dest r)
      else find_exact rs' m key
    end.

  (* a node whose pattern is the whole key exists (with whatever methods) *)
  Fixpoint exact_exists (rs : list (route D)) (key : bytes) : bool :=
    match rs with
    | [] => false
    | r :: rs' => (negb (r_catch r) && beq (r_pat r) key) || exact_exists rs' key
    end.

  (* the deepest catch-all on the way: longest catch-all pattern that is a prefix of the key *)
  Fixpoint find_catch (rs : list (route D)) (m : meth) (key : bytes) : option (route D) :=
    match rs with
    | [] => None
    | r :: rs' =>
      let rest := find_catch rs' m key in
      if r_catch r && has_prefix key (r_pat r) && meth_in m (r_meths r) then
        match rest with
        | Some r' => if Nat.leb (length (r_pat r')) (length (r_pat r)) then Some r else Some r'
        | None => Some r
        end
      else rest
    end.

  (* result and chi's rctx.methodNotAllowed flag *)
  Definition find_route (rs : list (route D)) (m : meth) (key : bytes) : found D * bool :=
    match find_exact rs m key with
    | Some d => (Found d [], false)
    | None =>
      let fl := exact_exists rs key in
      match find_catch rs m key with
      | Some r => (Found (r_dest r) (skipn (length (r_pat r)) key), fl)
      | None => (NotFound, fl)
      end
    end.
End Find.

(** * The route table of pkg/router/router.go:New *)
Inductive mode := Standalone | SsoServer | SsoProxy.

Record rconfig := { rc_mode : mode; rc_idporten : bool; rc_prefixes : list bytes }.

Definition is_server (c : rconfig) : bool := match rc_mode c with SsoServer => true | _ => false end.

Inductive rt_endpoint :=
| EpLogin | EpLoginCallback | EpLogout | EpLogoutCallback | EpLogoutFrontChannel | EpLogoutLocal
| EpPing | EpSession | EpSessionRefresh | EpSessionForwardAuth
| EpNoop       (* noopHandler registered for OPTIONS in SSO-server mode *)
| EpRoot       (* SSO server: GET / -> 302 /oauth2/login *)
| EpWildcard.  (* src.Wildcard: the reverse proxy to the upstream application *)

Definition endpoint_code (e : rt_endpoint) : N :=
  match e with
  | EpLogin => 1 | EpLoginCallback => 2 | EpLogout => 3 | EpLogoutCallback => 4 | EpLogoutFrontChannel => 5
  | EpLogoutLocal => 6 | EpPing => 7 | EpSession => 8 | EpSessionRefresh => 9 | EpSessionForwardAuth => 10
  | EpNoop => 11 | EpRoot => 12 | EpWildcard => 13
  end.

(* middlewares attached below the (Prometheus, NoCache) group *)
Inductive mw := MwCors | MwNonNav.

Definition slash : bytes := [47].

Inductive top_dest := TOauth | TRoot | TWild.

Definition mount {D} (p : bytes) (d : D) : list (route D) :=
  [ mk_route p false all_meths d; mk_route (p ++ slash) false all_meths d; mk_route (p ++ slash) true all_meths d ].

Definition top_routes (c : rconfig) : list (route top_dest) :=
  flat_map (fun p => mount (p ++ path_oauth2) TOauth) (rc_prefixes c)
  ++ (if is_server c then [mk_route slash false [MGet] TRoot] else [])
  ++ [mk_route slash true all_meths TWild].

Inductive oauth_dest := OEndp (e : rt_endpoint) (mws : list mw) | OSession.

Definition interactive_mws (c : rconfig) : list mw := if is_server c then [MwCors; MwNonNav] else [MwNonNav].

Definition oauth_routes (c : rconfig) : list (route oauth_dest) :=
  let im := interactive_mws c in
  (if is_server c then [ mk_route path_login false [MOptions] (OEndp EpNoop im);
                         mk_route path_logout false [MOptions] (OEndp EpNoop im) ] else [])
  ++ [ mk_route path_login false [MGet] (OEndp EpLogin im);
       mk_route path_logout false [MGet] (OEndp EpLogout im);
       mk_route path_login false [MHead] (OEndp EpLogin im);
       mk_route path_logout false [MHead] (OEndp EpLogout im);
       mk_route path_callback false [MGet] (OEndp EpLoginCallback im);
       mk_route path_logout_callback false [MGet] (OEndp EpLogoutCallback im);
       mk_route path_logout_frontchannel false [MGet] (OEndp EpLogoutFrontChannel []) ]
  ++ (if rc_idporten c then [] else
       [ mk_route path_logout_local false [MGet] (OEndp EpLogoutLocal []);
         mk_route path_logout_local false [MHead] (OEndp EpLogoutLocal []) ])
  ++ [ mk_route path_ping false [MGet] (OEndp EpPing []) ]
  ++ mount path_session OSession.

Definition session_routes (c : rconfig) : list (route rt_endpoint) :=
  (if is_server c then [ mk_route slash false [MOptions] EpNoop;
                         mk_route path_refresh false [MOptions] EpNoop ] else [])
  ++ [ mk_route slash false [MGet] EpSession;
       mk_route path_refresh false [MGet] EpSessionRefresh;
       mk_route path_refresh false [MPost] EpSessionRefresh;
       mk_route path_forwardauth false [MGet] EpSessionForwardAuth ].

(* the session sub-router's own stack (r.Use): cors in SSO-server mode *)
Definition session_mws (c : rconfig) : list mw := if is_server c then [MwCors] else [].

(** * Routing a request *)
Inductive rt_outcome :=
| OutTop405                                    (* unknown method: chi's own 405, outside every group *)
| OutTop404                                    (* nothing matched at the top level *)
| OutWildcard                                  (* src.Wildcard *)
| OutRoot                                      (* SSO server GET / (inside the NoCache group) *)
| OutOwned (pre : list mw) (r : option (rt_endpoint * list mw)) (not_allowed : bool).
  (* inside the mount at <prefix>/oauth2, hence inside the NoCache group: [pre] = middlewares that
     run before the innermost mux routes; [r] = rt_endpoint with its inline middlewares, or None
     for that mux's 404 (405 when [not_allowed]) *)

(* mux.go routeHTTP *)
Definition routing_key (raw path : bytes) : bytes :=
  let k := match raw with [] => path | _ => raw end in
  match k with [] => slash | _ => k end.

Definition route_req (c : rconfig) (method raw path : bytes) : rt_outcome :=
  match meth_of method with
  | None => OutTop405
  | Some m =>
    match find_route (top_routes c) m (routing_key raw path) with
    | (NotFound, fl) => if fl then OutTop405 else OutTop404
    | (Found TWild _, _) => OutWildcard
    | (Found TRoot _, _) => OutRoot
    | (Found TOauth w, fl0) =>
      match find_route (oauth_routes c) m (slash ++ w) with
      | (NotFound, fl1) => OutOwned [] None (fl0 || fl1)
      | (Found (OEndp e mws) _, _) => OutOwned [] (Some (e, mws)) false
      | (Found OSession w2, fl1) =>
        match find_route (session_routes c) m (slash ++ w2) with
        | (NotFound, fl2) => OutOwned (session_mws c) None (fl0 || fl1 || fl2)
        | (Found e _, _) => OutOwned (session_mws c) (Some (e, [])) false
        end
      end
    end
  end.

(** * internal/http/request.go *)
Record hdrs := { h_mode : bytes;            (* Header.Get("Sec-Fetch-Mode") *)
                 h_dest : bytes;            (* Header.Get("Sec-Fetch-Dest") *)
                 h_accept : list bytes;     (* Header.Values("Accept") *)
                 h_acrm : bytes }.          (* Header.Get("Access-Control-Request-Method") *)

Definition s_navigate := Eval vm_compute in bs "navigate"%string.
Definition s_document := Eval vm_compute in bs "document"%string.
Definition s_text_html := Eval vm_compute in bs "text/html"%string.

(* unicode.IsSpace, as UTF-8 encodings: \t \n \v \f \r space, U+0085, U+00A0, U+1680,
   U+2000..U+200A, U+2028, U+2029, U+202F, U+205F, U+3000 *)
Definition space_seqs : list bytes :=
  [ [9]; [10]; [11]; [12]; [13]; [32]; [194; 133]; [194; 160]; [225; 154; 128];
    [226; 128; 128]; [226; 128; 129]; [226; 128; 130]; [226; 128; 131]; [226; 128; 132]; [226; 128; 133];
    [226; 128; 134]; [226; 128; 135]; [226; 128; 136]; [226; 128; 137]; [226; 128; 138];
    [226; 128; 168]; [226; 128; 169]; [226; 128; 175]; [226; 129; 159]; [227; 128; 128] ].

Fixpoint trim_left_fuel (n : nat) (s : bytes) : bytes :=
  match n with
  | O => s
  | S n' => match find (fun q => has_prefix s q) space_seqs with
            | Some q => trim_left_fuel n' (skipn (length q) s)
            | None => s
            end
  end.

Fixpoint trim_right_fuel (n : nat) (s : bytes) : bytes :=
  match n with
  | O => s
  | S n' => match find (fun q => has_suffix s q) space_seqs with
            | Some q => trim_right_fuel n' (firstn (length s - length q) s)
            | None => s
            end
  end.

(* strings.TrimSpace *)
Definition trim_space (s : bytes) : bytes :=
  let l := trim_left_fuel (length s) s in trim_right_fuel (length l) l.

(* strings.Split(v, ";")[0] *)
Definition first_field (sep : N) (s : bytes) : bytes :=
  match split_on sep s with x :: _ => x | [] => [] end.

(* Accepts(r, "text/html").  strings.ToLower is modelled on ASCII; a non-ASCII rune never
   lower-cases to a byte of "text/html", so the comparison result is the same. *)
Definition accepts_html (vals : list bytes) : bool :=
  existsb (fun hv =>
    existsb (fun v => beq (first_field 59 (trim_space (to_lower v))) s_text_html) (split_on 44 hv)) vals.

Definition nonempty (s : bytes) : bool := match s with [] => false | _ => true end.

Definition has_sec_fetch (h : hdrs) : bool := nonempty (h_mode h) && nonempty (h_dest h).

Definition is_navigation (method : bytes) (h : hdrs) : bool :=
  if negb (beq method s_get) then false
  else if negb (nonempty (h_mode h)) && negb (nonempty (h_dest h)) then accepts_html (h_accept h)
  else beq (h_mode h) s_navigate && beq (h_dest h) s_document.

(** * Responses *)
Inductive rt_response :=
| RHandler (e : rt_endpoint) (nocache : bool)     (* a handler of router.Source / of router.go runs; NoCache headers set? *)
| RStatus (status : N) (nocache : bool).       (* answered by chi or a middleware *)

(* rs/cors Handler: OPTIONS with Access-Control-Request-Method is a preflight, answered 204 without
   calling next; DisallowNonNavigationalRequests: 401 *)
Fixpoint run_mws (method : bytes) (h : hdrs) (mws : list mw) (k : rt_response) : rt_response :=
  match mws with
  | [] => k
  | MwCors :: r => if beq method s_options && nonempty (h_acrm h) then RStatus 204 true else run_mws method h r k
  | MwNonNav :: r => if has_sec_fetch h && negb (is_navigation method h) then RStatus 401 true else run_mws method h r k
  end.

Definition respond (c : rconfig) (method raw path : bytes) (h : hdrs) : rt_response :=
  match route_req c method raw path with
  | OutTop405 => RStatus 405 false
  | OutTop404 => RStatus 404 false
  | OutWildcard => RHandler EpWildcard false
  | OutRoot => RHandler EpRoot true
  | OutOwned pre r na =>
    run_mws method h pre
      match r with
      | Some (e, mws) => run_mws method h mws (RHandler e true)
      | None => RStatus (if na then 405 else 404) true
      end
  end.

(** * The property's vocabulary *)
(* the (decoded) path lies in <prefix>/oauth2 or below *)
Definition under_owned (prefixes : list bytes) (path : bytes) : Prop :=
  exists p rest, In p prefixes /\ path = p ++ path_oauth2 ++ rest /\ (rest = [] \/ exists r, rest = 47 :: r).

Definition under_ownedb (prefixes : list bytes) (path : bytes) : bool :=
  existsb (fun p => let q := p ++ path_oauth2 in beq path q || has_prefix path (q ++ slash)) prefixes.

Definition interactive (e : rt_endpoint) : bool :=
  match e with EpLogin | EpLoginCallback | EpLogout | EpLogoutCallback => true | _ => false end.

(** * Percent-decoding of the request target's path (net/url unescape, mode encodePath), used to
    state how the raw and the decoded path of a request relate. *)
Definition hex_val (c : N) : option N :=
  if (48 <=? c) && (c <=? 57) then Some (c - 48)
  else if (97 <=? c) && (c <=? 102) then Some (c - 87)
  else if (65 <=? c) && (c <=? 70) then Some (c - 55)
  else None.

Fixpoint pct_decode_fuel (n : nat) (s : bytes) : option bytes :=
  match n with
  | O => match s with [] => Some [] | _ => None end
  | S n' =>
    match s with
    | [] => Some []
    | c :: r =>
      if c =? 37 then
        match r with
        | a :: b :: r' =>
          match hex_val a, hex_val b with
          | Some x, Some y => option_map (cons (16 * x + y)) (pct_decode_fuel n' r')
          | _, _ => None
          end
        | _ => None
        end
      else option_map (cons c) (pct_decode_fuel n' r)
    end
  end.

Definition pct_decode (s : bytes) : option bytes := pct_decode_fuel (length s) s.

(** * net/url (Go 1.24.2) URL.setPath: how the request target's path p becomes URL.Path / URL.RawPath.
    path = unescape(p, encodePath); RawPath = "" iff p == escape(path, encodePath), else p.
    shouldEscape(c, encodePath): unreserved (alnum - _ . ~) and $ & + , / : ; = @ stay, everything else
    (including ? and %) is written %XX with upper-case hex digits. *)
Definition path_unescaped_ok (c : N) : bool :=
  ((97 <=? c) && (c <=? 122)) || ((65 <=? c) && (c <=? 90)) || ((48 <=? c) && (c <=? 57)) ||
  (c =? 45) || (c =? 95) || (c =? 46) || (c =? 126) ||
  (c =? 36) || (c =? 38) || (c =? 43) || (c =? 44) || (c =? 47) || (c =? 58) || (c =? 59) || (c =? 61) || (c =? 64).

Definition upper_hex (n : N) : N := if n <? 10 then 48 + n else 55 + n.

Definition escape_byte (c : N) : bytes :=
  if path_unescaped_ok c then [c] else [37; upper_hex (c / 16); upper_hex (c mod 16)].

Definition go_escape_path (s : bytes) : bytes := flat_map escape_byte s.

Definition set_path (p : bytes) : option (bytes * bytes) :=
  match pct_decode p with
  | None => None
  | Some path => Some (path, if beq (go_escape_path path) p then [] else p)
  end.

(* routing a request given the path part of its request target *)
Definition route_target (c : rconfig) (method p : bytes) : option rt_outcome :=
  match set_path p with
  | Some (path, raw) => Some (route_req c method raw path)
  | None => None
  end.

(** * pkg/ingress/ingress.go: ParseIngress / ParseIngresses, as far as the route table depends on them.
    An ingress is given by what net/url makes of the configured string: [ri_origin] = scheme "://" host exactly as
    written (url.URL.String() does not change the letter case of either) and [ri_path] = URL.Path.
    - ParseIngress: u.Path = strings.TrimRight(u.Path, "/");
    - ParseIngresses: seen[ingress.String()] - the first configured ingress with a given String() is kept; two ingresses
      have the same String() iff origin and path agree byte for byte (the path's escaping is a function of the path);
    - Ingresses.Paths() = mapIngresses(seen, Ingress.Path): the DISTINCT paths of the kept ingresses (a Go map is
      iterated, so the order is unspecified: the drivers compare sorted lists).
    router.New mounts <p>/oauth2 for every p of Paths(). *)
Record ringress := { ri_origin : bytes; ri_path : bytes }.

Fixpoint drop_leading_slashes (s : bytes) : bytes :=
  match s with
  | c :: r => if c =? 47 then drop_leading_slashes r else s
  | [] => []
  end.

(* strings.TrimRight(p, "/") *)
Definition trim_right_slashes (p : bytes) : bytes := rev (drop_leading_slashes (rev p)).

Definition rt_parse_ingress (i : ringress) : ringress :=
  {| ri_origin := ri_origin i; ri_path := trim_right_slashes (ri_path i) |}.

(* Ingress.String() of both is the same string *)
Definition ringress_eqb (a b : ringress) : bool := beq (ri_origin a) (ri_origin b) && beq (ri_path a) (ri_path b).

(* first occurrence wins (seen-map idiom of ParseIngresses and mapIngresses) *)
Fixpoint dedup_first {A : Type} (eqb : A -> A -> bool) (seen : list A) (l : list A) : list A :=
  match l with
  | [] => []
  | x :: r => if existsb (eqb x) seen then dedup_first eqb seen r else x :: dedup_first eqb (x :: seen) r
  end.

Definition rt_parse_ingresses (l : list ringress) : list ringress := dedup_first ringress_eqb [] (map rt_parse_ingress l).

Definition rt_ingress_paths (l : list ringress) : list bytes := dedup_first beq [] (map ri_path (rt_parse_ingresses l)).

(* the variant that compares the whole String() case-insensitively ("URLs compare case-insensitively on scheme and
   host"): kept only to show what it loses, see Proofs/IngressSetP.v *)
Definition ringress_eqb_fold (a b : ringress) : bool :=
  beq (to_lower (ri_origin a)) (to_lower (ri_origin b)) && beq (to_lower (ri_path a)) (to_lower (ri_path b)).
Definition ingress_paths_fold (l : list ringress) : list bytes :=
  dedup_first beq [] (map ri_path (dedup_first ringress_eqb_fold [] (map rt_parse_ingress l))).

(* the router configuration of a deployment: prefixes = Ingresses.Paths() *)
Definition rconfig_of_ingresses (md : mode) (idporten : bool) (l : list ringress) : rconfig :=
  {| rc_mode := md; rc_idporten := idporten; rc_prefixes := rt_ingress_paths l |}.
