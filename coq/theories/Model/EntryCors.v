(** Entry point of the CORS model for the correspondence check (`wwh cors`).
    Inputs: sso.domain, the ingress path prefix, the path chi routes on, the method and the values of the
    Origin / Access-Control-Request-Method / Access-Control-Request-Headers headers. *)
From Coq Require Import ZArith NArith Bool List.
From WW Require Import Base.Bytes Model.Cors.
Import ListNotations.

(* 0 absent, 1 present and equal to the request header's values, 2 present and different *)
Definition echo_code (got : option (list bytes)) (want : list bytes) : Z :=
  match got with
  | None | Some [] => 0
  | Some l => if list_beq l want then 1 else 2
  end%Z.

(* mirrors the output columns of `wwh cors` *)
Definition entry_cors (domain pfx rp : bytes) (method : bytes) (origin acrm acrh : list bytes) : list Z :=
  let r := {| cq_method := method; cq_origin := origin; cq_acrm := acrm; cq_acrh := acrh |} in
  let rs := server_cors_path domain pfx rp r in
  [ ((if rs_vary_origin rs then 1 else 0) + (if rs_vary_preflight rs then 2 else 0))%Z;
    (if rs_vary_preflight rs then match rs_stopped rs with Some s => Z.of_N s | None => 0 end else 0)%Z;
    echo_code (rs_acao rs) origin;
    (if rs_acac rs then 1 else 0)%Z;
    echo_code (rs_acam rs) acrm;
    echo_code (rs_acah rs) acrh ].
