(** C18: what may reach a log line.
    (1) Every logging call site of /repo is listed in Gen/LogSites.v (regenerated from the Go AST on every run)
        with the class of each argument expression; the classes are assigned by the hand-kept table
        lib/log_classes.json, anything not in the table is [LUnknown].
    (2) The start-up banner prints a masked copy of the configuration (pkg/config/config.go:Initialize). *)
From Coq Require Import NArith List Bool.
Import ListNotations.

Inductive lclass :=
| LPublic            (* constants, configuration values that are not secrets, numbers, status texts *)
| LUserInput         (* values taken from the request or chosen by the provider for display (acr, locale, redirect targets) *)
| LError             (* error values: fmt.Errorf chains over public text, user input, identifiers, library errors *)
| LIdentifier        (* session id / correlation id - not among the property's secrets *)
| LMaskedConfig      (* the masked configuration copy of the banner, see [banner_leaks] *)
| LProviderMetadata  (* the provider's discovery document *)
| LFields            (* a log.Fields map assembled from classified values (its assignments are sites of their own) *)
| LAttributes        (* httpinternal.Attributes: cookie NAMES, referer without query, path without query, headers *)
| LSecret
| LUnknown.

Definition class_ok (c : lclass) : bool := match c with LSecret | LUnknown => false | _ => true end.

Record lsite := { ls_id : N; ls_args : list lclass }.

Definition site_ok (s : lsite) : bool := forallb class_ok (ls_args s).

(** * The banner *)
Inductive bsecret := BEncryptionKey | BClientJwk | BClientSecret | BRedisPassword | BRedisUriPassword.

Definition bsecret_eqb (a b : bsecret) : bool :=
  match a, b with
  | BEncryptionKey, BEncryptionKey | BClientJwk, BClientJwk | BClientSecret, BClientSecret
  | BRedisPassword, BRedisPassword | BRedisUriPassword, BRedisUriPassword => true
  | _, _ => false
  end.

(* which secrets the operator supplied (by flag, WONDERWALL_* variable or provider-specific variable: the
   supply channel does not matter after viper has merged them) *)
Definition bconfig := list bsecret.

(* fields replaced by **REDACTED** in the printed copy; [uri_masked]: the userinfo of redis.uri is masked too *)
Definition masked_fields (uri_masked : bool) : list bsecret :=
  [BEncryptionKey; BClientJwk; BClientSecret; BRedisPassword] ++ (if uri_masked then [BRedisUriPassword] else []).

Definition banner_leaks (uri_masked : bool) (c : bconfig) : list bsecret :=
  filter (fun s => negb (existsb (bsecret_eqb s) (masked_fields uri_masked))) c.
