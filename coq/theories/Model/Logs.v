(** C18: what may reach a log line.
    (1) Every logging call site of /repo is listed in Gen/LogSites.v (regenerated from the Go AST on every run)
        with the class of each argument expression; the classes are assigned by the hand-kept table
        lib/log_classes.json, anything not in the table is [LUnknown].
    (2) The start-up banner prints a masked copy of the configuration (pkg/config/config.go:Initialize); the
        redis.uri field of that copy is computed by [redact_uri_password] below. *)
From Coq Require Import NArith List Bool.
From WW Require Import Base.Bytes Model.GoUrl.
Import ListNotations.

Inductive lclass :=
| LPublic            (* constants, configuration values that are not secrets, numbers, status texts *)
| LUserInput         (* values taken from the request or chosen by the provider for display (acr, locale, redirect targets) *)
| LError             (* error values: fmt.Errorf chains over public text, user input, identifiers, library errors *)
| LIdentifier        (* session id / correlation id - not among the property's secrets *)
| LMaskedConfig      (* the masked configuration copy of the banner, see [banner_leaks] *)
| LProviderMetadata  (* the provider's discovery document *)
| LFields            (* a log.Fields map assembled from classified values (its assignments are sites of their own) *)
| LAttributes        (* httpinternal.Attributes: cookie NAMES, referer without query, path without query, headers *)
| LSecret
| LUnknown.

Definition class_ok (c : lclass) : bool := match c with LSecret | LUnknown => false | _ => true end.

Record lsite := { ls_id : N; ls_args : list lclass }.

Definition site_ok (s : lsite) : bool := forallb class_ok (ls_args s).

(** * The banner *)
Inductive bsecret := BEncryptionKey | BClientJwk | BClientSecret | BRedisPassword | BRedisUriPassword.

Definition bsecret_eqb (a b : bsecret) : bool :=
  match a, b with
  | BEncryptionKey, BEncryptionKey | BClientJwk, BClientJwk | BClientSecret, BClientSecret
  | BRedisPassword, BRedisPassword | BRedisUriPassword, BRedisUriPassword => true
  | _, _ => false
  end.

(* which secrets the operator supplied (by flag, WONDERWALL_* variable or provider-specific variable: the
   supply channel does not matter after viper has merged them) *)
Definition bconfig := list bsecret.

(* fields replaced by **REDACTED** in the printed copy; [uri_masked]: the userinfo of redis.uri is masked too *)
Definition masked_fields (uri_masked : bool) : list bsecret :=
  [BEncryptionKey; BClientJwk; BClientSecret; BRedisPassword] ++ (if uri_masked then [BRedisUriPassword] else []).

Definition banner_leaks (uri_masked : bool) (c : bconfig) : list bsecret :=
  filter (fun s => negb (existsb (bsecret_eqb s) (masked_fields uri_masked))) c.

(** * The redis.uri field of the banner
    pkg/config/config.go:redactURIPassword, transliterated over Model/GoUrl.v (net/url of the pinned toolchain):
    parse the configured value, replace the password in the PARSED URL, re-serialise. A non-empty value that
    url.Parse rejects is replaced entirely. *)
Definition redacted_text : bytes := [42;42;82;69;68;65;67;84;69;68;42;42].   (* "**REDACTED**" *)

Definition url_with_user (u : url) (ui : option (bytes * option bytes)) : url :=
  mkurl (u_scheme u) (u_opaque u) ui (u_host u) (u_path u) (u_rawpath u) (u_omithost u) (u_forcequery u)
        (u_rawquery u) (u_fragment u) (u_rawfragment u).

(* if _, hasPassword := u.User.Password(); hasPassword { u.User = url.UserPassword(u.User.Username(), replacement) } *)
Definition url_set_password (u : url) (replacement : bytes) : url :=
  match u_user u with
  | Some (un, Some _) => url_with_user u (Some (un, Some replacement))
  | _ => u
  end.

Definition redact_uri_password (uri replacement : bytes) : bytes :=
  if is_empty uri then uri
  else match parse_url uri with
       | None => replacement
       | Some u => url_string (url_set_password u replacement)
       end.

(* what the banner prints for redis.uri; [uri_masked = false]: the pre-fix banner printed the value verbatim *)
Definition banner_uri_field (uri_masked : bool) (uri : bytes) : bytes :=
  if uri_masked then redact_uri_password uri redacted_text else uri.

(* the parsed URL with the VALUE of the password forgotten (whether there is one is kept) *)
Definition url_erase_password (u : url) : url := url_set_password u [].

(* the password embedded in a URI, decoded (what the Redis client authenticates with) *)
Definition uri_password (uri : bytes) : option bytes :=
  match parse_url uri with
  | Some u => match u_user u with Some (_, Some p) => Some p | _ => None end
  | None => None
  end.
