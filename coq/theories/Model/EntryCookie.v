(** Entry points of the cookie / jar / retry models for the correspondence drivers
    (`wwh cookies`, `wwh retry`). Every entry returns the output line as a list of ASCII tokens;
    ml/handlers/h_cookie.ml only parses the input tokens and prints these joined by spaces. *)
From Coq Require Import NArith ZArith List Bool.
From WW Require Import Base.Bytes Gen.Params Model.CookieUrl Model.Cookie Model.Jar Model.Retry.
Import ListNotations.
Open Scope Z_scope.

Definition hexdigit (n : N) : N := if (n <? 10)%N then (48 + n)%N else (87 + n)%N.
Definition hex (b : bytes) : bytes :=
  match b with
  | [] => [45%N]                                    (* "-" *)
  | _ => flat_map (fun c => [hexdigit (c / 16); hexdigit (c mod 16)]) b
  end.
Definition tz (z : Z) : bytes := itoa z.
Definition tb (b : bool) : bytes := if b then [49%N] else [48%N].
Definition tc (c : N) : bytes := [c].

(* ------------------------------------------------------------------ url / validation *)

(* curl: ParseRequestURI (code scheme host path hostname) and ParseIngress (code path) *)
Definition entry_url (raw : bytes) : list bytes :=
  (match parse_request_uri raw with
   | UErr => [tc 69]
   | UOut => [tc 79]
   | UOk s h p => [tc 75; hex s; hex h; hex p; hex (hostname h)]
   end) ++
  (match parse_ingress raw with
   | IErr => [tc 69]
   | IOut => [tc 79]
   | IOk _ _ p => [tc 75; hex p]
   end).

Fixpoint insert_bytes (x : bytes) (l : list bytes) : list bytes :=
  match l with
  | [] => [x]
  | y :: r => if beq x y then l
              else if (fix lt (a b : bytes) : bool :=
                         match a, b with
                         | _, [] => false
                         | [], _ :: _ => true
                         | c :: a', d :: b' => if (c <? d)%N then true else if (d <? c)%N then false else lt a' b'
                         end) x y then x :: l else y :: insert_bytes x r
  end.
Definition sort_uniq (l : list bytes) : list bytes := fold_right insert_bytes [] l.

(* cval: Cookie.Validate and ParseIngresses (sorted distinct paths) *)
Definition entry_validate (c : kconfig) : list bytes :=
  [match validate_cookie c with VOk => tc 86 | VReject => tc 82 | VUnmodelled => tc 85 end] ++
  match parse_ingresses c with
  | None => [tc 69]
  | Some ps => tc 75 :: map hex (sort_uniq ps)
  end.

(* cnames: the cookie-name variables after main.go's configuration: Login LoginCount Logout Retry Session *)
Definition entry_cookie_names (c : kconfig) : list bytes :=
  let n := main_cnames c in map hex [nm_login n; nm_logincount n; nm_logout n; nm_retry n; nm_session n].

(* cmatch: Ingresses.MatchingPath *)
Definition entry_match (c : kconfig) (req : bytes) : list bytes :=
  match parse_ingresses c with
  | None => [tc 69]
  | Some ps => [hex (matching_path (cf_seg_prefix c) ps req)]
  end.

(* cret: respondError on an arbitrary retry-cookie value: value written, auto-retry? *)
Definition entry_retry (rc : option bytes) (status : Z) : list bytes :=
  [hex (itoa (next_retry_value rc)); tb (auto_retries rc status)].

(* ------------------------------------------------------------------ Set-Cookie records / jar probes *)

(* net/http Cookie.String drops one leading dot of a valid Domain *)
Definition wire_domain (d : bytes) : bytes := match d with 46%N :: r => r | _ => d end.

Definition tvalue (v : cvalue) : bytes := match v with VOpaque => tc 42 | VLit b => hex b end.
Definition tsamesite (s : samesite) : bytes := match s with SSLax => tc 76 | SSStrict => tc 83 | SSNone => tc 78 end.

Definition tcookie (c : setcookie) : list bytes :=
  [hex (c_name c); tvalue (c_value c); hex (wire_domain (c_domain c)); hex (c_path c); tsamesite (c_samesite c);
   tb (c_secure c); tb (c_httponly c); tz (c_maxage c); tb (c_expires_epoch c)].

Definition tprobe (trust : bool) (now : Z) (j : jar) (u : origin) : list bytes :=
  let l := jar_select trust now u j in
  tz (Z.of_nat (length l)) :: flat_map (fun e => [hex (j_name e); tvalue (j_value e)]) l.

Definition tprobes (trust : bool) (now : Z) (j : jar) (us : list origin) : list bytes :=
  tc 124 :: flat_map (tprobe trust now j) us.

(* ------------------------------------------------------------------ browser scripts *)

Inductive item :=
| IReq (dt : Z) (q : breq) (f : cfault)
| IFollow (via_idp : bool) (q : breq) (fs : list cfault).

Definition tresponse (rs : kresponse) : list bytes :=
  [tz (rs_status rs); tz (Z.of_nat (length (rs_cookies rs)))] ++ flat_map tcookie (rs_cookies rs).

Fixpoint run_script (e : site_env) (b : browser) (probes : list origin) (its : list item) : list bytes :=
  match its with
  | [] => []
  | IReq dt q f :: r =>
    let '(rs, b') := do_request e (sleep b dt) q f in
    tc 59 :: tresponse rs ++ tprobes (e_trust e) (b_now b') (b_jar b') probes ++ run_script e b' probes r
  | IFollow via q fs :: r =>
    let '(sts, b') := follow 50 e via b q fs in
    tc 59 :: tz (Z.of_nat (length sts)) :: map tz sts ++ tprobes (e_trust e) (b_now b') (b_jar b') probes
      ++ run_script e b' probes r
  end.

Definition entry_script (c : kconfig) (https : bool) (host hostport : bytes) (now0 : Z) (probes : list origin) (its : list item)
  : list bytes :=
  match parse_ingresses_full c with
  | None => [tc 69]
  | Some ings =>
    let e := {| e_cfg := c; e_ingresses := ings; e_hostport := hostport; e_https := https; e_host := host; e_trust := false |} in
    run_script e {| b_jar := []; b_now := now0; b_session := false |} probes its
  end.

(* scripts of an SSO deployment with a proxy: requests to the server (IReq, IFollow) and to the proxy (IProxyReq) *)
Inductive pitem :=
| PItem (it : item)
| IProxyReq (dt : Z) (q : breq) (f : cfault).

Fixpoint run_script_px (e pe : site_env) (b : browser) (probes : list origin) (its : list pitem) : list bytes :=
  match its with
  | [] => []
  | PItem (IReq dt q f) :: r =>
    let '(rs, b') := do_request e (sleep b dt) q f in
    tc 59 :: tresponse rs ++ tprobes (e_trust e) (b_now b') (b_jar b') probes ++ run_script_px e pe b' probes r
  | PItem (IFollow via q fs) :: r =>
    let '(sts, b') := follow 50 e via b q fs in
    tc 59 :: tz (Z.of_nat (length sts)) :: map tz sts ++ tprobes (e_trust e) (b_now b') (b_jar b') probes
      ++ run_script_px e pe b' probes r
  | IProxyReq dt q f :: r =>
    let '(rs, b') := do_request_proxy pe (sleep b dt) q f in
    tc 59 :: tresponse rs ++ tprobes (e_trust e) (b_now b') (b_jar b') probes ++ run_script_px e pe b' probes r
  end.

Definition entry_script_px (c : kconfig) (https : bool) (host hostport : bytes) (now0 : Z)
           (phttps : bool) (phost phostport : bytes) (pingresses : list bytes) (probes : list origin) (its : list pitem)
  : list bytes :=
  match parse_ingresses_full c, ingress_list pingresses with
  | Some ings, Some pings =>
    let e := {| e_cfg := c; e_ingresses := ings; e_hostport := hostport; e_https := https; e_host := host; e_trust := false |} in
    let pe := {| e_cfg := c; e_ingresses := pings; e_hostport := phostport; e_https := phttps; e_host := phost; e_trust := false |} in
    run_script_px e pe {| b_jar := []; b_now := now0; b_session := false |} probes its
  | _, _ => [tc 69]
  end.

Definition ck_pitem (it : item) : pitem := PItem it.
Definition ck_proxy_req (dt : Z) (q : breq) (f : cfault) : pitem := IProxyReq dt q f.

(* ------------------------------------------------------------------ the jar on its own *)

Inductive jop :=
| JSet (now : Z) (u : origin) (c : setcookie)
| JProbe (now : Z) (u : origin).

Fixpoint run_jar (j : jar) (ops : list jop) : list bytes :=
  match ops with
  | [] => []
  | JSet now u c :: r => run_jar (jar_set now u c j) r
  | JProbe now u :: r => let j' := jar_gc now j in tc 59 :: tprobe false now j' u ++ run_jar j' r
  end.
Definition entry_jar (ops : list jop) : list bytes := run_jar [] ops.

(* ------------------------------------------------------------------ abstract machines (cross-checked too) *)

Definition entry_counter (evs : list revent) : list bytes :=
  map (fun o => match o with ObsRedirect => tc 82 | ObsPage st => 80%N :: tz st | ObsOk => tc 75 end) (counter_run None evs).

Definition entry_rl (c : kconfig) (gaps : list Z) : list bytes := map tb (rl_run c None 0 gaps).

Definition ck_config (secure : bool) (samesite prefix : bytes) (ingresses : list bytes) (sso : bool)
           (domain name : bytes) (legacy rl : bool) (logins window : Z) (seg_prefix rl_ceil : bool) : kconfig :=
  {| cf_secure := secure; cf_samesite := samesite; cf_prefix := prefix; cf_ingresses := ingresses;
     cf_sso_server := sso; cf_sso_domain := domain; cf_sso_name := name; cf_legacy := legacy;
     cf_rl_enabled := rl; cf_rl_logins := logins; cf_rl_window := window;
     cf_seg_prefix := seg_prefix; cf_rl_ceil := rl_ceil |}.

Definition ck_fault (status : Z) (cause : fcause) : cfault := fault_of_cause status cause.
Definition ck_origin (https : bool) (host path : bytes) : origin := {| u_https := https; u_host := host; u_path := path |}.
Definition ck_breq (ep : kendpoint) (path : bytes) (prompt : bool) : breq := {| q_ep := ep; q_path := path; q_prompt := prompt |}.
Definition ck_setcookie (name : bytes) (v : cvalue) (domain path : bytes) (secure : bool) (maxage : Z) (epoch : bool) : setcookie :=
  {| c_name := name; c_value := v; c_domain := domain; c_path := path; c_samesite := SSLax; c_secure := secure;
     c_httponly := true; c_maxage := maxage; c_expires_epoch := epoch |}.
