(** Entry points of the html/template escaper model (`wwh htmlesc`). *)
From Coq Require Import NArith List.
From WW Require Import Base.Bytes Model.HtmlEsc.

Definition entry_render_text (s : bytes) : bytes := render_text s.
Definition entry_render_href (s : bytes) : bytes := render_href s.
Definition entry_url_filter (s : bytes) : bytes := url_filter s.
