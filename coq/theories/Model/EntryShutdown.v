(** Entry point of the shutdown timeline model for the correspondence driver (ml/handlers/h_shutdown.ml). *)
From Coq Require Import ZArith List Bool.
From WW Require Import Model.Shutdown.
Import ListNotations.
Open Scope Z_scope.

Definition sd_b2z (b : bool) : Z := if b then 1 else 0.

Fixpoint sd_zip (a d : list Z) : list sd_req :=
  match a, d with x :: a', y :: d' => mk_sd_req x y :: sd_zip a' d' | _, _ => [] end.

Fixpoint sd_zip_sig (t k : list Z) : list sd_sig :=
  match t, k with x :: t', y :: k' => mk_sd_sig x y :: sd_zip_sig t' k' | _, _ => [] end.

(* [sat] / [skind]: instants and kinds of ALL signals sent, the first (instant 0, a registered kind: it starts the sequence)
   included; empty lists = only the first signal. [sync]: 1 for a request whose completion the driver synchronises to the
   process's own close instant (absent = 0).
   [started] alone when start-up refuses the periods, else
   [started; close; deadline; exit_time; exit_code] ++ accepted flags ++ completes flags ++ [robust] *)
Fixpoint sd_zip_sync (l : list sd_req) (s : list Z) : list (sd_req * bool) :=
  match l with
  | [] => []
  | q :: l' => match s with
               | [] => (q, false) :: sd_zip_sync l' []
               | x :: s' => (q, negb (x =? 0)) :: sd_zip_sync l' s'
               end
  end.

Definition entry_shutdown (nonneg : bool) (W G : Z) (arr svc sat skind sync : list Z) : list Z :=
  let l := sd_zip arr svc in
  let extra := tl (sd_zip_sig sat skind) in
  if negb (sd_startable nonneg W G) then [0] else
  [1; sd_close W; sd_deadline W G; sd_exit_time_x W G l extra; sd_exit_code_x W G l extra]
  ++ map (fun q => sd_b2z (sd_accepted_x W G l extra q)) l ++ map (fun q => sd_b2z (sd_completes_x W G l extra q)) l
  ++ [sd_b2z (sd_robust W G (sd_zip_sync l sync))].
