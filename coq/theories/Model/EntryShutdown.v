(** Entry point of the shutdown timeline model for the correspondence driver (ml/handlers/h_shutdown.ml). *)
From Coq Require Import ZArith List Bool.
From WW Require Import Model.Shutdown.
Import ListNotations.
Open Scope Z_scope.

Definition sd_b2z (b : bool) : Z := if b then 1 else 0.

Fixpoint sd_zip (a d : list Z) : list sd_req :=
  match a, d with x :: a', y :: d' => mk_sd_req x y :: sd_zip a' d' | _, _ => [] end.

(* [started] alone when start-up refuses the periods, else
   [started; close; deadline; exit_time; exit_code] ++ accepted flags ++ completes flags *)
Definition entry_shutdown (nonneg : bool) (W G : Z) (arr svc : list Z) : list Z :=
  let l := sd_zip arr svc in
  if negb (sd_startable nonneg W G) then [0] else
  [1; sd_close W; sd_deadline W G; sd_exit_time W G l; sd_exit_code W G l]
  ++ map (fun q => sd_b2z (sd_accepted W q)) l ++ map (fun q => sd_b2z (sd_completes W G q)) l.
