(** CORS on the SSO server: transliteration of
      pkg/middleware/cors.go            (Cors: the two allowed-origin patterns built from cfg.SSO.Domain),
      github.com/rs/cors v1.11.1        (cors.go: New (origin normalisation), Handler, handlePreflight,
                                         handleActualRequest, isOriginAllowed, isMethodAllowed;
                                         utils.go: wildcard.match),
      pkg/router/router.go              (which routes of an SSO-server instance sit behind which Cors instance;
                                         chi applies a Group's middleware to the routes registered in the group
                                         and a Route()'s middleware to everything below the mount point).

    Strings are byte lists. [to_lower] is ASCII lower-casing: Go's strings.ToLower agrees with it on
    strings whose bytes are all < 0x80 (its fast path); non-ASCII input is outside the model.
    The option AllowedHeaders is fixed to ["*"] as in middleware/cors.go (rs/cors then never looks at
    the requested header names); ExposedHeaders, MaxAge, AllowPrivateNetwork, OptionsPassthrough,
    OptionsSuccessStatus, AllowOrigin*Func are left at their zero values there and are not modelled. *)
From Coq Require Import NArith List Bool.
From WW Require Import Gen.Params Base.Bytes.
Import ListNotations.
Open Scope N_scope.

(** * Literals *)
Definition c_star : N := 42.
Definition c_dot : N := 46.
Definition c_colon : N := 58.
Definition s_https_scheme : bytes := [104; 116; 116; 112; 115].                    (* "https" *)
Definition s_sep : bytes := [58; 47; 47].                                           (* "://" *)
Definition s_https : bytes := [104; 116; 116; 112; 115; 58; 47; 47].               (* "https://" *)
Definition s_https_wild : bytes := [104; 116; 116; 112; 115; 58; 47; 47; 42; 46].  (* "https://*." *)
Definition m_GET : bytes := [71; 69; 84].
Definition m_HEAD : bytes := [72; 69; 65; 68].
Definition m_POST : bytes := [80; 79; 83; 84].
Definition m_PUT : bytes := [80; 85; 84].
Definition m_PATCH : bytes := [80; 65; 84; 67; 72].
Definition m_DELETE : bytes := [68; 69; 76; 69; 84; 69].
Definition m_CONNECT : bytes := [67; 79; 78; 78; 69; 67; 84].
Definition m_OPTIONS : bytes := [79; 80; 84; 73; 79; 78; 83].
Definition m_TRACE : bytes := [84; 82; 65; 67; 69].

Definition mem_bytes (x : bytes) (l : list bytes) : bool := existsb (beq x) l.

Fixpoint list_beq (a b : list bytes) : bool :=
  match a, b with
  | [], [] => true
  | x :: a', y :: b' => beq x y && list_beq a' b'
  | _, _ => false
  end.

(** * rs/cors *)

(* utils.go: type wildcard struct{prefix, suffix string}; func (w wildcard) match(s string) bool *)
Record wildcard := { wc_prefix : bytes; wc_suffix : bytes }.

Definition wc_match (w : wildcard) (s : bytes) : bool :=
  Nat.leb (length (wc_prefix w) + length (wc_suffix w)) (length s) &&
  has_prefix s (wc_prefix w) && has_suffix s (wc_suffix w).

(* the fields of cors.Cors that the configuration of middleware/cors.go can influence *)
Record cors := {
  co_origins_all : bool;          (* allowedOriginsAll *)
  co_origins : list bytes;        (* allowedOrigins *)
  co_worigins : list wildcard;    (* allowedWOrigins *)
  co_methods : list bytes;        (* allowedMethods *)
  co_credentials : bool           (* allowCredentials *)
}.

(* cors.New, the loop over options.AllowedOrigins: lower-case; "*" turns the whole list into match-all and
   leaves the loop; an origin containing '*' is split at its FIRST '*' into prefix and suffix. *)
Fixpoint new_origins (os : list bytes) (plain : list bytes) (wild : list wildcard)
  : bool * list bytes * list wildcard :=
  match os with
  | [] => (false, plain, wild)
  | o :: r =>
    let o := to_lower o in
    if beq o [c_star] then (true, [], [])
    else match index_byte o c_star with
         | Some i => new_origins r plain (wild ++ [{| wc_prefix := firstn i o; wc_suffix := skipn (S i) o |}])
         | None => new_origins r (plain ++ [o]) wild
         end
  end.

Definition cors_new (allowed_origins allowed_methods : list bytes) (credentials : bool) : cors :=
  let '(all, plain, wild) :=
    match allowed_origins with
    | [] => (true, [], [])                      (* len(options.AllowedOrigins) == 0: default is all origins *)
    | _ => new_origins allowed_origins [] []
    end in
  {| co_origins_all := all; co_origins := plain; co_worigins := wild;
     co_methods := match allowed_methods with [] => [m_GET; m_POST; m_HEAD] | _ => allowed_methods end;
     co_credentials := credentials |}.

(* isOriginAllowed (no allowOriginFunc) *)
Definition is_origin_allowed (c : cors) (origin : bytes) : bool :=
  if co_origins_all c then true
  else let o := to_lower origin in
       existsb (fun a => beq a o) (co_origins c) || existsb (fun w => wc_match w o) (co_worigins c).

(* isMethodAllowed *)
Definition is_method_allowed (c : cors) (method : bytes) : bool :=
  match co_methods c with
  | [] => false
  | _ => if beq method m_OPTIONS then true else mem_bytes method (co_methods c)
  end.

(** Requests and the CORS part of responses. A header is the list of its values; [] = header absent. *)
Record creq := {
  cq_method : bytes;
  cq_origin : list bytes;     (* Origin *)
  cq_acrm : list bytes;       (* Access-Control-Request-Method *)
  cq_acrh : list bytes        (* Access-Control-Request-Headers *)
}.

(* http.Header.Get: first value, or "" *)
Definition hget (h : list bytes) : bytes := match h with [] => [] | v :: _ => v end.

Record cresp := {
  rs_vary_origin : bool;            (* "Vary: Origin" appended (actual-request path ran) *)
  rs_vary_preflight : bool;         (* the preflight Vary value appended (preflight path ran) *)
  rs_stopped : option N;            (* Some status: the middleware answered itself and did not call the next handler *)
  rs_acao : option (list bytes);    (* Access-Control-Allow-Origin values *)
  rs_acac : bool;                   (* Access-Control-Allow-Credentials: true *)
  rs_acam : option (list bytes);    (* Access-Control-Allow-Methods *)
  rs_acah : option (list bytes)     (* Access-Control-Allow-Headers *)
}.

Definition no_cors : cresp :=
  {| rs_vary_origin := false; rs_vary_preflight := false; rs_stopped := None;
     rs_acao := None; rs_acac := false; rs_acam := None; rs_acah := None |}.

Definition star_header : list bytes := [[c_star]].

(* handlePreflight; the caller writes optionsSuccessStatus (204) and does not call the next handler *)
Definition handle_preflight (c : cors) (r : creq) : cresp :=
  let origin := hget (cq_origin r) in
  let aborted := {| rs_vary_origin := false; rs_vary_preflight := true; rs_stopped := Some 204;
                    rs_acao := None; rs_acac := false; rs_acam := None; rs_acah := None |} in
  if negb (beq (cq_method r) m_OPTIONS)
  then {| rs_vary_origin := false; rs_vary_preflight := false; rs_stopped := Some 204;
          rs_acao := None; rs_acac := false; rs_acam := None; rs_acah := None |}
  else
  let allowed := is_origin_allowed c origin in
  if beq origin [] then aborted
  else if negb allowed then aborted
  else if negb (is_method_allowed c (hget (cq_acrm r))) then aborted
  else (* allowedHeadersAll: the requested header names are not inspected *)
  {| rs_vary_origin := false; rs_vary_preflight := true; rs_stopped := Some 204;
     rs_acao := Some (if co_origins_all c then star_header else cq_origin r);
     rs_acac := co_credentials c;
     rs_acam := Some (cq_acrm r);
     rs_acah := match cq_acrh r with
                | [] => None                                     (* !found *)
                | v :: _ => if beq v [] then None else Some (cq_acrh r)
                end |}.

(* handleActualRequest; the next handler is called afterwards *)
Definition handle_actual (c : cors) (r : creq) : cresp :=
  let origin := hget (cq_origin r) in
  let allowed := is_origin_allowed c origin in
  let plain := {| rs_vary_origin := true; rs_vary_preflight := false; rs_stopped := None;
                  rs_acao := None; rs_acac := false; rs_acam := None; rs_acah := None |} in
  if beq origin [] then plain
  else if negb allowed then plain
  else if negb (is_method_allowed c (cq_method r)) then plain
  else {| rs_vary_origin := true; rs_vary_preflight := false; rs_stopped := None;
          rs_acao := Some (if co_origins_all c then star_header else cq_origin r);
          rs_acac := co_credentials c; rs_acam := None; rs_acah := None |}.

(* method Handler of Cors *)
Definition cors_handler (c : cors) (r : creq) : cresp :=
  if beq (cq_method r) m_OPTIONS && negb (beq (hget (cq_acrm r)) [])
  then handle_preflight c r
  else handle_actual c r.

(** * pkg/middleware/cors.go *)
Definition sso_domain_trimmed (domain : bytes) : bytes := trim_prefix domain [c_dot].   (* strings.TrimPrefix(d, ".") *)

Definition allowed_origin_patterns (domain : bytes) : list bytes :=
  let d := sso_domain_trimmed domain in
  [ s_https_wild ++ d;      (* fmt.Sprintf("https://*.%s", ssoDomain) *)
    s_https ++ d ].         (* fmt.Sprintf("https://%s", ssoDomain) *)

Definition middleware_cors (domain : bytes) (methods : list bytes) : cors :=
  cors_new (allowed_origin_patterns domain) methods true.

(** * pkg/router/router.go for an SSO-server instance (cfg.SSO.IsServer()) *)
Inductive endpoint :=
| EpLogin | EpLogout                      (* GET, HEAD and OPTIONS routes inside the group that uses cors(GET, HEAD) *)
| EpLoginCallback | EpLogoutCallback      (* GET routes of the same group *)
| EpSessionTree                           (* /oauth2/session and everything below: Route() with cors(GET, POST) *)
| EpOAuth2Other                           (* frontchannel / local logout, ping, unknown paths under /oauth2 *)
| EpOutside.                              (* "/" and the wildcard route *)

(* chi's methodMap: requests with any other method are answered 405 by the outermost mux *)
Definition chi_methods : list bytes :=
  [m_CONNECT; m_DELETE; m_GET; m_HEAD; m_OPTIONS; m_PATCH; m_POST; m_PUT; m_TRACE].

(* the AllowedMethods of the Cors instance a request passes through, if any *)
Definition route_cors_methods (ep : endpoint) (method : bytes) : option (list bytes) :=
  match ep with
  | EpLogin | EpLogout =>
    if mem_bytes method [m_GET; m_HEAD; m_OPTIONS] then Some [m_GET; m_HEAD] else None
  | EpLoginCallback | EpLogoutCallback =>
    if beq method m_GET then Some [m_GET; m_HEAD] else None
  | EpSessionTree =>
    if mem_bytes method chi_methods then Some [m_GET; m_POST] else None
  | EpOAuth2Other | EpOutside => None
  end.

(* CORS-relevant part of the server's answer *)
Definition server_cors (domain : bytes) (ep : endpoint) (r : creq) : cresp :=
  match route_cors_methods ep (cq_method r) with
  | Some ms => cors_handler (middleware_cors domain ms) r
  | None => no_cors
  end.

(** The route a request path selects. [rp] is the path chi routes on (URL.RawPath if set, else URL.Path);
    [pfx] is the ingress path ("" for an ingress at the root). All patterns are static, so chi's radix tree
    amounts to string comparison; Route(pattern, ..) = Mount registers pattern, pattern ++ "/" and
    pattern ++ "/*" and hands "/" ++ the rest to the sub-router. Path constants come from the compiled code
    (Gen/Params.v). One ingress (one prefix) is modelled. *)
Definition c_slash : N := 47.

Definition classify_route (pfx rp : bytes) : endpoint :=
  let base := pfx ++ path_oauth2 in
  if beq rp base || has_prefix rp (base ++ [c_slash]) then
    let rest := c_slash :: skipn (length base + 1) rp in
    if beq rest path_login then EpLogin
    else if beq rest path_logout then EpLogout
    else if beq rest path_callback then EpLoginCallback
    else if beq rest path_logout_callback then EpLogoutCallback
    else if beq rest path_session || has_prefix rest (path_session ++ [c_slash]) then EpSessionTree
    else EpOAuth2Other
  else EpOutside.

Definition server_cors_path (domain pfx rp : bytes) (r : creq) : cresp :=
  server_cors domain (classify_route pfx rp) r.

(* the origin decision of an SSO server configured with [domain] (independent of the method list) *)
Definition cors_allowed (domain origin : bytes) : bool :=
  is_origin_allowed (middleware_cors domain []) origin.
