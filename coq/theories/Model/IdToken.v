(** ID-token acceptance (C03). Transliterated from pkg/openid/tokens.go (NewTokens, IDToken.Validate),
    pkg/openid/acr/acr.go (Validate), pkg/openid/provider/provider.go (keySetMutator), and from
    lestrrat-go/jwx v2.1.4: jws.Verify with jws.WithKeySet (key_provider.go: kid required, first key with
    that kid, key use, the KEY's algorithm decides - the token header's alg is not consulted) and
    jwt.Validate (validate.go: iat / exp / nbf with skew and truncation to seconds, required claims, issuer,
    audience contains, claim value).

    Signatures are ideal: a token is validly signed under exactly one (key material, algorithm) pair, or
    under none. "HS256 keyed by the public key bytes" is the pair (material of that public key, HS256). *)
From Coq Require Import NArith ZArith Bool List.
From WW Require Import Base.Bytes.
Import ListNotations.
Open Scope Z_scope.

Inductive jalg := ARS256 | APS256 | AES256 | AHS256 | ANone | ANotSig.   (* ANotSig: a JWA name that is not a signature algorithm *)

Definition jalg_eqb (a b : jalg) : bool :=
  match a, b with
  | ARS256, ARS256 | APS256, APS256 | AES256, AES256 | AHS256, AHS256 | ANone, ANone | ANotSig, ANotSig => true
  | _, _ => false
  end.

(* jws has a verifier for it (NewVerifier succeeds) *)
Definition has_verifier (a : jalg) : bool := match a with ARS256 | APS256 | AES256 | AHS256 => true | _ => false end.

Inductive kuse := UNone | USig | UEnc.

Record jkey := { k_kid : bytes; k_mat : N; k_alg : option jalg; k_use : kuse }.

(* provider.keySetMutator: keys without "alg" get the configured ID-token signing algorithm *)
Definition mutate_keys (dflt : jalg) (ks : list jkey) : list jkey :=
  map (fun k => match k_alg k with
                | Some _ => k
                | None => {| k_kid := k_kid k; k_mat := k_mat k; k_alg := Some dflt; k_use := k_use k |}
                end) ks.

Record idtok := {
  t_kid : option bytes;                 (* "kid" protected header *)
  t_hdr_alg : jalg;                     (* "alg" protected header - not consulted by the verification *)
  t_signed : option (N * jalg);         (* the signature verifies under this key material with this algorithm *)
  t_iss : option bytes;
  t_sub : option bytes;
  t_aud : option (list bytes);          (* flattened: a single string is a one-element list *)
  t_exp : option Z; t_iat : option Z; t_nbf : option Z;     (* NumericDate in nanoseconds since the epoch *)
  t_nonce : option bytes;               (* None also stands for a non-string value *)
  t_sid : bool;                         (* "sid" present *)
  t_acr_present : bool;
  t_acr : bytes                         (* string value of "acr", empty if absent / not a string *)
}.

Record icfg := {
  v_issuer : bytes; v_client_id : bytes; v_trusted : list bytes;   (* cfg.OpenID.Audiences; the client id is trusted implicitly *)
  v_sid_required : bool; v_acr_configured : bool;
  v_acr_legacy : list (bytes * bytes);
  v_skew : Z;                           (* nanoseconds *)
  v_exp_strict : bool                   (* an exp at (or before) the epoch is rejected after jwt.Validate *)
}.

Definition second : Z := 1000000000.
Definition trunc_s (t : Z) : Z := t - t mod second.      (* time.Truncate(time.Second) for t >= 0 *)

Fixpoint lookup_kid (kid : bytes) (ks : list jkey) : option jkey :=
  match ks with [] => None | k :: r => if beq (k_kid k) kid then Some k else lookup_kid kid r end.

(* jws.Verify(..., jws.WithKeySet(set)) *)
Definition jws_verify (ks : list jkey) (t : idtok) : bool :=
  match t_kid t with
  | None => false
  | Some [] => false                              (* empty kid = not specified *)
  | Some kid =>
    match lookup_kid kid ks with
    | None => false
    | Some k =>
      match k_use k with
      | UEnc => false
      | _ =>
        match k_alg k with
        | None => false                           (* no "alg" on the key and no inference: no candidate *)
        | Some a =>
          if negb (has_verifier a) then false
          else match t_signed t with
               | Some (m, sa) => N.eqb m (k_mat k) && jalg_eqb sa a
               | None => false
               end
        end
      end
    end
  end.

Fixpoint assoc_b (x : bytes) (l : list (bytes * bytes)) : option bytes :=
  match l with [] => None | (a, b) :: r => if beq x a then Some b else assoc_b x r end.

Definition s_substantial : bytes := [105;100;112;111;114;116;101;110;45;108;111;97;45;115;117;98;115;116;97;110;116;105;97;108]%N.
Definition s_high : bytes := [105;100;112;111;114;116;101;110;45;108;111;97;45;104;105;103;104]%N.

Fixpoint memb (x : bytes) (l : list bytes) : bool := match l with [] => false | y :: r => beq x y || memb x r end.

(* acr.Validate(expected, actual) *)
Definition acr_validate (legacy : list (bytes * bytes)) (expected actual : bytes) : bool :=
  let e := match assoc_b expected legacy with Some t => t | None => expected end in
  if beq e s_substantial then beq actual s_substantial || beq actual s_high
  else if beq e s_high then beq actual s_high
  else beq e actual.

Definition present_time (o : option Z) : bool := match o with Some t => negb (t / second =? 0) | None => false end.

(* the validators of jwt.Validate in the order IDToken.Validate installs them *)
Definition jwt_validate (c : icfg) (nonce : bytes) (t : idtok) (now : Z) : bool :=
  (* base validators: iat, exp, nbf (skipped when absent or at the epoch) *)
  (match t_iat t with Some v => if present_time (Some v) then negb (trunc_s now <? trunc_s v - v_skew c) else true | None => true end) &&
  (match t_exp t with Some v => if present_time (Some v) then trunc_s now <? trunc_s v + v_skew c else true | None => true end) &&
  (match t_nbf t with Some v => if present_time (Some v) then negb (trunc_s now <? trunc_s v - v_skew c) else true | None => true end) &&
  (* required claims *)
  (match t_iss t with Some _ => true | None => false end) &&
  (match t_sub t with Some _ => true | None => false end) &&
  (match t_aud t with Some _ => true | None => false end) &&
  (match t_exp t with Some _ => true | None => false end) &&
  (match t_iat t with Some _ => true | None => false end) &&
  (* issuer, audience, nonce *)
  (match t_iss t with Some i => beq i (v_issuer c) | None => false end) &&
  (match t_aud t with Some l => memb (v_client_id c) l | None => false end) &&
  (match t_nonce t with Some n => beq n nonce | None => false end) &&
  (if v_sid_required c then t_sid t else true) &&
  (if v_acr_configured c then t_acr_present t else true).

Definition untrusted_audiences (c : icfg) (t : idtok) : bool :=
  match t_aud t with
  | Some l => if Nat.ltb 1 (length l)
              then negb (forallb (fun a => beq a (v_client_id c) || memb a (v_trusted c)) l)
              else false
  | None => false
  end.

(* IDToken.Validate, early returns in the code's order *)
Definition idtoken_validate (c : icfg) (nonce cookie_acr : bytes) (ks : list jkey) (t : idtok) (now : Z) : bool :=
  if negb (jws_verify ks t) then false
  else if v_acr_configured c && negb (beq cookie_acr []) && negb (acr_validate (v_acr_legacy c) cookie_acr (t_acr t)) then false
  else if negb (jwt_validate c nonce t now) then false
  else if v_exp_strict c && (match t_exp t with Some e => e / second <=? 0 | None => false end) then false
  else negb (untrusted_audiences c t).

(* NewTokens: the token response must contain a string id_token that parses *)
Inductive tokresp := RespNoIdToken | RespNotString | RespMalformed | RespToken (t : idtok).

Definition new_tokens (c : icfg) (nonce cookie_acr : bytes) (ks : list jkey) (r : tokresp) (now : Z) : bool :=
  match r with
  | RespToken t => idtoken_validate c nonce cookie_acr ks t now
  | _ => false
  end.
