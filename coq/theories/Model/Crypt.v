(** Symbolic model of internal/crypto/crypter.go and pkg/cookie Encrypt/Decrypt (C09).
    A ciphertext is a term: the key it was sealed with, the nonce drawn for it, the plaintext.
    Tampering operations produce a different term; [decrypt] opens only an untouched ciphertext under the
    key it was sealed with (ideal AEAD - XChaCha20-Poly1305 itself is not modelled). *)
From Coq Require Import NArith List Bool.
From WW Require Import Base.Bytes.
Import ListNotations.
Open Scope N_scope.

Inductive cipher :=
| Sealed (key nonce : N) (pt : bytes)
| Flipped (bit : N) (c : cipher)          (* one bit of the byte string inverted *)
| TruncatedTo (len : N) (c : cipher)      (* only a proper prefix kept *)
| DropPrefix (len : N) (c : cipher)       (* a non-empty prefix removed *)
| Junk (b : bytes).                       (* arbitrary bytes not produced by Encrypt *)

(* the random source: a counter; every Encrypt draws the next value as its 24-byte nonce *)
Definition encrypt (rnd key : N) (pt : bytes) : N * cipher := (rnd + 1, Sealed key rnd pt).

Definition decrypt (key : N) (c : cipher) : option bytes :=
  match c with
  | Sealed k _ pt => if N.eqb k key then Some pt else None
  | _ => None
  end.

(* a sequence of encryptions under arbitrary keys, threading the random source *)
Fixpoint encrypt_all (rnd : N) (reqs : list (N * bytes)) : list cipher :=
  match reqs with
  | [] => []
  | (k, pt) :: r => let '(rnd', c) := encrypt rnd k pt in c :: encrypt_all rnd' r
  end.

Definition nonce_of (c : cipher) : option N := match c with Sealed _ n _ => Some n | _ => None end.

(* observable result classes of the differential driver *)
Inductive dres := DOk (pt : bytes) | DFail.
Definition decrypt_res (key : N) (c : cipher) : dres := match decrypt key c with Some p => DOk p | None => DFail end.

(** ** Data keys of sessions (pkg/session: manager.Create -> NewTicket -> crypto.RandomBytes)
    Every login draws a NEW data key from the random source, whatever the callback request carries - in particular
    whatever session cookie of an earlier login of the same browser travels with it, under the same or another
    provider session id. A login is given by the store key of the session it creates and the position of the earlier
    login whose ticket the callback request carried (if any); that ticket plays no role. *)
Record sticket := { st_key : N; st_dek : N }.

Fixpoint mint_all (rnd : N) (logins : list (N * option N)) : list sticket :=
  match logins with
  | [] => []
  | (k, _) :: r => {| st_key := k; st_dek := rnd |} :: mint_all (rnd + 1) r
  end.

(* the stored value of a session: its data sealed under the session's data key *)
Definition session_blob (t : sticket) (nonce : N) (data : bytes) : cipher := Sealed (st_dek t) nonce data.

(* presenting ticket t while the store holds, under t's key, the value written for ticket u *)
Definition open_with_ticket (t u : sticket) (nonce : N) (data : bytes) : option bytes := decrypt (st_dek t) (session_blob u nonce data).
