(** Entry points of Model/Auth.v for the correspondence driver (`wwh auth`). *)
From Coq Require Import NArith ZArith Bool List.
From WW Require Import Gen.Params Base.Bytes Model.Auth.
Import ListNotations.
Open Scope N_scope.

Definition prompt_allowed : list bytes := [[108;111;103;105;110]; [115;101;108;101;99;116;95;97;99;99;111;117;110;116]]. (* login, select_account *)

Definition mk_acfg (key : N) (ings : list ingress) (client_id issuer acr_default : bytes) (acr_supported : list bytes)
           (locale_default : bytes) (locale_supported : list bytes) (scope resource : bytes)
           (par use_secret iss_supported strict seg : bool) : acfg :=
  {| a_key := key; a_ingresses := ings; a_client_id := client_id; a_issuer := issuer;
     a_acr_default := acr_default; a_acr_supported := acr_supported; a_acr_legacy := acr_legacy_mapping;
     a_locale_default := locale_default; a_locale_supported := locale_supported;
     a_prompt_allowed := prompt_allowed; a_scope := scope; a_resource := resource;
     a_par := par; a_use_secret := use_secret; a_iss_supported := iss_supported; a_cookie_strict := strict; a_seg_prefix := seg |}.

Definition entry_login (c : acfg) (q : areq) (rnd : N) (referer : sval) (replies : list par_reply) : list login_out :=
  login_results c q rnd referer replies.

Definition entry_logout (c : acfg) (q : areq) (rnd : N) (redirect_to : sval) : list logout_out :=
  logout_results c q rnd redirect_to.

Definition entry_callback (c : acfg) (tokens_ok : bool) (jti : N) (r : cbreq) : cb_out :=
  callback c (fun _ _ => tokens_ok) jti r.

(* the store after the callback; the value of a session created by it is written as 0 *)
Definition entry_callback_store (c : acfg) (tokens_ok : bool) (jti : N) (r : cbreq) (newk : N) (s : astore) : astore :=
  callback_store c (fun _ _ => tokens_ok) jti r newk 0 s.

(* the jti draws of n back-channel requests in the order their client authentication is built (0 = no assertion: client secret) *)
Definition entry_backchannel_jtis (c : acfg) (n : N) : list N :=
  map (fun p => match assertion_of p with Some j => j | None => 0 end) (back_channel_auths c 1 (N.to_nat n)).

(* one operation of a process history (the driver threads the counter: the fold is Model.Auth.hist_run) *)
Definition entry_hist_step (c : acfg) (op : hop) (rnd : N) : hstep_out := hist_step c op rnd.

Definition dkind_code (k : dkind) : N :=
  match k with DNonce => 0 | DState => 1 | DVerifier => 2 | DLogoutState => 3 | DSessionId => 4 | DDataKey => 5 end.
