(** A cookie-keeping browser: the storage model of RFC 6265 section 5.3 / 5.4 as implemented by
    Go's net/http/cookiejar (jar.go: setCookies, newEntry, domainAndType, defaultPath, cookies,
    shouldSend, domainMatch, pathMatch) without a public-suffix list.

    Entries are keyed by (domain, path, name); the list is kept in creation order (an update keeps
    the position of the entry it replaces, as cookiejar keeps Creation/seqNum).
    Not modelled: IP-address hosts, non-ASCII hosts, the eTLD+1 partitioning of cookiejar's
    internal map (unobservable when every Domain attribute has at least two labels), HttpOnly
    (irrelevant for HTTP requests), SameSite (cookiejar ignores it on top-level requests).
    [trust_localhost] = true is the browser rule "http://localhost is potentially trustworthy"
    (Secure cookies are sent there); false is cookiejar / plain RFC 6265. *)
From Coq Require Import NArith ZArith List Bool.
From WW Require Import Base.Bytes Model.CookieUrl Model.Cookie.
Import ListNotations.
Open Scope Z_scope.

Record jcookie := {
  j_name : bytes; j_value : cvalue; j_domain : bytes; j_hostonly : bool; j_path : bytes;
  j_secure : bool;
  j_expires : option Z     (* None: session cookie; Some t: dropped once now >= t *)
}.
Definition jar := list jcookie.

Record origin := { u_https : bool; u_host : bytes (* canonical: lower case, no port *); u_path : bytes }.

Definition dotb : N := 46%N.

(* hasDotSuffix s suffix: s = x ++ "." ++ suffix *)
Definition has_dot_suffix (s suffix : bytes) : bool :=
  Nat.ltb (length suffix) (length s) && has_suffix s (dotb :: suffix).

(* defaultPath *)
Definition default_path (p : bytes) : bytes :=
  match p with
  | 47%N :: _ => match last_split 47 p with
                 | Some ([], _) => slash
                 | Some (a, _) => a
                 | None => slash
                 end
  | _ => slash
  end.

Definition last_byte (s : bytes) : option N := match rev s with c :: _ => Some c | [] => None end.

(* domainAndType with psList = nil, host not an IP: Some (domain, hostOnly) or None (cookie ignored) *)
Definition domain_and_type (host domain : bytes) : option (bytes * bool) :=
  match domain with
  | [] => Some (host, true)
  | _ =>
    let d := match domain with 46%N :: r => r | _ => domain end in
    match d with
    | [] => None
    | 46%N :: _ => None
    | _ =>
      let d := to_lower d in
      if match last_byte d with Some 46%N => true | _ => false end then None
      else if negb (beq host d) && negb (has_dot_suffix host d) then None
      else Some (d, false)
    end
  end.

Definition same_id (name domain path : bytes) (e : jcookie) : bool :=
  beq (j_domain e) domain && beq (j_path e) path && beq (j_name e) name.

Definition jar_remove (name domain path : bytes) (j : jar) : jar :=
  filter (fun e => negb (same_id name domain path e)) j.

Fixpoint jar_put (n : jcookie) (j : jar) : jar :=
  match j with
  | [] => [n]
  | e :: r => if same_id (j_name n) (j_domain n) (j_path n) e then n :: r else e :: jar_put n r
  end.

Definition jsecond : Z := 1000000000.

(* Jar.setCookies for one cookie received in a kresponse to a krequest to u at time now *)
Definition jar_set (now : Z) (u : origin) (c : setcookie) (j : jar) : jar :=
  let path := match c_path c with 47%N :: _ => c_path c | _ => default_path (u_path u) end in
  match domain_and_type (u_host u) (c_domain c) with
  | None => j
  | Some (dom, hostonly) =>
    if c_maxage c <? 0 then jar_remove (c_name c) dom path j
    else if 0 <? c_maxage c then
      jar_put {| j_name := c_name c; j_value := c_value c; j_domain := dom; j_hostonly := hostonly; j_path := path;
                 j_secure := c_secure c; j_expires := Some (now + c_maxage c * jsecond) |} j
    else if c_expires_epoch c then
      (if 0 <? now then jar_remove (c_name c) dom path j      (* !Expires.After(now): epoch is in the past *)
       else jar_put {| j_name := c_name c; j_value := c_value c; j_domain := dom; j_hostonly := hostonly; j_path := path;
                       j_secure := c_secure c; j_expires := Some 0 |} j)
    else
      jar_put {| j_name := c_name c; j_value := c_value c; j_domain := dom; j_hostonly := hostonly; j_path := path;
                 j_secure := c_secure c; j_expires := None |} j
  end.

Definition jar_set_all (now : Z) (u : origin) (cs : list setcookie) (j : jar) : jar :=
  fold_left (fun j c => jar_set now u c j) cs j.

Definition live (now : Z) (e : jcookie) : bool :=
  match j_expires e with None => true | Some t => now <? t end.

(* entry.domainMatch *)
Definition domain_match (host : bytes) (e : jcookie) : bool :=
  beq (j_domain e) host || (negb (j_hostonly e) && has_dot_suffix host (j_domain e)).

(* entry.pathMatch (RFC 6265 5.1.4) *)
Definition path_match (req cpath : bytes) : bool :=
  beq req cpath ||
  (has_prefix req cpath &&
   (match last_byte cpath with Some 47%N => true | _ => false end ||
    match nth_error req (length cpath) with Some 47%N => true | _ => false end)).

Definition should_send (trust_localhost : bool) (u : origin) (e : jcookie) : bool :=
  domain_match (u_host u) e && path_match (match u_path u with [] => slash | p => p end) (j_path e) &&
  (u_https u || negb (j_secure e) || (trust_localhost && beq (u_host u) s_localhost)).

(* stable: longer paths first, then creation order *)
Fixpoint insert_by_path (x : jcookie) (l : list jcookie) : list jcookie :=
  match l with
  | [] => [x]
  | y :: r => if Nat.leb (length (j_path y)) (length (j_path x)) then x :: l else y :: insert_by_path x r
  end.
Definition sort_by_path (l : list jcookie) : list jcookie := fold_right insert_by_path [] l.

(* Jar.cookies: the entries sent with a krequest to u at time now, in the order of the Cookie header *)
Definition jar_select (trust_localhost : bool) (now : Z) (u : origin) (j : jar) : list jcookie :=
  sort_by_path (filter (fun e => live now e && should_send trust_localhost u e) j).

(* http.Request.Cookie(name): the first cookie with that name *)
Fixpoint first_named (name : bytes) (l : list jcookie) : option cvalue :=
  match l with
  | [] => None
  | e :: r => if beq (j_name e) name then Some (j_value e) else first_named name r
  end.

(* the LAST cookie with that name: what a lookup written as "the most recent of several same-named cookies" reads. Not what the
   code does (pkg/cookie Get = http.Request.Cookie = first); kept to state what the first-match rule is needed for
   (Properties/C17.v c17_last_match_refuted). *)
Fixpoint last_named (name : bytes) (l : list jcookie) : option cvalue :=
  match l with
  | [] => None
  | e :: r => match last_named name r with
              | Some v => Some v
              | None => if beq (j_name e) name then Some (j_value e) else None
              end
  end.

Definition jar_cookie (trust_localhost : bool) (now : Z) (u : origin) (j : jar) (name : bytes) : option cvalue :=
  first_named name (jar_select trust_localhost now u j).

(* cookiejar drops expired entries lazily; observationally the same as filtering at read time *)
Definition jar_gc (now : Z) (j : jar) : jar := filter (live now) j.
