(** Model of wonderwall's cookie handling (C14, C17):
      pkg/cookie/options.go, pkg/cookie/cookie.go (Make, Clear, SetLegacyCookie, ClearLegacyCookies, names),
      pkg/config/cookie.go (Validate, SameSite.ToHttp), pkg/ingress/ingress.go (ParseIngress, MatchingPath),
      pkg/handler/handler.go (NewStandalone options, GetCookieOptions and every cookie call site),
      pkg/handler/handler_sso_server.go (NewSSOServer options, legacy clears),
      pkg/handler/error.go (incrementRetryAttempt, getRetryAttempts, respondError),
      cmd/wonderwall/main.go (cookie names from prefix / SSO session cookie name),
      strconv.Atoi / strconv.Itoa.
    Executable, total functions only; proofs are in Proofs/CookieP.v. *)
From Coq Require Import NArith ZArith List Bool.
From WW Require Import Base.Bytes Gen.Params Model.CookieUrl.
Import ListNotations.
Open Scope Z_scope.

(* ------------------------------------------------------------------ strconv *)

Fixpoint digits_val (s : bytes) (acc : Z) : option Z :=
  match s with
  | [] => Some acc
  | c :: r => if is_digit c then digits_val r (acc * 10 + Z.of_N (c - 48)) else None
  end.

Definition min_int : Z := - 9223372036854775808.
Definition max_int : Z := 9223372036854775807.

(* strconv.Atoi on a 64-bit platform: optional sign, at least one digit, digits only, in range *)
Definition atoi (s : bytes) : option Z :=
  let '(neg, body) := match s with
                      | 43%N :: r => (false, r)
                      | 45%N :: r => (true, r)
                      | _ => (false, s)
                      end in
  match body with
  | [] => None
  | _ => match digits_val body 0 with
         | None => None
         | Some v => let v' := if neg then - v else v in
                     if (min_int <=? v') && (v' <=? max_int) then Some v' else None
         end
  end.

Fixpoint n_digits (fuel : nat) (n : N) (acc : bytes) : bytes :=
  match fuel with
  | O => acc
  | S f => let d := (48 + n mod 10)%N in
           let q := (n / 10)%N in
           if (q =? 0)%N then d :: acc else n_digits f q (d :: acc)
  end.

(* strconv.Itoa for |z| < 10^20 *)
Definition itoa (z : Z) : bytes :=
  match z with
  | Z0 => [48%N]
  | Zpos p => n_digits 20 (Npos p) []
  | Zneg p => 45%N :: n_digits 20 (Npos p) []
  end.

(* Go int addition wraps *)
Definition wrap64 (z : Z) : Z := (z + 9223372036854775808) mod 18446744073709551616 - 9223372036854775808.

(* ------------------------------------------------------------------ options.go / cookie.go *)

Inductive samesite := SSLax | SSStrict | SSNone.

Record options := { o_domain : bytes; o_path : bytes; o_samesite : samesite; o_secure : bool }.

Definition default_options : options := {| o_domain := []; o_path := []; o_samesite := SSLax; o_secure := true |}.
Definition with_domain (o : options) (d : bytes) := {| o_domain := d; o_path := o_path o; o_samesite := o_samesite o; o_secure := o_secure o |}.
Definition with_path (o : options) (p : bytes) := {| o_domain := o_domain o; o_path := p; o_samesite := o_samesite o; o_secure := o_secure o |}.
Definition with_samesite (o : options) (s : samesite) := {| o_domain := o_domain o; o_path := o_path o; o_samesite := s; o_secure := o_secure o |}.
Definition with_secure (o : options) (b : bool) := {| o_domain := o_domain o; o_path := o_path o; o_samesite := o_samesite o; o_secure := b |}.

(* cookie values: ciphertext is opaque, counters are literal *)
Inductive cvalue := VOpaque | VLit (b : bytes).

(* the fields of the http.Cookie handed to http.SetCookie *)
Record setcookie := {
  c_name : bytes; c_value : cvalue; c_domain : bytes; c_path : bytes; c_samesite : samesite;
  c_secure : bool; c_httponly : bool;
  c_maxage : Z;            (* http.Cookie.MaxAge: 0 = attribute absent, < 0 = "Max-Age=0", > 0 seconds *)
  c_expires_epoch : bool   (* Expires = time.Unix(0,0) *)
}.

Definition slash : bytes := [47%N].

(* cookie.Make *)
Definition make (name : bytes) (value : cvalue) (o : options) : setcookie :=
  {| c_name := name; c_value := value;
     c_domain := o_domain o;                                   (* if len(opts.Domain) > 0 *)
     c_path := if nonempty (o_path o) then o_path o else slash; (* Path: "/" unless len(opts.Path) > 0 *)
     c_samesite := o_samesite o; c_secure := o_secure o; c_httponly := true;
     c_maxage := 0; c_expires_epoch := false |}.

(* cookie.Clear *)
Definition clear (name : bytes) (o : options) : setcookie :=
  {| c_name := name; c_value := VLit [];
     c_domain := o_domain o;
     c_path := if nonempty (o_path o) then o_path o else slash;
     c_samesite := o_samesite o; c_secure := o_secure o; c_httponly := true;
     c_maxage := -1; c_expires_epoch := true |}.

Definition with_maxage (c : setcookie) (m : Z) : setcookie :=
  {| c_name := c_name c; c_value := c_value c; c_domain := c_domain c; c_path := c_path c;
     c_samesite := c_samesite c; c_secure := c_secure c; c_httponly := c_httponly c;
     c_maxage := m; c_expires_epoch := c_expires_epoch c |}.

(* ------------------------------------------------------------------ configuration *)

Record kconfig := {
  cf_secure : bool;            (* cookie.secure *)
  cf_samesite : bytes;         (* cookie.same-site, raw *)
  cf_prefix : bytes;           (* cookie.prefix *)
  cf_ingresses : list bytes;   (* ingress, raw *)
  cf_sso_server : bool;        (* sso.enabled with sso.mode = server *)
  cf_sso_domain : bytes;       (* sso.domain *)
  cf_sso_name : bytes;         (* sso.session-cookie-name *)
  cf_legacy : bool;            (* legacy-cookie *)
  cf_rl_enabled : bool;        (* ratelimit.enabled *)
  cf_rl_logins : Z;            (* ratelimit.logins *)
  cf_rl_window : Z;            (* ratelimit.window, nanoseconds *)
  (* variants of the code under test (lib/code_flags.json), not deployment settings *)
  cf_seg_prefix : bool;        (* ingress.MatchingPath: false = strings.HasPrefix (before a1203b1),
                                  true = hasPathPrefix, prefix on a segment boundary *)
  cf_rl_ceil : bool            (* applyLoginRateLimit Max-Age: false = int(window.Seconds()) (before c75583b),
                                  true = int(math.Ceil(window.Seconds())) *)
}.

Definition s_lax : bytes := [76; 97; 120]%N.
Definition s_none : bytes := [78; 111; 110; 101]%N.
Definition s_strict : bytes := [83; 116; 114; 105; 99; 116]%N.
Definition s_http : bytes := [104; 116; 116; 112]%N.
Definition s_https : bytes := [104; 116; 116; 112; 115]%N.
Definition s_localhost : bytes := [108; 111; 99; 97; 108; 104; 111; 115; 116]%N.

(* SameSite.ToHttp *)
Definition samesite_to_http (s : bytes) : samesite :=
  if beq s s_none then SSNone else if beq s s_strict then SSStrict else SSLax.

(* SameSite.Validate *)
Definition samesite_valid (s : bytes) : bool := beq s s_lax || beq s s_none || beq s s_strict.

Inductive vresult := VOk | VReject | VUnmodelled.

(* Cookie.Validate: the loop over cfg.Ingresses *)
Fixpoint validate_ingresses (l : list bytes) : vresult :=
  match l with
  | [] => VOk
  | raw :: r =>
    match parse_request_uri raw with
    | UErr => VReject
    | UOut => VUnmodelled
    | UOk sch host _ =>
      if negb (equal_fold (hostname host) s_localhost) then VReject
      else if negb (beq sch s_http) then VReject
      else validate_ingresses r
    end
  end.

Definition validate_cookie (c : kconfig) : vresult :=
  if negb (samesite_valid (cf_samesite c)) then VReject
  else if cf_secure c then VOk
  else validate_ingresses (cf_ingresses c).

(* ingress.ParseIngress: (scheme, host, path) *)
Inductive ingress_r := IErr | IOut | IOk (scheme host path : bytes).

Definition parse_ingress (raw : bytes) : ingress_r :=
  match raw with
  | [] => IErr
  | _ => match parse_request_uri raw with
         | UErr => IErr
         | UOut => IOut
         | UOk sch host path =>
           if negb (nonempty host) then IErr
           else if negb (beq sch s_http || beq sch s_https) then IErr
           else IOk sch host (trim_right_slash path)
         end
  end.

(* ingress.ParseIngresses: (host, path) of every ingress (None = start-up error or unmodelled input) *)
Fixpoint ingress_list (l : list bytes) : option (list (bytes * bytes)) :=
  match l with
  | [] => Some []
  | raw :: r => match parse_ingress raw, ingress_list r with
                | IOk _ h p, Some ps => Some ((h, p) :: ps)
                | _, _ => None
                end
  end.

Definition parse_ingresses_full (c : kconfig) : option (list (bytes * bytes)) :=
  match cf_ingresses c with
  | [] => None                       (* "must have at least 1 ingress" *)
  | l => ingress_list l
  end.

(* Ingresses.Paths() *)
Definition parse_ingresses (c : kconfig) : option (list bytes) := option_map (map snd) (parse_ingresses_full c).

(* Ingresses.MatchingIngress (without X-Forwarded-Host): some ingress has the krequest's Host and the matching path *)
Definition matching_ingress (ings : list (bytes * bytes)) (hostport mp : bytes) : bool :=
  existsb (fun hp => beq (fst hp) hostport && beq (snd hp) mp) ings.

(* ingress.hasPathPrefix: path == prefix || strings.HasPrefix(path, prefix+"/") *)
Definition has_path_prefix (path prefix : bytes) : bool := beq path prefix || has_prefix path (prefix ++ [47%N]).

(* the prefix test of Ingresses.MatchingPath in the two variants of the code *)
Definition path_prefix_test (seg : bool) (req p : bytes) : bool :=
  if seg then has_path_prefix req p else has_prefix req p.

(* Ingresses.MatchingPath: longest non-empty ingress path that is a prefix of the request path
   (seg = false: as a string; seg = true: ending on a segment boundary) *)
Fixpoint matching_path_go (seg : bool) (paths : list bytes) (req : bytes) (result : bytes) : bytes :=
  match paths with
  | [] => result
  | p :: r =>
    if negb (nonempty p) then matching_path_go seg r req result
    else if path_prefix_test seg req p && (Nat.ltb (length result) (length p)) then matching_path_go seg r req p
    else matching_path_go seg r req result
  end.
Definition matching_path (seg : bool) (paths : list bytes) (req : bytes) : bytes := matching_path_go seg paths req [].

(* ------------------------------------------------------------------ cookie names (cookie.go, main.go) *)

Definition default_prefix : bytes :=
  [105; 111; 46; 110; 97; 105; 115; 46; 119; 111; 110; 100; 101; 114; 119; 97; 108; 108]%N. (* io.nais.wonderwall *)
Definition dot : bytes := [46%N].
Definition with_prefix (p s : bytes) : bytes := p ++ dot ++ s.
Definition n_callback : bytes := [99; 97; 108; 108; 98; 97; 99; 107]%N.
Definition n_logincount : bytes := [108; 111; 103; 105; 110; 99; 111; 117; 110; 116]%N.
Definition n_logout : bytes := [108; 111; 103; 111; 117; 116]%N.
Definition n_retry : bytes := [114; 101; 116; 114; 121]%N.
Definition n_session : bytes := [115; 101; 115; 115; 105; 111; 110]%N.
Definition n_legacy : bytes :=
  [115; 101; 108; 118; 98; 101; 116; 106; 101; 110; 105; 110; 103; 45; 105; 100; 116; 111; 107; 101; 110]%N. (* selvbetjening-idtoken *)

Inductive ckind := CkSession | CkLogin | CkLogout | CkRetry | CkLoginCount | CkLegacy.

(* main.go: ConfigureCookieNamesWithPrefix(cfg.Cookie.Prefix); in SSO mode ConfigureCookieNamesWithPrefix(
   cfg.SSO.SessionCookieName) and cookie.Session = cfg.SSO.SessionCookieName. LoginCount is never re-prefixed. *)
Definition cookie_name (c : kconfig) (k : ckind) : bytes :=
  let base := if cf_sso_server c then cf_sso_name c else cf_prefix c in
  match k with
  | CkSession => if cf_sso_server c then cf_sso_name c else with_prefix base n_session
  | CkLogin => with_prefix base n_callback
  | CkLogout => with_prefix base n_logout
  | CkRetry => with_prefix base n_retry
  | CkLoginCount => with_prefix default_prefix n_logincount
  | CkLegacy => n_legacy
  end.

(* The same, transliterated statement by statement: the package-level variables of pkg/cookie/cookie.go
   (Login, LoginCount, Logout, Retry, Session, initialised from DefaultPrefix), ConfigureCookieNamesWithPrefix, and the
   lines of cmd/wonderwall/main.go:run that call it:
     if cfg.Cookie.Prefix != cookie.DefaultPrefix { cookie.ConfigureCookieNamesWithPrefix(cfg.Cookie.Prefix) }
     if cfg.SSO.Enabled { cookie.ConfigureCookieNamesWithPrefix(cfg.SSO.SessionCookieName); cookie.Session = cfg.SSO.SessionCookieName }
   [main_cnames] is compared with the real variables on every run (`wwh cookies`, kind cnames). *)
Record cnames := { nm_login : bytes; nm_logincount : bytes; nm_logout : bytes; nm_retry : bytes; nm_session : bytes }.

Definition default_cnames : cnames :=
  {| nm_login := with_prefix default_prefix n_callback; nm_logincount := with_prefix default_prefix n_logincount;
     nm_logout := with_prefix default_prefix n_logout; nm_retry := with_prefix default_prefix n_retry;
     nm_session := with_prefix default_prefix n_session |}.

(* ConfigureCookieNamesWithPrefix assigns Login, Logout, Retry, Session; LoginCount keeps its value *)
Definition configure_cnames (p : bytes) (n : cnames) : cnames :=
  {| nm_login := with_prefix p n_callback; nm_logincount := nm_logincount n; nm_logout := with_prefix p n_logout;
     nm_retry := with_prefix p n_retry; nm_session := with_prefix p n_session |}.

Definition with_session_name (n : cnames) (s : bytes) : cnames :=
  {| nm_login := nm_login n; nm_logincount := nm_logincount n; nm_logout := nm_logout n; nm_retry := nm_retry n; nm_session := s |}.

Definition main_cnames_with (configure : bytes -> cnames -> cnames) (c : kconfig) : cnames :=
  let n1 := if beq (cf_prefix c) default_prefix then default_cnames else configure (cf_prefix c) default_cnames in
  if cf_sso_server c then with_session_name (configure (cf_sso_name c) n1) (cf_sso_name c) else n1.

Definition main_cnames (c : kconfig) : cnames := main_cnames_with configure_cnames c.

Definition cname_of (n : cnames) (k : ckind) : bytes :=
  match k with
  | CkSession => nm_session n | CkLogin => nm_login n | CkLogout => nm_logout n | CkRetry => nm_retry n
  | CkLoginCount => nm_logincount n | CkLegacy => n_legacy
  end.

(* a ConfigureCookieNamesWithPrefix that ALSO re-prefixes the login counter, but with the login cookie's suffix (the
   one-identifier slip "LoginCount = login(prefix)"): kept to show what the distinctness theorem excludes *)
Definition configure_cnames_slip (p : bytes) (n : cnames) : cnames :=
  {| nm_login := with_prefix p n_callback; nm_logincount := with_prefix p n_callback; nm_logout := with_prefix p n_logout;
     nm_retry := with_prefix p n_retry; nm_session := with_prefix p n_session |}.

(* ------------------------------------------------------------------ handler options *)

(* Standalone.CookieOptions: NewStandalone, overwritten by NewSSOServer *)
Definition handler_options (c : kconfig) : options :=
  if cf_sso_server c then
    with_secure (with_samesite (with_domain (with_path default_options slash) (cf_sso_domain c))
                               (samesite_to_http (cf_samesite c))) (cf_secure c)
  else with_secure default_options (cf_secure c).

(* Standalone.GetCookieOptions; mp = GetPath(r) = the matching ingress path of the krequest *)
Definition get_cookie_options (c : kconfig) (mp : bytes) : options :=
  if cf_sso_server c then handler_options c else with_path (handler_options c) mp.

(* ------------------------------------------------------------------ call sites *)

Inductive site :=
| S_login_prompt_clear_session     (* handler.go Login: cookie.Clear(w, cookie.Session, s.GetCookieOptions(r)) *)
| S_login_set_logincount           (* applyLoginRateLimit: cookie.Set(w, c) *)
| S_login_set_login                (* login.SetCookie(w, GetCookieOptions(r).WithSameSite(Lax), ...) *)
| S_callback_clear_login           (* cookie.Clear(w, cookie.Login, opts.WithSameSite(Lax)) *)
| S_callback_set_session           (* sess.SetCookie(w, opts, ...) *)
| S_callback_set_legacy            (* cookie.SetLegacyCookie(w, ..., opts) *)
| S_callback_clear_retry           (* cookie.Clear(w, cookie.Retry, s.GetCookieOptions(r)) *)
| S_logout_clear_session
| S_logout_set_logout              (* logout.SetCookie(w, s.CookieOptions, ...) *)
| S_local_clear_session
| S_logoutcb_clear_logout          (* cookie.Clear(w, cookie.Logout, s.CookieOptions) *)
| S_logoutcb_clear_retry
| S_fc_clear_session
| S_fc_clear_retry
| S_error_set_retry                (* error.go incrementRetryAttempt *)
| S_sso_logout_clear_legacy        (* handler_sso_server.go *)
| S_sso_fc_clear_legacy
| S_sso_local_clear_legacy.

Definition all_sites : list site :=
  [S_login_prompt_clear_session; S_login_set_logincount; S_login_set_login; S_callback_clear_login;
   S_callback_set_session; S_callback_set_legacy; S_callback_clear_retry; S_logout_clear_session;
   S_logout_set_logout; S_local_clear_session; S_logoutcb_clear_logout; S_logoutcb_clear_retry;
   S_fc_clear_session; S_fc_clear_retry; S_error_set_retry; S_sso_logout_clear_legacy;
   S_sso_fc_clear_legacy; S_sso_local_clear_legacy].

Definition site_kind (s : site) : ckind :=
  match s with
  | S_login_prompt_clear_session | S_callback_set_session | S_logout_clear_session
  | S_local_clear_session | S_fc_clear_session => CkSession
  | S_login_set_logincount => CkLoginCount
  | S_login_set_login | S_callback_clear_login => CkLogin
  | S_callback_set_legacy | S_sso_logout_clear_legacy | S_sso_fc_clear_legacy | S_sso_local_clear_legacy => CkLegacy
  | S_callback_clear_retry | S_logoutcb_clear_retry | S_fc_clear_retry | S_error_set_retry => CkRetry
  | S_logout_set_logout | S_logoutcb_clear_logout => CkLogout
  end.

Definition site_is_clear (s : site) : bool :=
  match s with
  | S_login_prompt_clear_session | S_callback_clear_login | S_callback_clear_retry | S_logout_clear_session
  | S_local_clear_session | S_logoutcb_clear_logout | S_logoutcb_clear_retry | S_fc_clear_session
  | S_fc_clear_retry | S_sso_logout_clear_legacy | S_sso_fc_clear_legacy | S_sso_local_clear_legacy => true
  | _ => false
  end.

(* the options expression at the call site *)
Definition site_options (c : kconfig) (mp : bytes) (s : site) : options :=
  match s with
  | S_login_set_login | S_callback_clear_login => with_samesite (get_cookie_options c mp) SSLax
  | S_logout_set_logout | S_logoutcb_clear_logout => handler_options c
  | S_callback_set_legacy | S_sso_logout_clear_legacy | S_sso_fc_clear_legacy | S_sso_local_clear_legacy =>
    with_path (with_samesite (get_cookie_options c mp) SSLax) slash
  | _ => get_cookie_options c mp
  end.

(* the http.Cookie emitted at the site; v and maxage only matter for sets *)
Definition site_emit (c : kconfig) (mp : bytes) (s : site) (v : cvalue) (maxage : Z) : setcookie :=
  let name := cookie_name c (site_kind s) in
  if site_is_clear s then clear name (site_options c mp s)
  else with_maxage (make name v (site_options c mp s)) maxage.

(* ------------------------------------------------------------------ error.go *)

(* getRetryAttempts on the value of the krequest's retry cookie (None = no such cookie) *)
Definition get_retry_attempts (rc : option bytes) : option Z :=
  match rc with None => None | Some v => atoi v end.

(* incrementRetryAttempt: the value written *)
Definition next_retry_value (rc : option bytes) : Z :=
  match get_retry_attempts rc with Some p => wrap64 (p + 1) | None => 1 end.

(* respondError: true = 307 auto-retry redirect, false = error page with the given status *)
Definition auto_retries (rc : option bytes) (status : Z) : bool :=
  (match get_retry_attempts rc with None => true | Some a => a <? max_auto_retry_attempts end)
  && negb (status =? 429).

(* ------------------------------------------------------------------ applyLoginRateLimit *)

(* Max-Age of the logincount cookie in seconds.
   rl_ceil = false: int(window.Seconds()), truncation towards zero;
   rl_ceil = true:  int(math.Ceil(window.Seconds())): rounded up for a non-negative window (ceiling of a negative
   number is truncation towards zero) *)
Definition window_seconds (c : kconfig) : Z :=
  let w := cf_rl_window c in
  if cf_rl_ceil c && (0 <=? w) then Z.quot (w + 999999999) 1000000000 else Z.quot w 1000000000.

Inductive rl_result :=
| RlSkip                      (* disabled or no session: nothing written *)
| RlLimited                   (* error -> 429 *)
| RlCount (n : Z).            (* logincount cookie written with value n, Max-Age = window seconds *)

Definition apply_login_rate_limit (c : kconfig) (has_session : bool) (lc : option bytes) : rl_result :=
  if negb (cf_rl_enabled c) then RlSkip
  else if negb has_session then RlSkip
  else
    let attempts := match lc with
                    | None => 0                                        (* cookie.Make(LoginCount, "0", opts) *)
                    | Some v => match atoi v with Some a => a | None => 0 end
                    end in
    if cf_rl_logins c <=? attempts then RlLimited
    else RlCount (wrap64 (attempts + 1)).

(* ------------------------------------------------------------------ handlers: Set-Cookie headers per kresponse *)

Inductive kendpoint := EpLogin | EpCallback | EpLogout | EpLogoutLocal | EpLogoutCallback | EpFrontChannel.

(* where the handler fails, chosen by the environment *)
Inductive cfault :=
| CFNone
| CFErr (status : Z)   (* an error kresponse through respondError (login/logout: before the handler's cookie
                         operations; callback: after the login cookie was cleared) *)
| CFSoft.              (* front-channel logout: missing sid or store failure -> 202 *)

Record krequest := {
  r_ep : kendpoint;
  r_mp : bytes;                   (* matching ingress path of the krequest *)
  r_retry : option bytes;         (* value of the retry cookie in the krequest *)
  r_logincount : option bytes;    (* value of the logincount cookie in the krequest *)
  r_has_session : bool;           (* the session cookie resolves to a stored session *)
  r_has_login : bool;             (* the krequest carries a (decryptable) login cookie *)
  r_ingress_ok : bool;            (* Ingresses.MatchingIngress finds an ingress (Host and matching path) *)
  r_prompt : bool;                (* login?prompt=login|select_account *)
  r_fault : cfault
}.

Inductive crkind := CrRedirect307 | CrErrorPage | CrOther.
Record kresponse := { rs_status : Z; rs_kind : crkind; rs_cookies : list setcookie }.

Definition respond_error (c : kconfig) (r : krequest) (status : Z) (before : list setcookie) : kresponse :=
  let sc := site_emit c (r_mp r) S_error_set_retry (VLit (itoa (next_retry_value (r_retry r)))) 0 in
  if auto_retries (r_retry r) status
  then {| rs_status := 307; rs_kind := CrRedirect307; rs_cookies := before ++ [sc] |}
  else {| rs_status := status; rs_kind := CrErrorPage; rs_cookies := before ++ [sc] |}.

Definition emit_clear (c : kconfig) (r : krequest) (s : site) : setcookie := site_emit c (r_mp r) s (VLit []) 0.

Definition handle (c : kconfig) (r : krequest) : kresponse :=
  let sso := cf_sso_server c in
  match r_ep r with
  | EpLogin =>
    match r_fault r with
    | CFErr st => respond_error c r (if r_ingress_ok r then st else 500) []
    | _ =>
      if negb (r_ingress_ok r) then respond_error c r 500 []   (* url.LoginCallback: no matching ingress *)
      else
      let pre := if r_prompt r then [emit_clear c r S_login_prompt_clear_session] else [] in
      (* with a prompt the session was just deleted, so the rate limiter finds none *)
      match apply_login_rate_limit c (r_has_session r && negb (r_prompt r)) (r_logincount r) with
      | RlLimited => respond_error c r 429 pre
      | RlSkip =>
        {| rs_status := 302; rs_kind := CrOther;
           rs_cookies := pre ++ [site_emit c (r_mp r) S_login_set_login VOpaque 0] |}
      | RlCount n =>
        {| rs_status := 302; rs_kind := CrOther;
           rs_cookies := pre ++ [site_emit c (r_mp r) S_login_set_logincount (VLit (itoa n)) (window_seconds c);
                                 site_emit c (r_mp r) S_login_set_login VOpaque 0] |}
      end
    end
  | EpCallback =>
    let pre := [emit_clear c r S_callback_clear_login] in
    match r_fault r with
    | CFErr st => respond_error c r (if r_has_login r then st else 401) pre
    | _ =>
      if negb (r_has_login r) then respond_error c r 401 pre   (* openid.GetLoginCookie fails -> Unauthorized *)
      else
      {| rs_status := 302; rs_kind := CrOther;
         rs_cookies := pre ++ [site_emit c (r_mp r) S_callback_set_session VOpaque 0]
                       ++ (if cf_legacy c then [site_emit c (r_mp r) S_callback_set_legacy VOpaque 0] else [])
                       ++ [emit_clear c r S_callback_clear_retry] |}
    end
  | EpLogout =>
    let pre := if sso then [emit_clear c r S_sso_logout_clear_legacy] else [] in
    match r_fault r with
    | CFErr st => respond_error c r (if r_ingress_ok r then st else 500) pre
    | _ =>
      if negb (r_ingress_ok r) then respond_error c r 500 pre   (* url.LogoutCallback: no matching ingress *)
      else
      {| rs_status := 302; rs_kind := CrOther;
         rs_cookies := pre ++ [emit_clear c r S_logout_clear_session;
                               site_emit c (r_mp r) S_logout_set_logout VOpaque 0] |}
    end
  | EpLogoutLocal =>
    let pre := if sso then [emit_clear c r S_sso_local_clear_legacy] else [] in
    match r_fault r with
    | CFErr st => respond_error c r st pre
    | _ => {| rs_status := 204; rs_kind := CrOther; rs_cookies := pre ++ [emit_clear c r S_local_clear_session] |}
    end
  | EpLogoutCallback =>
    {| rs_status := 302; rs_kind := CrOther;
       rs_cookies := [emit_clear c r S_logoutcb_clear_logout; emit_clear c r S_logoutcb_clear_retry] |}
  | EpFrontChannel =>
    let pre := (if sso then [emit_clear c r S_sso_fc_clear_legacy] else []) ++ [emit_clear c r S_fc_clear_session] in
    match r_fault r with
    | CFNone => {| rs_status := 200; rs_kind := CrOther; rs_cookies := pre ++ [emit_clear c r S_fc_clear_retry] |}
    | _ => {| rs_status := 202; rs_kind := CrOther; rs_cookies := pre |}
    end
  end.
