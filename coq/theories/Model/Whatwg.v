(** The WHATWG URL parser (https://url.spec.whatwg.org, "basic URL parser") restricted to what
    determines the ORIGIN of [new URL(input, base)] for an http(s) base URL with a host:
    input pre-processing, scheme state, no-scheme/relative/relative-slash states, the special
    authority states (slashes and backslashes), authority/userinfo/host/port, host parsing for
    domains (percent-decoding, ASCII lower-casing, forbidden code points). NOT modelled: IDNA
    mapping of non-ASCII hosts (a function parameter [idna]), IPv6 literal syntax (a bracketed host
    is returned lower-cased as written), IPv4 canonicalisation of numeric hosts, paths, queries.
    This is a model of the standard, validated against Node's implementation in the driver. NO proofs here. *)
From Coq Require Import NArith List Bool.
From WW Require Import Base.Bytes Model.GoUrl.
Import ListNotations.
Open Scope N_scope.

Inductive worigin :=
| WFail                                         (* parsing fails: the browser does not navigate *)
| WOther (scheme : bytes)                       (* file: or a non-special scheme: not an http(s) origin *)
| WTuple (scheme host : bytes) (port : option N).

(* strip leading/trailing C0 control or space; remove all ASCII tab or newline *)
Definition is_c0sp (c : N) : bool := c <=? 32.
Fixpoint drop_c0 (s : bytes) : bytes :=
  match s with c :: r => if is_c0sp c then drop_c0 r else s | [] => [] end.
Definition strip_c0 (s : bytes) : bytes := rev (drop_c0 (rev (drop_c0 s))).
Definition is_tnr (c : N) : bool := (c =? 9) || (c =? 10) || (c =? 13).
Definition remove_tnr (s : bytes) : bytes := filter (fun c => negb (is_tnr c)) s.
Definition preprocess (s : bytes) : bytes := remove_tnr (strip_c0 s).

(* scheme start state + scheme state: Some (lower-cased scheme, rest after ':') *)
Fixpoint scheme_scan (s acc : bytes) : option (bytes * bytes) :=
  match s with
  | [] => None
  | c :: r =>
    if is_alpha c || is_digit c || mem_byte c [43;45;46] then scheme_scan r (lower_byte c :: acc)
    else if c =? 58 then Some (rev acc, r)
    else None
  end.
Definition split_scheme (s : bytes) : option (bytes * bytes) :=
  match s with c :: _ => if is_alpha c then scheme_scan s [] else None | [] => None end.

Definition w_http : bytes := [104;116;116;112].
Definition w_https : bytes := [104;116;116;112;115].
Definition w_ws : bytes := [119;115].
Definition w_wss : bytes := [119;115;115].
Definition w_ftp : bytes := [102;116;112].
Definition w_file : bytes := [102;105;108;101].

Definition default_port (scheme : bytes) : option N :=
  if beq scheme w_http || beq scheme w_ws then Some 80
  else if beq scheme w_https || beq scheme w_wss then Some 443
  else if beq scheme w_ftp then Some 21 else None.
Definition is_special (scheme : bytes) : bool :=
  beq scheme w_http || beq scheme w_https || beq scheme w_ws || beq scheme w_wss || beq scheme w_ftp || beq scheme w_file.

Definition is_wsl (c : N) : bool := (c =? 47) || (c =? 92).
Definition is_auth_end (c : N) : bool := (c =? 47) || (c =? 92) || (c =? 63) || (c =? 35).
Fixpoint take_authority (s : bytes) : bytes :=
  match s with c :: r => if is_auth_end c then [] else c :: take_authority r | [] => [] end.
Fixpoint skip_slashes (s : bytes) : bytes :=
  match s with c :: r => if is_wsl c then skip_slashes r else s | [] => [] end.

(* host state: split at the first ':' outside brackets *)
Fixpoint split_host_port_w (s : bytes) (inbr : bool) : bytes * option bytes :=
  match s with
  | [] => ([], None)
  | c :: r =>
    if (c =? 58) && negb inbr then ([], Some r)
    else
      let inbr' := if c =? 91 then true else if c =? 93 then false else inbr in
      let '(h, p) := split_host_port_w r inbr' in (c :: h, p)
  end.

Fixpoint percent_decode (s : bytes) : bytes :=
  match s with
  | [] => []
  | c :: r =>
    if c =? 37 then
      match r with
      | a :: b :: r' => if is_hex a && is_hex b then (unhex a * 16 + unhex b) :: percent_decode r' else c :: percent_decode r
      | _ => c :: percent_decode r
      end
    else c :: percent_decode r
  end.

(* forbidden domain code points (forbidden host code points, C0 controls, %, DEL) *)
Definition forbidden_domain (c : N) : bool :=
  (c <=? 32) || mem_byte c [35;47;58;60;62;63;64;91;92;93;94;124;37;127].

Definition all_ascii (s : bytes) : bool := forallb (fun c => c <? 128) s.

Definition decimal (ds : bytes) : N := fold_left (fun acc d => acc * 10 + (d - 48)) ds 0.

Section WithIdna.
  (* domain-to-ASCII of a percent-decoded host containing non-ASCII bytes *)
  Variable idna : bytes -> option bytes.

  Definition host_parse (raw : bytes) : option bytes :=
    if has_prefix raw [91] then (if has_suffix raw [93] then Some (to_lower raw) else None)
    else
      let d := percent_decode raw in
      match (if all_ascii d then Some (to_lower d) else idna d) with
      | None => None
      | Some a => if is_empty a || existsb forbidden_domain a then None else Some a
      end.

  (* special authority ignore slashes state, authority state, host state, port state *)
  Definition authority_origin (scheme : bytes) (s : bytes) : worigin :=
    let auth := take_authority (skip_slashes s) in
    let hp := match cut_last 64 auth with Some (_, h) => h | None => auth end in
    let '(h, p) := split_host_port_w hp false in
    if is_empty h then WFail
    else match host_parse h with
         | None => WFail
         | Some host =>
           match p with
           | None => WTuple scheme host None
           | Some ds =>
             if negb (forallb is_digit ds) then WFail
             else if is_empty ds then WTuple scheme host None
             else let v := decimal ds in
                  if 65535 <? v then WFail
                  else WTuple scheme host (if (match default_port scheme with Some d => d =? v | None => false end)
                                           then None else Some v)
           end
         end.

  (* relative state / relative slash state for a special base *)
  Definition relative_origin (base : worigin) (bscheme : bytes) (s : bytes) : worigin :=
    match s with
    | c :: d :: r => if is_wsl c && is_wsl d then authority_origin bscheme r else base
    | _ => base
    end.

  (* origin of the URL record produced by the basic URL parser for [input] against an http(s) base
     whose origin is (bscheme, bhost, bport) *)
  Definition whatwg_origin (bscheme bhost : bytes) (bport : option N) (input : bytes) : worigin :=
    let base := WTuple bscheme bhost bport in
    let s := preprocess input in
    match split_scheme s with
    | None => relative_origin base bscheme s
    | Some (sch, rest) =>
      if beq sch w_file then WOther sch
      else if is_special sch then
        if beq sch bscheme then
          match rest with
          | c :: d :: r => if (c =? 47) && (d =? 47) then authority_origin sch r else relative_origin base bscheme rest
          | _ => relative_origin base bscheme rest
          end
        else authority_origin sch rest
      else WOther sch
    end.
End WithIdna.

(* executable instance used by the driver: non-ASCII hosts are tagged "!!" (not interpreted) *)
Definition idna_marker (d : bytes) : option bytes := Some (33 :: 33 :: d).
