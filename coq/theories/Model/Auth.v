(** Login, login callback and logout requests (C02, C13), symbolic.
    Transliterated from pkg/openid/client/login.go (Login, newAuthorizationCodeParams, getAcrParam,
    getLocaleParam, getPromptParam, authCodeURL), pkg/openid/oauth2.go (RequestParams, Cookie,
    ExchangeAuthorizationCodeParams, StateMismatchError, client authentication parameters),
    pkg/openid/client/client.go (ClientAuthenticationParams), login_callback.go (LoginCallback,
    authorizationServerIssuerIdentification, redeemTokens), pkg/openid/cookies.go (GetLoginCookie:
    decrypt then untyped JSON unmarshal), pkg/ingress/ingress.go (MatchingPath, MatchingIngress),
    pkg/url/url.go (makeCallbackURL), pkg/openid/client/logout.go, pkg/handler/handler.go
    (Login, LoginCallback wiring: clear login cookie first, error mapping).

    Strings that matter for secrecy / freshness are symbolic values: public byte strings (anything a
    browser or attacker can send, including replayed values), fresh random atoms produced by the
    code's own generator (numbered by a counter), S256 of an atom, the client secret, a signed client
    assertion. Cookies are terms: encryption under a key of a JSON object = field map; decryption under
    another key, or of anything else, fails (ideal AEAD). *)
From Coq Require Import NArith ZArith Bool List.
From WW Require Import Base.Bytes.
Import ListNotations.
Open Scope N_scope.

Inductive sval :=
| VStr (s : bytes)          (* public string *)
| VRnd (n : N)              (* n-th value drawn from the generator (32 random bytes, base64url) *)
| VS256 (n : N)             (* S256 challenge of atom n *)
| VCat (a : bytes) (v : sval)  (* public prefix ++ value (redirect target with a query, ...) *)
| VSecret                   (* the configured client secret *)
| VAssert (jti : N).        (* signed client assertion with fresh jti *)

Fixpoint sval_eqb (a b : sval) : bool :=
  match a, b with
  | VStr x, VStr y => beq x y
  | VRnd x, VRnd y => N.eqb x y
  | VS256 x, VS256 y => N.eqb x y
  | VCat p x, VCat q y => beq p q && sval_eqb x y
  | VSecret, VSecret => true
  | VAssert x, VAssert y => N.eqb x y
  | _, _ => false
  end.

Definition sempty (v : sval) : bool := match v with VStr [] => true | _ => false end.

(* field names of the JSON objects *)
Inductive fname := FState | FNonce | FVerifier | FRedirectURI | FReferer | FAcr | FRedirectTo | FId | FDek.

Definition fname_eqb (a b : fname) : bool :=
  match a, b with
  | FState, FState | FNonce, FNonce | FVerifier, FVerifier | FRedirectURI, FRedirectURI
  | FReferer, FReferer | FAcr, FAcr | FRedirectTo, FRedirectTo | FId, FId | FDek, FDek => true
  | _, _ => false
  end.

Definition fields := list (fname * sval).

Fixpoint fget (f : fname) (l : fields) : sval :=
  match l with
  | [] => VStr []                       (* missing JSON member: zero value *)
  | (g, v) :: r => if fname_eqb f g then v else fget f r
  end.

Inductive cterm :=
| CkNone                                 (* no cookie under that name *)
| CkGarbage                              (* not base64 / not a ciphertext / modified / truncated *)
| CkNonJson (key : N)                    (* valid encryption of something that is not a JSON object *)
| CkEnc (key : N) (f : fields).

(** * Configuration and request *)
Record ingress := { i_scheme : bytes; i_host : bytes; i_path : bytes }.

Definition ingress_string (i : ingress) : bytes := i_scheme i ++ [58; 47; 47] ++ i_host i ++ i_path i.   (* "://" *)

Record acfg := {
  a_key : N;                          (* deployment encryption key id *)
  a_ingresses : list ingress;
  a_client_id : bytes;
  a_issuer : bytes;
  a_acr_default : bytes; a_acr_supported : list bytes; a_acr_legacy : list (bytes * bytes);
  a_locale_default : bytes; a_locale_supported : list bytes;
  a_prompt_allowed : list bytes;
  a_scope : bytes;
  a_resource : bytes;
  a_par : bool;
  a_use_secret : bool;
  a_iss_supported : bool;
  a_cookie_strict : bool;             (* GetLoginCookie rejects records lacking state/nonce/verifier/redirect_uri *)
  a_seg_prefix : bool                 (* MatchingPath matches ingress paths on segment boundaries *)
}.

Record areq := { r_host : bytes; r_xfh : bytes; r_path : bytes;
                 r_level : bytes; r_locale : bytes; r_prompt : bytes }.

Fixpoint mem (x : bytes) (l : list bytes) : bool :=
  match l with [] => false | y :: r => beq x y || mem x r end.

(* hasPathPrefix (segment boundary) / strings.HasPrefix (before the fix) *)
Definition path_prefix (seg : bool) (req p : bytes) : bool :=
  if seg then beq req p || has_prefix req (p ++ [47]) else has_prefix req p.

(* Ingresses.MatchingPath: longest configured non-empty path that prefixes the request path *)
Fixpoint matching_path_from (seg : bool) (paths : list bytes) (reqpath : bytes) (best : bytes) : bytes :=
  match paths with
  | [] => best
  | p :: r =>
    let best' := match p with
                 | [] => best
                 | _ => if path_prefix seg reqpath p && Nat.ltb (length best) (length p) then p else best
                 end in
    matching_path_from seg r reqpath best'
  end.

Definition matching_path (c : acfg) (q : areq) : bytes :=
  matching_path_from (a_seg_prefix c) (map i_path (a_ingresses c)) (r_path q) [].

(* MatchingIngress iterates a Go map: any ingress satisfying the test may be returned *)
Definition ingress_matches (c : acfg) (q : areq) (i : ingress) : bool :=
  (beq (i_host i) (r_host q) || beq (i_host i) (r_xfh q)) && beq (i_path i) (matching_path c q).

Definition matching_ingresses (c : acfg) (q : areq) : list ingress :=
  filter (ingress_matches c q) (a_ingresses c).

Definition path_oauth2_callback : bytes := [47;111;97;117;116;104;50;47;99;97;108;108;98;97;99;107].            (* /oauth2/callback *)
Definition path_oauth2_logout_callback : bytes :=
  [47;111;97;117;116;104;50;47;108;111;103;111;117;116;47;99;97;108;108;98;97;99;107].                          (* /oauth2/logout/callback *)

Definition callback_url (i : ingress) : bytes := ingress_string i ++ path_oauth2_callback.
Definition logout_callback_url (i : ingress) : bytes := ingress_string i ++ path_oauth2_logout_callback.

Fixpoint assoc (x : bytes) (l : list (bytes * bytes)) : option bytes :=
  match l with [] => None | (a, b) :: r => if beq x a then Some b else assoc x r end.

(* getAcrParam *)
Definition acr_param (c : acfg) (q : areq) : bytes :=
  match a_acr_default c with
  | [] => []
  | dflt =>
    let p := match r_level q with [] => dflt | v => v end in
    if mem p (a_acr_supported c) then p
    else match assoc p (a_acr_legacy c) with
         | Some t => if mem t (a_acr_supported c) then t else dflt
         | None => dflt
         end
  end.

(* getLocaleParam *)
Definition locale_param (c : acfg) (q : areq) : bytes :=
  match a_locale_default c with
  | [] => []
  | dflt =>
    let p := match r_locale q with [] => dflt | v => v end in
    if mem p (a_locale_supported c) then p else dflt
  end.

Definition str_login : bytes := [108;111;103;105;110].

(* getPromptParam *)
Definition prompt_param (c : acfg) (q : areq) : bytes :=
  match r_prompt q with
  | [] => []
  | v => if mem v (a_prompt_allowed c) then v else str_login
  end.

(** * Login *)
(* parameter names of the authorization request, as an enumeration *)
Inductive pname := PClientId | PCodeChallenge | PCodeChallengeMethod | PNonce | PRedirectUri | PResponseMode
                 | PResponseType | PScope | PState | PAcrValues | PUiLocales | PPrompt | PMaxAge | PResource
                 | PRequestUri | PClientSecret | PClientAssertion | PClientAssertionType
                 | PCode | PCodeVerifier | PGrantType.

Definition params := list (pname * sval).

Definition s_S256 : bytes := [83;50;53;54].
Definition s_query : bytes := [113;117;101;114;121].
Definition s_code : bytes := [99;111;100;101].
Definition s_zero : bytes := [48].
Definition s_jwt_bearer : bytes :=   (* urn:ietf:params:oauth:client-assertion-type:jwt-bearer *)
  [117;114;110;58;105;101;116;102;58;112;97;114;97;109;115;58;111;97;117;116;104;58;99;108;105;101;110;116;45;97;115;115;101;114;116;105;111;110;45;116;121;112;101;58;106;119;116;45;98;101;97;114;101;114].
Definition s_authorization_code : bytes := [97;117;116;104;111;114;105;122;97;116;105;111;110;95;99;111;100;101].

Definition opt_param (n : pname) (v : bytes) : params := match v with [] => [] | _ => [(n, VStr v)] end.

(* AuthorizationCodeParams.RequestParams; rnd = counter before this request: nonce, state, verifier = rnd, rnd+1, rnd+2 *)
Definition auth_params (c : acfg) (q : areq) (i : ingress) (rnd : N) : params :=
  [(PClientId, VStr (a_client_id c)); (PCodeChallenge, VS256 (rnd + 2)); (PCodeChallengeMethod, VStr s_S256);
   (PNonce, VRnd rnd); (PRedirectUri, VStr (callback_url i)); (PResponseMode, VStr s_query);
   (PResponseType, VStr s_code); (PScope, VStr (a_scope c)); (PState, VRnd (rnd + 1))]
  ++ opt_param PAcrValues (acr_param c q) ++ opt_param PUiLocales (locale_param c q)
  ++ (match prompt_param c q with [] => [] | p => [(PPrompt, VStr p); (PMaxAge, VStr s_zero)] end)
  ++ opt_param PResource (a_resource c).

(* ClientAuthenticationParams; the assertion's jti is a fresh draw *)
Definition client_auth (c : acfg) (jti : N) : params :=
  if a_use_secret c then [(PClientSecret, VSecret)]
  else [(PClientAssertion, VAssert jti); (PClientAssertionType, VStr s_jwt_bearer)].

Definition login_cookie_fields (c : acfg) (q : areq) (i : ingress) (rnd : N) (referer : sval) : fields :=
  [(FAcr, VStr (acr_param c q)); (FVerifier, VRnd (rnd + 2)); (FNonce, VRnd rnd);
   (FRedirectURI, VStr (callback_url i)); (FReferer, referer); (FState, VRnd (rnd + 1))].

(* back-channel operations *)
Inductive bop :=
| BPar (body : params)          (* POST to the pushed-authorization endpoint *)
| BToken (body : params).       (* POST to the token endpoint *)

Record login_out := {
  lo_ok : bool;                  (* 302 to the provider (false: internal error, nothing sent anywhere) *)
  lo_browser : params;           (* query of the Location the browser is sent to *)
  lo_back : list bop;            (* back-channel requests made *)
  lo_cookie : option cterm;      (* login cookie set *)
  lo_rnd : N                     (* generator counter afterwards *)
}.

Definition login_err (rnd : N) : login_out :=
  {| lo_ok := false; lo_browser := []; lo_back := []; lo_cookie := None; lo_rnd := rnd |}.

(* Client.Login + Standalone.Login for the chosen matching ingress when the PAR endpoint (if any) answers the first
   attempt with the request_uri [par_uri]; the general case is [login_par] below *)
Definition login_with (c : acfg) (q : areq) (rnd : N) (referer : sval) (par_uri : sval) (i : ingress) : login_out :=
  let ap := auth_params c q i rnd in
  if a_par c then
    let jti := rnd + 3 in
    {| lo_ok := true;
       lo_browser := [(PClientId, VStr (a_client_id c)); (PRequestUri, par_uri)];
       lo_back := [BPar (ap ++ client_auth c jti)];
       lo_cookie := Some (CkEnc (a_key c) (login_cookie_fields c q i rnd referer));
       lo_rnd := if a_use_secret c then rnd + 3 else rnd + 4 |}
  else
    {| lo_ok := true; lo_browser := ap; lo_back := [];
       lo_cookie := Some (CkEnc (a_key c) (login_cookie_fields c q i rnd referer));
       lo_rnd := rnd + 3 |}.

(** ** The pushed-authorization exchange (authCodeURL: retry.DoValue around oauthPostRequest)
    What the PAR endpoint does is the environment's choice; the list gives its answers to the successive attempts of
    ONE login and ends where the retry budget (pkg/retry: Fibonacci back-off from 50 ms, at most 5 s) ends. *)
Inductive par_reply :=
| ParOk (uri : sval)     (* 2xx with a JSON object as body; uri = its request_uri member (empty if there is none) *)
| ParServerError         (* 5xx: ErrOpenIDServer, the only retryable answer *)
| ParClientError         (* 4xx: ErrOpenIDClient, final *)
| ParMalformed           (* 2xx whose body does not decode, final *)
| ParTimeout             (* connection accepted, request read, no answer before the client's own timeout (10 s), final *)
| ParUnreachable.        (* no connection (refused): final, and nothing reached the endpoint *)

(* the POSTs that reached the endpoint (each carries the full body, client authentication included) and the
   request_uri obtained, if any *)
Fixpoint par_exchange (body : params) (replies : list par_reply) : list bop * option sval :=
  match replies with
  | [] => ([], None)                                   (* retry budget exhausted *)
  | ParOk uri :: _ => ([BPar body], Some uri)
  | ParServerError :: r => let '(b, res) := par_exchange body r in (BPar body :: b, res)
  | ParClientError :: _ | ParMalformed :: _ | ParTimeout :: _ => ([BPar body], None)
  | ParUnreachable :: _ => ([], None)
  end.

(* Client.Login + Standalone.Login for the chosen matching ingress under an arbitrary behaviour of the PAR endpoint.
   The values (nonce, state, verifier, and the assertion's jti) are drawn before the exchange, ONE body and ONE client
   authentication serve all attempts; if the exchange yields no request_uri the login fails (InternalError): no
   authorization request, no login cookie - the browser gets the error / retry response only. Without PAR the
   endpoint is never contacted. *)
Definition login_par (c : acfg) (q : areq) (rnd : N) (referer : sval) (replies : list par_reply) (i : ingress) : login_out :=
  if a_par c then
    let rnd' := if a_use_secret c then rnd + 3 else rnd + 4 in
    match par_exchange (auth_params c q i rnd ++ client_auth c (rnd + 3)) replies with
    | (back, Some uri) =>
      {| lo_ok := true;
         lo_browser := [(PClientId, VStr (a_client_id c)); (PRequestUri, uri)];
         lo_back := back;
         lo_cookie := Some (CkEnc (a_key c) (login_cookie_fields c q i rnd referer));
         lo_rnd := rnd' |}
    | (back, None) => {| lo_ok := false; lo_browser := []; lo_back := back; lo_cookie := None; lo_rnd := rnd' |}
    end
  else login_with c q rnd referer (VStr []) i.

(* the set of admissible results (Go map iteration order) *)
Definition login_results (c : acfg) (q : areq) (rnd : N) (referer : sval) (replies : list par_reply) : list login_out :=
  match matching_ingresses c q with
  | [] => [login_err rnd]          (* url.LoginCallback fails before anything is generated *)
  | l => map (login_par c q rnd referer replies) l
  end.

(** * Logout (self-initiated): the end-session redirect *)
Record logout_out := { go_ok : bool; go_post_logout_redirect_uri : bytes; go_state : sval; go_cookie : option cterm; go_rnd : N }.

Definition logout_with (c : acfg) (rnd : N) (redirect_to : sval) (i : ingress) : logout_out :=
  {| go_ok := true; go_post_logout_redirect_uri := logout_callback_url i; go_state := VRnd rnd;
     go_cookie := Some (CkEnc (a_key c) [(FState, VRnd rnd); (FRedirectTo, redirect_to)]); go_rnd := rnd + 1 |}.

Definition logout_results (c : acfg) (q : areq) (rnd : N) (redirect_to : sval) : list logout_out :=
  match matching_ingresses c q with
  | [] => [{| go_ok := false; go_post_logout_redirect_uri := []; go_state := VStr []; go_cookie := None; go_rnd := rnd |}]
  | l => map (logout_with c rnd redirect_to) l
  end.

(** * Login callback *)
Record cbreq := { cb_state : sval; cb_code : sval; cb_iss : sval; cb_error : sval; cb_cookie : cterm }.

Inductive cbfail := CbNoCookie | CbProviderError | CbInvalidState | CbInvalidIssuer.

(* GetLoginCookie *)
Definition get_login_cookie (c : acfg) (ck : cterm) : option fields :=
  match ck with
  | CkEnc k f =>
    if N.eqb k (a_key c)
    then if a_cookie_strict c
            && (sempty (fget FState f) || sempty (fget FNonce f) || sempty (fget FVerifier f) || sempty (fget FRedirectURI f))
         then None else Some f
    else None
  | _ => None
  end.

(* browser-side checks of Client.LoginCallback, in the code's order; Some grant = the token request that is sent *)
Definition callback_checks (c : acfg) (r : cbreq) : cbfail + (fields * params) :=
  match get_login_cookie c (cb_cookie r) with
  | None => inl CbNoCookie
  | Some f =>
    if negb (sempty (cb_error r)) then inl CbProviderError
    else if sempty (cb_state r) then inl CbInvalidState
    else if negb (sval_eqb (fget FState f) (cb_state r)) then inl CbInvalidState
    else if a_iss_supported c && (sempty (cb_iss r) || negb (sval_eqb (cb_iss r) (VStr (a_issuer c)))) then inl CbInvalidIssuer
    else inr (f, [(PClientId, VStr (a_client_id c)); (PCode, cb_code r); (PCodeVerifier, fget FVerifier f);
                  (PGrantType, VStr s_authorization_code); (PRedirectUri, fget FRedirectURI f)])
  end.

Record cb_out := {
  co_status : N;                 (* 302 success, 401, 500 (terminal: the harness presents an exhausted retry counter) *)
  co_back : list bop;
  co_session : bool;             (* store entry written and session cookie set *)
  co_clears_login : bool
}.

(* [tokens_ok f] : the provider redeemed the code and returned a token response whose ID token passes
   IDToken.Validate against the login record f (C03); arbitrary environment behaviour *)
Definition callback (c : acfg) (tokens_ok : fields -> params -> bool) (jti : N) (r : cbreq) : cb_out :=
  match callback_checks c r with
  | inl CbNoCookie => {| co_status := 401; co_back := []; co_session := false; co_clears_login := true |}
  | inl CbProviderError => {| co_status := 500; co_back := []; co_session := false; co_clears_login := true |}
  | inl CbInvalidState | inl CbInvalidIssuer => {| co_status := 401; co_back := []; co_session := false; co_clears_login := true |}
  | inr (f, grant) =>
    let body := grant ++ client_auth c jti in
    if tokens_ok f body
    then {| co_status := 302; co_back := [BToken body]; co_session := true; co_clears_login := true |}
    else {| co_status := 500; co_back := [BToken body]; co_session := false; co_clears_login := true |}
  end.

(** ** The session store across a callback
    Standalone.LoginCallback performs exactly one store operation, and only at the very end: SessionManager.Create
    writes the new session under the key derived from the provider's session id, after every browser-side check has
    passed and the token response has validated. A session the browser already holds (its cookie travels with the
    callback request) and the sessions of other users are neither read, written nor deleted. The store is a map from
    key ids to value ids; [newk] / [newv] name the key and the (fresh) value of the session that is created, if one is. *)
Definition astore := list (N * N).

Fixpoint astore_get (k : N) (s : astore) : option N :=
  match s with [] => None | (k', v) :: r => if N.eqb k k' then Some v else astore_get k r end.

Fixpoint astore_remove (k : N) (s : astore) : astore :=
  match s with [] => [] | (k', v) :: r => if N.eqb k k' then astore_remove k r else (k', v) :: astore_remove k r end.

Definition astore_write (k v : N) (s : astore) : astore := (k, v) :: astore_remove k s.

Definition callback_store (c : acfg) (tokens_ok : fields -> params -> bool) (jti : N) (r : cbreq) (newk newv : N) (s : astore) : astore :=
  if co_session (callback c tokens_ok jti r) then astore_write newk newv s else s.

(** ** Client authentication over several back-channel requests
    Every back-channel request (pushed authorization request, code redemption, refresh grant) builds its own client
    authentication when it is made (ClientAuthenticationParams -> MakeAssertion: a new token object with a new jti per
    call; no state is shared between calls). For requests that overlap in time only the order in which the assertions
    are built matters: the i-th one built carries the i-th draw, whichever exchange it belongs to. *)
Fixpoint back_channel_auths (c : acfg) (jti : N) (n : nat) : list params :=
  match n with O => [] | S m => client_auth c jti :: back_channel_auths c (jti + 1) m end.

Definition assertion_of (p : params) : option N :=
  match p with (PClientAssertion, VAssert j) :: _ => Some j | _ => None end.

(** secrecy classification used by C13(7): credentials *)
Fixpoint is_credential (v : sval) : bool :=
  match v with VSecret | VAssert _ => true | VCat _ x => is_credential x | _ => false end.

(** * Histories of ONE process: every consumer of the value generator
    pkg/strings.Generate is process-wide: the login (nonce, state; the PKCE verifier and the assertion's jti are further
    draws of the model's counter), the self-initiated logout (state) and - when the provider's ID token carries no sid and
    the callback no session_state - the login callback (the generated session id, 64 bytes; then the session's data key)
    all consume it, in whatever order requests arrive and for whatever configuration. A history is a list of operations,
    each with the configuration it is served under; the counter is threaded through all of them. Operations that draw
    nothing (logout callback, front-channel logout, local logout, refused callbacks, logins without a matching ingress)
    leave the counter where it is. *)
Inductive dkind := DNonce | DState | DVerifier | DLogoutState | DSessionId | DDataKey.

Inductive hop :=
| HLogin (q : areq) (referer : sval) (replies : list par_reply)   (* visit to the login endpoint *)
| HCallback (r : cbreq) (tokens_ok : bool) (provider_sid : bool)  (* login callback; provider_sid: the ID token carries a sid *)
| HLogout (q : areq) (redirect_to : sval)                         (* self-initiated logout, with or without a session *)
| HLogoutCallback                                                  (* return from the provider's end-session endpoint *)
| HLogoutFrontChannel                                              (* provider-initiated logout *)
| HLogoutLocal.                                                    (* local logout *)

Record hstep_out := {
  hs_ok : bool;                    (* login: authorization request produced; callback: session created; logout: redirected *)
  hs_visible : bool;               (* the values drawn were handed to somebody (browser or provider) *)
  hs_draws : list (dkind * N);     (* the values drawn by this operation, in the order they are drawn *)
  hs_rnd : N                       (* generator counter afterwards *)
}.

Definition hist_nothing (ok : bool) (rnd : N) : hstep_out :=
  {| hs_ok := ok; hs_visible := true; hs_draws := []; hs_rnd := rnd |}.

Definition bops_nil (l : list bop) : bool := match l with [] => true | _ => false end.

(* Client.Login for the first matching ingress (all matching ingresses draw alike) *)
Definition hist_login (c : acfg) (q : areq) (referer : sval) (replies : list par_reply) (rnd : N) : hstep_out :=
  match matching_ingresses c q with
  | [] => hist_nothing false rnd
  | i :: _ =>
    let o := login_par c q rnd referer replies i in
    {| hs_ok := lo_ok o; hs_visible := lo_ok o || negb (bops_nil (lo_back o));
       hs_draws := [(DNonce, rnd); (DState, rnd + 1); (DVerifier, rnd + 2)]; hs_rnd := lo_rnd o |}
  end.

(* Standalone.LoginCallback: the client authentication of the token request is built first (a jti draw with a private
   key); SessionManager.Create then takes the session id from the provider or generates it (ExternalID), and makes the
   ticket with a new data key (NewTicket) *)
Definition hist_callback (c : acfg) (r : cbreq) (tokens_ok provider_sid : bool) (rnd : N) : hstep_out :=
  let o := callback c (fun _ _ => tokens_ok) rnd r in
  let rnd1 := if bops_nil (co_back o) then rnd else if a_use_secret c then rnd else rnd + 1 in
  if co_session o
  then let rnd2 := if provider_sid then rnd1 else rnd1 + 1 in
       {| hs_ok := true; hs_visible := true;
          hs_draws := (if provider_sid then [] else [(DSessionId, rnd1)]) ++ [(DDataKey, rnd2)]; hs_rnd := rnd2 + 1 |}
  else hist_nothing false rnd1.

Definition hist_logout (c : acfg) (q : areq) (redirect_to : sval) (rnd : N) : hstep_out :=
  match matching_ingresses c q with
  | [] => hist_nothing false rnd
  | i :: _ =>
    let o := logout_with c rnd redirect_to i in
    {| hs_ok := go_ok o; hs_visible := true; hs_draws := [(DLogoutState, rnd)]; hs_rnd := go_rnd o |}
  end.

Definition hist_step (c : acfg) (op : hop) (rnd : N) : hstep_out :=
  match op with
  | HLogin q referer replies => hist_login c q referer replies rnd
  | HCallback r tokens_ok provider_sid => hist_callback c r tokens_ok provider_sid rnd
  | HLogout q redirect_to => hist_logout c q redirect_to rnd
  | HLogoutCallback | HLogoutFrontChannel | HLogoutLocal => hist_nothing true rnd
  end.

(* all draws of a history, in order, and the counter after it *)
Fixpoint hist_run (ops : list (acfg * hop)) (rnd : N) : list (dkind * N) * N :=
  match ops with
  | [] => ([], rnd)
  | (c, op) :: r =>
    let o := hist_step c op rnd in
    let '(d, rnd') := hist_run r (hs_rnd o) in
    (hs_draws o ++ d, rnd')
  end.
