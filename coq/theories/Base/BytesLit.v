(** Byte-string literals: [bs "GET"] is the [list N] of the ASCII codes. Use it under
    [Eval vm_compute in] so that definitions (and the extracted code) contain plain lists. *)
From Coq Require Import NArith List String Ascii.
Import ListNotations.

Fixpoint bs (s : string) : list N :=
  match s with
  | EmptyString => []
  | String a r => N_of_ascii a :: bs r
  end.
