(** Byte-string lemmas used by the CORS proofs (Proofs/CorsP.v): lower-casing, first occurrence of a
    separator, suffixes behind a separator, prefix+suffix with the length guard. *)
From Coq Require Import NArith List Bool Lia ZifyN ZifyBool ZifyNat.
From WW Require Import Base.Bytes.
Import ListNotations.
Open Scope N_scope.

Definition is_upper (c : N) : bool := (65 <=? c) && (c <=? 90).

(* a byte that is neither an ASCII letter's upper-case form nor produced by lower-casing one *)
Definition caseless (x : N) : Prop := x < 65 \/ 122 < x \/ (90 < x /\ x < 97).

Lemma lower_byte_id c : is_upper c = false -> lower_byte c = c.
Proof. unfold is_upper, lower_byte. intros ->. reflexivity. Qed.

Lemma lower_byte_caseless c x : caseless x -> (lower_byte c = x <-> c = x).
Proof.
  unfold caseless, lower_byte. intros Hx.
  destruct ((65 <=? c) && (c <=? 90)) eqn:E; split; intros H; lia.
Qed.

Lemma lower_byte_idem c : lower_byte (lower_byte c) = lower_byte c.
Proof.
  unfold lower_byte. destruct ((65 <=? c) && (c <=? 90)) eqn:E; [|now rewrite E].
  destruct ((65 <=? c + 32) && (c + 32 <=? 90)) eqn:E2; lia.
Qed.

Lemma to_lower_app a b : to_lower (a ++ b) = to_lower a ++ to_lower b.
Proof. apply map_app. Qed.

Lemma to_lower_idem s : to_lower (to_lower s) = to_lower s.
Proof. unfold to_lower. rewrite map_map. apply map_ext. apply lower_byte_idem. Qed.

Lemma to_lower_length s : length (to_lower s) = length s.
Proof. apply map_length. Qed.

Lemma to_lower_id s : forallb (fun c => negb (is_upper c)) s = true -> to_lower s = s.
Proof.
  unfold to_lower. induction s as [|c s IH]; cbn [map forallb]; [reflexivity|]. intros H. apply andb_prop in H as [H1 H2].
  rewrite IH by exact H2. rewrite lower_byte_id; [reflexivity|]. now destruct (is_upper c).
Qed.

Lemma In_to_lower_caseless x s : caseless x -> (In x (to_lower s) <-> In x s).
Proof.
  intros Hx. unfold to_lower. rewrite in_map_iff. split.
  - intros [c [Hc Hin]]. apply (lower_byte_caseless c x Hx) in Hc. now subst.
  - intros Hin. exists x. split; [|exact Hin]. now apply lower_byte_caseless.
Qed.

Lemma index_byte_None s c : index_byte s c = None <-> ~ In c s.
Proof.
  induction s as [|x s IH]; cbn; [tauto|].
  destruct (N.eqb x c) eqn:E.
  - apply N.eqb_eq in E. split; [discriminate|]. intros H. exfalso. apply H. now left.
  - apply N.eqb_neq in E. destruct (index_byte s c) eqn:Ei; cbn.
    + split; [discriminate|]. intros H. exfalso. destruct IH as [_ IH2].
      assert (~ In c s) as Hn by (intros Hin; apply H; now right). specialize (IH2 Hn). discriminate.
    + split; [|reflexivity]. intros _ [H|H]; [congruence|]. now apply IH.
Qed.

Lemma index_byte_Some s c i : index_byte s c = Some i ->
  exists a b, s = a ++ c :: b /\ length a = i /\ ~ In c a.
Proof.
  revert i; induction s as [|x s IH]; cbn; intros i; [discriminate|].
  destruct (N.eqb x c) eqn:E.
  - apply N.eqb_eq in E. intros [= <-]. exists [], s. subst. repeat split. intros [].
  - apply N.eqb_neq in E. destruct (index_byte s c) eqn:Ei; cbn; [|discriminate].
    intros [= <-]. destruct (IH n eq_refl) as (a & b & -> & Hl & Hn).
    exists (x :: a), b. repeat split; [cbn; now rewrite Hl|]. intros [H|H]; [congruence|contradiction].
Qed.

(* the part before the first occurrence of a separator is determined *)
Lemma split_first_sep (c : N) a b x y :
  ~ In c a -> ~ In c b -> a ++ c :: x = b ++ c :: y -> a = b /\ x = y.
Proof.
  revert b; induction a as [|u a IH]; intros [|v b] Ha Hb H; cbn in H.
  - injection H as ->. split; reflexivity.
  - injection H as -> _. exfalso. apply Hb. now left.
  - injection H as -> _. exfalso. apply Ha. now left.
  - injection H as -> H. destruct (IH b) as [-> ->]; [| |exact H|split; reflexivity].
    + intros Hin. apply Ha. now right.
    + intros Hin. apply Hb. now right.
Qed.

(* a suffix that does not contain the separator lies entirely behind it *)
Lemma suffix_behind_sep (c : N) a b r s :
  a ++ c :: b = r ++ s -> ~ In c s -> exists r', b = r' ++ s.
Proof.
  revert r; induction a as [|u a IH]; intros [|v r] H Hs; cbn in H.
  - exfalso. apply Hs. rewrite <- H. now left.
  - injection H as _ H. now exists r.
  - exfalso. apply Hs. rewrite <- H. right. apply in_or_app. right. now left.
  - injection H as _ H. now apply (IH r).
Qed.

(* prefix and suffix that do not overlap (the length guard of rs/cors' wildcard.match) *)
Lemma middle_of_prefix_suffix (p r r' sfx : bytes) :
  p ++ r = r' ++ sfx -> (length sfx <= length r)%nat -> exists m, r = m ++ sfx.
Proof.
  revert r'; induction p as [|x p IH]; intros [|y r'] H Hl; cbn in H.
  - now exists [].
  - now exists (y :: r').
  - exfalso. rewrite <- H in Hl. cbn in Hl. rewrite app_length in Hl. lia.
  - injection H as _ H. now apply (IH r').
Qed.

Lemma has_prefix_app_l s a b : has_prefix s (a ++ b) = true -> has_prefix s a = true.
Proof.
  rewrite !has_prefix_spec. intros [r ->]. exists (b ++ r). now rewrite app_assoc.
Qed.

Lemma has_prefix_app s a : has_prefix (a ++ s) a = true.
Proof. apply has_prefix_spec. now exists s. Qed.

Lemma has_suffix_app s a : has_suffix (s ++ a) a = true.
Proof. apply has_suffix_spec. now exists s. Qed.

Lemma In_skipn {A} (x : A) n l : In x (skipn n l) -> In x l.
Proof.
  revert l; induction n as [|n IH]; intros l; cbn; [tauto|].
  destruct l as [|y l]; [tauto|]. intros H. right. now apply IH.
Qed.

Lemma In_trim_prefix x s p : In x (trim_prefix s p) -> In x s.
Proof. unfold trim_prefix. destruct (has_prefix s p); [apply In_skipn|tauto]. Qed.
