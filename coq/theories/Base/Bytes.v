(** Byte strings as [list N] (every element < 256) with the string functions of Go that the
    models need. Stdlib only; computable; extractable. *)
From Coq Require Import NArith List Bool Lia.
Import ListNotations.
Open Scope N_scope.

Definition bytes := list N.

Definition wf_bytes (s : bytes) : Prop := Forall (fun c => c < 256) s.

Fixpoint beq (a b : bytes) : bool :=
  match a, b with
  | [], [] => true
  | x :: a', y :: b' => N.eqb x y && beq a' b'
  | _, _ => false
  end.

Lemma beq_eq a b : beq a b = true <-> a = b.
Proof.
  revert b; induction a as [|x a IH]; intros [|y b]; cbn; split; try discriminate; try reflexivity.
  - intros H. apply andb_prop in H as [H1 H2]. apply N.eqb_eq in H1. apply IH in H2. now subst.
  - intros [= -> ->]. rewrite N.eqb_refl. cbn. now apply IH.
Qed.

Lemma beq_refl a : beq a a = true.
Proof. now apply beq_eq. Qed.

Lemma beq_neq a b : beq a b = false <-> a <> b.
Proof.
  split.
  - intros H E. apply beq_eq in E. congruence.
  - intros H. destruct (beq a b) eqn:E; [apply beq_eq in E; contradiction|reflexivity].
Qed.

(* strings.HasPrefix *)
Fixpoint has_prefix (s p : bytes) : bool :=
  match p, s with
  | [], _ => true
  | x :: p', y :: s' => N.eqb x y && has_prefix s' p'
  | _ :: _, [] => false
  end.

Lemma has_prefix_spec s p : has_prefix s p = true <-> exists r, s = p ++ r.
Proof.
  revert s; induction p as [|x p IH]; intros s.
  - cbn. split; [intros _; now exists s|intros _; destruct s; reflexivity].
  - destruct s as [|y s]; cbn [has_prefix].
    + split; [discriminate|intros [r H]; discriminate].
    + split.
      * intros H. apply andb_prop in H as [H1 H2]. apply N.eqb_eq in H1. apply IH in H2 as [r ->]. subst. now exists r.
      * intros [r H]. cbn in H. injection H as Hy Hs. subst y s. rewrite N.eqb_refl. cbn. apply IH. now exists r.
Qed.

(* strings.HasSuffix *)
Definition has_suffix (s p : bytes) : bool := has_prefix (rev s) (rev p).

Lemma has_suffix_spec s p : has_suffix s p = true <-> exists r, s = r ++ p.
Proof.
  unfold has_suffix. rewrite has_prefix_spec. split; intros [r H].
  - exists (rev r). rewrite <- (rev_involutive s), H, rev_app_distr, rev_involutive. reflexivity.
  - exists (rev r). rewrite H, rev_app_distr. reflexivity.
Qed.

(* strings.TrimSuffix / TrimPrefix *)
Definition trim_prefix (s p : bytes) : bytes := if has_prefix s p then skipn (length p) s else s.
Definition trim_suffix (s p : bytes) : bytes :=
  if has_suffix s p then firstn (length s - length p) s else s.

(* ASCII lower-casing (strings.ToLower on ASCII input) *)
Definition lower_byte (c : N) : N := if (65 <=? c) && (c <=? 90) then c + 32 else c.
Definition to_lower (s : bytes) : bytes := map lower_byte s.

(* strings.Contains for a single byte, strings.IndexByte *)
Fixpoint index_byte (s : bytes) (c : N) : option nat :=
  match s with
  | [] => None
  | x :: r => if N.eqb x c then Some O else option_map S (index_byte r c)
  end.

Definition contains_byte (s : bytes) (c : N) : bool :=
  match index_byte s c with Some _ => true | None => false end.

(* strings.Split on a single byte separator *)
Fixpoint split_on (sep : N) (s : bytes) : list bytes :=
  match s with
  | [] => [[]]
  | x :: r =>
    match split_on sep r with
    | cur :: rest => if N.eqb x sep then [] :: cur :: rest else (x :: cur) :: rest
    | [] => [[x]]
    end
  end.

Fixpoint join (sep : bytes) (l : list bytes) : bytes :=
  match l with
  | [] => []
  | [x] => x
  | x :: r => x ++ sep ++ join sep r
  end.
