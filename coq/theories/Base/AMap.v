(** Association-list finite maps keyed by N (stdlib only, computable, extractable). *)
From Coq Require Import NArith List Bool.
Import ListNotations.

Section AMap.
Context {V : Type}.

Fixpoint alookup (k : N) (m : list (N * V)) : option V :=
  match m with
  | [] => None
  | (k', v) :: r => if N.eqb k k' then Some v else alookup k r
  end.

Fixpoint ainsert (k : N) (v : V) (m : list (N * V)) : list (N * V) :=
  match m with
  | [] => [(k, v)]
  | (k', v') :: r => if N.eqb k k' then (k, v) :: r else (k', v') :: ainsert k v r
  end.

Fixpoint adelete (k : N) (m : list (N * V)) : list (N * V) :=
  match m with
  | [] => []
  | (k', v') :: r => if N.eqb k k' then adelete k r else (k', v') :: adelete k r
  end.

Lemma alookup_insert_eq k v m : alookup k (ainsert k v m) = Some v.
Proof.
  induction m as [|[k' v'] r IH]; cbn; [now rewrite N.eqb_refl|].
  destruct (N.eqb k k') eqn:E; cbn; [now rewrite N.eqb_refl|]. now rewrite E.
Qed.

Lemma alookup_insert_ne k k' v m : k <> k' -> alookup k (ainsert k' v m) = alookup k m.
Proof.
  intros Hne. induction m as [|[k'' v''] r IH]; cbn.
  - destruct (N.eqb k k') eqn:E; [apply N.eqb_eq in E; contradiction|reflexivity].
  - destruct (N.eqb k' k'') eqn:E1; cbn.
    + apply N.eqb_eq in E1; subst k''.
      destruct (N.eqb k k') eqn:E; [apply N.eqb_eq in E; contradiction|reflexivity].
    + destruct (N.eqb k k''); [reflexivity|exact IH].
Qed.

Lemma alookup_delete_eq k m : alookup k (adelete k m) = None.
Proof.
  induction m as [|[k' v'] r IH]; cbn; [reflexivity|].
  destruct (N.eqb k k') eqn:E; [exact IH|]. cbn. now rewrite E.
Qed.

Lemma alookup_delete_ne k k' m : k <> k' -> alookup k (adelete k' m) = alookup k m.
Proof.
  intros Hne. induction m as [|[k'' v''] r IH]; cbn; [reflexivity|].
  destruct (N.eqb k' k'') eqn:E1.
  - apply N.eqb_eq in E1; subst k''.
    destruct (N.eqb k k') eqn:E; [apply N.eqb_eq in E; contradiction|exact IH].
  - cbn. destruct (N.eqb k k''); [reflexivity|exact IH].
Qed.

Lemma alookup_insert k k' v m :
  alookup k (ainsert k' v m) = if N.eqb k k' then Some v else alookup k m.
Proof.
  destruct (N.eqb k k') eqn:E.
  - apply N.eqb_eq in E; subst. apply alookup_insert_eq.
  - apply N.eqb_neq in E. now apply alookup_insert_ne.
Qed.

Lemma alookup_delete k k' m :
  alookup k (adelete k' m) = if N.eqb k k' then None else alookup k m.
Proof.
  destruct (N.eqb k k') eqn:E.
  - apply N.eqb_eq in E; subst. apply alookup_delete_eq.
  - apply N.eqb_neq in E. now apply alookup_delete_ne.
Qed.

End AMap.
