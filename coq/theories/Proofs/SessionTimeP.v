(** Lemmas about Model/SessionTime.v (C06, C08). *)
From Coq Require Import ZArith Bool Lia.
From WW Require Import Model.SessionTime.
Open Scope Z_scope.

Lemma quot2_nonneg a : 0 <= a -> 0 <= Z.quot a 2 /\ 2 * Z.quot a 2 <= a /\ a - 1 <= 2 * Z.quot a 2.
Proof.
  intros Ha. rewrite Z.quot_div_nonneg by lia.
  pose proof (Z.div_mod a 2 ltac:(lia)) as Hd.
  pose proof (Z.mod_pos_bound a 2 ltac:(lia)) as Hm. lia.
Qed.

Lemma quot2_nonpos a : a <= 0 -> Z.quot a 2 <= 0 /\ a <= 2 * Z.quot a 2 /\ 2 * Z.quot a 2 <= a + 1.
Proof.
  intros Ha. replace a with (- (- a)) by lia. rewrite Z.quot_opp_l by lia.
  destruct (quot2_nonneg (- a) ltac:(lia)) as (H1 & H2 & H3). lia.
Qed.

Lemma quot2_pos_lt a : 0 < a -> Z.quot a 2 < a.
Proof. intros Ha. destruct (quot2_nonneg a ltac:(lia)) as (H1 & H2 & H3). lia. Qed.

Section WithParams.
Variable P : tparams.

(** cooldown is at most the minimum interval after the last refresh *)
Lemma cooldown_le_min m : 0 <= min_interval P -> cooldown_end P m - refreshed m <= min_interval P.
Proof.
  intros Hp. unfold cooldown_end. destruct (token_lifetime m <=? min_interval P * 2) eqn:E.
  - apply Z.leb_le in E. destruct (Z_le_gt_dec 0 (token_lifetime m)) as [Hl|Hl].
    + destruct (quot2_nonneg _ Hl) as (H1 & H2 & H3). lia.
    + destruct (quot2_nonpos (token_lifetime m) ltac:(lia)) as (H1 & H2 & H3). lia.
  - lia.
Qed.

Lemma cooldown_short m : token_lifetime m <= min_interval P * 2 ->
  cooldown_end P m = refreshed m + Z.quot (token_lifetime m) 2.
Proof. intros H. unfold cooldown_end. apply Z.leb_le in H. now rewrite H. Qed.

Lemma cooldown_long m : min_interval P * 2 < token_lifetime m ->
  cooldown_end P m = refreshed m + min_interval P.
Proof. intros H. unfold cooldown_end. apply Z.leb_gt in H. now rewrite H. Qed.

(** cooldown ends strictly before expiry for a positive lifetime *)
Lemma cooldown_before_expire m : 0 < min_interval P -> 0 < token_lifetime m ->
  refreshed m <= cooldown_end P m /\ cooldown_end P m < expire m.
Proof.
  intros Hp Hl. unfold cooldown_end, token_lifetime in *.
  destruct (expire m - refreshed m <=? min_interval P * 2) eqn:E.
  - apply Z.leb_le in E. pose proof (quot2_pos_lt _ Hl).
    destruct (quot2_nonneg (expire m - refreshed m) ltac:(lia)) as (H1 & _). lia.
  - apply Z.leb_gt in E. lia.
Qed.

(** an expired token is never on cooldown (once refreshed lies in the past) *)
Lemma expired_not_cooldown m now : refreshed m <= now -> 0 <= min_interval P ->
  is_expired m now = true -> on_cooldown P m now = false.
Proof.
  intros Hr Hp He. unfold is_expired in He. apply Z.ltb_lt in He.
  unfold on_cooldown. apply Z.ltb_ge. unfold cooldown_end, token_lifetime.
  destruct (expire m - refreshed m <=? min_interval P * 2) eqn:E.
  - destruct (Z_le_gt_dec 0 (expire m - refreshed m)) as [Hl|Hl].
    + destruct (quot2_nonneg _ Hl) as (H1 & H2 & H3). lia.
    + destruct (quot2_nonpos (expire m - refreshed m) ltac:(lia)) as (H1 & H2 & H3). lia.
  - apply Z.leb_gt in E. lia.
Qed.

Lemma expired_should m now : is_expired m now = true -> should_refresh P m now = true.
Proof. intros H. unfold should_refresh. now rewrite H. Qed.

Lemma cooldown_blocks m now : is_expired m now = false -> on_cooldown P m now = true ->
  should_refresh P m now = false.
Proof. intros H1 H2. unfold should_refresh. now rewrite H1, H2. Qed.

(** never earlier than the candidate instant (min of expiry-leeway and half-life) *)
Lemma never_early m now : should_refresh P m now = true -> is_expired m now = false ->
  next_candidate P m < now /\ cooldown_end P m <= now.
Proof.
  unfold should_refresh. intros H He. rewrite He in H.
  destruct (on_cooldown P m now) eqn:Ec; [discriminate|].
  unfold on_cooldown in Ec. apply Z.ltb_ge in Ec.
  unfold next_refresh in H. destruct (next_candidate P m <? now) eqn:En.
  - apply Z.ltb_lt in En. lia.
  - apply Z.ltb_lt in H. apply Z.ltb_ge in En. lia.
Qed.

Lemma next_candidate_spec m :
  next_candidate P m = expire m - leeway P \/
  (exists t, timeout m = Some t /\ next_candidate P m = refreshed m + Z.quot (t - refreshed m) 2
             /\ next_candidate P m < expire m - leeway P).
Proof.
  unfold next_candidate. destruct (timeout m) as [t|]; [|now left].
  destruct (_ <? _) eqn:E; [|now left]. apply Z.ltb_lt in E. right. exists t. auto.
Qed.

Lemma next_candidate_le m : next_candidate P m <= expire m - leeway P.
Proof. destruct (next_candidate_spec m) as [->|(t & _ & _ & H)]; lia. Qed.

(** exact characterisation of should_refresh for a non-expired token *)
Lemma should_refresh_iff m now : is_expired m now = false ->
  (should_refresh P m now = true <-> next_candidate P m < now /\ cooldown_end P m < now).
Proof.
  intros He. unfold should_refresh. rewrite He. unfold on_cooldown, next_refresh.
  destruct (now <? cooldown_end P m) eqn:Ec.
  - apply Z.ltb_lt in Ec. split; [discriminate|lia].
  - apply Z.ltb_ge in Ec. destruct (next_candidate P m <? now) eqn:En.
    + apply Z.ltb_lt in En. rewrite Z.ltb_lt. lia.
    + apply Z.ltb_ge in En. rewrite Z.ltb_lt. lia.
Qed.

(** a session that keeps being used gets a refresh opportunity before expiry *)
Lemma opportunity m : 0 < token_lifetime m -> 0 < min_interval P -> 0 < leeway P ->
  exists a b, a < b /\ b <= expire m /\
    forall now, a < now <= b ->
      is_expired m now = false /\ should_refresh P m now = true /\ on_cooldown P m now = false.
Proof.
  intros Hl Hp Hw. destruct (cooldown_before_expire m Hp Hl) as (Hc1 & Hc2).
  pose proof (next_candidate_le m) as Hn.
  exists (Z.max (cooldown_end P m) (next_candidate P m)), (expire m).
  split; [lia|]. split; [lia|]. intros now (Ha & Hb).
  assert (He : is_expired m now = false) by (unfold is_expired; apply Z.ltb_ge; lia).
  split; [exact He|]. split.
  - apply should_refresh_iff; [exact He|]. lia.
  - unfold on_cooldown. apply Z.ltb_ge. lia.
Qed.

(** refresh never moves created/ends; timeout only through with_timeout *)
Lemma refresh_keeps_ends m now s : ends (refresh_meta m now s) = ends m /\ created (refresh_meta m now s) = created m.
Proof. split; reflexivity. Qed.

Lemma with_timeout_keeps_ends m now d : ends (with_timeout m now d) = ends m /\ created (with_timeout m now d) = created m.
Proof. split; reflexivity. Qed.

Lemma with_timeout_expire_le m now d : expire (with_timeout m now d) <= now + d /\ expire (with_timeout m now d) <= expire m.
Proof. unfold with_timeout; cbn. destruct (now + d <? expire m) eqn:E; [apply Z.ltb_lt in E|apply Z.ltb_ge in E]; lia. Qed.

Lemma validate_valid has_at m now : validate has_at m now = Valid <->
  has_at = true /\ now <= ends m /\ (forall t, timeout m = Some t -> now <= t).
Proof.
  unfold validate, is_ended, is_timed_out. destruct has_at; cbn; [|split; [discriminate|intros (H&_); discriminate]].
  destruct (ends m <? now) eqn:E1.
  - apply Z.ltb_lt in E1. split; [discriminate|]. intros (_ & H & _). lia.
  - apply Z.ltb_ge in E1. destruct (timeout m) as [t|].
    + destruct (t <? now) eqn:E2.
      * apply Z.ltb_lt in E2. split; [discriminate|]. intros (_ & _ & H). specialize (H t eq_refl). lia.
      * apply Z.ltb_ge in E2. split; [|reflexivity]. intros _. split; [reflexivity|]. split; [lia|]. intros t' [= <-]. lia.
    + split; [|reflexivity]. intros _. split; [reflexivity|]. split; [lia|]. discriminate.
Qed.

(** Verbose fields are the stated functions of the same record *)
Lemma to_seconds_nonneg d : 0 <= to_seconds d.
Proof. unfold to_seconds. destruct (_ <=? 0) eqn:E; [lia|apply Z.leb_gt in E; lia]. Qed.

Lemma to_seconds_zero_iff d : to_seconds d = 0 <-> d < second.
Proof.
  unfold to_seconds, second. split.
  - destruct (_ <=? 0) eqn:E.
    + apply Z.leb_le in E. intros _. destruct (Z_lt_ge_dec d 1000000000) as [?|Hge]; [assumption|].
      pose proof (Z.quot_le_mono 1000000000 d 1000000000 ltac:(lia) ltac:(lia)) as Hq.
      rewrite Z.quot_same in Hq by lia. lia.
    + apply Z.leb_gt in E. lia.
  - intros Hd. destruct (_ <=? 0) eqn:E; [reflexivity|]. apply Z.leb_gt in E.
    destruct (Z_le_gt_dec 0 d) as [H0|H0].
    + rewrite Z.quot_small in E by lia. lia.
    + pose proof (Z.quot_le_mono d 0 1000000000 ltac:(lia) ltac:(lia)) as Hq. rewrite Z.quot_0_l in Hq by lia. lia.
Qed.

End WithParams.
