(** AbsoluteValidator (SSO server / SSO proxy mode): what an accepted string parses to. *)
From Coq Require Import NArith List Bool Lia.
From WW Require Import Base.Bytes Model.GoUrl Model.Redirect.
Import ListNotations.
Open Scope N_scope.

Definition dotted (d : bytes) : bytes := if has_prefix d [46] then d else 46 :: d.

Lemma is_empty_false (s : bytes) : is_empty s = false -> s <> [].
Proof. destruct s; [discriminate|intros _; discriminate]. Qed.

Lemma is_allowed_domain_spec u d : is_allowed_domain u d = true ->
  d <> [] /\ (u_host u = d \/ hostname u = d \/ exists pre, u_host u = pre ++ dotted d).
Proof.
  unfold is_allowed_domain. destruct (is_empty d) eqn:Ed; [discriminate|].
  split; [now apply is_empty_false|].
  destruct (beq (u_host u) d) eqn:E1; [left; now apply beq_eq|].
  destruct (beq (hostname u) d) eqn:E2; [right; left; now apply beq_eq|].
  cbn [orb] in H. right. right. apply has_suffix_spec in H. exact H.
Qed.

Lemma absolute_valid_host domains t : absolute_valid domains t = true ->
  exists v, parse_request_uri t = Some v /\
    (u_scheme v = s_http \/ u_scheme v = s_https) /\ u_host v <> [] /\
    exists d, In d domains /\ d <> [] /\
      (u_host v = d \/ hostname v = d \/ exists pre, u_host v = pre ++ dotted d).
Proof.
  unfold absolute_valid, parsable_request_uri. destruct (is_empty t); [discriminate|].
  destruct (parse_request_uri t) as [v|]; [|discriminate].
  intros H. apply andb_true_iff in H as [H Hh]. apply andb_true_iff in H as [_ Hs].
  exists v. split; [reflexivity|]. split.
  - unfold is_valid_scheme in Hs. apply orb_true_iff in Hs as [Hs|Hs]; apply beq_eq in Hs; auto.
  - unfold is_allowed_host in Hh.
    destruct (is_empty (u_host v)) eqn:E1; [discriminate|]. cbn [orb] in Hh.
    destruct (is_empty (hostname v)); [discriminate|]. cbn [orb] in Hh.
    destruct domains as [|d0 ds]; [discriminate|].
    split; [now apply is_empty_false|].
    apply existsb_exists in Hh as (d & Hin & Hd). exists d. split; [exact Hin|].
    now apply is_allowed_domain_spec.
Qed.
