(** C07, "at most one refresh grant succeeds per cooldown window".

    Setting as for [rt_presented_once] (MachineRtP.v): a locking configuration with the atomic store update,
    fault-free event lists ([ff_event]: every schedule, any number of threads, any logins - re-logins
    included -, logouts, ticks, provider lifetime changes), and the lease hypothesis [lease_ok] ("as long as
    a refresh completes within the lock lifetime").

    The provider log carries no times.  The accepted grants of a run, with their instants, are a GHOST of
    the run ([glog]): a fold over the event list that records, for every step that appends [IdpGrant _ true]
    to the provider log, the session key of the stepping thread, the clock value, the record the thread's
    decision had re-read under the lock ([g_cur]) and the record it goes on to store ([g_new]).  Machine.v is
    untouched; [glog_matches_log] shows that the ghost is exactly the accepted part of the provider log.

    Results:
      - [idp_cool_run] (every event list, faults included): a thread at the provider call holds a record
        whose cooldown has expired (decided by the re-read under the lock, [grant_decision]);
      - [grants_cooldown]: for two accepted grants of one session key, the later one was decided on a stored
        record that was refreshed (or created) at or after the instant of the earlier one and whose cooldown
        had fully expired: t1 <= refreshed cur /\ cooldown_end cur <= t2;
      - [consecutive_grants_exact]: if moreover no login under that key and no other accepted grant for that
        key lies between them, the record the later one was decided on IS the stored result of the earlier
        one: the two grants are separated by at least the cooldown of the earlier one's result;
      - witnesses: non-vacuity (two refreshes of one session 61 s apart, a third request in between is
        answered from the store without a grant), the re-login exclusion of the exact form is needed, and
        what a refresher that outlives its lease does with a non-rotating provider. *)
From Coq Require Import ZArith NArith Bool List Lia.
From WW Require Import Gen.Params Base.AMap Model.SessionTime Proofs.SessionTimeP Model.Machine Model.Entry
     Proofs.MachineP Proofs.MachineModeP Proofs.MachineRefute Proofs.MachineRtP Proofs.MachineTtlP.
Import ListNotations.
Open Scope Z_scope.

(** * The ghost: accepted grants of a run, with their instants *)
Record grant := { g_key : N; g_time : Z; g_rt : N; g_cur : option sdata; g_new : option sdata }.

Definition phase_cur (p : phase) : option sdata := match p with PIdp _ cur _ _ => Some cur | _ => None end.
Definition phase_new (p : phase) : option sdata :=
  match p with PUpdGet _ new _ _ | PUpdSet _ new _ _ => Some new | _ => None end.

(* [lg'] is [lg] with one accepted grant appended (the log is newest first) *)
Definition appended_grant (lg lg' : list idp_ev) : option N :=
  match lg' with
  | IdpGrant rt true :: l => if Nat.eqb (length l) (length lg) then Some rt else None
  | _ => None
  end.

Definition grant_of (c : config) (s : mstate) (e : event) : option grant :=
  match e with
  | ERun t f =>
    match alookup t (m_ts s) with
    | Some th =>
      match appended_grant (w_idp_log (m_w s)) (w_idp_log (fst (fst (step c (m_w s) th f)))) with
      | Some rt => Some {| g_key := cookie_key (t_cookie th); g_time := w_clock (m_w s); g_rt := rt;
                           g_cur := phase_cur (t_phase th);
                           g_new := phase_new (t_phase (snd (fst (step c (m_w s) th f)))) |}
      | None => None
      end
    | None => None
    end
  | _ => None
  end.

Definition olist {A} (o : option A) : list A := match o with Some a => [a] | None => [] end.

(* oldest first, in the order of the run *)
Fixpoint glog (c : config) (s : mstate) (es : list event) : list grant :=
  match es with
  | [] => []
  | e :: r => olist (grant_of c s e) ++ glog c (fst (apply_event c s e)) r
  end.

Lemma glog_app c es1 : forall s es2, glog c s (es1 ++ es2) = glog c s es1 ++ glog c (run_events c s es1) es2.
Proof.
  induction es1 as [|e es1 IH]; intros s es2; [reflexivity|].
  cbn [app glog]. rewrite run_events_cons, IH, app_assoc. reflexivity.
Qed.

Lemma appended_same lg : appended_grant lg lg = None.
Proof.
  destruct lg as [|[rt [|]] l]; cbn; try reflexivity.
  destruct (Nat.eqb_spec (length l) (S (length l))) as [E|E]; [lia|reflexivity].
Qed.

Lemma appended_cons lg rt : appended_grant lg (IdpGrant rt true :: lg) = Some rt.
Proof. cbn. rewrite Nat.eqb_refl. reflexivity. Qed.

(** * What one step (any fault) does to the provider log *)
Inductive logstep (c : config) (w : world) (t : thread) (w' : world) (t' : thread) : Prop :=
| lg_same : w_idp_log w' = w_idp_log w -> logstep c w t w' t'
| lg_rej old cur tok st :
    t_phase t = PIdp old cur tok st -> w_idp_log w' = IdpGrant (sd_rt cur) false :: w_idp_log w ->
    logstep c w t w' t'
| lg_ok old cur tok st new :
    t_phase t = PIdp old cur tok st -> t_cancel t = false ->
    w_idp_log w' = IdpGrant (sd_rt cur) true :: w_idp_log w ->
    t_phase t' = (if c_upd_atomic c then PUpdSet old new tok (w_clock w) else PUpdGet old new tok (w_clock w)) ->
    refreshed (sd_md new) = w_clock w -> logstep c w t w' t'.

Lemma refreshed_data_refreshed c cur a r secs now : refreshed (sd_md (refreshed_data c cur a r secs now)) = now.
Proof. unfold refreshed_data. cbn [sd_md]. destruct (c_inact c); reflexivity. Qed.

Lemma step_logstep c w t f : logstep c w t (fst (fst (step c w t f))) (snd (fst (step c w t f))).
Proof.
  unfold step. destruct (t_phase t) eqn:Hp; cbv beta iota zeta.
  1-3,5-9: step_cases; apply lg_same; reflexivity.
  destruct (t_cancel t) eqn:Hc; [apply lg_same; reflexivity|].
  destruct f; try (apply lg_same; reflexivity); try (destruct (retry_left c start (w_clock w)); apply lg_same; reflexivity).
  all: destruct (idp_refresh w (sd_rt cur)) as [w' [[[a r] secs]|]] eqn:Hi; inv_idp.
  all: try (eapply lg_rej; [exact Hp|reflexivity]).
  all: eapply lg_ok; [exact Hp|exact Hc|reflexivity|cbn [fst snd with_phase t_phase]; reflexivity|apply refreshed_data_refreshed].
Qed.

(* the ghost is exactly the accepted part of the provider log *)
Definition ok_ev (e : idp_ev) : bool := match e with IdpGrant _ b => b end.

Lemma apply_event_log c s e :
  filter ok_ev (w_idp_log (m_w (fst (apply_event c s e)))) =
  map (fun g => IdpGrant (g_rt g) true) (olist (grant_of c s e)) ++ filter ok_ev (w_idp_log (m_w s)).
Proof.
  destruct e as [d|sid acr|t kd ck|t f|t|tau rot]; cbn [apply_event grant_of olist map app].
  - reflexivity.
  - cbn. unfold login. destruct (login_acr_ok c acr); reflexivity.
  - destruct (alookup t (m_ts s)); reflexivity.
  - destruct (alookup t (m_ts s)) as [th|]; [|reflexivity].
    pose proof (step_logstep c (m_w s) th f) as Hl.
    destruct Hl as [H|old cur tok st Hp H|old cur tok st new Hp Hc H Hp' Hr].
    + rewrite H, appended_same. destruct (step c (m_w s) th f) as [[w' th'] o]. cbn [fst snd m_w] in *. rewrite H. reflexivity.
    + rewrite H. cbn [appended_grant olist map app]. destruct (step c (m_w s) th f) as [[w' th'] o]. cbn [fst snd m_w] in *. rewrite H. reflexivity.
    + rewrite H, appended_cons. destruct (step c (m_w s) th f) as [[w' th'] o]. cbn [fst snd m_w olist map app g_rt] in *. rewrite H. reflexivity.
  - destruct (alookup t (m_ts s)); reflexivity.
  - reflexivity.
Qed.

Theorem glog_matches_log c es : forall s,
  filter ok_ev (w_idp_log (m_w (run_events c s es))) =
  rev (map (fun g => IdpGrant (g_rt g) true) (glog c s es)) ++ filter ok_ev (w_idp_log (m_w s)).
Proof.
  induction es as [|e es IH]; intros s; [reflexivity|].
  rewrite run_events_cons, IH, apply_event_log. cbn [glog]. rewrite map_app, rev_app_distr, <- app_assoc.
  f_equal. destruct (grant_of c s e); reflexivity.
Qed.

(* shape of a recorded grant: it is the provider call of a thread that had re-read [cur] under the lock and goes
   on to store [new], refreshed at that instant *)
Lemma grant_of_inv c s e g :
  grant_of c s e = Some g ->
  exists t f th old cur tok st new,
    e = ERun t f /\ alookup t (m_ts s) = Some th /\ t_phase th = PIdp old cur tok st /\ t_cancel th = false /\
    g_key g = cookie_key (t_cookie th) /\ g_time g = w_clock (m_w s) /\ g_rt g = sd_rt cur /\
    g_cur g = Some cur /\ g_new g = Some new /\ refreshed (sd_md new) = w_clock (m_w s) /\
    w_idp_log (fst (fst (step c (m_w s) th f))) = IdpGrant (sd_rt cur) true :: w_idp_log (m_w s) /\
    t_phase (snd (fst (step c (m_w s) th f))) =
      (if c_upd_atomic c then PUpdSet old new tok (w_clock (m_w s)) else PUpdGet old new tok (w_clock (m_w s))).
Proof.
  unfold grant_of. destruct e as [d|sid acr|t kd ck|t f|t|tau rot]; try discriminate.
  destruct (alookup t (m_ts s)) as [th|] eqn:El; [|discriminate].
  pose proof (step_logstep c (m_w s) th f) as Hl.
  destruct Hl as [H|old cur tok st Hp H|old cur tok st new Hp Hc H Hp' Hr].
  - rewrite H, appended_same. discriminate.
  - rewrite H. cbn. discriminate.
  - rewrite H, appended_cons. intros [= <-]. exists t, f, th, old, cur, tok, st, new.
    cbn [g_key g_time g_rt g_cur g_new]. rewrite Hp, Hp'.
    repeat split; try reflexivity; try assumption. destruct (c_upd_atomic c); reflexivity.
Qed.

Lemma grant_of_run c s t th old cur tok st :
  alookup t (m_ts s) = Some th -> t_phase th = PIdp old cur tok st ->
  w_idp_log (fst (fst (step c (m_w s) th FNone))) = IdpGrant (sd_rt cur) true :: w_idp_log (m_w s) ->
  exists g, grant_of c s (ERun t FNone) = Some g /\ g_key g = cookie_key (t_cookie th).
Proof.
  intros El Hp H. unfold grant_of. rewrite El, H, appended_cons. eexists. split; reflexivity.
Qed.

(** * A thread at the provider call holds a record whose cooldown has expired (every event list) *)
Definition idp_cool (c : config) (s : mstate) : Prop :=
  forall t th old cur tok st, alookup t (m_ts s) = Some th -> t_phase th = PIdp old cur tok st ->
    cooldown_end (c_tp c) (sd_md cur) <= w_clock (m_w s).

Ltac not_idp H :=
  cbn [fst snd with_phase t_phase] in H;
  first [ discriminate H
        | left; congruence
        | exfalso; congruence
        | exfalso; apply (f_equal pending) in H;
          rewrite ?after_get_pending, ?to_unlock_pending, ?finish_unlock_pending in H; discriminate H ].

Lemma step_to_idp c w t f old cur tok st :
  t_phase (snd (fst (step c w t f))) = PIdp old cur tok st ->
  t_phase t = PIdp old cur tok st \/ on_cooldown (c_tp c) (sd_md cur) (w_clock w) = false.
Proof.
  destruct (t_phase t) eqn:Hp.
  3: { intros H. right. destruct (step c w t f) as [[w' t'] o] eqn:Hs. cbn [fst snd] in H.
       destruct (grant_decision c w t f _ _ _ w' t' o _ _ _ _ Hp Hs H) as (e & _ & _ & _ & Hcd & _). exact Hcd. }
  all: unfold step; rewrite Hp; cbv beta iota zeta; step_cases; intros H; not_idp H.
Qed.

Lemma apply_event_clock c s e : w_clock (m_w s) <= w_clock (m_w (fst (apply_event c s e))).
Proof.
  destruct e as [d|sid acr|t kd ck|t f|t|tau rot]; cbn [apply_event].
  - cbn. lia.
  - cbn. unfold login. destruct (login_acr_ok c acr); cbn; lia.
  - destruct (alookup t (m_ts s)); cbn; lia.
  - destruct (alookup t (m_ts s)) as [th|]; [|cbn; lia].
    pose proof (step_frame c (m_w s) th f) as (Hclk & _).
    destruct (step c (m_w s) th f) as [[w' th'] o]. cbn [fst snd m_w] in *. lia.
  - destruct (alookup t (m_ts s)); cbn; lia.
  - cbn. lia.
Qed.

Lemma apply_event_idp_cool c s e : idp_cool c s -> idp_cool c (fst (apply_event c s e)).
Proof.
  intros Hi. pose proof (apply_event_clock c s e) as Hmono.
  destruct e as [d|sid acr|t kd ck|t f|t|tau rot]; cbn [apply_event] in *.
  - intros t th old cur tok st Hl Hp. cbn [fst m_w m_ts] in *. specialize (Hi _ _ _ _ _ _ Hl Hp). lia.
  - intros t th old cur tok st Hl Hp. cbn [fst m_w m_ts] in *. specialize (Hi _ _ _ _ _ _ Hl Hp). lia.
  - destruct (alookup t (m_ts s)) eqn:El; [exact Hi|].
    intros t2 th2 old cur tok st Hl Hp. cbn [fst m_w m_ts] in *.
    apply alookup_insert_inv in Hl as [[-> ->]|[_ Hl]]; [|exact (Hi _ _ _ _ _ _ Hl Hp)].
    pose proof (spawn_sessionless c kd ck (w_clock (m_w s))) as Hs. unfold sessionless in Hs. rewrite Hp in Hs. contradiction.
  - destruct (alookup t (m_ts s)) as [th0|] eqn:El; [|exact Hi].
    pose proof (step_to_idp c (m_w s) th0 f) as Hto.
    pose proof (step_frame c (m_w s) th0 f) as (Hclk & _).
    destruct (step c (m_w s) th0 f) as [[w' th'] o]. cbn [fst snd m_w m_ts] in *.
    intros t2 th2 old cur tok st Hl Hp. cbn [fst snd m_w m_ts] in *.
    apply alookup_insert_inv in Hl as [[-> ->]|[_ Hl]].
    + destruct (Hto _ _ _ _ Hp) as [H|H].
      * specialize (Hi _ _ _ _ _ _ El H). lia.
      * unfold on_cooldown in H. apply Z.ltb_ge in H. lia.
    + specialize (Hi _ _ _ _ _ _ Hl Hp). lia.
  - destruct (alookup t (m_ts s)) as [th0|] eqn:El; [|exact Hi].
    intros t2 th2 old cur tok st Hl Hp. cbn [fst m_w m_ts] in *.
    apply alookup_insert_inv in Hl as [[-> ->]|[_ Hl]]; [|exact (Hi _ _ _ _ _ _ Hl Hp)].
    cbn [t_phase] in Hp. exact (Hi _ _ _ _ _ _ El Hp).
  - intros t th old cur tok st Hl Hp. cbn [fst m_w m_ts] in *. exact (Hi _ _ _ _ _ _ Hl Hp).
Qed.

Theorem idp_cool_run c tau es : idp_cool c (run_events c (init_state tau) es).
Proof.
  apply (run_events_inv_all c (idp_cool c)); [intros s e H; now apply apply_event_idp_cool|].
  intros t th old cur tok st H. discriminate.
Qed.

(** * Small facts for the fault-free step analysis *)
Lemma quiet_pending p : phase_rts p = [] -> no_updget p -> pending p = [].
Proof. destruct p; cbn; intros H1 H2; try reflexivity; try discriminate; contradiction. Qed.

Lemma pending_held th d : In d (pending (t_phase th)) -> held_tok th <> None.
Proof. unfold held_tok. destruct (t_phase th); cbn; try contradiction; discriminate. Qed.

Lemma store_get_sub w w' k e :
  (w_store w' = w_store w \/ exists key, w_store w' = adelete key (w_store w)) -> w_clock w' = w_clock w ->
  store_get w' k = Some e -> store_get w k = Some e.
Proof.
  intros Hs Hc H. apply store_get_char in H as [H1 H2]. apply store_get_char. rewrite Hc in H2. split; [|exact H2].
  destruct Hs as [Hs|[key Hs]]; rewrite Hs in H1; [exact H1|].
  rewrite alookup_delete in H1. destruct (N.eqb k key); [discriminate|exact H1].
Qed.

Ltac not_upd H :=
  cbn [fst snd with_phase t_phase] in H;
  first [ discriminate H
        | exfalso; apply (f_equal pending) in H;
          rewrite ?after_get_pending, ?to_unlock_pending, ?finish_unlock_pending in H; discriminate H ].

Lemma step_idp_new c w t old cur tok st old' new tok' st' :
  t_phase t = PIdp old cur tok st -> t_phase (snd (fst (step c w t FNone))) = PUpdSet old' new tok' st' ->
  refreshed (sd_md new) = w_clock w.
Proof.
  intros Hp. unfold step. rewrite Hp. cbv beta iota zeta.
  destruct (t_cancel t); [intros H; not_upd H|].
  destruct (idp_refresh w (sd_rt cur)) as [w' [[[a r] secs]|]] eqn:Hi; intros H; [|not_upd H].
  cbn [fst snd with_phase t_phase] in H. destruct (c_upd_atomic c); [|discriminate H].
  inversion H; subst. apply refreshed_data_refreshed.
Qed.

(** * A per-key invariant, generic in a predicate on session records
    Either a thread for key k is between its accepted grant and its store update, or the live entry stored under
    k holds a record satisfying Q; every record a thread for k may still write satisfies Q.  It is preserved by
    every fault-free event under the lease hypothesis, provided that the records which come into being at the
    event under key k (a login's record, a grant's result - both refreshed at the current instant) satisfy Q. *)
Section KeyInv.
Variable k : N.
Variable Q : sdata -> Prop.

Record key_inv (s : mstate) : Prop := {
  ki_store : upd_at (m_ts s) k \/ forall e, store_get (m_w s) k = Some e -> Q (e_data e);
  ki_pend : forall t th d, alookup t (m_ts s) = Some th -> cookie_key (t_cookie th) = k ->
              In d (pending (t_phase th)) -> Q d
}.

Definition fresh_for (c : config) (s : mstate) (e : event) : Prop :=
  (exists acr, e = ELogin k acr) \/ (exists g, grant_of c s e = Some g /\ g_key g = k).

Lemma key_inv_run c s t :
  locking c -> c_upd_atomic c = true -> rt_inv s -> all_valid s -> key_inv s ->
  (fresh_for c s (ERun t FNone) -> forall d, refreshed (sd_md d) = w_clock (m_w s) -> Q d) ->
  key_inv (fst (apply_event c s (ERun t FNone))).
Proof.
  intros Hl Hu Hi Hval [Hst Hpd] Hfresh.
  cbn [apply_event]. destruct (alookup t (m_ts s)) as [th0|] eqn:El; [|split; assumption].
  destruct (ri_thr _ Hi t th0 El) as [Hcan Hnug].
  pose proof (step_rstep c (m_w s) th0 Hu (ri_rot _ Hi) Hcan Hnug) as Hrs.
  pose proof (step_frame c (m_w s) th0 FNone) as (Hclk & _ & Hck & _).
  pose proof (step_idp_new c (m_w s) th0) as Hnewt.
  assert (Hgr : forall old cur tok st, t_phase th0 = PIdp old cur tok st ->
            w_idp_log (fst (fst (step c (m_w s) th0 FNone))) = IdpGrant (sd_rt cur) true :: w_idp_log (m_w s) ->
            cookie_key (t_cookie th0) = k -> forall d, refreshed (sd_md d) = w_clock (m_w s) -> Q d).
  { intros old cur tok st Hp Hlog Hk0. apply Hfresh. right.
    destruct (grant_of_run c s t th0 old cur tok st El Hp Hlog) as (g & Hg & Hgk). exists g. split; [exact Hg|congruence]. }
  destruct (step c (m_w s) th0 FNone) as [[w' th'] o]. cbn [fst snd] in *.
  pose proof (ri_tok _ Hi) as Htok0.
  assert (Hother : forall t2 th2 d, alookup t2 (ainsert t th' (m_ts s)) = Some th2 -> cookie_key (t_cookie th2) = k ->
             In d (pending (t_phase th2)) -> pending (t_phase th') = [] -> Q d).
  { intros t2 th2 d H2 Hk2 Hd Hpe. apply alookup_insert_inv in H2 as [[-> ->]|[_ H2]].
    - rewrite Hpe in Hd. contradiction.
    - exact (Hpd t2 th2 d H2 Hk2 Hd). }
  assert (Hkeep : is_upd (t_phase th0) = false \/ cookie_key (t_cookie th0) <> k -> upd_at (m_ts s) k -> upd_at (ainsert t th' (m_ts s)) k).
  { intros Hno A. apply upd_at_insert; [|exact A]. intros th E Hup Hk0. rewrite El in E. inversion E; subst th.
    destruct Hno as [Hno|Hno]; [congruence|contradiction]. }
  destruct Hrs as [Hq0 Hs' Hv' Hn' Hg' Hq' Hnu'
                  |old tok st e Hp Hget Hs' Hv' Hn' Hg' Hp'
                  |old cur tok st new Hp Hvc Hs' Hv' Hn' Hg' Hp' Hnew
                  |old cur tok st Hp Hrej
                  |old new tok st e Hp Hget Hs' Hv' Hn' Hg' Hq' Hnu'
                  |old new tok st Hp Hget Hs' Hv' Hn' Hg' Hq' Hnu'].
  - (* no record involved *)
    pose proof (quiet_pending _ Hq' Hnu') as Hpe.
    split; cbn [m_w m_ts].
    + destruct Hst as [A|A]; [left|right].
      * apply Hkeep; [left|exact A]. destruct (t_phase th0); cbn in Hq0; try reflexivity; discriminate.
      * intros e He. apply A. eapply store_get_sub; eauto.
    + intros t2 th2 d H2 Hk2 Hd. exact (Hother t2 th2 d H2 Hk2 Hd Hpe).
  - (* re-read under the lock *)
    split; cbn [m_w m_ts].
    + destruct Hst as [A|A]; [left|right].
      * apply Hkeep; [left; rewrite Hp; reflexivity|exact A].
      * intros e1 He1. apply A. rewrite <- (store_get_same _ _ k Hs' Hclk). exact He1.
    + intros t2 th2 d H2 Hk2 Hd. apply alookup_insert_inv in H2 as [[-> ->]|[_ H2]]; [|exact (Hpd t2 th2 d H2 Hk2 Hd)].
      rewrite Hp' in Hd. cbn in Hd. destruct Hd as [<-|[]]. rewrite Hck in Hk2.
      destruct Hst as [(t3 & th3 & Hl3 & Hk3 & Hu3)|A].
      * exfalso. assert (E : t3 = t).
        { apply (mutex_state s t3 t th3 th0 Htok0 Hval Hl3 El); [congruence|apply upd_held; exact Hu3|].
          unfold held_tok. rewrite Hp. discriminate. }
        subst t3. rewrite El in Hl3. inversion Hl3; subst th3. rewrite Hp in Hu3. discriminate.
      * apply A. rewrite <- Hk2. exact Hget.
  - (* accepted grant *)
    split; cbn [m_w m_ts].
    + destruct (N.eq_dec (cookie_key (t_cookie th0)) k) as [Ek|Ek].
      * left. exists t, th'. split; [apply alookup_insert_eq|split; [rewrite Hck; exact Ek|rewrite Hp'; reflexivity]].
      * destruct Hst as [A|A]; [left|right].
        -- apply Hkeep; [right; exact Ek|exact A].
        -- intros e1 He1. apply A. rewrite <- (store_get_same _ _ k Hs' Hclk). exact He1.
    + intros t2 th2 d H2 Hk2 Hd. apply alookup_insert_inv in H2 as [[-> ->]|[_ H2]]; [|exact (Hpd t2 th2 d H2 Hk2 Hd)].
      rewrite Hp' in Hd. cbn in Hd. destruct Hd as [<-|[]]. rewrite Hck in Hk2.
      apply (Hgr old cur tok st Hp Hg' Hk2). exact (Hnewt _ _ _ _ _ _ _ _ Hp Hp').
  - (* rejected presentation: impossible *)
    exfalso. apply Hrej. apply (ri_thr_valid _ Hi t th0); [exact El|]. rewrite Hp. left. reflexivity.
  - (* store update *)
    pose proof (quiet_pending _ Hq' Hnu') as Hpe.
    split; cbn [m_w m_ts].
    + destruct (N.eq_dec (cookie_key (t_cookie th0)) k) as [Ek|Ek].
      * right. intros e1 He1. apply store_get_char in He1 as [H1 _]. rewrite Hs', Ek in H1.
        rewrite alookup_insert_eq in H1. inversion H1; subst e1. cbn [e_data].
        apply (Hpd t th0 new El Ek). rewrite Hp. left. reflexivity.
      * destruct Hst as [A|A]; [left|right].
        -- apply Hkeep; [right; exact Ek|exact A].
        -- intros e1 He1. apply A. apply store_get_char in He1 as [H1 H2]. rewrite Hclk in H2. rewrite Hs' in H1.
           rewrite alookup_insert_ne in H1; [|congruence]. apply store_get_char. auto.
    + intros t2 th2 d H2 Hk2 Hd. exact (Hother t2 th2 d H2 Hk2 Hd Hpe).
  - (* store update on a vanished entry *)
    pose proof (quiet_pending _ Hq' Hnu') as Hpe.
    split; cbn [m_w m_ts].
    + destruct (N.eq_dec (cookie_key (t_cookie th0)) k) as [Ek|Ek].
      * right. intros e1 He1. rewrite (store_get_same _ _ k Hs' Hclk), <- Ek, Hget in He1. discriminate.
      * destruct Hst as [A|A]; [left|right].
        -- apply Hkeep; [right; exact Ek|exact A].
        -- intros e1 He1. apply A. rewrite <- (store_get_same _ _ k Hs' Hclk). exact He1.
    + intros t2 th2 d H2 Hk2 Hd. exact (Hother t2 th2 d H2 Hk2 Hd Hpe).
Qed.

Lemma key_inv_event c s e :
  locking c -> c_upd_atomic c = true -> ff_event e -> rt_inv s -> all_valid s -> key_inv s ->
  (fresh_for c s e -> forall d, refreshed (sd_md d) = w_clock (m_w s) -> Q d) ->
  key_inv (fst (apply_event c s e)).
Proof.
  intros Hl Hu Hff Hi Hval Hk Hfresh.
  destruct e as [d|sid acr|t kd ck|t f|t|tau rot]; cbn [ff_event] in Hff.
  - (* tick *)
    destruct Hk as [Hst Hpd]. split; cbn [apply_event fst m_w m_ts]; [|exact Hpd].
    destruct Hst as [A|A]; [left; exact A|right]. intros e He. apply A.
    apply store_get_char in He as [H1 H2]. cbn [set_clock w_store w_clock] in H1, H2.
    apply store_get_char. split; [exact H1|]. eapply entry_live_mono; [|exact H2]. lia.
  - (* login *)
    destruct Hk as [Hst Hpd]. split; cbn [apply_event fst m_w m_ts]; [|exact Hpd].
    destruct Hst as [A|A]; [left; exact A|right]. intros e He.
    apply store_get_char in He as [H1 H2]. revert H1 H2. unfold login.
    destruct (login_acr_ok c acr); cbn [w_store w_clock]; intros H1 H2.
    + apply alookup_insert_inv in H1 as [[E1 E2]|[_ H1]].
      * subst e. cbn [e_data]. apply Hfresh; [left; exists acr; rewrite E1; reflexivity|]. cbn [sd_md]. destruct (c_inact c); reflexivity.
      * apply A. apply store_get_char. auto.
    + apply A. apply store_get_char. auto.
  - (* spawn *)
    destruct Hk as [Hst Hpd]. cbn [apply_event]. destruct (alookup t (m_ts s)) eqn:El; [split; assumption|].
    split; cbn [fst m_w m_ts].
    + destruct Hst as [A|A]; [left|right; exact A]. apply upd_at_insert; [|exact A]. intros th0 E. congruence.
    + intros t2 th2 d0 H2 Hk2 Hd. apply alookup_insert_inv in H2 as [[-> ->]|[_ H2]]; [|exact (Hpd t2 th2 d0 H2 Hk2 Hd)].
      rewrite (sessionless_pending _ (spawn_sessionless c kd ck (w_clock (m_w s)))) in Hd. contradiction.
  - subst f. now apply key_inv_run.
  - contradiction.
  - destruct Hk as [Hst Hpd]. split; cbn [apply_event fst m_w m_ts]; [exact Hst|exact Hpd].
Qed.

End KeyInv.

(** * Two accepted grants of one session key are separated by an expired cooldown *)
(* record d was refreshed (or created) at or after instant tm *)
Definition since (tm : Z) (d : sdata) : Prop := tm <= refreshed (sd_md d).

(* the later grant g2 was decided on a record refreshed at or after the earlier grant g1 and whose cooldown had
   expired when g2 was made *)
Definition grant_sep (c : config) (g1 g2 : grant) : Prop :=
  exists cur, g_cur g2 = Some cur /\ g_time g1 <= refreshed (sd_md cur) /\
              cooldown_end (c_tp c) (sd_md cur) <= g_time g2.

Fixpoint sepl (c : config) (L : list grant) : Prop :=
  match L with
  | [] => True
  | g1 :: r => (forall g2, In g2 r -> g_key g2 = g_key g1 -> grant_sep c g1 g2) /\ sepl c r
  end.

Lemma sepl_snoc c L g :
  sepl c L -> (forall g1, In g1 L -> g_key g = g_key g1 -> grant_sep c g1 g) -> sepl c (L ++ [g]).
Proof.
  induction L as [|g1 L IH]; intros Hs Hg; cbn [app sepl]; [split; [intros g2 []|exact I]|].
  destruct Hs as [H1 H2]. split.
  - intros g2 Hin Hk. apply in_app_or in Hin as [Hin|[<-|[]]]; [exact (H1 g2 Hin Hk)|].
    apply Hg; [left; reflexivity|exact Hk].
  - apply IH; [exact H2|]. intros g0 Hin. apply Hg. right. exact Hin.
Qed.

Lemma sepl_decomp c L : sepl c L ->
  forall l1 g1 l2 g2 l3, L = l1 ++ g1 :: l2 ++ g2 :: l3 -> g_key g2 = g_key g1 -> grant_sep c g1 g2.
Proof.
  intros Hs l1. revert L Hs. induction l1 as [|x l1 IH]; intros L Hs g1 l2 g2 l3 E Hk; subst L; cbn [app sepl] in Hs.
  - destruct Hs as [H _]. apply H; [|exact Hk]. apply in_or_app. right. left. reflexivity.
  - destruct Hs as [_ H]. exact (IH _ H g1 l2 g2 l3 eq_refl Hk).
Qed.

Record cd_inv (c : config) (s : mstate) (L : list grant) : Prop := {
  ci_time : forall g, In g L -> g_time g <= w_clock (m_w s);
  ci_key : forall g, In g L -> key_inv (g_key g) (since (g_time g)) s;
  ci_sep : sepl c L
}.

Lemma cd_inv_event c s L e :
  locking c -> c_upd_atomic c = true -> ff_event e -> rt_inv s -> all_valid s -> idp_cool c s ->
  cd_inv c s L -> cd_inv c (fst (apply_event c s e)) (L ++ olist (grant_of c s e)).
Proof.
  intros Hl Hu Hff Hi Hval Hcool [Htm Hkey Hsep].
  pose proof (apply_event_clock c s e) as Hmono.
  assert (Hold : forall g, In g L -> key_inv (g_key g) (since (g_time g)) (fst (apply_event c s e))).
  { intros g Hin. apply key_inv_event; auto. intros _ d Hd. unfold since. rewrite Hd. exact (Htm g Hin). }
  destruct (grant_of c s e) as [g0|] eqn:Hg0; cbn [olist].
  2: { rewrite app_nil_r. split; [|exact Hold|exact Hsep]. intros g Hin. specialize (Htm g Hin). lia. }
  destruct (grant_of_inv c s e g0 Hg0) as (t & f & th0 & old & cur & tok & st & new & -> & El & Hp & Hcan & Hgk & Hgt & _ & Hgc & Hgn & Hnr & _ & Hp').
  rewrite Hu in Hp'. cbn [ff_event] in Hff. subst f.
  split.
  - intros g Hin. apply in_app_or in Hin as [Hin|[<-|[]]]; [specialize (Htm g Hin); lia|lia].
  - intros g Hin. apply in_app_or in Hin as [Hin|[<-|[]]]; [exact (Hold g Hin)|].
    (* the new grant: its thread is now between grant and store update; no other thread for the key holds a record *)
    cbn [apply_event]. rewrite El.
    pose proof (step_frame c (m_w s) th0 FNone) as (_ & _ & Hck & _).
    destruct (step c (m_w s) th0 FNone) as [[w' th'] o]. cbn [fst snd m_w m_ts] in *.
    split; cbn [m_w m_ts].
    + left. exists t, th'. split; [apply alookup_insert_eq|split; [rewrite Hck; symmetry; exact Hgk|rewrite Hp'; reflexivity]].
    + intros t2 th2 d H2 Hk2 Hd. apply alookup_insert_inv in H2 as [[-> ->]|[Hne H2]].
      * rewrite Hp' in Hd. cbn in Hd. destruct Hd as [<-|[]]. unfold since. lia.
      * exfalso. apply Hne. apply (mutex_state s t2 t th2 th0 (ri_tok _ Hi) Hval H2 El); [congruence|eapply pending_held; exact Hd|].
        unfold held_tok. rewrite Hp. discriminate.
  - apply sepl_snoc; [exact Hsep|]. intros g1 Hin Hk. exists cur. split; [exact Hgc|]. split.
    + apply (ki_pend _ _ _ (Hkey g1 Hin) t th0 cur El); [congruence|]. rewrite Hp. left. reflexivity.
    + rewrite Hgt. exact (Hcool t th0 old cur tok st El Hp).
Qed.

Lemma prefix_facts c tau es es1 es2 :
  locking c -> c_upd_atomic c = true -> Forall ff_event es -> lease_ok c (init_state tau) es -> es = es1 ++ es2 ->
  rt_inv (run_events c (init_state tau) es1) /\ all_valid (run_events c (init_state tau) es1) /\
  Forall ff_event es1 /\ lease_ok c (init_state tau) es1.
Proof.
  intros Hl Hu Hff Hle ->. apply Forall_app in Hff as [Hff1 _].
  assert (Hle1 : lease_ok c (init_state tau) es1).
  { intros a b E. apply (Hle a (b ++ es2)). rewrite E, app_assoc. reflexivity. }
  split; [|split; [|split]]; auto.
  - apply rt_inv_run; auto. apply rt_inv_init.
  - apply (Hle es1 es2). reflexivity.
Qed.

Theorem cd_inv_run c tau es :
  locking c -> c_upd_atomic c = true -> Forall ff_event es -> lease_ok c (init_state tau) es ->
  cd_inv c (run_events c (init_state tau) es) (glog c (init_state tau) es).
Proof.
  intros Hl Hu. induction es as [|e es IH] using rev_ind; intros Hff Hle.
  - split; cbn; [intros g []|intros g []|exact I].
  - destruct (prefix_facts c tau _ es [e] Hl Hu Hff Hle eq_refl) as (Hi & Hval & Hff1 & Hle1).
    apply Forall_app in Hff as [_ Hfe]. inversion Hfe as [|? ? Hfe1 _]; subst.
    rewrite run_events_app, glog_app. cbn [run_events fold_left glog]. rewrite app_nil_r.
    apply cd_inv_event; auto. apply idp_cool_run.
Qed.

Theorem grants_cooldown c tau es :
  locking c -> c_upd_atomic c = true -> Forall ff_event es -> lease_ok c (init_state tau) es ->
  forall l1 g1 l2 g2 l3, glog c (init_state tau) es = l1 ++ g1 :: l2 ++ g2 :: l3 -> g_key g2 = g_key g1 ->
    grant_sep c g1 g2.
Proof.
  intros Hl Hu Hff Hle. apply sepl_decomp. exact (ci_sep _ _ _ (cd_inv_run c tau es Hl Hu Hff Hle)).
Qed.

(* in numbers: the distance is at least the cooldown length of the record the later grant was decided on; for a
   token lifetime above twice the minimum interval that is the minimum refresh interval *)
Corollary grants_cooldown_distance c tau es :
  locking c -> c_upd_atomic c = true -> Forall ff_event es -> lease_ok c (init_state tau) es ->
  forall l1 g1 l2 g2 l3, glog c (init_state tau) es = l1 ++ g1 :: l2 ++ g2 :: l3 -> g_key g2 = g_key g1 ->
    exists cur, g_cur g2 = Some cur /\
      g_time g1 + (cooldown_end (c_tp c) (sd_md cur) - refreshed (sd_md cur)) <= g_time g2 /\
      (min_interval (c_tp c) * 2 < token_lifetime (sd_md cur) -> g_time g1 + min_interval (c_tp c) <= g_time g2).
Proof.
  intros Hl Hu Hff Hle l1 g1 l2 g2 l3 E Hk.
  destruct (grants_cooldown c tau es Hl Hu Hff Hle l1 g1 l2 g2 l3 E Hk) as (cur & H1 & H2 & H3).
  exists cur. split; [exact H1|]. split; [lia|]. intros Hlt. rewrite (cooldown_long _ _ Hlt) in H3. lia.
Qed.

(** * Consecutive grants without a re-login in between: the later one was decided on the earlier one's result *)
(* right after an accepted grant, the granting thread is the only one for its key that holds a record *)
Lemma grant_key_inv (Q : sdata -> Prop) c s t th0 old cur tok st new :
  rt_inv s -> all_valid s -> alookup t (m_ts s) = Some th0 -> t_phase th0 = PIdp old cur tok st ->
  t_phase (snd (fst (step c (m_w s) th0 FNone))) = PUpdSet old new tok (w_clock (m_w s)) -> Q new ->
  key_inv (cookie_key (t_cookie th0)) Q (fst (apply_event c s (ERun t FNone))).
Proof.
  intros Hi Hval El Hp Hp' Hq. cbn [apply_event]. rewrite El.
  pose proof (step_frame c (m_w s) th0 FNone) as (_ & _ & Hck & _).
  destruct (step c (m_w s) th0 FNone) as [[w' th'] o]. cbn [fst snd m_w m_ts] in *.
  split; cbn [m_w m_ts].
  - left. exists t, th'. split; [apply alookup_insert_eq|split; [rewrite Hck; reflexivity|rewrite Hp'; reflexivity]].
  - intros t2 th2 d H2 Hk2 Hd. apply alookup_insert_inv in H2 as [[-> ->]|[Hne H2]].
    + rewrite Hp' in Hd. cbn in Hd. destruct Hd as [<-|[]]. exact Hq.
    + exfalso. apply Hne. apply (mutex_state s t2 t th2 th0 (ri_tok _ Hi) Hval H2 El Hk2); [eapply pending_held; exact Hd|].
      unfold held_tok. rewrite Hp. discriminate.
Qed.

(* a stretch of the run without a login under k and without an accepted grant for k keeps the invariant *)
Lemma key_inv_segment k (Q : sdata -> Prop) c s es :
  locking c -> c_upd_atomic c = true -> Forall ff_event es ->
  (forall pre post, es = pre ++ post -> rt_inv (run_events c s pre) /\ all_valid (run_events c s pre)) ->
  Forall (not_login_of k) es -> (forall g, In g (glog c s es) -> g_key g <> k) ->
  key_inv k Q s -> key_inv k Q (run_events c s es).
Proof.
  intros Hl Hu. induction es as [|e es IH] using rev_ind; intros Hff Hpre Hnl Hng H0; [exact H0|].
  apply Forall_app in Hff as [Hff1 Hfe]. inversion Hfe as [|? ? Hfe1 _]; subst.
  apply Forall_app in Hnl as [Hnl1 Hne]. inversion Hne as [|? ? Hne1 _]; subst.
  rewrite run_events_app. cbn [run_events fold_left].
  destruct (Hpre es [e] eq_refl) as [Hi Hval].
  apply key_inv_event; auto.
  - apply IH; auto.
    + intros pre post E. apply (Hpre pre (post ++ [e])). rewrite E, app_assoc. reflexivity.
    + intros g Hin. apply Hng. rewrite glog_app. apply in_or_app. left. exact Hin.
  - intros [[acr ->]|(g & Hg & Hgk)]; exfalso.
    + exact (Hne1 acr eq_refl).
    + apply (Hng g); [|exact Hgk]. rewrite glog_app. apply in_or_app. right. cbn [glog]. rewrite Hg. left. reflexivity.
Qed.

Theorem consecutive_grants_exact c tau es1 e1 es2 e2 es3 g1 g2 :
  locking c -> c_upd_atomic c = true ->
  Forall ff_event (es1 ++ e1 :: es2 ++ e2 :: es3) -> lease_ok c (init_state tau) (es1 ++ e1 :: es2 ++ e2 :: es3) ->
  let s1 := run_events c (init_state tau) es1 in
  let s1' := fst (apply_event c s1 e1) in
  let s2 := run_events c s1' es2 in
  grant_of c s1 e1 = Some g1 -> grant_of c s2 e2 = Some g2 -> g_key g2 = g_key g1 ->
  Forall (not_login_of (g_key g1)) es2 ->
  (forall g, In g (glog c s1' es2) -> g_key g <> g_key g1) ->
  exists n, g_new g1 = Some n /\ g_cur g2 = Some n /\ refreshed (sd_md n) = g_time g1 /\
            cooldown_end (c_tp c) (sd_md n) <= g_time g2.
Proof.
  intros Hl Hu Hff Hle s1 s1' s2 Hg1 Hg2 Hk Hnl Hng.
  destruct (prefix_facts c tau _ es1 (e1 :: es2 ++ e2 :: es3) Hl Hu Hff Hle eq_refl) as (Hi1 & Hval1 & _ & _).
  fold s1 in Hi1, Hval1.
  destruct (grant_of_inv c s1 e1 g1 Hg1) as (t1 & f1 & th1 & old1 & cur1 & tok1 & st1 & n & -> & El1 & Hp1 & _ & Hgk1 & Hgt1 & _ & _ & Hgn1 & Hnr1 & _ & Hp1').
  rewrite Hu in Hp1'.
  assert (Hf1 : f1 = FNone).
  { apply Forall_app in Hff as [_ Hff]. inversion Hff as [|? ? H _]; subst. exact H. }
  subst f1.
  assert (Hs1' : s1' = run_events c (init_state tau) (es1 ++ [ERun t1 FNone])).
  { rewrite run_events_app. reflexivity. }
  assert (Hseg : forall pre post, es2 = pre ++ post -> rt_inv (run_events c s1' pre) /\ all_valid (run_events c s1' pre)).
  { intros pre post E. rewrite Hs1', <- run_events_app.
    destruct (prefix_facts c tau _ ((es1 ++ [ERun t1 FNone]) ++ pre) (post ++ e2 :: es3) Hl Hu Hff Hle) as (A & B & _); [|auto].
    rewrite E, <- !app_assoc. reflexivity. }
  assert (Hff2 : Forall ff_event es2).
  { apply Forall_app in Hff as [_ Hff]. inversion Hff as [|? ? _ H]; subst. apply Forall_app in H as [H _]. exact H. }
  assert (Hk1 : key_inv (g_key g1) (fun d => d = n) s1').
  { rewrite Hgk1. apply (grant_key_inv (fun d => d = n) c s1 t1 th1 old1 cur1 tok1 st1 n); auto. }
  pose proof (key_inv_segment (g_key g1) (fun d => d = n) c s1' es2 Hl Hu Hff2 Hseg Hnl Hng Hk1) as Hk2.
  fold s2 in Hk2.
  destruct (grant_of_inv c s2 e2 g2 Hg2) as (t2 & f2 & th2 & old2 & cur2 & tok2 & st2 & n2 & -> & El2 & Hp2 & _ & Hgk2 & Hgt2 & _ & Hgc2 & _).
  assert (Hcur : cur2 = n).
  { apply (ki_pend _ _ _ Hk2 t2 th2 cur2 El2); [congruence|]. rewrite Hp2. left. reflexivity. }
  subst cur2. exists n. split; [exact Hgn1|]. split; [exact Hgc2|]. split; [congruence|].
  rewrite Hgt2.
  assert (Hs2 : s2 = run_events c (init_state tau) ((es1 ++ [ERun t1 FNone]) ++ es2)).
  { unfold s2. rewrite Hs1', <- run_events_app. reflexivity. }
  rewrite Hs2. apply (idp_cool_run c tau _ t2 th2 old2 n tok2 st2); [rewrite <- Hs2; exact El2|exact Hp2].
Qed.

(** * Between a refresher's re-read and its release no other thread for the key is in the critical section *)
(* under the lease hypothesis, in every reachable state at most one thread per session key is past the lock
   acquisition (re-read, provider call, store update, release): in particular, between a thread's decision read
   and its store update no other thread for that key passes from the re-read to the provider call *)
Corollary one_refresher_per_key c tau es t1 t2 th1 th2 :
  locking c -> lease_ok c (init_state tau) es ->
  let s := run_events c (init_state tau) es in
  alookup t1 (m_ts s) = Some th1 -> alookup t2 (m_ts s) = Some th2 ->
  cookie_key (t_cookie th1) = cookie_key (t_cookie th2) ->
  held_tok th1 <> None -> held_tok th2 <> None -> t1 = t2.
Proof.
  intros Hl Hle s H1 H2 Hk Hh1 Hh2.
  assert (Hinv : tok_inv s).
  { apply (run_events_inv_all c tok_inv); [|apply tok_inv_init]. intros s0 e H0. now apply apply_event_tok_inv. }
  apply (mutex_state s t1 t2 th1 th2 Hinv); auto.
  apply (Hle es []). symmetry. apply app_nil_r.
Qed.

(** * Non-vacuity and witnesses *)
Definition run6 (t : N) : list event := [ERun t FNone; ERun t FNone; ERun t FNone; ERun t FNone; ERun t FNone; ERun t FNone].

(* key, instant, presented refresh-token value of a recorded grant *)
Definition g_summary (g : grant) : N * Z * N := (g_key g, g_time g, g_rt g).

(* one session; request 1 refreshes at 3601 s (read, lock, re-read, grant, update, unlock); request 3 asks for a
   refresh 30 s later and is answered from the store (cooldown running: no operation, no grant); request 2 asks
   61 s after the first grant and refreshes *)
Definition cooldown_schedule : list event :=
  [ELogin 1 2; ETick (3601 * second); ESpawn 1 KProxy tk] ++ run6 1 ++
  [ETick (30 * second); ESpawn 3 KRefresh tk; ERun 3 FNone; ETick (31 * second); ESpawn 2 KRefresh tk] ++ run6 2.

Lemma cooldown_nonvacuous :
  let c := cfg_redis true true true in
  let s := run_events c (init_state 3600) cooldown_schedule in
  locking c /\ c_upd_atomic c = true /\ Forall ff_event cooldown_schedule /\
  lease_ok c (init_state 3600) cooldown_schedule /\
  map g_summary (glog c (init_state 3600) cooldown_schedule) = [(1%N, 3601 * second, 1%N); (1%N, 3662 * second, 2%N)] /\
  w_idp_log (m_w s) = [IdpGrant 2 true; IdpGrant 1 true] /\
  min_interval (c_tp c) = 60 * second /\
  (exists d tm, thread_done s 3 (OMeta 200 d tm) /\ sd_rt d = 2%N) /\
  (exists d tm, thread_done s 2 (OMeta 200 d tm) /\ sd_rt d = 3%N).
Proof.
  cbn zeta. split; [reflexivity|split; [reflexivity|split; [|split]]].
  - unfold cooldown_schedule, run6. cbn [app]. repeat constructor.
  - apply lease_chk_ok. vm_compute. reflexivity.
  - split; [vm_compute; reflexivity|]. split; [vm_compute; reflexivity|]. split; [reflexivity|].
    split; vm_compute; do 2 eexists; (split; [eexists; split; reflexivity|reflexivity]).
Qed.

(* the exact form needs the re-login exclusion: after the first refresh the provider's token lifetime drops to
   20 s and the user logs in again under the same session id; the new session's record has a 10 s cooldown and is
   refreshed 11 s after the first grant - a different record than the first grant's result, whose cooldown (60 s)
   is still running.  The general form [grant_sep] holds. *)
Definition cooldown_relogin_schedule : list event :=
  [ELogin 1 2; ETick (3601 * second); ESpawn 1 KProxy tk] ++ run6 1 ++
  [EProvider 20 true; ELogin 1 2; ETick (11 * second); ESpawn 2 KRefresh (CTicket 1 3)] ++ run6 2.

Lemma cooldown_relogin_needed :
  let c := cfg_redis true true true in
  locking c /\ c_upd_atomic c = true /\ Forall ff_event cooldown_relogin_schedule /\
  lease_ok c (init_state 3600) cooldown_relogin_schedule /\
  exists g1 g2 n, glog c (init_state 3600) cooldown_relogin_schedule = [g1; g2] /\
    g_summary g1 = (1%N, 3601 * second, 1%N) /\ g_summary g2 = (1%N, 3612 * second, 3%N) /\
    g_new g1 = Some n /\ g_cur g2 <> Some n /\ g_time g2 < cooldown_end (c_tp c) (sd_md n) /\
    grant_sep c g1 g2.
Proof.
  cbn zeta. split; [reflexivity|split; [reflexivity|split; [|split]]].
  - unfold cooldown_relogin_schedule, run6. cbn [app]. repeat constructor.
  - apply lease_chk_ok. vm_compute. reflexivity.
  - remember (glog (cfg_redis true true true) (init_state 3600) cooldown_relogin_schedule) as L eqn:E.
    vm_compute in E. subst L. do 3 eexists. split; [reflexivity|]. cbn [g_new g_cur g_time].
    split; [reflexivity|split; [reflexivity|split; [reflexivity|split; [discriminate|split; [reflexivity|]]]]].
    eexists. cbn [g_cur g_time]. split; [reflexivity|]. vm_compute. split; discriminate.
Qed.

(* the lease hypothesis is needed: refresher 1 stalls between its accepted grant (3601 s) and its store update for
   longer than the lock lifetime; the user logs in again under the same id; refresher 2 refreshes the new session
   (3661 s) and stores its result; then refresher 1's conditional write lands (the known re-login overwrite) and
   puts back a record refreshed at 3601 s, whose cooldown is over: refresher 3 is granted a refresh at 3662 s, one
   second after the previous accepted grant for the key, decided on a record refreshed before it.
   Fault-free events, rotating provider; only [lease_ok] fails. *)
Definition cooldown_stalled_schedule : list event :=
  [ELogin 1 2; ETick (3601 * second); ESpawn 1 KProxy tk; ERun 1 FNone; ERun 1 FNone; ERun 1 FNone; ERun 1 FNone;
   ETick (10 * second); EProvider 20 true; ELogin 1 2; ETick (50 * second); ESpawn 2 KRefresh (CTicket 1 3)] ++ run6 2 ++
  [ERun 1 FNone; ERun 1 FNone; ETick (1 * second); ESpawn 3 KRefresh tk] ++ run6 3.

Lemma cooldown_lease_needed :
  let c := cfg_redis true true true in
  locking c /\ c_upd_atomic c = true /\ Forall ff_event cooldown_stalled_schedule /\
  ~ lease_ok c (init_state 3600) cooldown_stalled_schedule /\
  exists g1 g2 g3, glog c (init_state 3600) cooldown_stalled_schedule = [g1; g2; g3] /\
    g_summary g1 = (1%N, 3601 * second, 1%N) /\ g_summary g2 = (1%N, 3661 * second, 3%N) /\
    g_summary g3 = (1%N, 3662 * second, 2%N) /\ ~ grant_sep c g2 g3.
Proof.
  cbn zeta. split; [reflexivity|split; [reflexivity|split; [|split]]].
  - unfold cooldown_stalled_schedule, run6. cbn [app]. repeat constructor.
  - intros H. specialize (H (firstn 8 cooldown_stalled_schedule) (skipn 8 cooldown_stalled_schedule) eq_refl).
    unfold all_valid in H.
    remember (run_events (cfg_redis true true true) (init_state 3600) (firstn 8 cooldown_stalled_schedule)) as s eqn:Es.
    vm_compute in Es. subst s. cbn [m_ts m_w] in H.
    specialize (H 1%N _ eq_refl ltac:(discriminate)).
    destruct H as (tok & l & _ & Hg & _). vm_compute in Hg. discriminate.
  - remember (glog (cfg_redis true true true) (init_state 3600) cooldown_stalled_schedule) as L eqn:E.
    vm_compute in E. subst L. do 3 eexists. split; [reflexivity|].
    split; [reflexivity|split; [reflexivity|split; [reflexivity|]]].
    intros (cur & Hc & H1 & _). cbn [g_cur g_time] in Hc, H1. inversion Hc; subst cur. vm_compute in H1. apply H1. reflexivity.
Qed.

(* what a refresher that outlives its lease between grant and store update does when the provider does NOT rotate
   refresh tokens (outside [ff_event]): the stored record is still the old one, its cooldown long over, and the
   next refresher is granted a refresh with the same token 10 s after the first grant.  (With a rotating provider
   that second presentation is rejected: [stalled_refresher_double_presentation].) *)
Definition cooldown_stalled_nonrotating_schedule : list event :=
  [EProvider 3600 false; ELogin 1 2; ETick (3601 * second); ESpawn 1 KProxy tk; ESpawn 2 KProxy tk;
   ERun 1 FNone; ERun 1 FNone; ERun 1 FNone; ERun 1 FNone; ETick (10 * second);
   ERun 2 FNone; ERun 2 FNone; ERun 2 FNone; ERun 2 FNone].

Lemma cooldown_stalled_nonrotating :
  let c := cfg_redis true true true in
  ~ lease_ok c (init_state 3600) cooldown_stalled_nonrotating_schedule /\
  map g_summary (glog c (init_state 3600) cooldown_stalled_nonrotating_schedule) =
    [(1%N, 3601 * second, 1%N); (1%N, 3611 * second, 1%N)] /\
  w_idp_log (m_w (run_events c (init_state 3600) cooldown_stalled_nonrotating_schedule)) = [IdpGrant 1 true; IdpGrant 1 true].
Proof.
  cbn zeta. split; [|split; vm_compute; reflexivity].
  intros H. specialize (H (firstn 10 cooldown_stalled_nonrotating_schedule) (skipn 10 cooldown_stalled_nonrotating_schedule) eq_refl).
  unfold all_valid in H.
  remember (run_events (cfg_redis true true true) (init_state 3600) (firstn 10 cooldown_stalled_nonrotating_schedule)) as s eqn:Es.
  vm_compute in Es. subst s. cbn [m_ts m_w] in H.
  specialize (H 1%N _ eq_refl ltac:(discriminate)).
  destruct H as (tok & l & _ & Hg & _). vm_compute in Hg. discriminate.
Qed.

(* the hypotheses of [consecutive_grants_exact] hold on [cooldown_schedule], split at its two grants *)
Lemma cooldown_exact_nonvacuous :
  let c := cfg_redis true true true in
  let es1 := firstn 6 cooldown_schedule in
  let es2 := firstn 10 (skipn 7 cooldown_schedule) in
  let es3 := skipn 18 cooldown_schedule in
  let s1 := run_events c (init_state 3600) es1 in
  let s1' := fst (apply_event c s1 (ERun 1 FNone)) in
  let s2 := run_events c s1' es2 in
  cooldown_schedule = es1 ++ ERun 1 FNone :: es2 ++ ERun 2 FNone :: es3 /\
  Forall (not_login_of 1%N) es2 /\ glog c s1' es2 = [] /\
  exists g1 g2 n, grant_of c s1 (ERun 1 FNone) = Some g1 /\ grant_of c s2 (ERun 2 FNone) = Some g2 /\
    g_key g1 = 1%N /\ g_key g2 = 1%N /\ g_time g1 = 3601 * second /\ g_time g2 = 3662 * second /\
    g_new g1 = Some n /\ g_cur g2 = Some n /\ cooldown_end (c_tp c) (sd_md n) = 3661 * second.
Proof.
  cbn zeta. split; [reflexivity|split; [|split]].
  - cbn. repeat constructor; intros acr; discriminate.
  - vm_compute. reflexivity.
  - match goal with |- exists g1 g2 n, ?a = _ /\ ?b = _ /\ _ =>
      remember a as o1 eqn:E1; remember b as o2 eqn:E2; vm_compute in E1; vm_compute in E2; subst o1 o2 end.
    do 3 eexists. split; [reflexivity|split; [reflexivity|]]. cbn [g_key g_time g_new g_cur].
    repeat split; reflexivity.
Qed.
