(** SSO-server mode: for every string accepted by AbsoluteValidator, Go's net/url and the WHATWG parser
    delimit the SAME authority substring (no backslash / '#' / '?' / userinfo confusion). *)
From Coq Require Import NArith List Bool Lia ZifyN ZifyBool ZifyNat PeanoNat.
From WW Require Import Base.Bytes Model.GoUrl Model.Redirect Model.Whatwg Proofs.GoUrlP Proofs.AbsoluteP.
Import ListNotations.
Open Scope N_scope.

Definition auth_ok (c : N) : Prop := is_auth_end c = false.

Lemma take_authority_app A tail : Forall auth_ok A ->
  (tail = [] \/ exists c t, tail = c :: t /\ is_auth_end c = true) -> take_authority (A ++ tail) = A.
Proof.
  intros HA Ht. induction HA as [|a A Ha HA IH]; cbn [app take_authority].
  - destruct Ht as [->|(c & t & -> & Hc)]; cbn [take_authority]; [reflexivity|now rewrite Hc].
  - unfold auth_ok in Ha. rewrite Ha, IH. reflexivity.
Qed.

Lemma skip_slashes_id s : match s with c :: _ => auth_ok c | [] => True end -> skip_slashes s = s.
Proof.
  destruct s as [|c s]; cbn [skip_slashes]; [reflexivity|]. unfold auth_ok, is_auth_end, is_wsl. intros H.
  destruct ((c =? 47) || (c =? 92)) eqn:E; [lia|reflexivity].
Qed.

Lemma should_escape_host_ok c mode : is_hostmode mode = true -> should_escape c mode = false -> auth_ok c.
Proof.
  unfold should_escape, mem_byte, existsb, is_alpha, is_digit, auth_ok, is_auth_end. intros Hm H.
  destruct mode; try discriminate; cbn [is_hostmode is_fragmode andb] in H;
    repeat match type of H with context[if ?b then _ else _] => let E := fresh "E" in destruct b eqn:E end;
    try discriminate; lia.
Qed.

Lemma is_hex_ok a : is_hex a = true -> auth_ok a.
Proof. unfold is_hex, is_digit, auth_ok, is_auth_end. lia. Qed.

Lemma unescape_host_ok mode : is_hostmode mode = true ->
  forall n s r, (length s <= n)%nat -> unescape mode s = Some r -> Forall auth_ok s.
Proof.
  intros Hm. induction n as [|n IH]; intros s r Hlen H.
  - destruct s; [constructor|cbn in Hlen; lia].
  - destruct s as [|c s']; [constructor|]. cbn [length] in Hlen. cbn [unescape] in H.
    destruct (c =? 37) eqn:E37.
    + apply N.eqb_eq in E37. subst c.
      destruct s' as [|a [|b s'']]; try discriminate.
      destruct (is_hex a && is_hex b) eqn:Eh; [|discriminate]. apply andb_true_iff in Eh as [Ha Hb].
      repeat match type of H with context[if ?b then _ else _] => destruct b end; try discriminate.
      destruct (unescape mode s'') as [r'|] eqn:Eu; [|discriminate].
      cbn [length] in Hlen.
      constructor; [reflexivity|]. constructor; [now apply is_hex_ok|]. constructor; [now apply is_hex_ok|].
      apply (IH s'' r'); [lia|exact Eu].
    + destruct (c =? 43) eqn:E43.
      * destruct (unescape mode s') as [r'|] eqn:Eu; [|discriminate].
        constructor; [unfold auth_ok, is_auth_end; lia|]. apply (IH s' r'); [lia|exact Eu].
      * rewrite Hm in H. cbn [andb] in H.
        destruct ((c <? 128) && should_escape c mode) eqn:Ec; [discriminate|].
        destruct (unescape mode s') as [r'|] eqn:Eu; [|discriminate].
        constructor; [|apply (IH s' r'); [lia|exact Eu]].
        destruct (c <? 128) eqn:El; cbn [andb] in Ec.
        -- now apply should_escape_host_ok with mode.
        -- unfold auth_ok, is_auth_end. lia.
Qed.

Lemma unescape_ok mode s r : is_hostmode mode = true -> unescape mode s = Some r -> Forall auth_ok s.
Proof. intros Hm H. exact (unescape_host_ok mode Hm (length s) s r (Nat.le_refl _) H). Qed.

Lemma cut_last_decomp c s a b : cut_last c s = Some (a, b) -> s = a ++ c :: b.
Proof.
  revert a b. induction s as [|x s IH]; intros a b; cbn [cut_last]; [discriminate|].
  destruct (cut_last c s) as [[a' b']|].
  - intros [= <- <-]. cbn. now rewrite (IH a' b' eq_refl).
  - destruct (x =? c) eqn:E; [|discriminate]. intros [= <- <-]. apply N.eqb_eq in E. now subst.
Qed.

Lemma cut_byte_decomp c s a : (forall b, cut_byte c s = (a, Some b) -> s = a ++ c :: b) /\ (cut_byte c s = (a, None) -> s = a).
Proof.
  revert a. induction s as [|x s IH]; intros a; cbn [cut_byte].
  - split; [discriminate|]. now intros [= <-].
  - destruct (x =? c) eqn:E.
    + split; [|discriminate]. intros b [= <- <-]. apply N.eqb_eq in E. now subst.
    + destruct (cut_byte c s) as [a' ob]. split.
      * intros b [= <- ->]. cbn. f_equal. now apply (IH a').
      * intros [= <- ->]. f_equal. now apply (IH a').
Qed.

Lemma index_pct25_decomp s a b : index_pct25 s = Some (a, b) -> s = a ++ b.
Proof.
  revert a b. induction s as [|c s IH]; intros a b; cbn [index_pct25]; [discriminate|].
  destruct (has_prefix (c :: s) [37;50;53]); [now intros [= <- <-]|].
  destruct (index_pct25 s) as [[a' b']|]; [|discriminate]. intros [= <- <-]. cbn. now rewrite (IH a' b' eq_refl).
Qed.

Lemma parse_host_ok h host : parse_host h = Some host -> Forall auth_ok h.
Proof.
  unfold parse_host. destruct (has_prefix h [91]).
  - destruct (cut_last 93 h) as [[before colonport]|] eqn:Ec; [|discriminate].
    destruct (negb (valid_optional_port colonport)); [discriminate|].
    destruct (index_pct25 before) as [[h1 zp]|] eqn:Ei; [|now apply unescape_ok].
    destruct (unescape EHost h1) as [r1|] eqn:E1; cbn [opt_bind]; [|discriminate].
    destruct (unescape EZone zp) as [r2|] eqn:E2; cbn [opt_bind]; [|discriminate].
    destruct (unescape EHost (93 :: colonport)) as [r3|] eqn:E3; cbn [opt_bind]; [|discriminate].
    intros _. rewrite (cut_last_decomp _ _ _ _ Ec), (index_pct25_decomp _ _ _ Ei), <- app_assoc.
    apply Forall_app. split; [now apply unescape_ok with EHost r1|].
    apply Forall_app. split; [now apply unescape_ok with EZone r2|now apply unescape_ok with EHost r3].
  - destruct (cut_last 58 h) as [[a b]|]; [destruct (negb (valid_optional_port (58 :: b))); [discriminate|]|];
      now apply unescape_ok.
Qed.

Lemma valid_userinfo_ok ui : valid_userinfo ui = true -> Forall auth_ok ui.
Proof.
  unfold valid_userinfo. intros H. rewrite forallb_forall in H. apply Forall_forall. intros c Hc.
  specialize (H c Hc). unfold valid_userinfo_byte, is_alpha, is_digit, mem_byte, existsb in H.
  unfold auth_ok, is_auth_end. lia.
Qed.

Lemma parse_authority_ok a user host : parse_authority a = Some (user, host) -> Forall auth_ok a.
Proof.
  unfold parse_authority. destruct (cut_last 64 a) as [[ui hp]|] eqn:Ec.
  - destruct (parse_host hp) as [h|] eqn:Eh; cbn [opt_bind]; [|discriminate].
    destruct (negb (valid_userinfo ui)) eqn:Ev; [discriminate|]. intros _.
    rewrite (cut_last_decomp _ _ _ _ Ec). apply Forall_app. split.
    + apply valid_userinfo_ok. now apply negb_false_iff in Ev.
    + constructor; [reflexivity|now apply parse_host_ok with h].
  - destruct (parse_host a) as [h|] eqn:Eh; cbn [opt_bind]; [|discriminate]. intros _. now apply parse_host_ok with h.
Qed.

Lemma get_scheme_aux_decomp s acc orig sch r : get_scheme_aux s acc orig = Some (sch, r) -> sch <> [] ->
  rev acc ++ s = sch ++ 58 :: r.
Proof.
  revert acc. induction s as [|c s IH]; intros acc; cbn [get_scheme_aux].
  - intros [= <- <-] H. contradiction.
  - destruct (is_alpha c).
    + intros H Hn. rewrite <- (IH (c :: acc) H Hn). cbn [rev]. now rewrite <- app_assoc.
    + destruct (is_digit c || mem_byte c [43;45;46]).
      * destruct (is_empty acc); [intros [= <- <-] H; contradiction|].
        intros H Hn. rewrite <- (IH (c :: acc) H Hn). cbn [rev]. now rewrite <- app_assoc.
      * destruct (c =? 58) eqn:E; [|intros [= <- <-] H; contradiction].
        destruct (is_empty acc); [discriminate|]. intros [= <- <-] _. apply N.eqb_eq in E. now subst.
Qed.

Lemma get_scheme_decomp s sch r : get_scheme s = Some (sch, r) -> sch <> [] -> s = sch ++ 58 :: r.
Proof. intros H Hn. exact (get_scheme_aux_decomp s [] s sch r H Hn). Qed.

Lemma split_query_go_decomp rest0 rest fq rq : split_query_go rest0 = (rest, fq, rq) ->
  exists q, rest0 = rest ++ q /\ (q = [] \/ exists q', q = 63 :: q').
Proof.
  unfold split_query_go. destruct (has_suffix rest0 [63] && Nat.eqb (count_byte 63 rest0) 1) eqn:E.
  - apply andb_true_iff in E as [E _]. apply has_suffix_spec in E as [r ->]. intros [= <- _ _].
    exists [63]. unfold remove_last. rewrite removelast_last. split; [reflexivity|]. right. now exists [].
  - destruct (cut_byte 63 rest0) as [a [b|]] eqn:Ec; intros [= <- _ _].
    + exists (63 :: b). split; [now apply (cut_byte_decomp 63 rest0 a)|]. right. now exists b.
    + exists []. split; [|now left]. rewrite app_nil_r. now apply (cut_byte_decomp 63 rest0 a).
Qed.

(* a URL with a host came from the authority branch of parse *)
Lemma parse_rest_host sch rest via fq rq v : parse_rest sch rest via fq rq = Some v -> u_host v <> [] ->
  exists authority rest' user,
    rest = 47 :: 47 :: authority ++ rest' /\ (rest' = [] \/ exists b, rest' = 47 :: b) /\
    parse_authority authority = Some (user, u_host v) /\ u_scheme v = sch.
Proof.
  intros H Hh. pose proof (parse_rest_scheme _ _ _ _ _ _ H) as Hs. revert H. unfold parse_rest.
  destruct (negb (has_prefix rest [47]) && negb (is_empty sch)); [intros [= <-]; contradiction|].
  destruct (negb (has_prefix rest [47]) && via); [discriminate|].
  destruct (negb (has_prefix rest [47]) && contains_byte (fst (cut_byte 47 rest)) 58); [discriminate|].
  destruct ((negb (is_empty sch) || negb via && negb (has_prefix rest [47; 47; 47])) && has_prefix rest [47; 47]) eqn:Ed.
  - apply andb_true_iff in Ed as [_ Ed]. apply has_prefix_spec in Ed as [a0 ->]. cbn [app skipn].
    destruct (cut_byte 47 a0) as [a ob] eqn:Ec.
    assert (Hdec : exists rest', a0 = a ++ rest' /\ (rest' = [] \/ exists b, rest' = 47 :: b) /\
                   (match ob with Some b => (a, 47 :: b) | None => (a, []) end) = (a, rest')).
    { destruct ob as [b|].
      - exists (47 :: b). split; [now apply (cut_byte_decomp 47 a0 a)|]. split; [right; now exists b|reflexivity].
      - exists []. split; [rewrite app_nil_r; now apply (cut_byte_decomp 47 a0 a)|]. split; [now left|reflexivity]. }
    destruct Hdec as (rest' & -> & Hr & Em). rewrite Em.
    destruct (parse_authority a) as [[user host]|] eqn:Ea; cbn [opt_bind]; [|discriminate].
    destruct (set_path rest') as [[p rp]|]; cbn [opt_bind]; [|discriminate].
    intros [= <-]. exists a, rest', user. cbn [u_host]. repeat split; try assumption; reflexivity.
  - destruct (set_path rest) as [[p rp]|]; cbn [opt_bind]; [|discriminate]. intros [= <-]. contradiction.
Qed.

(* Go and WHATWG cut out the same authority from an accepted absolute redirect *)
Theorem absolute_valid_authority domains t : absolute_valid domains t = true ->
  exists sch0 authority tail user v,
    t = sch0 ++ 58 :: 47 :: 47 :: authority ++ tail /\
    parse_request_uri t = Some v /\ u_scheme v = to_lower sch0 /\ (u_scheme v = s_http \/ u_scheme v = s_https) /\
    parse_authority authority = Some (user, u_host v) /\ authority <> [] /\
    take_authority (skip_slashes (47 :: 47 :: authority ++ tail)) = authority.
Proof.
  intros H. destruct (absolute_valid_host domains t H) as (v & Hp & Hs & Hh & _).
  pose proof Hp as Hp0. unfold parse_request_uri, parse in Hp.
  destruct (contains_ctl t); [discriminate|]. destruct (is_empty t && true); [discriminate|].
  destruct (beq t [42]); [injection Hp as <-; contradiction|].
  destruct (get_scheme t) as [[sch0 rest0]|] eqn:Eg; cbn [opt_bind] in Hp; [|discriminate].
  destruct (split_query_go rest0) as [[rest fq] rq] eqn:Eq.
  destruct (parse_rest_host _ _ _ _ _ _ Hp Hh) as (authority & rest' & user & -> & Hr & Ha & Hsch).
  assert (Hn : sch0 <> []).
  { intros ->. cbn in Hsch. destruct Hs as [Hs|Hs]; rewrite Hs in Hsch; discriminate. }
  destruct (split_query_go_decomp _ _ _ _ Eq) as (q & -> & Hq).
  exists sch0, authority, (rest' ++ q), user, v.
  assert (Hne : authority <> []).
  { intros ->. cbn in Ha. injection Ha as _ Ha. now symmetry in Ha. }
  pose proof (parse_authority_ok _ _ _ Ha) as Hok.
  repeat split; try assumption.
  - rewrite (get_scheme_decomp _ _ _ Eg Hn). cbn [app]. now rewrite <- app_assoc.
  - cbn [skip_slashes]. change (is_wsl 47) with true. cbn iota.
    rewrite skip_slashes_id.
    + apply take_authority_app; [exact Hok|].
      destruct Hr as [->|[b ->]]; cbn [app].
      * destruct Hq as [->|[q' ->]]; [now left|right]. eexists; eexists. split; reflexivity.
      * right. eexists; eexists. split; reflexivity.
    + destruct authority as [|c au]; [contradiction|]. cbn [app]. now inversion Hok.
Qed.

(* the host that Go validates is parsed from the text after the LAST '@' - the text WHATWG's host state reads *)
Definition after_last_at (authority : bytes) : bytes :=
  match cut_last 64 authority with Some (_, h) => h | None => authority end.

Lemma parse_authority_hostpart a user host : parse_authority a = Some (user, host) ->
  parse_host (after_last_at a) = Some host.
Proof.
  unfold parse_authority, after_last_at. destruct (cut_last 64 a) as [[ui hp]|].
  - destruct (parse_host hp) as [h|]; cbn [opt_bind]; [|discriminate].
    destruct (negb (valid_userinfo ui)); [discriminate|].
    destruct (cut_byte 58 ui) as [un [pw|]].
    + destruct (unescape EUserPassword un); cbn [opt_bind]; [|discriminate].
      destruct (unescape EUserPassword pw); cbn [opt_bind]; [|discriminate]. now intros [= _ <-].
    + destruct (unescape EUserPassword ui); cbn [opt_bind]; [|discriminate]. now intros [= _ <-].
  - destruct (parse_host a) as [h|]; cbn [opt_bind]; [|discriminate]. now intros [= _ <-].
Qed.
