(** Completeness of the doublestar.Match loop ([Model.Glob.run]) with respect to the
    character-level declarative semantics [CM] of [Proofs.GlobSpec] (partial-correctness form:
    whenever the loop terminates and the specification says "match", the answer is [true]).

    Side condition [complete_hyp]: the pattern contains neither "***" nor "*/**", the name is
    non-empty and does not end in '/'. (These exclude the quirks of isZeroLengthPattern.)

    Proof: forward simulation. [Alt] says that the current state still "has a matching
    alternative" (directly, through the `*` back-track register, or through the `**/` back-track
    register); [Inv] links the registers to the current position. [step_post]: a [Done b] from a
    state with an alternative has [b = true], a [Next] preserves [Inv] and [Alt]. *)
From Coq Require Import NArith List Bool Lia.
From WW Require Import Base.Bytes Model.Glob Proofs.GlobSpec.
Import ListNotations.
Open Scope N_scope.

(** * Side conditions *)

Definition no_sub (w p : bytes) : Prop := forall pre post, p <> pre ++ w ++ post.

(* (1) no "***", (2) no "*/**" *)
Definition good (p : bytes) : Prop :=
  no_sub [star; star; star] p /\ no_sub [star; slash; star; star] p.

(* (3b) the last byte is not '/' *)
Definition nse (n : bytes) : Prop := forall pre, n <> pre ++ [slash].

Definition complete_hyp (pat name : bytes) : Prop := good pat /\ name <> [] /\ nse name.

Lemma no_sub_app w a p : no_sub w (a ++ p) -> no_sub w p.
Proof.
  intros H pre post E. apply (H (a ++ pre) post). rewrite E. now rewrite app_assoc.
Qed.

Lemma good_app a p : good (a ++ p) -> good p.
Proof. intros [H1 H2]. split; eapply no_sub_app; eauto. Qed.

Lemma good_tail x p : good (x :: p) -> good p.
Proof. apply (good_app [x]). Qed.

Lemma nse_tail c n : nse (c :: n) -> nse n.
Proof. intros H pre E. apply (H (c :: pre)). now rewrite E. Qed.

Lemma nse_last_equiv n : n <> [] -> (nse n <-> last n 0 <> slash).
Proof.
  intros Hn. destruct (exists_last Hn) as (pre & c & ->). rewrite last_last. split.
  - intros H E. subst c. now apply (H pre).
  - intros H pre' E. apply app_inj_tail in E as [_ E]. contradiction.
Qed.

Definition noslash (a : bytes) : Prop := Forall (fun c => c <> slash) a.
Definition lits (l : bytes) : Prop := Forall (fun c => c <> star) l.

(** * "Later" positions of the name *)

(* [r] starts a later segment of [n] *)
Definition LaterT (r n : bytes) : Prop := exists pre, n = pre ++ slash :: r.
(* [r] is a suffix of [n] lying in a later segment *)
Definition LaterF (r n : bytes) : Prop := exists pre, n = pre ++ r /\ In slash pre.
Definition Later (sos : bool) (r n : bytes) : Prop := if sos then LaterT r n else LaterF r n.

Lemma laterT_F r n : LaterT r n -> LaterF r n.
Proof.
  intros [pre ->]. exists (pre ++ [slash]). split.
  - now rewrite <- app_assoc.
  - apply in_or_app. right. now left.
Qed.

Lemma later_F sos r n : Later sos r n -> LaterF r n.
Proof. destruct sos; cbn; auto using laterT_F. Qed.

Lemma laterF_lit x m n : LaterF (x :: m) (x :: n) -> Later (x =? slash) m n.
Proof.
  intros (pre & E & Hin). destruct pre as [|y pre]; [destruct Hin|].
  cbn in E. injection E as <- E. subst n.
  destruct (N.eqb_spec x slash) as [->|Hx]; cbn.
  - now exists pre.
  - exists (pre ++ [x]). split; [now rewrite <- app_assoc|].
    destruct Hin as [Hin|Hin]; [congruence|]. apply in_or_app. now left.
Qed.

Lemma later_lit sos x m n : Later sos (x :: m) (x :: n) -> Later (x =? slash) m n.
Proof. intros H. eapply laterF_lit; eauto using later_F. Qed.

Lemma laterF_app a m n : LaterF (a ++ m) n -> LaterF m n.
Proof.
  intros (pre & -> & Hin). exists (pre ++ a). split; [now rewrite <- app_assoc|].
  apply in_or_app. now left.
Qed.

Lemma laterT_trans a b c : LaterT a b -> LaterT b c -> LaterT a c.
Proof.
  intros [p1 ->] [p2 ->]. exists (p2 ++ slash :: p1). now rewrite <- app_assoc.
Qed.

Lemma laterF_nil r : ~ LaterF r [].
Proof. intros (pre & E & Hin). destruct pre; [destruct Hin|discriminate]. Qed.

Lemma later_nil sos r : ~ Later sos r [].
Proof. intros H. eapply laterF_nil; eauto using later_F. Qed.

Lemma laterF_tail r d n : d <> slash -> LaterF r (d :: n) -> LaterF r n.
Proof.
  intros Hd (pre & E & Hin). destruct pre as [|y pre]; [destruct Hin|].
  cbn in E. injection E as <- ->. exists pre. split; auto.
  destruct Hin as [Hin|Hin]; [congruence|auto].
Qed.

Lemma after_sep_later dn : forall r0 r,
  after_sep dn = Some r0 -> LaterT r dn -> r = r0 \/ LaterT r r0.
Proof.
  induction dn as [|c t IH]; intros r0 r H [pre E]; [discriminate|].
  cbn [after_sep] in H. destruct (N.eqb_spec c slash) as [->|Hc].
  - injection H as <-. destruct pre as [|y pre]; cbn in E.
    + injection E as E. now left.
    + injection E as _ E. right. now exists pre.
  - destruct pre as [|y pre]; cbn in E; injection E as E1 E2.
    + congruence.
    + eapply IH; eauto. now exists pre.
Qed.

Lemma after_sep_none dn r : after_sep dn = None -> ~ LaterT r dn.
Proof.
  induction dn as [|c t IH]; intros H [pre E].
  - destruct pre; discriminate.
  - cbn [after_sep] in H. destruct (N.eqb_spec c slash) as [->|Hc]; [discriminate|].
    destruct pre as [|y pre]; cbn in E; injection E as E1 E2; [congruence|].
    apply IH; auto. now exists pre.
Qed.

Lemma after_sep_nse dn r : after_sep dn = Some r -> nse dn -> nse r /\ r <> [].
Proof.
  revert r. induction dn as [|c t IH]; intros r H N; [discriminate|].
  cbn [after_sep] in H. destruct (N.eqb_spec c slash) as [->|Hc].
  - injection H as <-. split; [eapply nse_tail; eauto|]. intros ->. now apply (N []).
  - eapply IH; eauto using nse_tail.
Qed.

(** * List combinatorics *)

Lemma app_split (u t l n : bytes) :
  u ++ t = l ++ n -> (length l <= length u)%nat -> exists a2, u = l ++ a2 /\ n = a2 ++ t.
Proof.
  revert u. induction l as [|x l IH]; intros u E L.
  - exists u. cbn in *. auto.
  - destruct u as [|y u]; [cbn in L; lia|]. cbn in E. injection E as -> E.
    cbn in L. destruct (IH u E ltac:(lia)) as (a2 & -> & ->). now exists a2.
Qed.

(* if [a ++ l = l ++ a2] then [l] and [a2] consist of elements of [a] *)
Lemma rot_all (Q : N -> Prop) l : forall a a2,
  a <> [] -> a ++ l = l ++ a2 -> Forall Q a -> Forall Q l /\ Forall Q a2.
Proof.
  induction l as [|x l IH]; intros a a2 Ha E HQ.
  - rewrite app_nil_r in E. cbn in E. subst a2. auto.
  - destruct a as [|c a0]; [congruence|]. cbn in E. injection E as -> E.
    replace (a0 ++ x :: l) with ((a0 ++ [x]) ++ l) in E by now rewrite <- app_assoc.
    inversion HQ as [|? ? Qx Qa]; subst.
    destruct (IH (a0 ++ [x]) a2) as [R1 R2]; auto.
    + destruct a0; discriminate.
    + apply Forall_app. auto.
Qed.

(** * Inversion lemmas for [CM] *)

Lemma cm_end_slash q : CM false (slash :: q) [] -> exists q', q = star :: star :: q'.
Proof. intros H. inversion H; subst; eauto. Qed.

Lemma good_end_more q : good (slash :: star :: star :: slash :: q) -> ~ CM false (slash :: q) [].
Proof.
  intros [_ G] H. apply cm_end_slash in H as [q' ->].
  now apply (G [slash; star] q').
Qed.

Lemma lit_inv sos x p1 m : x <> star -> good (x :: p1) -> CM sos (x :: p1) m ->
  (exists m0, m = x :: m0 /\ CM (x =? slash) p1 m0) \/ (x = slash /\ p1 = [star; star] /\ m = []).
Proof.
  intros Hx G H. inversion H; subst; try congruence.
  - left. eauto.
  - right. auto.
  - exfalso. eapply good_end_more; eauto.
Qed.

Lemma star_strip sos p m :
  CM sos (star :: p) m -> (sos = true -> is_dseg (star :: p) = false) ->
  exists a m', m = a ++ m' /\ noslash a /\ CM false p m'.
Proof.
  intros H. remember (star :: p) as q eqn:Eq. revert p Eq.
  induction H; intros p0 Eq D; try discriminate.
  - injection Eq as E1 E2. congruence.
  - injection Eq as ->. exists [], n. repeat split; auto. constructor.
  - destruct (IHCM p0 Eq) as (a & m' & -> & Ha & Hm); [discriminate|].
    exists (c :: a), m'. repeat split; auto. constructor; auto.
  - injection Eq as <-. specialize (D eq_refl). discriminate.
  - injection Eq as <-. specialize (D eq_refl). discriminate.
  - injection Eq as <-. specialize (D eq_refl). discriminate.
Qed.

Lemma dstar_strip p3 m :
  CM true (star :: star :: slash :: p3) m ->
  CM true p3 m \/ exists m', LaterT m' m /\ CM true p3 m'.
Proof.
  intros H. remember (star :: star :: slash :: p3) as q eqn:Eq. remember true as s eqn:Es.
  revert Eq. induction H; intros Eq; try discriminate.
  - injection Eq as E1 E2. congruence.
  - injection Eq as ->. subst. specialize (H eq_refl). vm_compute in H. discriminate.
  - injection Eq as ->. subst. specialize (H eq_refl). vm_compute in H. discriminate.
  - injection Eq as ->. now left.
  - injection Eq as ->. right. destruct (IHCM Es eq_refl) as [IH|(m' & L & IH)].
    + exists n. split; auto. now exists pre.
    + exists m'. split; auto. eapply laterT_trans; eauto. now exists pre.
Qed.

Lemma cm_nil_inv sos c n : ~ CM sos [] (c :: n).
Proof. intros H. inversion H. Qed.

Lemma cm_false_nil_shape q : CM false q [] ->
  q = [] \/ (exists q', q = star :: q' /\ CM false q' []) \/ q = [slash; star; star]
  \/ exists r, q = slash :: star :: star :: slash :: r /\ CM false (slash :: r) [].
Proof. intros H. inversion H; subst; eauto 7. Qed.

(* the end-of-name check under (1), (2) *)
Lemma zl p : good p -> CM false p [] -> zero_length p = true.
Proof.
  intros G H. pose proof G as [G1 G2].
  apply cm_false_nil_shape in H as [->|[(q & -> & H)|[->|(r & -> & H)]]]; try reflexivity.
  - apply cm_false_nil_shape in H as [->|[(q' & -> & H)|[->|(r & -> & H)]]]; try reflexivity.
    + apply cm_false_nil_shape in H as [->|[(q & -> & H)|[->|(r & -> & H)]]]; try reflexivity.
      * exfalso. now apply (G1 [] q).
      * exfalso. now apply (G2 [star] []).
      * exfalso. now apply (G2 [star] (slash :: r)).
    + exfalso. now apply (G2 [] []).
    + exfalso. now apply (G2 [] (slash :: r)).
  - exfalso. eapply good_end_more; eauto.
Qed.

(** * Literal runs *)

(* the start-of-segment flag after matching the literals [l] *)
Definition sos_after (s : bool) (l : bytes) : bool := fold_left (fun _ x => x =? slash) l s.

Lemma sos_after_cons s x l : sos_after s (x :: l) = sos_after (x =? slash) l.
Proof. reflexivity. Qed.

Lemma sos_after_snoc s l x : sos_after s (l ++ [x]) = (x =? slash).
Proof. unfold sos_after. now rewrite fold_left_app. Qed.

Lemma sos_after_true s l : sos_after s l = true -> s = true \/ In slash l.
Proof.
  revert s. induction l as [|x l IH]; intros s H; [now left|].
  rewrite sos_after_cons in H. apply IH in H as [H|H].
  - apply N.eqb_eq in H. right. now left.
  - right. now right.
Qed.

Lemma lits_strip l : lits l -> forall sos p b, good (l ++ p) -> CM sos (l ++ p) b ->
  (exists b', b = l ++ b' /\ CM (sos_after sos l) p b') \/ (p = [star; star] /\ sos_after sos l = true).
Proof.
  induction 1 as [|x l Hx Hl IH]; intros sos p b G H.
  - left. exists b. split; auto.
  - cbn [app] in *. apply lit_inv in H as [(m0 & -> & H)|(-> & E & ->)]; auto.
    + apply IH in H as [(b' & -> & H)|(-> & E)]; [left|right|eapply good_tail; eauto].
      * exists b'. split; auto.
      * split; auto.
    + right. destruct l as [|y l]; cbn in E.
      * subst p. split; reflexivity.
      * injection E as -> _. inversion Hl; congruence.
Qed.

(** * Invariant and alternatives *)

Definition RegOk (r : reg) : Prop :=
  match r with Some (rp, rn) => good rp /\ nse rn | None => True end.

(* every way the `**/` register could still succeed is reflected at the current position *)
Definition DsLink (ds : reg) (p n : bytes) (sos : bool) : Prop :=
  match ds with
  | None => True
  | Some (dp, dn) =>
    forall r, LaterT r dn -> CM true dp r ->
      (exists n2, Later sos n2 n /\ CM sos p n2) \/ (sos = true /\ p = [star; star])
  end.

Definition stuck (sn : bytes) : Prop := match sn with [] => True | d :: _ => d = slash end.

Definition StInv (st ds : reg) (p n : bytes) (sos : bool) : Prop :=
  match st with
  | None => True
  | Some (sp, sn) =>
    stuck sn \/
    ((exists l, lits l /\ sp = l ++ p /\ sn = l ++ n /\ sos = sos_after false l) /\ DsLink ds sp sn false)
  end.

Definition Inv (p n : bytes) (sos : bool) (ds st : reg) : Prop :=
  good p /\ nse n /\ (sos = true -> n <> []) /\ RegOk ds /\ RegOk st /\
  DsLink ds p n sos /\ StInv st ds p n sos.

Lemma Inv_intro p n sos ds st :
  good p -> nse n -> (sos = true -> n <> []) -> RegOk ds -> RegOk st ->
  DsLink ds p n sos -> StInv st ds p n sos -> Inv p n sos ds st.
Proof. unfold Inv. auto 10. Qed.

Definition StAlt (st : reg) : Prop :=
  exists sp sn a b, st = Some (sp, sn) /\ sn = a ++ b /\ a <> [] /\ noslash a /\ CM false sp b.

Definition DsAlt (ds : reg) : Prop :=
  exists dp dn r, ds = Some (dp, dn) /\ LaterT r dn /\ CM true dp r.

Definition Alt (p n : bytes) (sos : bool) (ds st : reg) : Prop :=
  CM sos p n \/ StAlt st \/ DsAlt ds.

Definition Post (r : step_result) : Prop :=
  match r with
  | Done b => b = true
  | Next p n sos ds st => Inv p n sos ds st /\ Alt p n sos ds st
  end.

Lemma stalt_fresh sp sn ds p n sos a b :
  StInv (Some (sp, sn)) ds p n sos -> sn = a ++ b -> a <> [] -> noslash a ->
  (exists l, lits l /\ sp = l ++ p /\ sn = l ++ n /\ sos = sos_after false l) /\ DsLink ds sp sn false.
Proof.
  intros [S|S] E Ha Hn; auto. exfalso.
  destruct a as [|d a]; [congruence|]. subst sn. cbn in S. inversion Hn; subst. congruence.
Qed.

(** * End of the name *)

Lemma end_ok p sos ds st : Inv p [] sos ds st -> Alt p [] sos ds st -> zero_length p = true.
Proof.
  intros (G & N & Hs & Rd & Rs & DL & SI) A.
  destruct sos; [exfalso; now apply Hs|].
  destruct A as [A|[A|A]].
  - now apply zl.
  - destruct A as (sp & sn & a & b & -> & E & Ha & Hn & C).
    destruct (stalt_fresh _ _ _ _ _ _ _ _ SI E Ha Hn) as [(l & Hl & -> & E2 & _) _].
    destruct Rs as [Gs _].
    apply lits_strip in C; auto. destruct C as [(b' & -> & _)|(-> & _)]; [|reflexivity].
    exfalso. rewrite E2 in E. apply (f_equal (@length _)) in E.
    rewrite !app_length in E. cbn in E. destruct a; [congruence|cbn in E; lia].
  - destruct A as (dp & dn & r & -> & L & C). cbn in DL.
    destruct (DL r L C) as [(n2 & L2 & _)|[_ ->]]; [|reflexivity].
    exfalso. eapply laterF_nil; eauto.
Qed.

(** * Back-tracking *)

Definition dsb (ds st : reg) : step_result :=
  match ds with
  | Some (dp, dn) =>
    match after_sep dn with
    | Some r => Next dp r true (Some (dp, r)) st
    | None => Done false
    end
  | None => Done false
  end.

Lemma backtrack_eq ds st :
  backtrack ds st =
  match st with
  | Some (sp, d :: sn') => if negb (d =? slash) then Next sp sn' false ds (Some (sp, sn')) else dsb ds st
  | _ => dsb ds st
  end.
Proof. reflexivity. Qed.

Lemma dsb_post ds st :
  RegOk ds -> RegOk st -> (forall sp sn, st = Some (sp, sn) -> stuck sn) -> DsAlt ds -> Post (dsb ds st).
Proof.
  intros Rd Rs St (dp & dn & r & -> & L & C). cbn [dsb]. destruct Rd as [Gd Nd].
  destruct (after_sep dn) as [r0|] eqn:E.
  - cbn [Post]. destruct (after_sep_nse _ _ E Nd) as [N0 Ne].
    split.
    + apply Inv_intro; auto.
      * cbn. auto.
      * cbn. intros r1 L1 C1. left. exists r1. split; auto.
      * destruct st as [[sp sn]|]; cbn; eauto.
    + destruct (after_sep_later _ _ _ E L) as [->|L'].
      * left. auto.
      * right. right. exists dp, r0, r. auto.
  - exfalso. eapply after_sep_none; eauto.
Qed.

Lemma backtrack_post p n sos ds st :
  Inv p n sos ds st -> StAlt st \/ DsAlt ds -> Post (backtrack ds st).
Proof.
  intros (G & N & Hs & Rd & Rs & DL & SI) A. rewrite backtrack_eq.
  assert (D : (forall sp sn, st = Some (sp, sn) -> stuck sn) -> Post (dsb ds st)).
  { intros St. apply dsb_post; auto. destruct A as [A|A]; auto. exfalso.
    destruct A as (sp & sn & a & b & -> & E & Ha & Hn & C).
    specialize (St _ _ eq_refl). destruct a as [|d a]; [congruence|]. subst sn. cbn in St.
    inversion Hn; subst. congruence. }
  destruct st as [[sp sn]|]; [|apply D; discriminate].
  destruct sn as [|d sn']; [apply D; intros ? ? [= <- <-]; exact I|].
  destruct (N.eqb_spec d slash) as [->|Hd]; cbn [negb]; [apply D; intros ? ? [= <- <-]; reflexivity|].
  clear D. cbn [Post]. destruct Rs as [Gs Ns].
  destruct SI as [S|[(l & Hl & E1 & E2 & E3) DLs]]; [cbn in S; congruence|].
  assert (DL' : DsLink ds sp sn' false).
  { destruct ds as [[dp dn]|]; cbn in *; auto. intros r L C.
    destruct (DLs r L C) as [(n2 & L2 & C2)|[? _]]; [|discriminate].
    left. exists n2. split; auto. cbn in *. eapply laterF_tail; eauto. }
  split.
  - apply Inv_intro; auto; try (eapply nse_tail; eauto); try discriminate.
    + cbn. split; auto. eapply nse_tail; eauto.
    + cbn. right. split; auto. exists []. repeat split; auto. constructor.
  - destruct A as [A|A]; [|right; right; exact A].
    destruct A as (sp0 & sn0 & a & b & [= <- <-] & E & Ha & Hn & C).
    destruct a as [|d0 a]; [congruence|]. cbn in E. injection E as <- ->.
    destruct a as [|d1 a].
    + left. exact C.
    + right. left. exists sp, ((d1 :: a) ++ b), (d1 :: a), b. repeat split; auto; try discriminate.
      now inversion Hn.
Qed.

(** * A literal byte matched *)

Lemma lit_post x p1 n' sos ds st :
  x <> star -> Inv (x :: p1) (x :: n') sos ds st -> Alt (x :: p1) (x :: n') sos ds st ->
  Post (Next p1 n' (x =? slash) ds st).
Proof.
  intros Hx (G & N & Hs & Rd & Rs & DL & SI) A. cbn [Post]. split.
  - apply Inv_intro; auto.
    + eapply good_tail; eauto.
    + eapply nse_tail; eauto.
    + intros E ->. apply N.eqb_eq in E. subst x. now apply (N []).
    + destruct ds as [[dp dn]|]; cbn in *; auto. intros r L C.
      destruct (DL r L C) as [(n2 & L2 & C2)|[_ E]]; [|congruence].
      apply lit_inv in C2; auto. destruct C2 as [(m0 & -> & C2)|(-> & -> & ->)].
      * left. exists m0. split; auto. eapply later_lit; eauto.
      * right. auto.
    + destruct st as [[sp sn]|]; cbn in *; auto.
      destruct SI as [S|[(l & Hl & E1 & E2 & E3) DLs]]; [now left|right].
      split; auto. exists (l ++ [x]). repeat split.
      * apply Forall_app. split; auto.
      * now rewrite <- app_assoc.
      * now rewrite <- app_assoc.
      * now rewrite sos_after_snoc.
  - destruct A as [A|A]; [|right; exact A].
    left. apply lit_inv in A; auto. destruct A as [(m0 & [= <-] & C)|(_ & _ & ?)]; auto. discriminate.
Qed.

(** * A `*` (or a glued `**`) consumed: the `*` register is overwritten *)

Lemma stargen_post w p' n sos ds st :
  (forall m, CM sos (w ++ p') m -> exists a m', m = a ++ m' /\ noslash a /\ CM false p' m') ->
  ~ (sos = true /\ w ++ p' = [star; star]) ->
  Inv (w ++ p') n sos ds st -> Alt (w ++ p') n sos ds st ->
  Post (Next p' n false ds (Some (p', n))).
Proof.
  intros Strip NQ (G & N & Hs & Rd & Rs & DL & SI) A. cbn [Post].
  assert (DL' : DsLink ds p' n false).
  { destruct ds as [[dp dn]|]; cbn in *; auto. intros r L C.
    destruct (DL r L C) as [(n2 & L2 & C2)|Q]; [|contradiction].
    left. apply Strip in C2 as (a & m' & -> & Ha & C2). exists m'. split; auto.
    eapply laterF_app. eapply later_F; eauto. }
  split.
  - apply Inv_intro; auto; try discriminate.
    + eapply good_app; eauto.
    + cbn. split; auto. eapply good_app; eauto.
    + cbn. right. split; auto. exists []. repeat split; auto. constructor.
  - assert (K : forall a m', n = a ++ m' -> noslash a -> CM false p' m' ->
                Alt p' n false ds (Some (p', n))).
    { intros a m' E Ha C. destruct a as [|d a].
      - left. now subst n.
      - right. left. exists p', n, (d :: a), m'. repeat split; auto. discriminate. }
    destruct A as [A|[A|A]].
    + apply Strip in A as (a & m' & E & Ha & C). eapply K; eauto.
    + destruct A as (sp & sn & a & b & -> & E & Ha & Hn & C).
      destruct (stalt_fresh _ _ _ _ _ _ _ _ SI E Ha Hn) as [(l & Hl & -> & E2 & E3) _].
      destruct Rs as [Gs _].
      apply lits_strip in C; auto. destruct C as [(b' & -> & C)|(Q1 & Q2)].
      * rewrite <- E3 in C. apply Strip in C as (a1 & m' & -> & Ha1 & C).
        rewrite E2 in E. rewrite app_assoc in E. symmetry in E.
        apply app_split in E as (a2 & E4 & ->); [|rewrite app_length; lia].
        destruct (rot_all (fun c => c <> slash) l a a2 Ha E4 Hn) as [_ Ha2].
        apply (K (a2 ++ a1) m'); auto.
        -- now rewrite <- app_assoc.
        -- apply Forall_app. auto.
      * exfalso. apply NQ. split; congruence.
    + right. right. exact A.
Qed.

(** * A whole-segment `**/` consumed: the `**` register is overwritten, the `*` register cleared *)

Lemma dstar_post p3 n ds st :
  n <> [] ->
  Inv (star :: star :: slash :: p3) n true ds st -> Alt (star :: star :: slash :: p3) n true ds st ->
  Post (Next p3 n true (Some (p3, n)) None).
Proof.
  intros Hn0 (G & N & Hs & Rd & Rs & DL & SI) A. cbn [Post].
  assert (G3 : good p3) by (apply (good_app [star; star; slash]); auto).
  split.
  - apply Inv_intro; auto; cbn; auto.
    intros r L C. left. exists r. auto.
  - destruct A as [A|[A|A]].
    + apply dstar_strip in A as [A|(m' & L & C)]; [now left|].
      right. right. exists p3, n, m'. auto.
    + exfalso. destruct A as (sp & sn & a & b & -> & E & Ha & Hn & C).
      destruct (stalt_fresh _ _ _ _ _ _ _ _ SI E Ha Hn) as [(l & Hl & -> & E2 & E3) _].
      destruct Rs as [Gs _].
      apply lits_strip in C; auto. destruct C as [(b' & -> & C)|(Q1 & Q2)]; [|discriminate].
      rewrite E2 in E. rewrite app_assoc in E. symmetry in E.
      apply app_split in E as (a2 & E4 & _); [|rewrite app_length; lia].
      destruct (rot_all (fun c => c <> slash) l a a2 Ha E4 Hn) as [Hl2 _].
      symmetry in E3. apply sos_after_true in E3 as [E3|E3]; [discriminate|].
      unfold noslash in Hl2. rewrite Forall_forall in Hl2. now apply (Hl2 slash).
    + destruct A as (dp & dn & r & -> & L & C). cbn in DL.
      destruct (DL r L C) as [(n2 & L2 & C2)|[_ Q]]; [|discriminate].
      cbn in L2. apply dstar_strip in C2 as [C2|(m' & L3 & C3)].
      * right. right. exists p3, n, n2. auto.
      * right. right. exists p3, n, m'. repeat split; auto. eapply laterT_trans; eauto.
Qed.

(** * One step *)

Lemma step_post p n sos ds st :
  Inv p n sos ds st -> Alt p n sos ds st -> Post (step p n sos ds st).
Proof.
  intros I A. destruct n as [|c n'].
  - cbn [step Post]. eapply end_ok; eauto.
  - destruct p as [|x p1]; cbn [step].
    + eapply backtrack_post; eauto. destruct A as [A|A]; auto. exfalso. eapply cm_nil_inv; eauto.
    + destruct (N.eqb_spec x star) as [->|Hx].
      * (* star *)
        assert (S1 : forall p1, is_dseg (star :: p1) = false ->
                  Inv (star :: p1) (c :: n') sos ds st -> Alt (star :: p1) (c :: n') sos ds st ->
                  Post (Next p1 (c :: n') false ds (Some (p1, c :: n')))).
        { intros q D I' A'. apply (stargen_post [star] q (c :: n') sos ds st); auto.
          - intros m C. apply star_strip in C; auto.
          - intros [_ E]. cbn in E. injection E as ->. vm_compute in D. discriminate. }
        assert (S2 : forall p2, (sos = true -> is_dseg (star :: star :: p2) = false) ->
                  Inv (star :: star :: p2) (c :: n') sos ds st ->
                  Alt (star :: star :: p2) (c :: n') sos ds st ->
                  Post (Next p2 (c :: n') false ds (Some (p2, c :: n')))).
        { intros q D I' A'. apply (stargen_post [star; star] q (c :: n') sos ds st); auto.
          - intros m C. apply star_strip in C; auto. destruct C as (a1 & m1 & -> & Ha1 & C).
            apply star_strip in C; [|discriminate]. destruct C as (a2 & m2 & -> & Ha2 & C).
            exists (a1 ++ a2), m2. repeat split; auto.
            + now rewrite <- app_assoc.
            + apply Forall_app. auto.
          - intros [E1 E]. cbn in E. injection E as ->. specialize (D E1). vm_compute in D.
            discriminate. }
        destruct p1 as [|y p2]; [apply S1; auto|].
        destruct (N.eqb_spec y star) as [->|Hy].
        -- destruct sos.
           ++ destruct p2 as [|z p3]; [reflexivity|].
              destruct (N.eqb_spec z slash) as [->|Hz].
              ** apply (dstar_post p3 (c :: n') ds st); auto. discriminate.
              ** apply S2; auto. intros _.
                 change (is_dseg (star :: star :: z :: p3)) with (z =? slash).
                 now apply N.eqb_neq.
           ++ apply S2; auto. discriminate.
        -- apply S1; auto.
           change (is_dseg (star :: y :: p2))
             with ((y =? star) && match p2 with [] => true | c :: _ => c =? slash end).
           apply N.eqb_neq in Hy. now rewrite Hy.
      * destruct (N.eqb_spec x c) as [<-|Hc].
        -- apply (lit_post x p1 n' sos ds st); auto.
        -- eapply backtrack_post; eauto. destruct A as [A|A]; auto. exfalso.
           destruct I as (G & _).
           apply lit_inv in A; auto.
           destruct A as [(m0 & [= E] & _)|(_ & _ & ?)]; [congruence|discriminate].
Qed.

(** * Completeness (partial-correctness form) *)

Lemma run_post fuel : forall p n sos ds st b,
  Inv p n sos ds st -> Alt p n sos ds st -> run fuel p n sos ds st = Some b -> b = true.
Proof.
  induction fuel as [|f IH]; intros p n sos ds st b I A R; [discriminate|].
  cbn [run] in R. pose proof (step_post p n sos ds st I A) as P.
  destruct (step p n sos ds st) as [b'|p' n' sos' ds' st'].
  - cbn in P. congruence.
  - destruct P as [I' A']. eapply IH; eauto.
Qed.

Theorem run_complete : forall fuel pat name b,
  complete_hyp pat name ->
  CM true pat name -> run fuel pat name true None None = Some b -> b = true.
Proof.
  intros fuel pat name b (G & Hn & N) C R.
  eapply run_post; eauto.
  - apply Inv_intro; cbn; auto.
  - left. exact C.
Qed.

Corollary glob_run_complete pat name b :
  complete_hyp pat name -> CM true pat name -> glob_run pat name = Some b -> b = true.
Proof. unfold glob_run. apply run_complete. Qed.

(** * A computable form of the side condition *)

Fixpoint has_sub (w p : bytes) : bool :=
  has_prefix p w || match p with [] => false | _ :: r => has_sub w r end.

Lemma has_sub_spec w p : has_sub w p = true <-> exists pre post, p = pre ++ w ++ post.
Proof.
  induction p as [|x p IH]; cbn [has_sub]; rewrite orb_true_iff, has_prefix_spec.
  - split.
    + intros [[r E]|H]; [|discriminate]. exists [], r. exact E.
    + intros (pre & post & E). left. destruct pre; [|discriminate]. now exists post.
  - rewrite IH. split.
    + intros [[r E]|(pre & post & ->)]; [now exists [], r|now exists (x :: pre), post].
    + intros (pre & post & E). destruct pre as [|y pre]; [left; now exists post|right].
      cbn in E. injection E as _ ->. now exists pre, post.
Qed.

Lemma no_sub_spec w p : no_sub w p <-> has_sub w p = false.
Proof.
  split.
  - intros H. destruct (has_sub w p) eqn:E; auto. apply has_sub_spec in E as (pre & post & E).
    now apply H in E.
  - intros H pre post E. assert (has_sub w p = true) by (apply has_sub_spec; eauto). congruence.
Qed.

Definition complete_hypb (pat name : bytes) : bool :=
  negb (has_sub [star; star; star] pat) && negb (has_sub [star; slash; star; star] pat)
  && negb (beq name []) && negb (last name 0 =? slash).

Lemma complete_hypb_spec pat name : complete_hypb pat name = true <-> complete_hyp pat name.
Proof.
  unfold complete_hypb, complete_hyp, good.
  rewrite !andb_true_iff, !negb_true_iff, <- !no_sub_spec, beq_neq, N.eqb_neq.
  split.
  - intros [[[H1 H2] H3] H4]. repeat split; auto. now apply nse_last_equiv.
  - intros [[H1 H2] [H3 H4]]. repeat split; auto. now apply nse_last_equiv.
Qed.

(** * Each part of the side condition is needed (the specification accepts, the loop says no) *)

Example need_no_3star : CM true [star; star; star] [] /\ glob_run [star; star; star] [] = Some false.
Proof.
  split; [|reflexivity].
  apply cm_star_skip; [intros _; reflexivity|].
  apply cm_star_skip; [discriminate|]. apply cm_star_skip; [discriminate|]. apply cm_nil.
Qed.

Example need_no_star_slash_dstar :
  CM true [97; star; slash; star; star] [97] /\ glob_run [97; star; slash; star; star] [97] = Some false.
Proof.
  split; [|reflexivity].
  apply cm_lit; [discriminate|]. apply cm_star_skip; [discriminate|]. apply cm_end_one.
Qed.

Example need_no_trailing_slash :
  CM true [slash; star; star; slash; star] [slash] /\
  glob_run [slash; star; star; slash; star] [slash] = Some false.
Proof.
  split; [|reflexivity].
  apply cm_lit; [discriminate|]. apply cm_dstar_zero. apply cm_star_skip; [intros _; reflexivity|].
  constructor.
Qed.

Print Assumptions run_complete.
