(** An SSO deployment with both parties: histories of a browser that talks to the SSO server AND to an SSO proxy on the
    same SSO domain (Model/Retry.v do_request_proxy). The invariant of Proofs/CookieJarP.v depends on the host only through
    the identity (Domain, Path) under which the browser files the cookie; for two hosts under the SSO domain that identity
    is the same, so the invariant carries over requests to either party. *)
From Coq Require Import NArith ZArith List Bool Lia.
From WW Require Import Base.Bytes Gen.Params Model.CookieUrl Model.Cookie Model.Jar Model.Retry
  Proofs.CookieP Proofs.JarP Proofs.CookieJarP.
Import ListNotations.
Open Scope Z_scope.

(* one step of the browser: to the proxy (true) or to the server *)
Definition px_step (e pe : site_env) (px : bool) (b : browser) (q : breq) (f : cfault) : kresponse * browser :=
  if px then do_request_proxy pe b q f else do_request e b q f.

Fixpoint run_jar_seq_px (e pe : site_env) (b : browser) (steps : list (bool * Z * breq * cfault)) : browser :=
  match steps with
  | [] => b
  | (px, dt, q, f) :: r => run_jar_seq_px e pe (snd (px_step e pe px (sleep b dt) q f)) r
  end.

(* server and proxy belong to one deployment: same cookie configuration, and the browser files a cookie of kind k that it
   receives from either host under the same identity *)
Definition same_deployment (e pe : site_env) (mp : bytes) (k : ckind) : Prop :=
  e_cfg pe = e_cfg e /\
  kscope (e_cfg e) (e_host pe) mp (rq_kind k) = kscope (e_cfg e) (e_host e) mp (rq_kind k).

Lemma kinv_other_host e pe mp k j :
  same_deployment e pe mp k ->
  (kinv (e_cfg pe) (e_host pe) mp (rq_kind k) (cookie_name (e_cfg pe) k) j <->
   kinv (e_cfg e) (e_host e) mp (rq_kind k) (cookie_name (e_cfg e) k) j).
Proof. intros [Hc Hs]. unfold kinv. rewrite Hc, Hs. tauto. Qed.

Definition px_kind_ok (e pe : site_env) (mp : bytes) (k : ckind) (s : bool * Z * breq * cfault) : Prop :=
  let '(px, _, q, _) := s in kind_ok (if px then pe else e) mp q k.

Lemma px_step_kinv e pe (px : bool) b q f mp k :
  same_deployment e pe mp k -> kind_ok (if px then pe else e) mp q k ->
  kinv (e_cfg e) (e_host e) mp (rq_kind k) (cookie_name (e_cfg e) k) (b_jar b) ->
  kinv (e_cfg e) (e_host e) mp (rq_kind k) (cookie_name (e_cfg e) k) (b_jar (snd (px_step e pe px b q f))).
Proof.
  intros Hd Hk Hi. unfold px_step. destruct px; [|now apply do_request_kinv].
  unfold do_request_proxy. destruct (q_ep q); try exact Hi;
    apply (kinv_other_host e pe mp k _ Hd); apply do_request_kinv; [exact Hk| |exact Hk|];
    apply (kinv_other_host e pe mp k _ Hd); exact Hi.
Qed.

Lemma run_jar_seq_px_kinv e pe b steps mp k :
  same_deployment e pe mp k -> Forall (px_kind_ok e pe mp k) steps ->
  kinv (e_cfg e) (e_host e) mp (rq_kind k) (cookie_name (e_cfg e) k) (b_jar b) ->
  kinv (e_cfg e) (e_host e) mp (rq_kind k) (cookie_name (e_cfg e) k) (b_jar (run_jar_seq_px e pe b steps)).
Proof.
  intros Hd. revert b. induction steps as [|[[[px dt] q] f] r IH]; intros b Hf Hi; [exact Hi|].
  inversion Hf as [|? ? H1 H2]; subst. cbn [run_jar_seq_px]. apply IH; [exact H2|].
  apply px_step_kinv; [exact Hd|exact H1|exact Hi].
Qed.

(* after any such history, a last request - to either party - whose response ends with a clear of cookie k leaves the
   browser without any cookie of that name *)
Lemma px_history_cleared e pe steps dt (px : bool) q f mp k :
  same_deployment e pe mp k -> Forall (px_kind_ok e pe mp k) steps -> kind_ok (if px then pe else e) mp q k ->
  let b := sleep (run_jar_seq_px e pe {| b_jar := []; b_now := 0; b_session := false |} steps) dt in
  (px = true -> q_ep q = EpLogoutLocal \/ q_ep q = EpFrontChannel) ->
  ends_cleared (cookie_name (e_cfg e) k) (rs_cookies (fst (px_step e pe px b q f))) ->
  no_named (cookie_name (e_cfg e) k) (b_jar (snd (px_step e pe px b q f))).
Proof.
  intros Hd Hs Hq b Hpx He.
  assert (Hi : kinv (e_cfg e) (e_host e) mp (rq_kind k) (cookie_name (e_cfg e) k) (b_jar b)).
  { unfold b, sleep. cbn [b_jar]. apply run_jar_seq_px_kinv; [exact Hd|exact Hs|apply kinv_empty]. }
  unfold px_step in *. destruct px; [|now apply (do_request_cleared e b q f mp k)].
  assert (Hc : e_cfg pe = e_cfg e) by apply Hd.
  assert (Hrel : do_request_proxy pe b q f = do_request pe b q f).
  { unfold do_request_proxy. destruct (Hpx eq_refl) as [-> | ->]; reflexivity. }
  rewrite Hrel in *. rewrite <- Hc in He |- *.
  apply (do_request_cleared pe b q f mp k Hq); [|exact He].
  apply (proj2 (kinv_other_host e pe mp k _ Hd)). exact Hi.
Qed.
