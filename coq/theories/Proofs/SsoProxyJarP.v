(** An SSO deployment with both parties: histories of a browser that talks to the SSO server AND to an SSO proxy on the
    same SSO domain (Model/Retry.v do_request_proxy). The invariant of Proofs/CookieJarP.v depends on the host only through
    the identity (Domain, Path) under which the browser files the cookie; for two hosts under the SSO domain that identity
    is the same, so the invariant carries over requests to either party. *)
From Coq Require Import NArith ZArith List Bool Lia.
From WW Require Import Base.Bytes Gen.Params Model.CookieUrl Model.Cookie Model.Jar Model.Retry
  Proofs.CookieP Proofs.JarP Proofs.CookieJarP.
Import ListNotations.
Open Scope Z_scope.

(* one step of the browser: to the proxy (true) or to the server *)
Definition px_step (e pe : site_env) (px : bool) (b : browser) (q : breq) (f : cfault) : kresponse * browser :=
  if px then do_request_proxy pe b q f else do_request e b q f.

Fixpoint run_jar_seq_px (e pe : site_env) (b : browser) (steps : list (bool * Z * breq * cfault)) : browser :=
  match steps with
  | [] => b
  | (px, dt, q, f) :: r => run_jar_seq_px e pe (snd (px_step e pe px (sleep b dt) q f)) r
  end.

(* server and proxy belong to one deployment: same cookie configuration, and the browser files a cookie of kind k that it
   receives from either host under the same identity *)
Definition same_deployment (e pe : site_env) (mp : bytes) (k : ckind) : Prop :=
  e_cfg pe = e_cfg e /\
  kscope (e_cfg e) (e_host pe) mp (rq_kind k) = kscope (e_cfg e) (e_host e) mp (rq_kind k).

Lemma kinv_other_host e pe mp k j :
  same_deployment e pe mp k ->
  (kinv (e_cfg pe) (e_host pe) mp (rq_kind k) (cookie_name (e_cfg pe) k) j <->
   kinv (e_cfg e) (e_host e) mp (rq_kind k) (cookie_name (e_cfg e) k) j).
Proof. intros [Hc Hs]. unfold kinv. rewrite Hc, Hs. tauto. Qed.

Definition px_kind_ok (e pe : site_env) (mp : bytes) (k : ckind) (s : bool * Z * breq * cfault) : Prop :=
  let '(px, _, q, _) := s in kind_ok (if px then pe else e) mp q k.

Lemma px_step_kinv e pe (px : bool) b q f mp k :
  same_deployment e pe mp k -> kind_ok (if px then pe else e) mp q k ->
  kinv (e_cfg e) (e_host e) mp (rq_kind k) (cookie_name (e_cfg e) k) (b_jar b) ->
  kinv (e_cfg e) (e_host e) mp (rq_kind k) (cookie_name (e_cfg e) k) (b_jar (snd (px_step e pe px b q f))).
Proof.
  intros Hd Hk Hi. unfold px_step. destruct px; [|now apply do_request_kinv].
  unfold do_request_proxy. destruct (q_ep q); try exact Hi;
    apply (kinv_other_host e pe mp k _ Hd); apply do_request_kinv; [exact Hk| |exact Hk|];
    apply (kinv_other_host e pe mp k _ Hd); exact Hi.
Qed.

Lemma run_jar_seq_px_kinv e pe b steps mp k :
  same_deployment e pe mp k -> Forall (px_kind_ok e pe mp k) steps ->
  kinv (e_cfg e) (e_host e) mp (rq_kind k) (cookie_name (e_cfg e) k) (b_jar b) ->
  kinv (e_cfg e) (e_host e) mp (rq_kind k) (cookie_name (e_cfg e) k) (b_jar (run_jar_seq_px e pe b steps)).
Proof.
  intros Hd. revert b. induction steps as [|[[[px dt] q] f] r IH]; intros b Hf Hi; [exact Hi|].
  inversion Hf as [|? ? H1 H2]; subst. cbn [run_jar_seq_px]. apply IH; [exact H2|].
  apply px_step_kinv; [exact Hd|exact H1|exact Hi].
Qed.

(* after any such history, a last request - to either party - whose response ends with a clear of cookie k leaves the
   browser without any cookie of that name *)
Lemma px_history_cleared e pe steps dt (px : bool) q f mp k :
  same_deployment e pe mp k -> Forall (px_kind_ok e pe mp k) steps -> kind_ok (if px then pe else e) mp q k ->
  let b := sleep (run_jar_seq_px e pe {| b_jar := []; b_now := 0; b_session := false |} steps) dt in
  (px = true -> q_ep q = EpLogoutLocal \/ q_ep q = EpFrontChannel) ->
  ends_cleared (cookie_name (e_cfg e) k) (rs_cookies (fst (px_step e pe px b q f))) ->
  no_named (cookie_name (e_cfg e) k) (b_jar (snd (px_step e pe px b q f))).
Proof.
  intros Hd Hs Hq b Hpx He.
  assert (Hi : kinv (e_cfg e) (e_host e) mp (rq_kind k) (cookie_name (e_cfg e) k) (b_jar b)).
  { unfold b, sleep. cbn [b_jar]. apply run_jar_seq_px_kinv; [exact Hd|exact Hs|apply kinv_empty]. }
  unfold px_step in *. destruct px; [|now apply (do_request_cleared e b q f mp k)].
  assert (Hc : e_cfg pe = e_cfg e) by apply Hd.
  assert (Hrel : do_request_proxy pe b q f = do_request pe b q f).
  { unfold do_request_proxy. destruct (Hpx eq_refl) as [-> | ->]; reflexivity. }
  rewrite Hrel in *. rewrite <- Hc in He |- *.
  apply (do_request_cleared pe b q f mp k Hq); [|exact He].
  apply (proj2 (kinv_other_host e pe mp k _ Hd)). exact Hi.
Qed.

(* ------------------------------------------------------------------ what the browser holds after a logout (C05, C14) *)

(* one party: after any history of requests that all have the same matching ingress path, a logout / local logout /
   front-channel logout that is not answered through the error handler leaves no session cookie for any URL at any time *)
Lemma jar_after_logout e steps dt q f mp trust now u :
  Forall (fun s => kind_ok e mp (snd (fst s)) CkSession) steps -> kind_ok e mp q CkSession ->
  q_ep q = EpLogout \/ q_ep q = EpLogoutLocal \/ q_ep q = EpFrontChannel ->
  let b0 := sleep (run_jar_seq e {| b_jar := []; b_now := 0; b_session := false |} steps) dt in
  rs_kind (fst (do_request e b0 q f)) = CrOther ->
  jar_cookie trust now u (b_jar (snd (do_request e b0 q f))) (cookie_name (e_cfg e) CkSession) = None.
Proof.
  intros Hs Hq Hep b0 Hk. apply no_named_not_sent.
  apply (history_cleared e steps dt q f mp CkSession Hs Hq).
  rewrite do_request_response in *. apply logout_clears_session; assumption.
Qed.

(* the same for an environment built from a configuration whose ingresses parse *)
Lemma jar_after_logout_same_path cfg ings e steps dt q f mp trust now u :
  parse_ingresses_full cfg = Some ings -> e_cfg e = cfg -> e_ingresses e = ings ->
  (cf_sso_server cfg = true \/
   Forall (fun s => eff_path (e_mp e (q_path (snd (fst s)))) = eff_path mp) steps /\
   eff_path (e_mp e (q_path q)) = eff_path mp) ->
  q_ep q = EpLogout \/ q_ep q = EpLogoutLocal \/ q_ep q = EpFrontChannel ->
  let b0 := sleep (run_jar_seq e {| b_jar := []; b_now := 0; b_session := false |} steps) dt in
  rs_kind (fst (do_request e b0 q f)) = CrOther ->
  jar_cookie trust now u (b_jar (snd (do_request e b0 q f))) (cookie_name (e_cfg e) CkSession) = None.
Proof.
  intros Hp Hc Hi Hs Hep.
  apply (jar_after_logout e steps dt q f mp trust now u); [| |exact Hep].
  - apply Forall_forall. intros s Hin. apply (kind_ok_of_same_path cfg ings e mp _ CkSession Hp Hc Hi eq_refl).
    destruct Hs as [Hs|[Hs _]]; [now left|right]. exact (proj1 (Forall_forall _ _) Hs s Hin).
  - apply (kind_ok_of_same_path cfg ings e mp _ CkSession Hp Hc Hi eq_refl).
    destruct Hs as [Hs|[_ Hs]]; [now left|now right].
Qed.

(* both parties of an SSO deployment: a logout at the server, or relayed through the proxy *)
Lemma jar_after_logout_sso_proxy e pe steps dt (px : bool) q f mp trust now u :
  same_deployment e pe mp CkSession ->
  Forall (px_kind_ok e pe mp CkSession) steps -> kind_ok (if px then pe else e) mp q CkSession ->
  (if px then q_ep q = EpLogoutLocal \/ q_ep q = EpFrontChannel
   else q_ep q = EpLogout \/ q_ep q = EpLogoutLocal \/ q_ep q = EpFrontChannel) ->
  let b0 := sleep (run_jar_seq_px e pe {| b_jar := []; b_now := 0; b_session := false |} steps) dt in
  rs_kind (fst (px_step e pe px b0 q f)) = CrOther ->
  jar_cookie trust now u (b_jar (snd (px_step e pe px b0 q f))) (cookie_name (e_cfg e) CkSession) = None.
Proof.
  intros Hd Hs Hq Hep b0 Hk. apply no_named_not_sent.
  apply (px_history_cleared e pe steps dt px q f mp CkSession Hd Hs Hq).
  - intros ->. exact Hep.
  - fold b0. unfold px_step in *. destruct px.
    + assert (Hrel : do_request_proxy pe b0 q f = do_request pe b0 q f).
      { unfold do_request_proxy. destruct Hep as [-> | ->]; reflexivity. }
      rewrite Hrel in *. rewrite do_request_response in *. destruct Hd as [Hc _]. rewrite <- Hc.
      apply logout_clears_session; [|exact Hk]. cbn [r_ep build_request]. tauto.
    + rewrite do_request_response in *. apply logout_clears_session; assumption.
Qed.

(* ------------------------------------------------------------------ scope of the SSO server's cookies (C16) *)

(* every Set-Cookie header of every response of every handler of an SSO server: Domain = sso.domain, Path=/ *)
Lemma sso_server_cookies_domain_scoped c r sc : cf_sso_server c = true -> In sc (rs_cookies (handle c r)) ->
  c_domain sc = cf_sso_domain c /\ c_path sc = slash.
Proof.
  intros Hs Hin. pose proof (proj1 (Forall_forall _ _) (handle_sites c r) sc Hin) as (s & v & m & ->).
  now apply site_scope_sso.
Qed.

(* ... and so is everything an SSO proxy of the deployment relays to the browser (it sets no cookie of its own) *)
Lemma sso_proxy_relays_domain_scoped pe b q f sc : cf_sso_server (e_cfg pe) = true ->
  In sc (rs_cookies (fst (do_request_proxy pe b q f))) ->
  c_domain sc = cf_sso_domain (e_cfg pe) /\ c_path sc = slash.
Proof.
  intros Hs Hin. unfold do_request_proxy in Hin.
  destruct (q_ep q);
    first [ rewrite do_request_response in Hin; exact (sso_server_cookies_domain_scoped _ _ _ Hs Hin)
          | cbn [fst rs_cookies] in Hin; contradiction ].
Qed.
