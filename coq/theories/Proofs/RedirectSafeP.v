(** Standalone mode end to end: re-serialisation + RelativeValidator + http.Redirect + WHATWG resolution. *)
From Coq Require Import NArith List Bool Lia ZifyN ZifyBool.
From WW Require Import Base.Bytes Model.GoUrl Model.Redirect Model.Whatwg Proofs.GoUrlP Proofs.RedirectP Proofs.WhatwgP.
Import ListNotations.
Open Scope N_scope.

Lemma is_empty_true (s : bytes) : is_empty s = true -> s = [].
Proof. destruct s; [reflexivity|discriminate]. Qed.

Lemma escaped_path_slashes p' rp fq rq : (rp = [] \/ exists x', rp = 47 :: 47 :: x') ->
  exists e, escaped_path (mkurl [] [] None [] (47 :: 47 :: p') rp false fq rq [] []) = 47 :: 47 :: e.
Proof.
  intros Hrp. unfold escaped_path. cbn [u_rawpath u_path].
  match goal with |- context[if ?b then _ else _] => destruct b eqn:E end.
  - destruct Hrp as [->|[x' ->]]; [discriminate|]. eexists. reflexivity.
  - change (beq (47 :: 47 :: p') [42]) with false. cbn iota. apply escape_path_slashes.
Qed.

(* what RelativeValidator accepts begins with exactly one slash (whatever follows) *)
Lemma relative_valid_shape t : relative_valid t = true -> exists r, t = 47 :: r /\ hd 0 r <> 47.
Proof.
  unfold relative_valid, parsable_request_uri. destruct t as [|c0 t']; [discriminate|]. cbn [is_empty].
  unfold parse_request_uri, parse.
  destruct (contains_ctl (c0 :: t')); [discriminate|]. cbn [is_empty andb].
  destruct (beq (c0 :: t') [42]) eqn:Eb.
  - apply beq_eq in Eb. injection Eb as -> ->. vm_compute. discriminate.
  - destruct (get_scheme (c0 :: t')) as [[sch0 rest0]|] eqn:Eg; cbn [opt_bind]; [|discriminate].
    destruct (split_query_go rest0) as [[rest fq] rq] eqn:Eq.
    destruct (parse_rest (to_lower sch0) rest true fq rq) as [v|] eqn:Ep; [|discriminate].
    intros H. apply andb_true_iff in H as [Hrel Hvalid]. unfold is_relative_url in Hrel.
    apply andb_true_iff in Hrel as [Hs _].
    rewrite (parse_rest_scheme _ _ _ _ _ _ Ep) in Hs. apply is_empty_true in Hs.
    pose proof (to_lower_nil _ Hs) as ->. apply get_scheme_nil in Eg. subst rest0.
    cbn [to_lower map] in Ep. apply parse_rest_relative in Ep as (Hp & path & rawpath & Esp & ->).
    pose proof (split_query_go_head _ _ _ _ _ Eq Hp) as ->.
    exists t'. split; [reflexivity|].
    destruct t' as [|d t'']; cbn [hd]; [lia|]. intros ->.
    apply split_query_go_slashes in Eq as [x' ->].
    unfold set_path in Esp. destruct (unescape EPath (47 :: 47 :: x')) as [p|] eqn:Eu; cbn [opt_bind] in Esp; [|discriminate].
    apply unescape_path_slashes in Eu as [p' ->].
    assert (Hrp : rawpath = [] \/ exists x'', rawpath = 47 :: 47 :: x'').
    { destruct (beq (47 :: 47 :: x') (escape (47 :: 47 :: p') EPath)); injection Esp as _ <-; [now left|right; eexists; reflexivity]. }
    assert (Hpath : path = 47 :: 47 :: p').
    { destruct (beq (47 :: 47 :: x') (escape (47 :: 47 :: p') EPath)); injection Esp as <- _; reflexivity. }
    subst path. destruct (escaped_path_slashes p' rawpath fq rq Hrp) as [e Ee].
    rewrite url_string_relative in Hvalid by reflexivity. rewrite Ee in Hvalid.
    unfold dot_slash_prefix in Hvalid. cbn [cut_byte] in Hvalid. change (47 =? 47) with true in Hvalid. cbn iota in Hvalid.
    change (contains_byte (fst ([], Some (47 :: e))) 58) with false in Hvalid. cbn iota in Hvalid. cbn [app] in Hvalid.
    unfold is_valid_absolute_path in Hvalid. cbn [has_prefix] in Hvalid.
    change (47 =? 47) with true in Hvalid. cbn [andb] in Hvalid.
    destruct (e ++ query_fragment_string _) in Hvalid; cbn in Hvalid; discriminate.
Qed.

(* a URL record as Canonical re-serialises it: scheme and host cleared; Opaque never starts with a slash
   (true of every url.Parse result, see parse_url_opaque) *)
Definition reserialisable (u : url) : Prop := u_scheme u = [] /\ u_host u = [] /\ hd 0 (u_opaque u) <> 47.

Lemma reserialised_valid u : reserialisable u -> relative_valid (url_string u) = true ->
  exists r, url_string u = 47 :: r /\ hd 0 r <> 47 /\ Forall nice (fst (split_query (url_string u))).
Proof.
  intros (Hs & Hh & Hop) Hv. destruct (relative_valid_shape _ Hv) as (r & E & Hr).
  exists r. split; [exact E|]. split; [exact Hr|].
  destruct (u_opaque u) as [|o os] eqn:Eo.
  - destruct (u_user u) as [ui|] eqn:Eu.
    + destruct (url_string_user u ui Hs Eo Eu) as [r' E']. rewrite E' in E. injection E as <-. cbn in Hr. lia.
    + rewrite (url_string_relative u Hs Hh Eo Eu) in *.
      unfold dot_slash_prefix in *. destruct (contains_byte (fst (cut_byte 47 (escaped_path u))) 58); [discriminate|].
      cbn [app]. destruct (query_fragment_shape u) as (A & B & Eqf & HA & HB). rewrite Eqf, app_assoc.
      apply split_query_nice; [|exact HB]. apply Forall_app. split; [apply escaped_path_nice|exact HA].
  - assert (Hne : u_opaque u <> []) by (rewrite Eo; discriminate).
    rewrite (url_string_opaque u Hs Hne), Eo in E. cbn in E. injection E as -> _. cbn in Hop. lia.
Qed.

Lemma one_slash_single s : one_slash s -> single_slash s.
Proof.
  intros [->|(x & r & -> & H)]; [now left|right]. exists x, r. split; [reflexivity|exact H].
Qed.

Lemma matching_path_reserialisable ipath : reserialisable (matching_path ipath).
Proof. repeat split; cbn; lia. Qed.

Lemma with_scheme_host_reserialisable u : hd 0 (u_opaque u) <> 47 -> reserialisable (with_scheme_host u [] []).
Proof. intros H. repeat split; exact H. Qed.

Lemma standalone_reserialise_spec ipath param :
  exists u, reserialisable u /\ standalone_reserialise ipath param = url_string u.
Proof.
  unfold standalone_reserialise. destruct (parse_url param) as [u|] eqn:E.
  - exists (with_scheme_host u [] []). split; [|reflexivity].
    apply with_scheme_host_reserialisable. now apply parse_url_opaque with param.
  - exists (with_scheme_host (matching_path ipath) [] []). split; [|reflexivity].
    apply with_scheme_host_reserialisable. cbn. lia.
Qed.

Section Safe.
  Variable idna : bytes -> option bytes.

  (* Clean on a re-serialised record: the fallback, or a Location that resolves to the request's origin *)
  Lemma clean_reserialised_safe u ipath oldpath bs bh bp : reserialisable u ->
    standalone_clean ipath (url_string u) = url_string (matching_path ipath) \/
    whatwg_origin idna bs bh bp (http_redirect_location oldpath (standalone_clean ipath (url_string u))) = WTuple bs bh bp.
  Proof.
    intros Hu. unfold standalone_clean, clean.
    destruct (relative_valid (url_string u)) eqn:Ev; [right|left; reflexivity].
    destruct (reserialised_valid u Hu Ev) as (r & E & Hr & Hn).
    apply single_slash_same_origin, one_slash_single.
    exact (http_redirect_one_slash oldpath (url_string u) r E Hr Hn).
  Qed.

  Lemma standalone_canonical_safe ipath oldpath param bs bh bp :
    standalone_canonical ipath param = url_string (matching_path ipath) \/
    whatwg_origin idna bs bh bp (http_redirect_location oldpath (standalone_canonical ipath param)) = WTuple bs bh bp.
  Proof.
    unfold standalone_canonical. destruct (standalone_reserialise_spec ipath param) as (u & Hu & ->).
    now apply clean_reserialised_safe.
  Qed.

  (* the canonical value is itself the serialisation of a re-serialisable record (the parsed parameter or the fallback) *)
  Lemma standalone_canonical_reserialisable ipath param :
    exists u, reserialisable u /\ standalone_canonical ipath param = url_string u.
  Proof.
    unfold standalone_canonical, standalone_clean, clean.
    destruct (standalone_reserialise_spec ipath param) as (u & Hu & ->).
    destruct (relative_valid (url_string u)).
    - now exists u.
    - exists (matching_path ipath). split; [apply matching_path_reserialisable|reflexivity].
  Qed.

  (* login callback / logout callback: Clean (resp. IsValidRedirect) applied to the cookie-carried canonical value *)
  Lemma standalone_callback_safe ipath ipath' oldpath param bs bh bp :
    standalone_clean ipath' (standalone_canonical ipath param) = url_string (matching_path ipath') \/
    whatwg_origin idna bs bh bp
      (http_redirect_location oldpath (standalone_clean ipath' (standalone_canonical ipath param))) = WTuple bs bh bp.
  Proof.
    destruct (standalone_canonical_reserialisable ipath param) as (u & Hu & ->).
    now apply clean_reserialised_safe.
  Qed.
End Safe.
