(** C14: sso.* settings left in the configuration of an instance that is NOT an SSO server (sso.enabled=false, or the
    values of a deployment template shared with the SSO instances) have no influence on its cookies: every answer of the
    model - names, Domain, Path, SameSite, Secure, Max-Age of every Set-Cookie header, and the status - is the same
    whatever sso.domain and sso.session-cookie-name contain. *)
From Coq Require Import ZArith NArith List Bool.
From WW Require Import Base.Bytes Model.CookieUrl Model.Cookie.
Import ListNotations.

(* the same configuration with other values in sso.domain / sso.session-cookie-name *)
Definition with_sso_leftover (c : kconfig) (d n : bytes) : kconfig :=
  {| cf_secure := cf_secure c; cf_samesite := cf_samesite c; cf_prefix := cf_prefix c; cf_ingresses := cf_ingresses c;
     cf_sso_server := cf_sso_server c; cf_sso_domain := d; cf_sso_name := n; cf_legacy := cf_legacy c;
     cf_rl_enabled := cf_rl_enabled c; cf_rl_logins := cf_rl_logins c; cf_rl_window := cf_rl_window c;
     cf_seg_prefix := cf_seg_prefix c; cf_rl_ceil := cf_rl_ceil c |}.

Lemma standalone_handle_ignores_sso_leftover c d n r : cf_sso_server c = false ->
  handle (with_sso_leftover c d n) r = handle c r.
Proof. destruct c; cbn. intros ->. reflexivity. Qed.

Lemma standalone_emit_ignores_sso_leftover c d n mp s v m : cf_sso_server c = false ->
  site_emit (with_sso_leftover c d n) mp s v m = site_emit c mp s v m.
Proof. destruct c; cbn. intros ->. reflexivity. Qed.

Lemma standalone_names_ignore_sso_leftover c d n k : cf_sso_server c = false ->
  cookie_name (with_sso_leftover c d n) k = cookie_name c k.
Proof. destruct c; cbn. intros ->. reflexivity. Qed.

Lemma validate_ignores_sso_leftover c d n : validate_cookie (with_sso_leftover c d n) = validate_cookie c.
Proof. destruct c; reflexivity. Qed.
