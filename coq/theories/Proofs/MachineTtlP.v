(** C10, lineage form: "every session entry in the shared store carries an expiry that is never later
    than the session's creation time plus the maximum lifetime".

    [ttl_invariant] (MachineP.v) bounds the expiry by now + max lifetime.  Here the expiry of an entry is
    tied to the session record the entry HOLDS: e_exp e = Some (ends of the record) = Some (creation of the
    record + max lifetime).  That is false in general (known finding [relogin_schedule]: an in-flight
    refresh of a logged-out session overwrites, with SET XX KEEPTTL, the entry created by a re-login under
    the same provider session id: old record, new expiry).  It holds under exactly the hypothesis that
    excludes that:

      [login_quiet]   no (successful) login happens under a session id while a request thread whose
                      cookie names that id is between its re-read under the lock and its store update
                      (phases PIdp / PUpdGet / PUpdSet: it holds a record it is going to write);

    which follows from the history-level hypothesis

      [NoDup (login_sids es)]   no session id is logged in twice in the history.

    Both forms are proved ([lin_inv_run], [expiry_is_session_end]); events are otherwise ARBITRARY: every
    interleaving, any number of threads, every fault, cancellation, crash (a thread never run again),
    ticks and provider changes.  [relogin_expiry_refuted] shows the hypothesis cannot be dropped.

    The invariant ([lin_inv]) ranges over the store entries AND the records held by threads:
      - a store entry's expiry is the end of the record it holds;
      - a record a thread for key k is about to write (or has read under the lock and is about to
        refresh) ends when the entry currently stored under k ends. *)
From Coq Require Import ZArith NArith Bool List Lia.
From WW Require Import Gen.Params Base.AMap Model.SessionTime Proofs.SessionTimeP Model.Machine Model.Entry
     Proofs.MachineP Proofs.MachineLifeP Proofs.MachineRefute Proofs.MachineRtP.
Import ListNotations.
Open Scope Z_scope.

(** * Statement vocabulary *)
Definition sd_created (d : sdata) : Z := created (sd_md d).
Definition sd_ends (d : sdata) : Z := ends (sd_md d).

(* the session ids of the logins of a history, in order *)
Definition login_sids (es : list event) : list N :=
  flat_map (fun e => match e with ELogin sid _ => [sid] | _ => [] end) es.

(* the records a thread may still write to the store: read under the lock and about to be refreshed,
   or refreshed and about to be written *)
Definition pending (p : phase) : list sdata :=
  match p with
  | PIdp _ cur _ _ => [cur]
  | PUpdGet _ new _ _ | PUpdSet _ new _ _ => [new]
  | _ => []
  end.

(* no thread whose cookie names k holds a record it may still write *)
Definition key_quiet (s : mstate) (k : N) : Prop :=
  forall t th, alookup t (m_ts s) = Some th -> cookie_key (t_cookie th) = k -> pending (t_phase th) = [].

(* every successful login of the run happens on a quiet key *)
Definition login_quiet (c : config) (s0 : mstate) (es : list event) : Prop :=
  forall es1 sid acr es2, es = es1 ++ ELogin sid acr :: es2 -> login_acr_ok c acr = true ->
    key_quiet (run_events c s0 es1) sid.

Record lin_inv (s : mstate) : Prop := {
  li_store : forall k e, alookup k (w_store (m_w s)) = Some e -> e_exp e = Some (sd_ends (e_data e));
  li_thr : forall k e t th d, alookup k (w_store (m_w s)) = Some e -> alookup t (m_ts s) = Some th ->
             cookie_key (t_cookie th) = k -> In d (pending (t_phase th)) -> sd_ends d = sd_ends (e_data e)
}.

(** * What one step (any fault, cancelled or not) does to the store and to the thread's pending record *)
Inductive lstep (c : config) (w : world) (t : thread) (w' : world) (t' : thread) : Prop :=
| ls_quiet :
    (w_store w' = w_store w \/ exists key, w_store w' = adelete key (w_store w)) ->
    incl (pending (t_phase t')) (pending (t_phase t)) -> lstep c w t w' t'
| ls_reread e :
    store_get w (cookie_key (t_cookie t)) = Some e -> w_store w' = w_store w ->
    pending (t_phase t') = [e_data e] -> lstep c w t w' t'
| ls_grant cur new :
    In cur (pending (t_phase t)) -> sd_ends new = sd_ends cur -> w_store w' = w_store w ->
    pending (t_phase t') = [new] -> lstep c w t w' t'
| ls_write e new :
    store_get w (cookie_key (t_cookie t)) = Some e -> In new (pending (t_phase t)) ->
    w_store w' = ainsert (cookie_key (t_cookie t))
                   {| e_dek := cookie_dek (t_cookie t); e_data := new; e_exp := e_exp e |} (w_store w) ->
    pending (t_phase t') = [] -> lstep c w t w' t'.

Lemma after_get_pending c t g now : pending (after_get c t g now) = [].
Proof. unfold after_get, start_refresh. step_cases; reflexivity. Qed.

Lemma to_unlock_pending c t old tok res now : pending (to_unlock c t old tok res now) = [].
Proof. unfold to_unlock, finish_unlock. destruct (c_redis c || c_memlock c); reflexivity. Qed.

Lemma finish_unlock_pending c t old res now : pending (finish_unlock c t old res now) = [].
Proof. reflexivity. Qed.

Ltac pend Hp :=
  cbn [fst snd with_phase t_phase w_store set_locks set_store set_idp];
  rewrite ?Hp, ?after_get_pending, ?to_unlock_pending, ?finish_unlock_pending; cbn [pending].

Ltac lquiet Hp :=
  apply ls_quiet;
  [ cbn [fst snd w_store set_locks set_store set_idp];
    first [left; reflexivity | right; eexists; reflexivity]
  | pend Hp; first [apply incl_nil_l | apply incl_refl] ].

Lemma step_lstep c w t f :
  c_upd_atomic c = true ->
  lstep c w t (fst (fst (step c w t f))) (snd (fst (step c w t f))).
Proof.
  intros Hu. unfold step. destruct (t_phase t) eqn:Hp; cbv beta iota zeta; rewrite ?Hu.
  - (* PGet *) step_cases; lquiet Hp.
  - (* PLock *) step_cases; lquiet Hp.
  - (* PReread *)
    destruct (t_cancel t); [lquiet Hp|].
    destruct f; try (destruct (retry_left c start (w_clock w)); lquiet Hp).
    all: destruct (store_get w (cookie_key (t_cookie t))) as [e|] eqn:Hg; [|lquiet Hp].
    all: destruct (classify_entry (cookie_dek (t_cookie t)) e (w_clock w)) as [cur|d b|r] eqn:Hcl; [|lquiet Hp|lquiet Hp].
    all: destruct (can_refresh c cur (w_clock w)); [|lquiet Hp].
    all: apply classify_data in Hcl; subst cur.
    all: eapply ls_reread; [exact Hg|reflexivity|reflexivity].
  - (* PIdp *)
    destruct (t_cancel t); [lquiet Hp|].
    destruct f; try lquiet Hp; try (destruct (retry_left c start (w_clock w)); lquiet Hp).
    all: destruct (idp_refresh w (sd_rt cur)) as [w' [[[a r] secs]|]] eqn:Hi; inv_idp.
    all: try lquiet Hp.
    all: eapply (ls_grant c w t _ _ cur);
      [rewrite Hp; left; reflexivity
      | |reflexivity|reflexivity]; exact (proj1 (proj2 (refreshed_data_same_life _ _ _ _ _ _))).
  - (* PUpdGet *) step_cases; lquiet Hp.
  - (* PUpdSet *)
    destruct (t_cancel t); [lquiet Hp|].
    destruct f; try (destruct (retry_left c start (w_clock w)); lquiet Hp).
    all: destruct (store_get w (cookie_key (t_cookie t))) as [e|] eqn:Hg; [|lquiet Hp].
    all: eapply ls_write; [exact Hg|rewrite Hp; left; reflexivity|reflexivity|pend Hp; reflexivity].
  - (* PUnlock *) step_cases; lquiet Hp.
  - (* PDel *) step_cases; lquiet Hp.
  - (* PDone *) lquiet Hp.
Qed.

(** * Preservation, event by event *)
Lemma run_lin_inv c s t f : c_upd_atomic c = true -> lin_inv s -> lin_inv (fst (apply_event c s (ERun t f))).
Proof.
  intros Hu [Hs Ht]. cbn [apply_event]. destruct (alookup t (m_ts s)) as [th0|] eqn:El; [|split; assumption].
  pose proof (step_lstep c (m_w s) th0 f Hu) as Hl.
  pose proof (step_cookie c (m_w s) th0 f) as [Hck _].
  destruct (step c (m_w s) th0 f) as [[w' th'] o]. cbn [fst snd] in *.
  destruct Hl as [Hst Hinc | e Hg Hst Hpe | cur new Hin Hends Hst Hpe | e new Hg Hin Hst Hpe].
  - (* nothing written, no new pending record *)
    assert (Hsub : forall k e, alookup k (w_store w') = Some e -> alookup k (w_store (m_w s)) = Some e).
    { destruct Hst as [->|[key ->]]; [auto|]. intros k e. rewrite alookup_delete. destruct (N.eqb k key); [discriminate|auto]. }
    split; cbn [m_w m_ts].
    + intros k e H. apply (Hs k). apply Hsub. exact H.
    + intros k e t2 th2 d He Hl2 Hk Hd. apply Hsub in He. apply alookup_insert_inv in Hl2 as [[-> ->]|[_ Hl2]].
      * apply (Ht k e t th0 d He El); [rewrite <- Hck; exact Hk|apply Hinc; exact Hd].
      * apply (Ht k e t2 th2 d He Hl2 Hk Hd).
  - (* re-read under the lock: the pending record is the stored one *)
    apply store_get_some in Hg.
    split; cbn [m_w m_ts]; rewrite Hst.
    + exact Hs.
    + intros k e1 t2 th2 d He Hl2 Hk Hd. apply alookup_insert_inv in Hl2 as [[-> ->]|[_ Hl2]].
      * rewrite Hpe in Hd. destruct Hd as [<-|[]]. rewrite Hck in Hk. rewrite Hk in Hg. congruence.
      * apply (Ht k e1 t2 th2 d He Hl2 Hk Hd).
  - (* grant: the refreshed record ends when the record read under the lock ends *)
    split; cbn [m_w m_ts]; rewrite Hst.
    + exact Hs.
    + intros k e1 t2 th2 d He Hl2 Hk Hd. apply alookup_insert_inv in Hl2 as [[-> ->]|[_ Hl2]].
      * rewrite Hpe in Hd. destruct Hd as [<-|[]]. rewrite Hends.
        apply (Ht k e1 t th0 cur He El); [rewrite <- Hck; exact Hk|exact Hin].
      * apply (Ht k e1 t2 th2 d He Hl2 Hk Hd).
  - (* conditional write: new record, expiry kept; both end at the same instant *)
    apply store_get_some in Hg.
    pose proof (Ht _ e t th0 new Hg El eq_refl Hin) as Hnew.
    split; cbn [m_w m_ts]; rewrite Hst.
    + intros k e1 H. apply alookup_insert_inv in H as [[-> ->]|[_ H]]; [|exact (Hs k e1 H)].
      cbn [e_exp e_data]. rewrite Hnew. exact (Hs _ e Hg).
    + intros k e1 t2 th2 d He Hl2 Hk Hd. apply alookup_insert_inv in Hl2 as [[-> ->]|[_ Hl2]].
      * rewrite Hpe in Hd. contradiction.
      * apply alookup_insert_inv in He as [[-> ->]|[_ He]]; [|apply (Ht k e1 t2 th2 d He Hl2 Hk Hd)].
        cbn [e_data]. rewrite Hnew. apply (Ht _ e t2 th2 d Hg Hl2 Hk Hd).
Qed.

Lemma login_lin_inv c s sid acr :
  c_redis c = true -> lin_inv s -> (login_acr_ok c acr = true -> key_quiet s sid) ->
  lin_inv (fst (apply_event c s (ELogin sid acr))).
Proof.
  intros Hr [Hs Ht] Hq. cbn [apply_event fst]. unfold login. destruct (login_acr_ok c acr) eqn:Ha.
  - specialize (Hq eq_refl). split; cbn [m_w m_ts w_store].
    + intros k e H. apply alookup_insert_inv in H as [[-> ->]|[_ H]]; [|exact (Hs k e H)].
      cbn [e_exp e_data]. rewrite Hr. unfold sd_ends. cbn [sd_md]. destruct (c_inact c); reflexivity.
    + intros k e t th d H Hl Hk Hd. apply alookup_insert_inv in H as [[-> ->]|[_ H]].
      * rewrite (Hq t th Hl Hk) in Hd. contradiction.
      * apply (Ht k e t th d H Hl Hk Hd).
  - split; cbn [m_w m_ts w_store]; assumption.
Qed.

Lemma sessionless_pending th : sessionless th -> pending (t_phase th) = [].
Proof. unfold sessionless. destruct (t_phase th); try contradiction; reflexivity. Qed.

Lemma other_lin_inv c s e :
  match e with ERun _ _ | ELogin _ _ => False | _ => True end -> lin_inv s -> lin_inv (fst (apply_event c s e)).
Proof.
  intros He [Hs Ht]. destruct e as [d|sid acr|t kd ck|t f|t|tau rot]; try contradiction; cbn [apply_event].
  - split; cbn [fst m_w m_ts set_clock w_store]; assumption.
  - destruct (alookup t (m_ts s)) eqn:El; [split; assumption|]. split; cbn [fst m_w m_ts]; [exact Hs|].
    intros k e t2 th2 d H Hl2 Hk Hd. apply alookup_insert_inv in Hl2 as [[-> ->]|[_ Hl2]].
    + rewrite (sessionless_pending _ (spawn_sessionless c kd ck (w_clock (m_w s)))) in Hd. contradiction.
    + apply (Ht k e t2 th2 d H Hl2 Hk Hd).
  - destruct (alookup t (m_ts s)) as [th0|] eqn:El; [|split; assumption]. split; cbn [fst m_w m_ts]; [exact Hs|].
    intros k e t2 th2 d H Hl2 Hk Hd. apply alookup_insert_inv in Hl2 as [[-> ->]|[_ Hl2]].
    + cbn [t_cookie t_phase] in Hk, Hd. apply (Ht k e t th0 d H El Hk Hd).
    + apply (Ht k e t2 th2 d H Hl2 Hk Hd).
  - split; cbn [fst m_w m_ts set_tau w_store]; assumption.
Qed.

Lemma lin_inv_init tau : lin_inv (init_state tau).
Proof. split; cbn; intros; discriminate. Qed.

(** * The invariant in every reachable state, under the quiet-login hypothesis *)
Theorem lin_inv_run c s0 es :
  c_redis c = true -> c_upd_atomic c = true -> lin_inv s0 -> login_quiet c s0 es ->
  lin_inv (run_events c s0 es).
Proof.
  intros Hr Hu. induction es as [|e es IH] using rev_ind; intros H0 Hq; [exact H0|].
  rewrite run_events_app. cbn [run_events fold_left].
  assert (Hi : lin_inv (run_events c s0 es)).
  { apply IH; [exact H0|]. intros es1 sid acr es2 E. apply (Hq es1 sid acr (es2 ++ [e])).
    rewrite E, <- app_assoc. reflexivity. }
  destruct e as [d|sid acr|t kd ck|t f|t|tau rot].
  - apply other_lin_inv; [exact I|exact Hi].
  - apply login_lin_inv; [exact Hr|exact Hi|]. intros Ha. exact (Hq es sid acr [] eq_refl Ha).
  - apply other_lin_inv; [exact I|exact Hi].
  - apply run_lin_inv; [exact Hu|exact Hi].
  - apply other_lin_inv; [exact I|exact Hi].
  - apply other_lin_inv; [exact I|exact Hi].
Qed.

(** * No session id logged in twice implies that every login is quiet *)
Lemma login_sids_app es1 es2 : login_sids (es1 ++ es2) = login_sids es1 ++ login_sids es2.
Proof. apply flat_map_app. Qed.

Lemma not_in_login_sids k es : ~ In k (login_sids es) -> Forall (not_login_of k) es.
Proof.
  induction es as [|e es IH]; intros H; constructor.
  - intros acr ->. apply H. left. reflexivity.
  - apply IH. intros Hin. apply H. change (e :: es) with ([e] ++ es). rewrite login_sids_app.
    apply in_or_app. right. exact Hin.
Qed.

Theorem nodup_login_quiet c tau es :
  c_upd_atomic c = true -> NoDup (login_sids es) -> login_quiet c (init_state tau) es.
Proof.
  intros Hu Hnd es1 sid acr es2 E _ t th Hl Hk. apply sessionless_pending.
  subst es. rewrite login_sids_app in Hnd.
  change (login_sids (ELogin sid acr :: es2)) with (sid :: login_sids es2) in Hnd.
  apply NoDup_remove_2 in Hnd.
  apply (later_requests_sessionless c sid t es1 (init_state tau)); auto.
  apply not_in_login_sids. intros Hin. apply Hnd. apply in_or_app. left. exact Hin.
Qed.

(** * C10: the expiry of a stored entry is the creation of the session it holds plus the maximum lifetime *)
Theorem expiry_is_session_end_quiet c tau es :
  c_redis c = true -> c_upd_atomic c = true -> login_quiet c (init_state tau) es ->
  forall k e, alookup k (w_store (m_w (run_events c (init_state tau) es))) = Some e ->
    e_exp e = Some (sd_ends (e_data e)) /\ sd_ends (e_data e) = sd_created (e_data e) + c_maxlife c.
Proof.
  intros Hr Hu Hq k e H. split.
  - exact (li_store _ (lin_inv_run c _ es Hr Hu (lin_inv_init tau) Hq) k e H).
  - destruct (life_invariant c es tau) as [Hg _]. exact (proj1 (Hg k e H)).
Qed.

Theorem expiry_is_session_end c tau es :
  c_redis c = true -> c_upd_atomic c = true -> NoDup (login_sids es) ->
  forall k e, alookup k (w_store (m_w (run_events c (init_state tau) es))) = Some e ->
    e_exp e = Some (sd_ends (e_data e)) /\ sd_ends (e_data e) = sd_created (e_data e) + c_maxlife c.
Proof.
  intros Hr Hu Hnd. apply expiry_is_session_end_quiet; auto. apply nodup_login_quiet; auto.
Qed.

(* in the property's words: the expiry is creation + maximum lifetime, hence never later; and what a reader
   of the store sees at time now is a remaining time-to-live of exactly creation + maximum lifetime - now *)
Corollary expiry_never_later c tau es :
  c_redis c = true -> c_upd_atomic c = true -> NoDup (login_sids es) ->
  forall k e, alookup k (w_store (m_w (run_events c (init_state tau) es))) = Some e ->
    exists x, e_exp e = Some x /\ x = sd_created (e_data e) + c_maxlife c /\ x <= sd_created (e_data e) + c_maxlife c.
Proof.
  intros Hr Hu Hnd k e H. destruct (expiry_is_session_end c tau es Hr Hu Hnd k e H) as [H1 H2].
  exists (sd_ends (e_data e)). split; [exact H1|]. lia.
Qed.

Corollary live_entry_remaining_ttl c tau es :
  c_redis c = true -> c_upd_atomic c = true -> NoDup (login_sids es) ->
  let w := m_w (run_events c (init_state tau) es) in
  forall k e, store_get w k = Some e ->
    exists x, e_exp e = Some x /\
              x - w_clock w = sd_created (e_data e) + c_maxlife c - w_clock w /\
              0 < x - w_clock w.
Proof.
  intros Hr Hu Hnd w k e Hg. apply store_get_char in Hg as [Ha Hlive].
  destruct (expiry_is_session_end c tau es Hr Hu Hnd k e Ha) as [H1 H2].
  exists (sd_ends (e_data e)). split; [exact H1|]. split; [lia|].
  unfold entry_live in Hlive. rewrite H1 in Hlive. apply Z.ltb_lt in Hlive. lia.
Qed.

(** * The hypothesis cannot be dropped (known finding, current code) *)
(* [relogin_schedule]: the session id 1 is logged in twice; the in-flight refresh of the first session writes
   its record into the entry of the second: the entry then expires 3601 s after the end of the session it holds *)
Lemma relogin_expiry_refuted :
  let c := cfg_redis true true true in
  let s := run_events c (init_state 3600) relogin_schedule in
  c_redis c = true /\ c_upd_atomic c = true /\ login_sids relogin_schedule = [1; 1]%N /\
  ~ NoDup (login_sids relogin_schedule) /\ ~ login_quiet c (init_state 3600) relogin_schedule /\
  exists e, store_get (m_w s) 1 = Some e /\
            sd_ends (e_data e) = sd_created (e_data e) + c_maxlife c /\
            e_exp e = Some (sd_created (e_data e) + c_maxlife c + 3601 * second).
Proof.
  cbn zeta. split; [reflexivity|split; [reflexivity|split; [reflexivity|split; [|split]]]].
  - intros H. vm_compute in H. inversion H as [|x l Hn _]; subst. apply Hn. left. reflexivity.
  - intros H.
    specialize (H (firstn 10 relogin_schedule) 1%N 2%N (skipn 11 relogin_schedule) eq_refl eq_refl).
    unfold key_quiet in H.
    remember (run_events (cfg_redis true true true) (init_state 3600) (firstn 10 relogin_schedule)) as s eqn:Es.
    vm_compute in Es. subst s. cbn [m_ts] in H.
    specialize (H 1%N _ eq_refl eq_refl). vm_compute in H. discriminate.
  - vm_compute. eexists. split; [reflexivity|split; reflexivity].
Qed.

(** * Non-vacuity: three sessions, a refresh of the first, a logout of the third *)
Definition lineage_schedule : list event :=
  [ELogin 1 2; ETick (10 * second); ELogin 2 2; ETick (10 * second); ELogin 3 2; ETick (3601 * second);
   ESpawn 1 KProxy (CTicket 1 1);
   ERun 1 FNone; ERun 1 FNone; ERun 1 FNone; ERun 1 FNone; ERun 1 FNone; ERun 1 FNone;
   ESpawn 2 KLogoutLocal (CTicket 3 3); ERun 2 FNone; ERun 2 FNone;
   ETick (100 * second)].

Lemma lineage_nonvacuous :
  let c := cfg_redis true true true in
  let s := run_events c (init_state 3600) lineage_schedule in
  c_redis c = true /\ c_upd_atomic c = true /\ NoDup (login_sids lineage_schedule) /\
  w_idp_log (m_w s) = [IdpGrant 1 true] /\
  thread_done s 1 (OForward (Some 4%N) None) /\ thread_done s 2 (OStatus 204) /\
  (exists e, store_get (m_w s) 1 = Some e /\ sd_rt (e_data e) = 4%N /\ sd_created (e_data e) = 0 /\
             e_exp e = Some (7200 * second)) /\
  (exists e, store_get (m_w s) 2 = Some e /\ sd_created (e_data e) = 10 * second /\
             e_exp e = Some (7210 * second)) /\
  store_get (m_w s) 3 = None.
Proof.
  cbn zeta. split; [reflexivity|split; [reflexivity|split]].
  - vm_compute. repeat constructor; cbn; intuition discriminate.
  - vm_compute. split; [reflexivity|]. split; [eexists; split; reflexivity|]. split; [eexists; split; reflexivity|].
    split; [eexists; repeat split; reflexivity|]. split; [eexists; repeat split; reflexivity|reflexivity].
Qed.
