(** Declarative specification of the documented glob semantics (docs/configuration.md,
    `auto-login-ignore-paths`), segment-wise; independent of the matcher's algorithm.

    Pattern and name are split on '/'. Within a segment a literal byte matches itself and a '*'
    matches any run of bytes other than '/' (so a `**` glued to other characters is two '*', i.e.
    behaves as '*'). A pattern segment that is exactly `**` matches zero or more whole name
    segments (hence `/x/**` matches `/x`, `/x/a`, `/x/a/b`). *)
From Coq Require Import NArith List Bool.
From WW Require Import Base.Bytes Model.Glob.
Import ListNotations.
Open Scope N_scope.

Inductive SegMatch : bytes -> bytes -> Prop :=
| sm_nil : SegMatch [] []
| sm_lit x p s : x <> star -> SegMatch p s -> SegMatch (x :: p) (x :: s)
| sm_star_skip p s : SegMatch p s -> SegMatch (star :: p) s
| sm_star_eat c p s : c <> slash -> SegMatch (star :: p) s -> SegMatch (star :: p) (c :: s).

Inductive SegsMatch : list bytes -> list bytes -> Prop :=
| ss_nil : SegsMatch [] []
| ss_dstar_zero ps ns : SegsMatch ps ns -> SegsMatch (dstar_pat :: ps) ns
| ss_dstar_more ps s ns : SegsMatch (dstar_pat :: ps) ns -> SegsMatch (dstar_pat :: ps) (s :: ns)
| ss_seg p ps s ns : p <> dstar_pat -> SegMatch p s -> SegsMatch ps ns -> SegsMatch (p :: ps) (s :: ns).

Definition Matches (pat name : bytes) : Prop :=
  SegsMatch (split_on slash pat) (split_on slash name).

(** * Character-level form of the same semantics (used as the bridge to the matcher's loop)

    [CM sos p n]: the pattern suffix [p] matches the name suffix [n]; [sos] tells whether [p]
    starts at the start of a pattern segment (then [n] starts a name segment as well). A
    whole-segment `**` is recognised by [is_dseg] at [sos = true]. *)

Definition is_dseg (p : bytes) : bool :=
  match p with
  | a :: b :: r => (a =? star) && (b =? star) && match r with [] => true | c :: _ => c =? slash end
  | _ => false
  end.

(* `*` (or a glued `**`) is read as a single-segment star unless it is a whole-segment `**` *)
Definition star_ok (sos : bool) (p : bytes) : Prop := sos = true -> is_dseg p = false.

Inductive CM : bool -> bytes -> bytes -> Prop :=
| cm_nil sos : CM sos [] []
| cm_lit sos x p n : x <> star -> CM (x =? slash) p n -> CM sos (x :: p) (x :: n)
| cm_star_skip sos p n : star_ok sos (star :: p) -> CM false p n -> CM sos (star :: p) n
| cm_star_eat sos c p n : star_ok sos (star :: p) -> c <> slash -> CM false (star :: p) n -> CM sos (star :: p) (c :: n)
| cm_dstar_end n : CM true [star; star] n
| cm_dstar_zero p n : CM true p n -> CM true (star :: star :: slash :: p) n
| cm_dstar_more p pre n : CM true (star :: star :: slash :: p) n -> CM true (star :: star :: slash :: p) (pre ++ slash :: n)
| cm_end_one sos : CM sos [slash; star; star] []
| cm_end_more sos p : CM false (slash :: p) [] -> CM sos (slash :: star :: star :: slash :: p) [].
