(** Proofs about Model/HtmlEsc.v (C15 part 5). *)
From Coq Require Import NArith List Bool Lia ZifyN ZifyBool.
From WW Require Import Base.Bytes Model.HtmlEsc.
Import ListNotations.
Open Scope N_scope.

(** * html_escape *)
Definition html_special (c : N) : bool :=
  (c =? 0) || (c =? 34) || (c =? 38) || (c =? 39) || (c =? 43) || (c =? 60) || (c =? 62).

Definition entities : list bytes := [ent_quot; ent_amp; ent_apos; ent_plus; ent_lt; ent_gt].

(* bytes the escaper never emits: less-than, greater-than, both quotes, plus, NUL *)
Definition html_dangerous (c : N) : bool := (c =? 0) || (c =? 34) || (c =? 39) || (c =? 43) || (c =? 60) || (c =? 62).

Lemma html_repl_cases c :
  (html_special c = false /\ html_repl c = [c]) \/
  (c = 0 /\ html_repl c = repl_nul) \/
  (html_special c = true /\ In (html_repl c) entities).
Proof.
  unfold html_repl, html_special, entities.
  destruct (c =? 0) eqn:E0; [right; left; split; [lia|reflexivity]|].
  destruct (c =? 34) eqn:E1; [right; right; cbn; auto|].
  destruct (c =? 38) eqn:E2; [right; right; cbn; auto|].
  destruct (c =? 39) eqn:E3; [right; right; cbn; auto|].
  destruct (c =? 43) eqn:E4; [right; right; cbn; auto 7|].
  destruct (c =? 60) eqn:E5; [right; right; cbn; auto 8|].
  destruct (c =? 62) eqn:E6; [right; right; cbn; auto 9|].
  left. auto.
Qed.

Lemma html_repl_safe c x : In x (html_repl c) -> html_dangerous x = false.
Proof.
  unfold html_repl.
  destruct (c =? 0) eqn:E0; [cbn; intros H; repeat (destruct H as [<-|H]; [reflexivity|]); destruct H|].
  destruct (c =? 34) eqn:E1; [cbn; intros H; repeat (destruct H as [<-|H]; [reflexivity|]); destruct H|].
  destruct (c =? 38) eqn:E2; [cbn; intros H; repeat (destruct H as [<-|H]; [reflexivity|]); destruct H|].
  destruct (c =? 39) eqn:E3; [cbn; intros H; repeat (destruct H as [<-|H]; [reflexivity|]); destruct H|].
  destruct (c =? 43) eqn:E4; [cbn; intros H; repeat (destruct H as [<-|H]; [reflexivity|]); destruct H|].
  destruct (c =? 60) eqn:E5; [cbn; intros H; repeat (destruct H as [<-|H]; [reflexivity|]); destruct H|].
  destruct (c =? 62) eqn:E6; [cbn; intros H; repeat (destruct H as [<-|H]; [reflexivity|]); destruct H|].
  intros [<-|[]]. unfold html_dangerous. lia.
Qed.

Lemma html_escape_safe s x : In x (html_escape s) -> html_dangerous x = false.
Proof.
  unfold html_escape. rewrite in_flat_map. intros (c & _ & Hx). exact (html_repl_safe c x Hx).
Qed.

Lemma html_escape_cons c s : html_escape (c :: s) = html_repl c ++ html_escape s.
Proof. reflexivity. Qed.

Lemma ent_split ent E pre post : In ent entities -> ent ++ E = pre ++ 38 :: post ->
  (pre = [] /\ has_prefix (38 :: post) ent = true) \/ (exists pre', E = pre' ++ 38 :: post).
Proof.
  unfold entities. cbn [In]. intros Hin H.
  repeat (destruct Hin as [<-|Hin]; [
    destruct pre as [|p0 pre]; cbn in H;
    [ left; split; [reflexivity|]; rewrite <- H; apply has_prefix_spec; exists E; reflexivity
    | injection H as _ H;
      repeat (destruct pre as [|? pre]; cbn in H; [discriminate|injection H as _ H]);
      right; eexists; exact H ] |]).
  destruct Hin.
Qed.

(* every ampersand of the output is the first byte of one of the six entities *)
Lemma html_escape_amp s : forall pre post,
  html_escape s = pre ++ 38 :: post -> exists ent, In ent entities /\ has_prefix (38 :: post) ent = true.
Proof.
  induction s as [|c s IH]; intros pre post H.
  - destruct pre; discriminate.
  - rewrite html_escape_cons in H.
    destruct (html_repl_cases c) as [(Hs & Hr)|[(-> & Hr)|(_ & Hin)]].
    + rewrite Hr in H. destruct pre as [|p pre]; cbn in H; injection H as Hc Ht.
      * subst c. discriminate.
      * exact (IH _ _ Ht).
    + rewrite Hr in H. unfold repl_nul in H.
      do 3 (destruct pre as [|? pre]; cbn in H; [discriminate|injection H as _ H]). exact (IH _ _ H).
    + destruct (ent_split _ _ _ _ Hin H) as [(_ & Hp)|(pre' & HE)].
      * eexists. split; [exact Hin|exact Hp].
      * exact (IH _ _ HE).
Qed.

(** * urlFilter *)
Lemma cut_byte_spec sep s a b : cut_byte sep s = Some (a, b) -> s = a ++ sep :: b /\ ~ In sep a.
Proof.
  revert a b. induction s as [|c s IH]; cbn [cut_byte]; [discriminate|]. intros a b.
  destruct (c =? sep) eqn:E.
  - intros [= <- <-]. apply N.eqb_eq in E. subst. split; [reflexivity|intros []].
  - destruct (cut_byte sep s) as [[a0 b0]|]; [|discriminate]. intros [= <- <-].
    destruct (IH _ _ eq_refl) as (-> & Hn). split; [reflexivity|]. apply N.eqb_neq in E.
    intros [H|H]; [congruence|contradiction].
Qed.

Lemma cut_byte_none sep s : cut_byte sep s = None -> ~ In sep s.
Proof.
  induction s as [|c s IH]; cbn [cut_byte]; [intros _ []|].
  destruct (c =? sep) eqn:E; [discriminate|]. destruct (cut_byte sep s) as [[]|]; [discriminate|].
  intros _ [H|H]; [apply N.eqb_neq in E; congruence|now apply IH].
Qed.

Lemma url_filter_cases x : (is_safe_url x = true /\ url_filter x = x) \/ (is_safe_url x = false /\ url_filter x = 35 :: fail_safe).
Proof. unfold url_filter. destruct (is_safe_url x); auto. Qed.

(* the filter's output either has no "scheme:" prefix at all, or a '/' before the first ':' (a relative
   reference), or a scheme that EqualFolds to http, https or mailto *)
Lemma url_filter_scheme x p r :
  cut_byte 58 (url_filter x) = Some (p, r) -> contains_byte p 47 = false -> safe_scheme p = true.
Proof.
  destruct (url_filter_cases x) as [(Hs & ->)|(_ & ->)].
  - unfold is_safe_url in Hs. intros Hc Hn. rewrite Hc, Hn in Hs. exact Hs.
  - vm_compute. discriminate.
Qed.

Lemma url_filter_unsafe x p r :
  cut_byte 58 x = Some (p, r) -> contains_byte p 47 = false -> safe_scheme p = false ->
  url_filter x = 35 :: fail_safe.
Proof.
  intros Hc Hn Hs. unfold url_filter, is_safe_url. now rewrite Hc, Hn, Hs.
Qed.

(* EqualFold against a lower-case ASCII word, for ASCII input, is equality after lower-casing *)
Definition all_lower (t : bytes) : Prop := Forall (fun c => 97 <= c <= 122) t.
Definition all_ascii (s : bytes) : Prop := Forall (fun c => c < 128) s.

Lemma equal_fold_lower_ascii t : all_lower t -> forall s, all_ascii s -> equal_fold_lower s t = true -> to_lower s = t.
Proof.
  induction 1 as [|tc t Htc Ht IH]; intros s Hs H.
  - destruct s; [reflexivity|discriminate].
  - destruct s as [|sc s]; [discriminate|]. inversion Hs as [|? ? Hsc Hs']; subst.
    cbn [equal_fold_lower] in H.
    destruct ((sc =? tc) || ((65 <=? sc) && (sc <=? 90) && (sc + 32 =? tc))) eqn:E.
    + cbn [to_lower map]. f_equal; [|exact (IH s Hs' H)].
      unfold lower_byte. destruct ((65 <=? sc) && (sc <=? 90)) eqn:E2; lia.
    + destruct (tc =? 115); [|discriminate].
      destruct s as [|b s]; [discriminate|]. destruct ((sc =? 197) && (b =? 191)) eqn:E3; [|discriminate]. lia.
Qed.

Lemma all_lower_words : all_lower w_http /\ all_lower w_https /\ all_lower w_mailto.
Proof. repeat split; repeat constructor; cbv; try discriminate; auto. Qed.

Lemma safe_scheme_ascii p : all_ascii p -> safe_scheme p = true ->
  to_lower p = w_http \/ to_lower p = w_https \/ to_lower p = w_mailto.
Proof.
  intros Ha H. destruct all_lower_words as (H1 & H2 & H3). unfold safe_scheme in H.
  apply orb_prop in H as [H|H]; [apply orb_prop in H as [H|H]|].
  - left. exact (equal_fold_lower_ascii _ H1 _ Ha H).
  - right. left. exact (equal_fold_lower_ascii _ H2 _ Ha H).
  - right. right. exact (equal_fold_lower_ascii _ H3 _ Ha H).
Qed.

(** * urlNormalizer *)
Lemma hex_digit_range n : (48 <= hex_digit n <= 57) \/ 97 <= hex_digit n.
Proof. unfold hex_digit. destruct (n <? 10) eqn:E; lia. Qed.

Lemma hex_digit_alnum n : n < 16 -> is_alnum (hex_digit n) = true.
Proof. intros H. unfold is_alnum, hex_digit. destruct (n <? 10) eqn:E; lia. Qed.

(* output alphabet: the bytes urlNormalizer lets through, and '%' *)
Definition url_out_ok (c : N) : bool := url_keep c || (c =? 37).

Lemma url_keep_alnum c : is_alnum c = true -> url_keep c = true.
Proof. unfold url_keep. intros ->. now rewrite !orb_true_r. Qed.

Lemma url_normalize_cons c r :
  (url_out_ok c = true /\ url_normalize (c :: r) = c :: url_normalize r) \/
  (url_keep c = false /\ url_normalize (c :: r) = pct_encode c ++ url_normalize r).
Proof.
  cbn [url_normalize]. unfold url_out_ok. destruct (url_keep c) eqn:K; [now left|].
  destruct ((c =? 37) && match r with a :: b :: _ => is_hex a && is_hex b | _ => false end) eqn:E; [left|now right].
  apply andb_prop in E as [-> _]. auto.
Qed.

Lemma url_normalize_alphabet s x : Forall (fun c => c < 256) s -> In x (url_normalize s) -> url_out_ok x = true.
Proof.
  induction 1 as [|c s Hc Hs IH]; [intros []|].
  destruct (url_normalize_cons c s) as [(Hk & ->)|(K & ->)].
  - intros [<-|H]; [exact Hk|exact (IH H)].
  - unfold pct_encode. cbn [app]. intros [<-|[<-|[<-|H]]]; [reflexivity| | |exact (IH H)].
    + unfold url_out_ok. rewrite url_keep_alnum; [reflexivity|]. apply hex_digit_alnum.
      apply N.div_lt_upper_bound; lia.
    + unfold url_out_ok. rewrite url_keep_alnum; [reflexivity|]. apply hex_digit_alnum.
      apply N.mod_lt. lia.
Qed.

(* none of the bytes that could end the attribute or open a tag or an entity-less special survives *)
Lemma url_out_ok_not_special c : url_out_ok c = true ->
  c <> 34 /\ c <> 39 /\ c <> 60 /\ c <> 62 /\ c <> 0 /\ c <> 32 /\ c <> 9 /\ c <> 10 /\ c <> 13 /\ c <> 96 /\ c <> 92 /\ 32 < c < 127.
Proof. unfold url_out_ok, url_keep, is_alnum. intros H. lia. Qed.

Lemma contains_byte_In s c : contains_byte s c = false <-> ~ In c s.
Proof.
  unfold contains_byte. induction s as [|x s IH]; cbn [index_byte].
  - split; [intros _ []|reflexivity].
  - destruct (x =? c) eqn:E.
    + apply N.eqb_eq in E. subst. split; [discriminate|intros H; exfalso; apply H; now left].
    + apply N.eqb_neq in E. destruct (index_byte s c); cbn.
      * split; [discriminate|]. intros H. exfalso. destruct IH as [_ IH]. 
        assert (~ In c s) by (intros Hin; apply H; now right). specialize (IH H0). discriminate.
      * split; [|reflexivity]. intros _ [H|H]; [congruence|]. destruct IH as [IH _]. now apply IH.
Qed.

(* normalisation neither creates nor moves the first ':' nor a '/' before it; the part in front of it is
   unchanged unless a byte of it had to be percent-encoded *)
Lemma url_normalize_scheme y : forall p r,
  cut_byte 58 (url_normalize y) = Some (p, r) ->
  exists p0 r0, cut_byte 58 y = Some (p0, r0) /\ (p = p0 \/ In 37 p) /\ (~ In 47 p -> ~ In 47 p0).
Proof.
  induction y as [|c y IH]; intros p r; [discriminate|].
  destruct (url_normalize_cons c y) as [(Hk & ->)|(K & ->)].
  - cbn [cut_byte]. destruct (c =? 58) eqn:E.
    + intros [= <- <-]. exists [], y. repeat split; auto.
    + destruct (cut_byte 58 (url_normalize y)) as [[p1 r1]|] eqn:C; [|discriminate].
      intros [= <- <-]. destruct (IH _ _ eq_refl) as (p0 & r0 & -> & Hp & Hs).
      exists (c :: p0), r0. repeat split; auto.
      * destruct Hp as [->|Hp]; [now left|right; now right].
      * intros Hn [H|H]; [apply Hn; now left|]. apply Hs; [|exact H]. intros H'. apply Hn. now right.
  - unfold pct_encode. cbn [app cut_byte].
    pose proof (hex_digit_range (c / 16)) as H1. pose proof (hex_digit_range (c mod 16)) as H2.
    destruct (hex_digit (c / 16) =? 58) eqn:E1; [lia|]. destruct (hex_digit (c mod 16) =? 58) eqn:E2; [lia|].
    change (37 =? 58) with false. cbn iota.
    destruct (cut_byte 58 (url_normalize y)) as [[p1 r1]|] eqn:C; [|discriminate].
    intros [= <- <-]. destruct (IH _ _ eq_refl) as (p0 & r0 & Hc0 & Hp & Hs).
    assert (c <> 58 /\ c <> 47) as (Hc58 & Hc47) by (unfold url_keep in K; lia).
    exists (c :: p0), r0. rewrite Hc0. apply N.eqb_neq in Hc58. rewrite Hc58. repeat split; auto.
    + right. now left.
    + intros Hn [H|H]; [congruence|]. apply Hs; [|exact H]. intros H'. apply Hn. right. right. now right.
Qed.

Lemma valid_scheme_chars p : valid_scheme p = true -> all_ascii p /\ ~ In 37 p /\ ~ In 47 p.
Proof.
  unfold valid_scheme. destruct p as [|c p]; [discriminate|]. intros H. apply andb_prop in H as [_ H].
  rewrite forallb_forall in H. repeat split.
  - apply Forall_forall. intros x Hx. specialize (H x Hx). unfold scheme_char, is_alnum in H. lia.
  - intros Hx. specialize (H _ Hx). discriminate.
  - intros Hx. specialize (H _ Hx). discriminate.
Qed.

(** The link target the browser gets: if it has a syntactically valid scheme at all, that scheme is
    http, https or mailto. *)
Lemma href_scheme_safe x p r :
  cut_byte 58 (href_url x) = Some (p, r) -> valid_scheme p = true ->
  to_lower p = w_http \/ to_lower p = w_https \/ to_lower p = w_mailto.
Proof.
  unfold href_url. intros Hc Hv. destruct (valid_scheme_chars p Hv) as (Ha & H37 & H47).
  destruct (url_normalize_scheme _ _ _ Hc) as (p0 & r0 & Hc0 & [->|Hp] & Hs); [|contradiction].
  apply safe_scheme_ascii; [exact Ha|]. apply (url_filter_scheme x p0 r0 Hc0). apply contains_byte_In. exact H47.
Qed.

(* in particular never javascript:, data: or vbscript: *)
Lemma href_not_script x p r :
  cut_byte 58 (href_url x) = Some (p, r) -> valid_scheme p = true ->
  to_lower p <> [106; 97; 118; 97; 115; 99; 114; 105; 112; 116] /\ to_lower p <> [100; 97; 116; 97] /\
  to_lower p <> [118; 98; 115; 99; 114; 105; 112; 116].
Proof.
  intros Hc Hv. destruct (href_scheme_safe x p r Hc Hv) as [->|[->| ->]]; repeat split; discriminate.
Qed.

Lemma url_filter_wf x : Forall (fun c => c < 256) x -> Forall (fun c => c < 256) (url_filter x).
Proof.
  intros H. destruct (url_filter_cases x) as [(_ & ->)|(_ & ->)]; [exact H|].
  repeat constructor; cbv; reflexivity.
Qed.

(* the attribute value as written: html_escape of bytes from the URL output alphabet; no byte that could
   close the attribute or open markup, and no raw control, space or non-ASCII byte *)
Lemma render_href_safe x c : Forall (fun c => c < 256) x -> In c (render_href x) ->
  html_dangerous c = false /\ 32 < c < 127.
Proof.
  intros Hx Hc. split; [exact (html_escape_safe _ _ Hc)|].
  unfold render_href, html_escape in Hc. apply in_flat_map in Hc as (u & Hu & Hc).
  pose proof (url_normalize_alphabet _ _ (url_filter_wf x Hx) Hu) as Hok.
  apply url_out_ok_not_special in Hok.
  unfold html_repl in Hc.
  destruct (u =? 0) eqn:E0; [lia|].
  destruct (u =? 34) eqn:E1; [lia|].
  destruct (u =? 38) eqn:E2; [cbn in Hc; repeat (destruct Hc as [<-|Hc]; [lia|]); destruct Hc|].
  destruct (u =? 39) eqn:E3; [lia|].
  destruct (u =? 43) eqn:E4; [cbn in Hc; repeat (destruct Hc as [<-|Hc]; [lia|]); destruct Hc|].
  destruct (u =? 60) eqn:E5; [lia|].
  destruct (u =? 62) eqn:E6; [lia|].
  destruct Hc as [<-|[]]. lia.
Qed.

(** * Decoding the escaper's output gives back the input (no NUL) *)
Lemma strip_entity_plain c E : c <> 38 -> strip_entity (c :: E) = None.
Proof.
  intros H. unfold strip_entity, ent_quot, ent_amp, ent_apos, ent_plus, ent_lt, ent_gt. cbn [has_prefix].
  assert (E38 : (38 =? c) = false) by (apply N.eqb_neq; congruence). rewrite E38. reflexivity.
Qed.

Lemma has_prefix_nil s : has_prefix s [] = true.
Proof. destruct s; reflexivity. Qed.

Lemma html_unescape_escape s : ~ In 0 s -> forall n, (length (html_escape s) <= n)%nat ->
  html_unescape_fuel n (html_escape s) = s.
Proof.
  induction s as [|c s IH]; intros H0 n Hn.
  - destruct n; reflexivity.
  - assert (Hc : c <> 0) by (intros ->; apply H0; now left).
    assert (H0' : ~ In 0 s) by (intros H; apply H0; now right).
    rewrite html_escape_cons in *. unfold html_repl in *.
    destruct (c =? 0) eqn:E0; [lia|].
    destruct (c =? 34) eqn:E1; [|destruct (c =? 38) eqn:E2; [|destruct (c =? 39) eqn:E3; [|destruct (c =? 43) eqn:E4;
      [|destruct (c =? 60) eqn:E5; [|destruct (c =? 62) eqn:E6]]]]];
      unfold ent_quot, ent_amp, ent_apos, ent_plus, ent_lt, ent_gt in *;
      cbn [app length] in Hn; (destruct n as [|n]; [lia|]).
    1-6: cbn [app html_unescape_fuel]; unfold strip_entity, ent_quot, ent_amp, ent_apos, ent_plus, ent_lt, ent_gt; cbn [has_prefix N.eqb Pos.eqb andb skipn]; rewrite has_prefix_nil;
         rewrite IH by (auto; lia); f_equal; lia.
    cbn [app html_unescape_fuel]. rewrite strip_entity_plain by lia. rewrite IH by (auto; lia). reflexivity.
Qed.

Lemma html_unescape_escape' s : ~ In 0 s -> html_unescape (html_escape s) = s.
Proof. intros H. unfold html_unescape. now apply html_unescape_escape. Qed.

(* urlNormalizer's output never contains NUL (for byte input), so the attribute value decodes to href_url x *)
Lemma href_roundtrip x : wf_bytes x -> html_unescape (render_href x) = href_url x.
Proof.
  intros Hx. unfold render_href. apply html_unescape_escape'.
  intros H. pose proof (url_normalize_alphabet _ _ (url_filter_wf x Hx) H) as Hok.
  apply url_out_ok_not_special in Hok. lia.
Qed.
