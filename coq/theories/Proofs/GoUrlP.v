(** Lemmas about Model/GoUrl.v: which bytes URL.String() can emit, what ParseRequestURI accepts as a
    relative reference, path.Clean on rooted paths and net/http.Redirect's rewriting. *)
From Coq Require Import NArith List Bool Lia ZifyN ZifyBool ZifyNat PeanoNat.
From WW Require Import Base.Bytes Model.GoUrl.
Import ListNotations.
Open Scope N_scope.

(* a byte that is neither a C0 control / space nor a backslash *)
Definition nice (c : N) : Prop := 32 < c /\ c <> 92.

Lemma should_escape_nice c mode : should_escape c mode = false -> nice c.
Proof.
  unfold should_escape, mem_byte, existsb, is_alpha, is_digit, nice. intros H.
  destruct mode; cbn [is_hostmode is_fragmode andb] in H;
    repeat match type of H with context[if ?b then _ else _] => let E := fresh "E" in destruct b eqn:E end;
    try discriminate; lia.
Qed.

Lemma upperhex_nice n : n < 16 -> nice (upperhex n).
Proof. unfold upperhex, nice. intros H. destruct (n <? 10) eqn:E; lia. Qed.

Lemma lowerhex_nice n : n < 16 -> nice (lowerhex n).
Proof. unfold lowerhex, nice. intros H. destruct (n <? 10) eqn:E; lia. Qed.

Lemma mod16_lt n : n mod 16 < 16.
Proof. apply N.mod_lt. lia. Qed.

Lemma nice_c c : 32 < c -> c <> 92 -> nice c.
Proof. intros; split; assumption. Qed.

Lemma escape_byte_nice mode c : Forall nice (escape_byte mode c).
Proof.
  unfold escape_byte. destruct ((c =? 32) && is_querymode mode).
  - apply Forall_cons; [apply nice_c; lia|apply Forall_nil].
  - destruct (should_escape c mode) eqn:E.
    + apply Forall_cons; [apply nice_c; lia|].
      apply Forall_cons; [apply upperhex_nice, mod16_lt|].
      apply Forall_cons; [apply upperhex_nice, mod16_lt|apply Forall_nil].
    + apply Forall_cons; [now apply should_escape_nice with mode|apply Forall_nil].
Qed.

Lemma escape_nice s mode : Forall nice (escape s mode).
Proof.
  unfold escape. induction s as [|c s IH]; cbn [flat_map]; [constructor|].
  apply Forall_app. split; [apply escape_byte_nice|exact IH].
Qed.

Lemma valid_encoded_nice s mode : valid_encoded s mode = true -> Forall nice s.
Proof.
  unfold valid_encoded. intros H. rewrite forallb_forall in H. apply Forall_forall. intros c Hc.
  specialize (H c Hc). unfold valid_encoded_byte, mem_byte, existsb in H.
  repeat match type of H with context[if ?b then _ else _] => let E := fresh "E" in destruct b eqn:E end;
    try (unfold nice; lia).
  apply negb_true_iff in H. now apply should_escape_nice with mode.
Qed.

Lemma escaped_path_nice u : Forall nice (escaped_path u).
Proof.
  unfold escaped_path.
  destruct (negb (is_empty (u_rawpath u)) && valid_encoded (u_rawpath u) EPath &&
            match unescape EPath (u_rawpath u) with Some p => beq p (u_path u) | None => false end) eqn:E.
  - apply andb_true_iff in E as [E _]. apply andb_true_iff in E as [_ E]. now apply valid_encoded_nice with EPath.
  - destruct (beq (u_path u) [42]); [apply Forall_cons; [apply nice_c; lia|apply Forall_nil]|apply escape_nice].
Qed.

Lemma escaped_fragment_nice u : Forall nice (escaped_fragment u).
Proof.
  unfold escaped_fragment.
  destruct (negb (is_empty (u_rawfragment u)) && valid_encoded (u_rawfragment u) EFragment &&
            match unescape EFragment (u_rawfragment u) with Some p => beq p (u_fragment u) | None => false end) eqn:E.
  - apply andb_true_iff in E as [E _]. apply andb_true_iff in E as [_ E]. now apply valid_encoded_nice with EFragment.
  - apply escape_nice.
Qed.

(** * URL.String() of a record without scheme, host, user, opaque *)
Definition dot_slash_prefix (ep : bytes) : bytes :=
  if contains_byte (fst (cut_byte 47 ep)) 58 then [46;47] else [].

Lemma url_string_relative u :
  u_scheme u = [] -> u_host u = [] -> u_opaque u = [] -> u_user u = None ->
  url_string u = dot_slash_prefix (escaped_path u) ++ escaped_path u ++ query_fragment_string u.
Proof.
  intros Hs Hh Ho Hu. unfold url_string, authority_string, has_user, dot_slash_prefix.
  rewrite Hs, Hh, Ho, Hu. cbn [is_empty negb orb andb app].
  rewrite andb_false_r. cbn [is_empty]. rewrite <- app_assoc. reflexivity.
Qed.

Lemma url_string_opaque u : u_scheme u = [] -> u_opaque u <> [] ->
  url_string u = u_opaque u ++ query_fragment_string u.
Proof.
  intros Hs Ho. unfold url_string. rewrite Hs. cbn [is_empty negb].
  destruct (u_opaque u); [contradiction|reflexivity].
Qed.

Lemma url_string_user u ui : u_scheme u = [] -> u_opaque u = [] -> u_user u = Some ui ->
  exists r, url_string u = 47 :: 47 :: r.
Proof.
  intros Hs Ho Hu. unfold url_string, authority_string, has_user. rewrite Hs, Ho, Hu.
  cbn [is_empty negb orb andb app]. rewrite !orb_true_r, !andb_false_r. cbn [app].
  set (rest := userinfo_string ui ++ [64] ++ (if negb (is_empty (u_host u)) then escape (u_host u) EHost else [])).
  cbn [app]. set (ep := escaped_path u).
  destruct (negb (is_empty ep) && negb (has_prefix ep [47]) && negb (is_empty (u_host u)));
    cbn [app is_empty]; rewrite <- ?app_assoc; cbn [app]; eexists; reflexivity.
Qed.

(* the part of a string before its first '?' *)
Lemma split_query_nice A B : Forall nice A -> (B = [] \/ exists B', B = 63 :: B') ->
  Forall nice (fst (split_query (A ++ B))).
Proof.
  intros HA HB. induction HA as [|c A Hc HA IH]; cbn [app].
  - destruct HB as [->|[B' ->]]; cbn; constructor.
  - cbn [split_query]. destruct (c =? 63); [constructor|].
    destruct (split_query (A ++ B)) as [a b]. cbn [fst] in *. constructor; assumption.
Qed.

Lemma query_fragment_shape u :
  (exists A B, query_fragment_string u = A ++ B /\ Forall nice A /\ (B = [] \/ exists B', B = 63 :: B')).
Proof.
  unfold query_fragment_string.
  destruct (u_forcequery u || negb (is_empty (u_rawquery u))).
  - exists [], (63 :: u_rawquery u ++ (if negb (is_empty (u_fragment u)) then 35 :: escaped_fragment u else [])).
    split; [reflexivity|]. split; [constructor|]. right. eexists. reflexivity.
  - exists (if negb (is_empty (u_fragment u)) then 35 :: escaped_fragment u else []), [].
    split; [now rewrite app_nil_r|]. split; [|now left].
    destruct (negb (is_empty (u_fragment u))); [|constructor].
    apply Forall_cons; [apply nice_c; lia|apply escaped_fragment_nice].
Qed.

(** * parse *)
Lemma get_scheme_aux_nil s acc orig sch r :
  get_scheme_aux s acc orig = Some (sch, r) -> sch = [] -> r = orig.
Proof.
  revert acc. induction s as [|c s IH]; intros acc; cbn [get_scheme_aux].
  - intros [= <- <-]. reflexivity.
  - destruct (is_alpha c); [apply IH|].
    destruct (is_digit c || mem_byte c [43;45;46]).
    + destruct (is_empty acc); [intros [= <- <-]; reflexivity|apply IH].
    + destruct (c =? 58).
      * destruct acc as [|a acc]; cbn [is_empty]; [discriminate|].
        intros [= <- <-] E. cbn [rev] in E. destruct (rev acc); discriminate.
      * intros [= <- <-]. reflexivity.
Qed.

Lemma get_scheme_nil s r : get_scheme s = Some ([], r) -> r = s.
Proof. intros H. exact (get_scheme_aux_nil s [] s [] r H eq_refl). Qed.

Lemma to_lower_nil s : to_lower s = [] -> s = [].
Proof. destruct s; [reflexivity|discriminate]. Qed.

Lemma parse_rest_scheme sch rest via fq rq v : parse_rest sch rest via fq rq = Some v -> u_scheme v = sch.
Proof.
  unfold parse_rest.
  repeat match goal with |- context[if ?b then _ else _] => destruct b end; try discriminate.
  - intros [= <-]. reflexivity.
  - destruct (cut_byte 47 (skipn 2 rest)) as [a [b|]];
      (destruct (parse_authority a) as [[user host]|]; cbn [opt_bind]; [|discriminate]);
      match goal with |- context[set_path ?x] => destruct (set_path x) as [[p rp]|] end; cbn [opt_bind]; try discriminate;
      intros [= <-]; reflexivity.
  - destruct (set_path rest) as [[p rp]|]; cbn [opt_bind]; [|discriminate]. intros [= <-]. reflexivity.
Qed.

Lemma has_prefix_one c r x : has_prefix (c :: r) [x] = (x =? c).
Proof. cbn [has_prefix]. destruct r; cbn; apply andb_true_r. Qed.

Lemma has_prefix_47_false rest : has_prefix rest [47] = false -> hd 0 rest <> 47.
Proof.
  destruct rest as [|c r]; cbn [hd]; [lia|]. rewrite has_prefix_one. lia.
Qed.

Lemma parse_rest_opaque sch rest via fq rq v : parse_rest sch rest via fq rq = Some v -> hd 0 (u_opaque v) <> 47.
Proof.
  unfold parse_rest.
  destruct (has_prefix rest [47]) eqn:Hp; cbn [negb andb].
  - repeat match goal with |- context[if ?b then _ else _] => destruct b end; try discriminate.
    + destruct (cut_byte 47 (skipn 2 rest)) as [a [b|]];
        (destruct (parse_authority a) as [[user host]|]; cbn [opt_bind]; [|discriminate]);
        match goal with |- context[set_path ?x] => destruct (set_path x) as [[p rp]|] end; cbn [opt_bind]; try discriminate;
        intros [= <-]; cbn; lia.
    + destruct (set_path rest) as [[p rp]|]; cbn [opt_bind]; [|discriminate]. intros [= <-]. cbn. lia.
  - repeat match goal with |- context[if ?b then _ else _] => destruct b end; try discriminate.
    + intros [= <-]. cbn [u_opaque]. now apply has_prefix_47_false.
    + destruct (cut_byte 47 (skipn 2 rest)) as [a [b|]];
        (destruct (parse_authority a) as [[user host]|]; cbn [opt_bind]; [|discriminate]);
        match goal with |- context[set_path ?x] => destruct (set_path x) as [[p rp]|] end; cbn [opt_bind]; try discriminate;
        intros [= <-]; cbn; lia.
    + destruct (set_path rest) as [[p rp]|]; cbn [opt_bind]; [|discriminate]. intros [= <-]. cbn. lia.
Qed.

Lemma parse_opaque s via v : parse s via = Some v -> hd 0 (u_opaque v) <> 47.
Proof.
  unfold parse.
  destruct (contains_ctl s); [discriminate|].
  destruct (is_empty s && via); [discriminate|].
  destruct (beq s [42]); [intros [= <-]; cbn; lia|].
  destruct (get_scheme s) as [[sch0 rest0]|]; cbn [opt_bind]; [|discriminate].
  destruct (split_query_go rest0) as [[rest fq] rq]. apply parse_rest_opaque.
Qed.

Lemma parse_url_opaque s v : parse_url s = Some v -> hd 0 (u_opaque v) <> 47.
Proof.
  unfold parse_url. destruct (cut_byte 35 s) as [u frag].
  destruct (parse u false) as [url0|] eqn:E; cbn [opt_bind]; [|discriminate].
  pose proof (parse_opaque u false url0 E) as Ho.
  destruct frag as [[|f0 f]|]; try (intros [= <-]; exact Ho).
  destruct (set_fragment (f0 :: f)) as [[fr rfr]|]; cbn [opt_bind]; [|discriminate].
  intros [= <-]. exact Ho.
Qed.

(* relative request-URI: shape of a successful parse with empty scheme *)
Lemma parse_rest_relative rest fq rq v : parse_rest [] rest true fq rq = Some v ->
  has_prefix rest [47] = true /\
  exists path rawpath, set_path rest = Some (path, rawpath) /\
                       v = mkurl [] [] None [] path rawpath false fq rq [] [].
Proof.
  unfold parse_rest. cbn [is_empty negb andb orb].
  destruct (has_prefix rest [47]) eqn:Hp; cbn [negb andb]; [|discriminate].
  intros H. split; [reflexivity|].
  destruct (set_path rest) as [[p rp]|]; cbn [opt_bind] in H; [|discriminate].
  injection H as <-. exists p, rp. split; reflexivity.
Qed.

Lemma split_query_go_slashes x rest fq rq : split_query_go (47 :: 47 :: x) = (rest, fq, rq) ->
  exists x', rest = 47 :: 47 :: x'.
Proof.
  unfold split_query_go.
  destruct (has_suffix (47 :: 47 :: x) [63] && Nat.eqb (count_byte 63 (47 :: 47 :: x)) 1) eqn:E.
  - intros [= <- _ _]. destruct x as [|y x]; [discriminate|].
    unfold remove_last. cbn [removelast]. destruct x; eexists; reflexivity.
  - cbn [cut_byte]. change (47 =? 63) with false. cbn iota.
    destruct (cut_byte 63 x) as [a [b|]]; intros [= <- _ _]; eexists; reflexivity.
Qed.

Lemma split_query_go_head c x rest fq rq : split_query_go (c :: x) = (rest, fq, rq) ->
  has_prefix rest [47] = true -> c = 47.
Proof.
  unfold split_query_go.
  destruct (has_suffix (c :: x) [63] && Nat.eqb (count_byte 63 (c :: x)) 1) eqn:E.
  - intros [= <- _ _]. unfold remove_last. cbn [removelast]. destruct x; [discriminate|]. rewrite has_prefix_one. lia.
  - cbn [cut_byte]. destruct (c =? 63) eqn:Ec.
    + intros [= <- _ _]. discriminate.
    + destruct (cut_byte 63 x) as [a [b|]]; intros [= <- _ _]; rewrite has_prefix_one; lia.
Qed.

Lemma unescape_path_slashes x p : unescape EPath (47 :: 47 :: x) = Some p -> exists p', p = 47 :: 47 :: p'.
Proof.
  cbn [unescape]. change (47 =? 37) with false. change (47 =? 43) with false. cbn [is_hostmode andb].
  destruct (unescape EPath x) as [p'|]; cbn [option_map]; [|discriminate].
  intros [= <-]. eexists. reflexivity.
Qed.

Lemma escape_path_slashes p' : exists e, escape (47 :: 47 :: p') EPath = 47 :: 47 :: e.
Proof. unfold escape. cbn [flat_map]. eexists. reflexivity. Qed.

(** * path.Clean on a rooted path *)
(* "/" followed by bytes that are nice, the first of which is not a slash *)
Definition good (out : bytes) : Prop := exists rest, out = 47 :: rest /\ hd 0 rest <> 47 /\ Forall nice rest.

Lemma nice_47 : nice 47. Proof. split; lia. Qed.

Lemma Forall_firstn_nice n l : Forall nice l -> Forall nice (firstn n l).
Proof. revert n. induction l as [|c l IH]; intros [|n] H; cbn; try constructor; inversion H; subst; auto. Qed.

Lemma good_firstn out w : good out -> (1 <= w)%nat -> good (firstn w out).
Proof.
  intros (rest & -> & Hh & Hf) Hw. destruct w as [|w]; [lia|]. cbn [firstn].
  exists (firstn w rest). split; [reflexivity|]. split; [|now apply Forall_firstn_nice].
  destruct w, rest; cbn; try lia. exact Hh.
Qed.

Lemma backtrack_ge out w dotdot fuel : (dotdot <= w)%nat -> (dotdot <= backtrack out w dotdot fuel)%nat.
Proof.
  revert w. induction fuel as [|f IH]; intros w Hw; cbn [backtrack]; [exact Hw|].
  destruct (Nat.ltb dotdot w) eqn:E; cbn [andb]; [|exact Hw].
  apply Nat.ltb_lt in E. destruct (negb (nth w out 0 =? 47)); [|exact Hw]. apply IH. lia.
Qed.

Lemma span_noslash_nice s a b : span_noslash s = (a, b) -> Forall nice s -> Forall nice a /\ Forall nice b.
Proof.
  revert a b. induction s as [|c s IH]; intros a b; cbn [span_noslash].
  - intros [= <- <-] _. split; constructor.
  - destruct (c =? 47).
    + intros [= <- <-] H. split; [constructor|exact H].
    + destruct (span_noslash s) as [a' b']. intros [= <- <-] H. inversion H; subst.
      destruct (IH a' b' eq_refl H3) as [Ha Hb]. split; [constructor; assumption|exact Hb].
Qed.

Lemma good_append_elem out c a : good out -> c <> 47 -> nice c -> Forall nice a ->
  good ((if (true && negb (Nat.eqb (length out) 1)) || (negb true && negb (Nat.eqb (length out) 0))
         then out ++ [47] else out) ++ c :: a).
Proof.
  intros (rest & -> & Hh & Hf) Hc Hn Ha. cbn [negb andb orb length].
  destruct rest as [|x rest].
  - cbn. exists (c :: a). split; [reflexivity|]. split; [exact Hc|constructor; assumption].
  - cbn [length Nat.eqb negb app]. exists (x :: rest ++ [47] ++ c :: a). split.
    + cbn. rewrite <- app_assoc. reflexivity.
    + split; [exact Hh|]. inversion Hf; subst. constructor; [assumption|].
      apply Forall_app. split; [assumption|]. constructor; [apply nice_47|constructor; assumption].
Qed.

Lemma clean_loop_good fuel : forall rest out, Forall nice rest -> good out -> good (clean_loop fuel true rest out 1).
Proof.
  induction fuel as [|f IH]; intros rest out Hr Ho; cbn [clean_loop]; [exact Ho|].
  destruct rest as [|c r1]; [exact Ho|].
  inversion Hr as [|? ? Hc Hr1]; subst.
  destruct (c =? 47) eqn:E47; [apply IH; assumption|].
  destruct ((c =? 46) && match r1 with [] => true | d :: _ => d =? 47 end); [apply IH; assumption|].
  destruct ((c =? 46) && match r1 with
                          | d :: r2 => (d =? 46) && match r2 with [] => true | e :: _ => e =? 47 end
                          | [] => false end).
  - assert (Ht : Forall nice (tl r1)) by (destruct r1; cbn; [constructor|inversion Hr1; assumption]).
    destruct (Nat.ltb 1 (length out)) eqn:El.
    + apply IH; [exact Ht|]. apply good_firstn; [exact Ho|]. apply backtrack_ge.
      apply Nat.ltb_lt in El. lia.
    + cbn [negb]. apply IH; assumption.
  - destruct (span_noslash (c :: r1)) as [elem r'] eqn:Es.
    destruct (span_noslash_nice _ _ _ Es Hr) as [He Hr'].
    cbn [span_noslash] in Es. rewrite E47 in Es. destruct (span_noslash r1) as [a' b']. injection Es as <- <-.
    apply IH; [exact Hr'|]. inversion He; subst. apply good_append_elem; try assumption. lia.
Qed.

Lemma path_clean_good p' : Forall nice p' -> good (path_clean (47 :: p')).
Proof.
  intros H. unfold path_clean. change (47 =? 47) with true. cbn iota.
  assert (G : good (clean_loop (S (length (47 :: p'))) true p' [47] 1)).
  { apply clean_loop_good; [exact H|]. exists []. repeat split; [cbn; lia|constructor]. }
  destruct G as (rest & E & Hh & Hf). rewrite E. cbn [is_empty]. exists rest. repeat split; assumption.
Qed.

(** * net/http.Redirect *)
(* "/" alone or "/" followed by a byte that is not a slash, backslash, space or control *)
Definition one_slash (s : bytes) : Prop :=
  s = [47] \/ exists x r, s = 47 :: x :: r /\ 32 < x /\ x <> 47 /\ x <> 92.

Lemma hex_escape_one_slash s : one_slash s -> one_slash (hex_escape_non_ascii s).
Proof.
  intros [->|(x & r & -> & H1 & H2 & H3)]; [left; reflexivity|].
  right. unfold hex_escape_non_ascii. cbn [flat_map]. change (128 <=? 47) with false. cbn iota. cbn [app].
  destruct (128 <=? x) eqn:E; cbn [app]; eexists; eexists; (split; [reflexivity|]); lia.
Qed.

Lemma split_query_decomp s : exists q, s = fst (split_query s) ++ q /\ snd (split_query s) = q /\ (q = [] \/ exists q', q = 63 :: q').
Proof.
  induction s as [|c s (q & E & Es & Hq)]; cbn [split_query].
  - exists []. cbn. repeat split. now left.
  - destruct (c =? 63) eqn:Ec.
    + exists (c :: s). cbn. repeat split. right. apply N.eqb_eq in Ec. subst. eexists. reflexivity.
    + destruct (split_query s) as [a b]. cbn [fst snd] in *. exists q. repeat split; [cbn [app]; now rewrite <- E|exact Es|exact Hq].
Qed.

Lemma good_one_slash_app c q : good c -> (q = [] \/ exists q', q = 63 :: q') -> one_slash (c ++ q).
Proof.
  intros (rest & -> & Hh & Hf) Hq. destruct rest as [|x rest].
  - cbn. destruct Hq as [->|[q' ->]]; [now left|]. right. eexists; eexists. split; [reflexivity|]. lia.
  - right. cbn. eexists; eexists. split; [reflexivity|]. inversion Hf as [|? ? [Hx1 Hx2] ?]; subst. cbn in Hh. lia.
Qed.

Lemma good_trailing c : good c -> negb (has_suffix c [47]) = true -> good (c ++ [47]).
Proof.
  intros (rest & -> & Hh & Hf) Hs. destruct rest as [|x rest]; [discriminate|].
  exists ((x :: rest) ++ [47]). split; [reflexivity|]. split; [exact Hh|].
  apply Forall_app. split; [exact Hf|constructor; [apply nice_47|constructor]].
Qed.

(* the Location computed by http.Redirect for a target that starts with one slash and has no
   backslash / space / control byte before its first '?' *)
Lemma http_redirect_one_slash oldpath t r :
  t = 47 :: r -> hd 0 r <> 47 -> Forall nice (fst (split_query t)) ->
  one_slash (http_redirect_location oldpath t).
Proof.
  intros -> Hh Hn. unfold http_redirect_location. apply hex_escape_one_slash.
  assert (Hself : one_slash (47 :: r)).
  { destruct r as [|x r']; [now left|]. right. exists x, r'. split; [reflexivity|].
    cbn [hd] in Hh. cbn [split_query] in Hn. change (47 =? 63) with false in Hn. cbn iota in Hn.
    destruct (x =? 63) eqn:Ex; [lia|].
    destruct (split_query r') as [a b]. cbn [fst] in Hn.
    inversion Hn as [|? ? _ Hn']; subst. inversion Hn' as [|? ? [Hx1 Hx2] _]; subst. lia. }
  unfold http_redirect_rewrite.
  destruct (parse_url (47 :: r)) as [u|]; [|exact Hself].
  destruct (is_empty (u_scheme u) && is_empty (u_host u)); [|exact Hself].
  rewrite has_prefix_one. change (47 =? 47) with true. cbn [negb].
  destruct (split_query_decomp (47 :: r)) as (q & E & Es & Hq).
  destruct (split_query (47 :: r)) as [p query] eqn:Esq. cbn [fst snd] in *. subst query.
  assert (Hp : exists p', p = 47 :: p').
  { cbn [split_query] in Esq. change (47 =? 63) with false in Esq. cbn iota in Esq.
    destruct (split_query r) as [a b]. injection Esq as <- _. eexists. reflexivity. }
  destruct Hp as [p' ->]. inversion Hn as [|? ? _ Hp']; subst.
  pose proof (path_clean_good p' Hp') as G.
  destruct (has_suffix (47 :: p') [47] && negb (has_suffix (path_clean (47 :: p')) [47])) eqn:Et.
  - apply andb_true_iff in Et as [_ Et]. apply good_one_slash_app; [now apply good_trailing|exact Hq].
  - apply good_one_slash_app; assumption.
Qed.
