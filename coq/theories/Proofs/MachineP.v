(** Invariants of the session machine (Model/Machine.v), for every event list:
    every schedule, any number of threads, every fault sequence, cancellation and crash
    (a crashed handler is a thread that is never run again). *)
From Coq Require Import ZArith NArith Bool List Lia.
From WW Require Import Base.AMap Model.SessionTime Proofs.SessionTimeP Model.Machine.
Import ListNotations.
Open Scope Z_scope.

(** * Generic induction over event lists *)
Lemma run_events_app c s es1 es2 : run_events c s (es1 ++ es2) = run_events c (run_events c s es1) es2.
Proof. unfold run_events. apply fold_left_app. Qed.

Lemma run_events_cons c s e es : run_events c s (e :: es) = run_events c (fst (apply_event c s e)) es.
Proof. reflexivity. Qed.

Lemma run_events_inv (c : config) (P : event -> Prop) (Inv : mstate -> Prop) :
  (forall s e, Inv s -> P e -> Inv (fst (apply_event c s e))) ->
  forall es s, Forall P es -> Inv s -> Inv (run_events c s es).
Proof.
  intros Hstep es. induction es as [|e es IH]; intros s HP Hs; [exact Hs|].
  rewrite run_events_cons. inversion HP as [|? ? He Hes]; subst. apply IH; [exact Hes|]. now apply Hstep.
Qed.

Lemma run_events_inv_all (c : config) (Inv : mstate -> Prop) :
  (forall s e, Inv s -> Inv (fst (apply_event c s e))) ->
  forall es s, Inv s -> Inv (run_events c s es).
Proof.
  intros Hstep es s Hs. apply (run_events_inv c (fun _ => True) Inv); auto.
  apply Forall_forall. auto.
Qed.

(** * What one step can do to the store *)
(* the store after a step is the old one, or the old one with one key deleted, or with one
   key overwritten in place (atomic update: only when that key is present and live) *)
Inductive store_change (c : config) (w : world) (t : thread) : list (N * entry) -> Prop :=
| sc_same : store_change c w t (w_store w)
| sc_del key : store_change c w t (adelete key (w_store w))
| sc_upd e new : store_get w (cookie_key (t_cookie t)) = Some e ->
    store_change c w t (ainsert (cookie_key (t_cookie t))
                          {| e_dek := cookie_dek (t_cookie t); e_data := new; e_exp := e_exp e |} (w_store w))
| sc_create new : c_upd_atomic c = false -> store_get w (cookie_key (t_cookie t)) = None ->
    store_change c w t (ainsert (cookie_key (t_cookie t))
                          {| e_dek := cookie_dek (t_cookie t); e_data := new; e_exp := None |} (w_store w)).

Ltac step_cases :=
  repeat match goal with
         | |- context [match ?x with _ => _ end] => destruct x eqn:?
         | |- context [if ?x then _ else _] => destruct x eqn:?
         end.

Ltac inv_idp :=
  match goal with
  | H : idp_refresh _ _ = (_, _) |- _ =>
    unfold idp_refresh in H;
    repeat match type of H with context [match ?x with _ => _ end] => destruct x eqn:? end;
    inversion H; subst; clear H; cbn [w_store w_locks w_clock w_next_tok w_valid_rt w_idp_log set_idp]
  end.

Lemma step_store_change c w t f : store_change c w t (w_store (fst (fst (step c w t f)))).
Proof.
  unfold step. destruct (t_phase t) eqn:Hp; cbn zeta.
  all: step_cases; cbn [fst snd w_store set_store set_locks set_idp]; try inv_idp.
  all: first [apply sc_same | eapply sc_upd; eassumption | apply sc_create; assumption | apply sc_del].
Qed.

Lemma store_get_some w k e : store_get w k = Some e -> alookup k (w_store w) = Some e.
Proof. unfold store_get. destruct (alookup k (w_store w)) as [e'|]; [|discriminate]. destruct (entry_live _ _); [congruence|discriminate]. Qed.

Lemma store_get_absent w k : alookup k (w_store w) = None -> store_get w k = None.
Proof. unfold store_get. intros ->. reflexivity. Qed.

(** * C05 core: with the atomic update, a key that is absent stays absent until a login for it *)
Lemma store_change_absent c w t s' k :
  c_upd_atomic c = true -> store_change c w t s' -> alookup k (w_store w) = None -> alookup k s' = None.
Proof.
  intros Hu Hc Hk. destruct Hc as [|key|e new He|new Hf Hn].
  - exact Hk.
  - rewrite alookup_delete. destruct (N.eqb k key); [reflexivity|exact Hk].
  - rewrite alookup_insert. destruct (N.eqb k (cookie_key (t_cookie t))) eqn:E; [|exact Hk].
    apply N.eqb_eq in E; subst k. apply store_get_some in He. congruence.
  - congruence.
Qed.

Definition not_login_of (k : N) (e : event) : Prop := forall acr, e <> ELogin k acr.

Lemma login_store_other c w sid acr k : k <> sid -> alookup k (w_store (login c w sid acr)) = alookup k (w_store w).
Proof.
  intros Hne. unfold login. destruct (login_acr_ok c acr); cbn [w_store]; [|reflexivity].
  now apply alookup_insert_ne.
Qed.

Lemma apply_event_absent c s e k :
  c_upd_atomic c = true -> not_login_of k e ->
  alookup k (w_store (m_w s)) = None -> alookup k (w_store (m_w (fst (apply_event c s e)))) = None.
Proof.
  intros Hu Hn Hk. destruct e as [d|sid acr|t kd ck|t f|t|tau rot]; cbn [apply_event].
  - exact Hk.
  - cbn. rewrite login_store_other; [exact Hk|]. intros ->. exact (Hn acr eq_refl).
  - destruct (alookup t (m_ts s)); exact Hk.
  - destruct (alookup t (m_ts s)) as [th|]; [|exact Hk].
    pose proof (step_store_change c (m_w s) th f) as Hc.
    destruct (step c (m_w s) th f) as [[w' th'] o]. cbn in *.
    eapply store_change_absent; eassumption.
  - destruct (alookup t (m_ts s)); exact Hk.
  - exact Hk.
Qed.

Theorem absent_stays_absent c k es s :
  c_upd_atomic c = true -> Forall (not_login_of k) es ->
  alookup k (w_store (m_w s)) = None ->
  alookup k (w_store (m_w (run_events c s es))) = None.
Proof.
  intros Hu Hes Hk.
  apply (run_events_inv c (not_login_of k) (fun s => alookup k (w_store (m_w s)) = None)); auto.
  intros s0 e H0 He. now apply apply_event_absent.
Qed.

(** the delete step of a logout leaves the key absent, and is the only way to report success after a lookup hit *)
Lemma logout_del_step c w t f start key w' t' o :
  t_phase t = PDel start key -> step c w t f = (w', t', o) ->
  forall out, t_phase t' = PDone out -> out = logout_success (t_kind t) ->
  (t_kind t = KLogout \/ t_kind t = KLogoutLocal \/ exists sid, t_kind t = KFront sid) ->
  alookup key (w_store w') = None /\ t_cancel t = false /\ f <> FStore.
Proof.
  intros Hp Hs out Hd Ho Hk. unfold step in Hs. rewrite Hp in Hs. cbn zeta in Hs.
  destruct (t_cancel t) eqn:Hc.
  - inversion Hs; subst. cbn in Hd. inversion Hd; subst.
    destruct Hk as [Hk|[Hk|[sid Hk]]]; rewrite Hk in *; discriminate.
  - destruct f; try (inversion Hs; subst; cbn [w_store set_store]; split; [apply alookup_delete_eq|split; [reflexivity|discriminate]]).
    destruct (retry_left c start (w_clock w)); inversion Hs; subst; cbn in Hd.
    + rewrite Hp in Hd. discriminate.
    + inversion Hd; subst. destruct Hk as [Hk|[Hk|[sid Hk]]]; rewrite Hk in *; discriminate.
Qed.

(** * C05: requests started after the logout never authenticate *)
Definition accepted (k : rkind) (o : outcome) : bool :=
  match o with
  | OForward (Some _) _ => true
  | OMeta _ _ _ => true
  | OStatus s => match k with KFwdAuth => Z.eqb s 204 | _ => false end
  | OForward None _ => false
  end.

(* a thread that has not (yet) been given a session: it can only be reading, deleting, or refused;
   in particular it is never at the provider call *)
Definition sessionless (t : thread) : Prop :=
  match t_phase t with
  | PGet _ | PDel _ _ => True
  | PDone o => accepted (t_kind t) o = false
  | _ => False
  end.

Lemma finish_proxy_err c a r now : (forall d, r <> ROk d) -> accepted KProxy (finish_proxy c a r now) = false /\ accepted KSsoProxy (finish_proxy c a r now) = false.
Proof. intros H. unfold finish_proxy. destruct r; try (destruct (c_autologin c); split; reflexivity). exfalso. eapply H; reflexivity. Qed.

Lemma after_get_err_sessionless c t r now :
  (forall d, r <> ROk d) -> sessionless (with_phase t (after_get c t (GErr r) now)).
Proof.
  intros H. unfold sessionless, after_get, with_phase; cbn [t_phase t_kind].
  destruct (t_kind t) eqn:Hk; cbn [gres_rres finish_session_kind].
  - apply finish_proxy_err; exact H.
  - apply finish_proxy_err; exact H.
  - reflexivity.
  - reflexivity.
  - unfold finish_fwdauth. destruct (c_fwdauth c); cbn; [|reflexivity]. destruct r; try reflexivity. exfalso; eapply H; reflexivity.
  - destruct r; try reflexivity; destruct (c_logout_strict c); reflexivity.
  - destruct r; try reflexivity; destruct (c_logout_strict c); reflexivity.
  - reflexivity.
Qed.

Lemma step_sessionless c w t f :
  store_get w (cookie_key (t_cookie t)) = None -> sessionless t -> sessionless (snd (fst (step c w t f))).
Proof.
  intros Hn Hs. unfold sessionless in Hs. unfold step. destruct (t_phase t) eqn:Hp; try contradiction; cbn zeta.
  - (* PGet *)
    destruct (t_cancel t).
    + cbn. apply after_get_err_sessionless. discriminate.
    + destruct f; rewrite ?Hn; cbn [fst snd];
        try (apply after_get_err_sessionless; discriminate).
      destruct (retry_left c start (w_clock w)); cbn [fst snd].
      * unfold sessionless. rewrite Hp. exact I.
      * apply after_get_err_sessionless. discriminate.
  - (* PDel *)
    destruct (t_cancel t); [cbn; unfold sessionless; cbn; destruct (t_kind t); reflexivity|].
    destruct f; cbn [fst snd]; try (unfold sessionless; cbn; destruct (t_kind t); reflexivity).
    destruct (retry_left c start (w_clock w)); cbn [fst snd].
    + unfold sessionless. rewrite Hp. exact I.
    + unfold sessionless; cbn; destruct (t_kind t); reflexivity.
  - (* PDone *) cbn. unfold sessionless. rewrite Hp. exact Hs.
Qed.

Lemma spawn_sessionless c k ck now : sessionless (spawn c k ck now).
Proof.
  unfold spawn.
  set (t0 := {| t_kind := k; t_cookie := ck; t_cancel := false; t_phase := PGet now |}).
  assert (H0 : sessionless t0) by exact I.
  assert (Herr : forall r, (forall d, r <> ROk d) -> sessionless (with_phase t0 (after_get c t0 (GErr r) now)))
    by (intros r Hr; apply after_get_err_sessionless; exact Hr).
  destruct k as [| | | | | | |[sid|]].
  8,9: cbn; try exact I; reflexivity.
  all: try (destruct ck; first [exact H0 | apply Herr; discriminate]).
  - destruct (c_sso c); [reflexivity|]. destruct ck; first [exact H0 | apply Herr; discriminate].
  - destruct (negb (c_fwdauth c)); [reflexivity|]. destruct ck; first [exact H0 | apply Herr; discriminate].
Qed.

Lemma spawn_cookie c k ck now : t_cookie (spawn c k ck now) = ck.
Proof.
  unfold spawn. destruct k as [| | | | | | |[sid|]]; try reflexivity.
  all: try (destruct ck; reflexivity).
  - destruct (c_sso c); [reflexivity|]; destruct ck; reflexivity.
  - destruct (negb (c_fwdauth c)); [reflexivity|]; destruct ck; reflexivity.
Qed.

Lemma step_cookie c w t f : t_cookie (snd (fst (step c w t f))) = t_cookie t /\ t_kind (snd (fst (step c w t f))) = t_kind t.
Proof.
  unfold step. destruct (t_phase t); cbn zeta; step_cases; cbn [fst snd with_phase t_cookie t_kind]; split; reflexivity.
Qed.

Definition late_ok (k tid : N) (s : mstate) : Prop :=
  alookup k (w_store (m_w s)) = None /\
  forall th, alookup tid (m_ts s) = Some th -> cookie_key (t_cookie th) = k -> sessionless th.

Lemma apply_event_late_ok c s e k tid :
  c_upd_atomic c = true -> not_login_of k e -> late_ok k tid s -> late_ok k tid (fst (apply_event c s e)).
Proof.
  intros Hu Hn [Hk Ht]. split; [now apply apply_event_absent|].
  destruct e as [d|sid acr|t kd ck|t f|t|tau rot]; cbn [apply_event]; try exact Ht.
  - destruct (alookup t (m_ts s)) eqn:El; [exact Ht|]. cbn [fst m_ts].
    intros th Hl Hc. rewrite alookup_insert in Hl. destruct (N.eqb tid t) eqn:E.
    + inversion Hl; subst. apply spawn_sessionless.
    + now apply Ht.
  - destruct (alookup t (m_ts s)) as [th0|] eqn:El; [|exact Ht].
    pose proof (step_sessionless c (m_w s) th0 f) as Hss.
    pose proof (step_cookie c (m_w s) th0 f) as [Hck _].
    destruct (step c (m_w s) th0 f) as [[w' th'] o]. cbn [fst snd m_ts] in *.
    intros th Hl Hc. rewrite alookup_insert in Hl. destruct (N.eqb tid t) eqn:E.
    + apply N.eqb_eq in E; subst t. inversion Hl; subst th'. rewrite Hck in Hc.
      apply Hss; [rewrite Hc; now apply store_get_absent|]. now apply Ht.
    + now apply Ht.
  - destruct (alookup t (m_ts s)) as [th0|] eqn:El; [|exact Ht]. cbn [fst m_ts].
    intros th Hl Hc. rewrite alookup_insert in Hl. destruct (N.eqb tid t) eqn:E.
    + apply N.eqb_eq in E; subst t. inversion Hl; subst th. cbn in Hc.
      specialize (Ht th0 El Hc). unfold sessionless in *. cbn. exact Ht.
    + now apply Ht.
Qed.

Theorem later_requests_sessionless c k tid es s :
  c_upd_atomic c = true -> Forall (not_login_of k) es ->
  alookup k (w_store (m_w s)) = None -> alookup tid (m_ts s) = None ->
  forall th, alookup tid (m_ts (run_events c s es)) = Some th -> cookie_key (t_cookie th) = k -> sessionless th.
Proof.
  intros Hu Hes Hk Ht.
  assert (H : late_ok k tid (run_events c s es)).
  { apply (run_events_inv c (not_login_of k) (late_ok k tid)); auto.
    - intros s0 e H0 He. now apply apply_event_late_ok.
    - split; [exact Hk|]. intros th Hl. congruence. }
  exact (proj2 H).
Qed.

(** * C10: every store entry and every lock entry is expiry-bounded, in every reachable state *)
Definition ttl_inv (c : config) (w : world) : Prop :=
  (c_redis c = true -> forall k e, alookup k (w_store w) = Some e ->
     exists x, e_exp e = Some x /\ x <= w_clock w + c_maxlife c) /\
  (forall k l, alookup k (w_locks w) = Some l -> l_exp l <= w_clock w + c_lock_lease c).

Inductive lock_change (c : config) (w : world) : list (N * lockent) -> Prop :=
| lc_same : lock_change c w (w_locks w)
| lc_obtain k tok : lock_change c w (ainsert k {| l_tok := tok; l_exp := w_clock w + c_lock_lease c |} (w_locks w))
| lc_release k : lock_change c w (adelete k (w_locks w)).

Lemma step_lock_change c w t f :
  lock_change c w (w_locks (fst (fst (step c w t f)))) /\ w_clock (fst (fst (step c w t f))) = w_clock w.
Proof.
  unfold step. destruct (t_phase t) eqn:Hp; cbn zeta.
  all: step_cases; cbn [fst snd w_locks w_clock set_store set_locks set_idp]; try inv_idp.
  all: split; [first [apply lc_same | apply lc_obtain | apply lc_release]|reflexivity].
Qed.

Lemma step_ttl_inv c w t f : c_upd_atomic c = true -> ttl_inv c w -> ttl_inv c (fst (fst (step c w t f))).
Proof.
  intros Hu [Hs Hl].
  pose proof (step_store_change c w t f) as Hsc.
  pose proof (step_lock_change c w t f) as [Hlc Hck].
  destruct (step c w t f) as [[w' t'] o]. cbn [fst] in *. split.
  - intros Hr k e He. rewrite Hck. destruct Hsc as [|key|e0 new He0|new Hf Hn].
    + eauto.
    + rewrite alookup_delete in He. destruct (N.eqb k key); [discriminate|eauto].
    + rewrite alookup_insert in He. destruct (N.eqb k (cookie_key (t_cookie t))).
      * inversion He; subst; cbn. apply store_get_some in He0. eauto.
      * eauto.
    + congruence.
  - intros k l Hk. rewrite Hck. destruct Hlc as [|k0 tok|k0].
    + eauto.
    + rewrite alookup_insert in Hk. destruct (N.eqb k k0); [inversion Hk; subst; cbn; lia|eauto].
    + rewrite alookup_delete in Hk. destruct (N.eqb k k0); [discriminate|eauto].
Qed.

Lemma apply_event_ttl_inv c s e :
  c_upd_atomic c = true -> 0 <= c_maxlife c -> ttl_inv c (m_w s) -> ttl_inv c (m_w (fst (apply_event c s e))).
Proof.
  intros Hu HL Hi. destruct e as [d|sid acr|t kd ck|t f|t|tau rot]; cbn [apply_event].
  - destruct Hi as [Hs Hl]. split; cbn.
    + intros Hr k e He. destruct (Hs Hr k e He) as (x & Hx & Hb). exists x. split; [exact Hx|lia].
    + intros k l Hk. specialize (Hl k l Hk). lia.
  - destruct Hi as [Hs Hl]. cbn. unfold login. destruct (login_acr_ok c acr); split; cbn [w_store w_locks w_clock]; auto.
    intros Hr k e He. rewrite alookup_insert in He. destruct (N.eqb k sid).
    + inversion He; subst; cbn. rewrite Hr. eexists. split; [reflexivity|lia].
    + eauto.
  - destruct (alookup t (m_ts s)); exact Hi.
  - destruct (alookup t (m_ts s)) as [th|]; [|exact Hi].
    pose proof (step_ttl_inv c (m_w s) th f Hu Hi) as H.
    destruct (step c (m_w s) th f) as [[w' th'] o]. exact H.
  - destruct (alookup t (m_ts s)); exact Hi.
  - exact Hi.
Qed.

Theorem ttl_invariant c es s :
  c_upd_atomic c = true -> 0 <= c_maxlife c -> ttl_inv c (m_w s) -> ttl_inv c (m_w (run_events c s es)).
Proof.
  intros Hu HL Hi. apply (run_events_inv_all c (fun s => ttl_inv c (m_w s))); auto.
  intros s0 e H0. now apply apply_event_ttl_inv.
Qed.

Lemma ttl_inv_init c tau : ttl_inv c (init_world tau).
Proof. split; cbn; intros; discriminate. Qed.

(* consequences for what a reader of the store sees *)
Corollary live_entry_ttl c w k e :
  ttl_inv c w -> c_redis c = true -> store_get w k = Some e ->
  exists x, e_exp e = Some x /\ 0 < x - w_clock w <= c_maxlife c.
Proof.
  intros [Hs _] Hr Hg. pose proof (store_get_some _ _ _ Hg) as Ha.
  destruct (Hs Hr k e Ha) as (x & Hx & Hb). exists x. split; [exact Hx|].
  unfold store_get in Hg. rewrite Ha in Hg. unfold entry_live in Hg. rewrite Hx in Hg.
  destruct (w_clock w <? x) eqn:E; [apply Z.ltb_lt in E; lia|discriminate].
Qed.

(* a lock left behind by a crashed refresher is gone once the lease has passed *)
Corollary lock_gone_after_lease c w k d :
  ttl_inv c w -> c_lock_lease c <= d -> lock_get (set_clock w (w_clock w + d)) k = None.
Proof.
  intros [_ Hl] Hd. unfold lock_get. cbn. destruct (alookup k (w_locks w)) as [l|] eqn:E; [|reflexivity].
  specialize (Hl k l E). destruct (w_clock w + d <? l_exp l) eqn:E2; [apply Z.ltb_lt in E2; lia|reflexivity].
Qed.


(** * C07: mutual exclusion of refreshers through the lock *)
Definition held_tok (t : thread) : option N :=
  match t_phase t with
  | PReread _ tok _ | PIdp _ _ tok _ | PUpdGet _ _ tok _ | PUpdSet _ _ tok _ | PUnlock _ tok _ => Some tok
  | _ => None
  end.

Definition locking (c : config) : Prop := c_redis c || c_memlock c = true.

Lemma spawn_held c k ck now : held_tok (spawn c k ck now) = None.
Proof.
  pose proof (spawn_sessionless c k ck now) as H. unfold sessionless in H. unfold held_tok.
  destruct (t_phase (spawn c k ck now)); try reflexivity; contradiction.
Qed.

(* what a step does to the token a thread holds, to the fresh-token counter and to the lock table *)
Lemma step_held c w t f : locking c ->
  let w' := fst (fst (step c w t f)) in let t' := snd (fst (step c w t f)) in
  (w_next_tok w <= w_next_tok w')%N /\
  (held_tok t' = held_tok t \/ held_tok t' = None \/
   (held_tok t = None /\ held_tok t' = Some (w_next_tok w) /\ w_next_tok w' = (w_next_tok w + 1)%N)) /\
  (forall k l, alookup k (w_locks w') = Some l -> alookup k (w_locks w) = Some l \/ l_tok l = w_next_tok w /\ w_next_tok w' = (w_next_tok w + 1)%N).
Proof.
  intros Hl. unfold locking in Hl. unfold step. destruct (t_phase t) eqn:Hp; cbn zeta.
  all: unfold after_get; unfold start_refresh, to_unlock, finish_unlock; rewrite ?Hl.
  all: step_cases; cbn [fst snd w_next_tok w_locks set_store set_locks set_idp held_tok with_phase t_phase]; try inv_idp.
  all: unfold held_tok; cbn [with_phase t_phase]; rewrite ?Hp.
  all: split; [lia|split].
  all: try (left; reflexivity).
  all: try (right; left; reflexivity).
  all: try (right; right; split; [reflexivity|split; [reflexivity|reflexivity]]).
  all: try (intros k0 l0 Hk; left; exact Hk).
  all: try (intros k0 l0 Hk; rewrite alookup_delete in Hk; destruct (N.eqb k0 _); [discriminate|left; exact Hk]).
  all: try (intros k0 l0 Hk; rewrite alookup_insert in Hk; destruct (N.eqb k0 _); [inversion Hk; subst; right; split; reflexivity|left; exact Hk]).
Qed.

Definition tok_inv (s : mstate) : Prop :=
  (forall tid th tok, alookup tid (m_ts s) = Some th -> held_tok th = Some tok -> (tok < w_next_tok (m_w s))%N) /\
  (forall k l, alookup k (w_locks (m_w s)) = Some l -> (l_tok l < w_next_tok (m_w s))%N) /\
  (forall t1 t2 th1 th2 tok, t1 <> t2 -> alookup t1 (m_ts s) = Some th1 -> alookup t2 (m_ts s) = Some th2 ->
     held_tok th1 = Some tok -> held_tok th2 = Some tok -> False).

Lemma apply_event_tok_inv c s e : locking c -> tok_inv s -> tok_inv (fst (apply_event c s e)).
Proof.
  intros Hl (Ha & Hb & Hc). destruct e as [d|sid acr|t kd ck|t f|t|tau rot]; cbn [apply_event].
  - exact (conj Ha (conj Hb Hc)).
  - unfold tok_inv, login. destruct (login_acr_ok c acr); (split; [|split]); cbn [fst m_w m_ts w_next_tok w_locks]; eauto.
    + intros tid th tok H1 H2. specialize (Ha tid th tok H1 H2). lia.
    + intros k l H1. specialize (Hb k l H1). lia.
  - destruct (alookup t (m_ts s)) eqn:El; [exact (conj Ha (conj Hb Hc))|]. unfold tok_inv; cbn [fst m_w m_ts]. split; [|split].
    + intros tid th tok H1 H2. rewrite alookup_insert in H1. destruct (N.eqb tid t).
      * inversion H1; subst. rewrite spawn_held in H2. discriminate.
      * eauto.
    + exact Hb.
    + intros t1 t2 th1 th2 tok Hne H1 H2 H3 H4. rewrite alookup_insert in H1, H2.
      destruct (N.eqb t1 t); [inversion H1; subst; rewrite spawn_held in H3; discriminate|].
      destruct (N.eqb t2 t); [inversion H2; subst; rewrite spawn_held in H4; discriminate|]. eauto.
  - destruct (alookup t (m_ts s)) as [th0|] eqn:El; [|exact (conj Ha (conj Hb Hc))].
    pose proof (step_held c (m_w s) th0 f Hl) as Hst. cbn zeta in Hst.
    destruct (step c (m_w s) th0 f) as [[w' th'] o]. unfold tok_inv; cbn [fst snd m_w m_ts] in *.
    destruct Hst as (Hmono & Hheld & Hlocks). split; [|split].
    + intros tid th tok H1 H2. rewrite alookup_insert in H1. destruct (N.eqb tid t) eqn:E.
      * inversion H1; subst th. destruct Hheld as [Hh|[Hh|(Hh0 & Hh1 & Hh2)]].
        -- rewrite Hh in H2. specialize (Ha t th0 tok El H2). lia.
        -- congruence.
        -- rewrite Hh1 in H2. inversion H2; subst. lia.
      * specialize (Ha tid th tok H1 H2). lia.
    + intros k l H1. destruct (Hlocks k l H1) as [H2|[H2 H3]].
      * specialize (Hb k l H2). lia.
      * lia.
    + intros t1 t2 th1 th2 tok Hne H1 H2 H3 H4. rewrite alookup_insert in H1, H2.
      destruct (N.eqb t1 t) eqn:E1; destruct (N.eqb t2 t) eqn:E2.
      * apply N.eqb_eq in E1, E2. congruence.
      * apply N.eqb_eq in E1; subst t1. inversion H1; subst th1.
        destruct Hheld as [Hh|[Hh|(Hh0 & Hh1 & Hh2)]].
        -- rewrite Hh in H3. eapply (Hc t t2); eauto.
        -- congruence.
        -- rewrite Hh1 in H3. inversion H3; subst tok. specialize (Ha t2 th2 _ H2 H4). lia.
      * apply N.eqb_eq in E2; subst t2. inversion H2; subst th2.
        destruct Hheld as [Hh|[Hh|(Hh0 & Hh1 & Hh2)]].
        -- rewrite Hh in H4. eapply (Hc t1 t); eauto.
        -- congruence.
        -- rewrite Hh1 in H4. inversion H4; subst tok. specialize (Ha t1 th1 _ H1 H3). lia.
      * eauto.
  - destruct (alookup t (m_ts s)) as [th0|] eqn:El; [|exact (conj Ha (conj Hb Hc))]. unfold tok_inv; cbn [fst m_w m_ts].
    assert (Hsame : forall th, held_tok {| t_kind := t_kind th; t_cookie := t_cookie th; t_cancel := true; t_phase := t_phase th |} = held_tok th) by reflexivity.
    split; [|split].
    + intros tid th tok H1 H2. rewrite alookup_insert in H1. destruct (N.eqb tid t) eqn:E.
      * apply N.eqb_eq in E; subst. inversion H1; subst. rewrite Hsame in H2. eauto.
      * eauto.
    + exact Hb.
    + intros t1 t2 th1 th2 tok Hne H1 H2 H3 H4. rewrite alookup_insert in H1, H2.
      destruct (N.eqb t1 t) eqn:E1; destruct (N.eqb t2 t) eqn:E2.
      * apply N.eqb_eq in E1, E2. congruence.
      * apply N.eqb_eq in E1; subst t1. inversion H1; subst th1. rewrite Hsame in H3. eapply (Hc t t2); eauto.
      * apply N.eqb_eq in E2; subst t2. inversion H2; subst th2. rewrite Hsame in H4. eapply (Hc t1 t); eauto.
      * eauto.
  - exact (conj Ha (conj Hb Hc)).
Qed.

Lemma tok_inv_init tau : tok_inv (init_state tau).
Proof. split; [|split]; cbn; intros; try discriminate. Qed.

(* a thread is a valid holder of the refresh lock for its session: it is past the acquisition
   and the lock entry is live and carries its token *)
Definition valid_holder (w : world) (th : thread) : Prop :=
  exists tok l, held_tok th = Some tok /\ lock_get w (cookie_key (t_cookie th)) = Some l /\ l_tok l = tok.

Theorem mutual_exclusion c es tau t1 t2 th1 th2 :
  locking c ->
  let s := run_events c (init_state tau) es in
  alookup t1 (m_ts s) = Some th1 -> alookup t2 (m_ts s) = Some th2 ->
  cookie_key (t_cookie th1) = cookie_key (t_cookie th2) ->
  valid_holder (m_w s) th1 -> valid_holder (m_w s) th2 -> t1 = t2.
Proof.
  intros Hl s H1 H2 Hk (tok1 & l1 & Hh1 & Hg1 & Ht1) (tok2 & l2 & Hh2 & Hg2 & Ht2).
  assert (Hinv : tok_inv s).
  { apply (run_events_inv_all c tok_inv); [|apply tok_inv_init]. intros s0 e H0. now apply apply_event_tok_inv. }
  destruct Hinv as (_ & _ & Hc). rewrite Hk in Hg1. rewrite Hg1 in Hg2. inversion Hg2; subst l2.
  destruct (N.eq_dec t1 t2) as [E|E]; [exact E|]. exfalso.
  eapply (Hc t1 t2 th1 th2 tok1); eauto. congruence.
Qed.

(** * C01 / C11: when a token is written to the upstream request *)
Lemma finish_proxy_token c acr r now a i :
  finish_proxy c acr r now = OForward (Some a) i ->
  exists d, r = ROk d /\ a = sd_at d /\ has_at d = true /\ is_expired (sd_md d) now = false /\
            (acr <> 0%N -> acr_ok acr (sd_acr d) = true) /\
            i = (if c_idtoken c then Some (sd_idt d) else None).
Proof.
  unfold finish_proxy. intros H.
  destruct r as [d| | | | |]; try (destruct (c_autologin c); discriminate).
  destruct (has_at d && negb (is_expired (sd_md d) now)) eqn:E1; [|destruct (c_autologin c); discriminate].
  apply andb_prop in E1 as [E1 E2]. apply negb_true_iff in E2.
  destruct (negb (N.eqb acr 0) && negb (acr_ok acr (sd_acr d))) eqn:E3; [destruct (c_autologin c); discriminate|].
  inversion H; subst. exists d. repeat split; auto.
  intros Hne. apply andb_false_iff in E3 as [E3|E3].
  - apply negb_false_iff, N.eqb_eq in E3. contradiction.
  - now apply negb_false_iff in E3.
Qed.

(* conversely: a valid, unexpired, sufficiently authenticated session always gets its own token,
   whatever the client sent (the client's header value is not an input of the decision) *)
Lemma finish_proxy_valid c acr d now :
  has_at d = true -> is_expired (sd_md d) now = false -> (acr = 0%N \/ acr_ok acr (sd_acr d) = true) ->
  finish_proxy c acr (ROk d) now = OForward (Some (sd_at d)) (if c_idtoken c then Some (sd_idt d) else None).
Proof.
  intros H1 H2 H3. unfold finish_proxy. rewrite H1, H2. cbn.
  destruct H3 as [->|H3]; [reflexivity|]. rewrite H3. rewrite andb_false_r. reflexivity.
Qed.

Lemma finish_proxy_no_session c acr r now a i : (forall d, r <> ROk d) -> finish_proxy c acr r now <> OForward (Some a) i.
Proof. intros H E. apply finish_proxy_token in E as (d & -> & _). eapply H; reflexivity. Qed.

Lemma classify_ok dek e now d :
  classify_entry dek e now = GOk d ->
  e_dek e = dek /\ d = e_data e /\ has_at d = true /\ now <= ends (sd_md d) /\
  (forall t, timeout (sd_md d) = Some t -> now <= t).
Proof.
  unfold classify_entry. destruct (N.eqb (e_dek e) dek) eqn:E; cbn; [|discriminate].
  apply N.eqb_eq in E. destruct (validate _ _ _) eqn:V; try discriminate. intros [= <-].
  apply validate_valid in V as (H1 & H2 & H3). auto.
Qed.

Definition wf_gres (g : gres) : Prop := match g with GErr (ROk _) => False | _ => True end.

Lemma classify_wf dek e now : wf_gres (classify_entry dek e now).
Proof. unfold classify_entry. destruct (negb _); [exact I|]. destruct (validate _ _ _); exact I. Qed.

Lemma start_refresh_done c k d now o :
  start_refresh c k d now = PDone o -> o = finish_refresh c k d (ROk d) now.
Proof.
  unfold start_refresh. destruct (negb (can_refresh c d now)); [intros [= <-]; reflexivity|].
  destruct (c_redis c || c_memlock c); discriminate.
Qed.

(* a proxied request that finishes right after its read forwards a token only for a session that
   was read successfully, and the token is that record's *)
Lemma after_get_token c t g now a i :
  (t_kind t = KProxy \/ t_kind t = KSsoProxy) -> wf_gres g ->
  after_get c t g now = PDone (OForward (Some a) i) ->
  exists d, g = GOk d /\ a = sd_at d /\ has_at d = true /\ is_expired (sd_md d) now = false /\
            i = (if c_idtoken c then Some (sd_idt d) else None) /\
            (t_kind t = KProxy -> c_acr c <> 0%N -> acr_ok (c_acr c) (sd_acr d) = true) /\
            (t_kind t = KSsoProxy -> c_proxy_acr c <> 0%N -> acr_ok (c_proxy_acr c) (sd_acr d) = true).
Proof.
  intros Hk Hwf H. unfold after_get in H.
  assert (Hfp : forall acr d, finish_proxy c acr (ROk d) now = OForward (Some a) i ->
            a = sd_at d /\ has_at d = true /\ is_expired (sd_md d) now = false /\
            i = (if c_idtoken c then Some (sd_idt d) else None) /\ (acr <> 0%N -> acr_ok acr (sd_acr d) = true)).
  { intros acr d E. apply finish_proxy_token in E as (d' & [= <-] & ? & ? & ? & ? & ?). auto. }
  destruct Hk as [Hk|Hk]; rewrite Hk in *.
  - destruct g as [d|d inact|r].
    + exists d. split; [reflexivity|].
      destruct (negb (auto_refresh_disabled c) && should_refresh (c_tp c) (sd_md d) now).
      * destruct (start_refresh c KProxy d now) eqn:Es; try discriminate. inversion H; subst o.
        apply start_refresh_done in Es. cbn in Es. symmetry in Es.
        destruct (Hfp _ _ Es) as (? & ? & ? & ? & ?). repeat split; auto. discriminate.
      * inversion H as [H']. destruct (Hfp _ _ H') as (? & ? & ? & ? & ?). repeat split; auto. discriminate.
    + exfalso. cbn in H. destruct (c_autologin c); discriminate.
    + exfalso. destruct r; cbn in H; try (destruct (c_autologin c); discriminate). contradiction.
  - inversion H as [H']. destruct g as [d|d inact|r]; cbn in H'.
    + exists d. split; [reflexivity|]. destruct (Hfp _ _ H') as (? & ? & ? & ? & ?). repeat split; auto. discriminate.
    + exfalso. destruct (c_autologin c); discriminate.
    + exfalso. destruct r; cbn in H'; try (destruct (c_autologin c); discriminate). contradiction.
Qed.

(* the direct path of a proxied request: the token comes from the entry that is in the store at that very
   moment, opened with the data key of the presented cookie, valid, unexpired, and is that entry's token *)
Lemma proxy_direct_token c w t f start w' t' o a i :
  t_phase t = PGet start -> (t_kind t = KProxy \/ t_kind t = KSsoProxy) ->
  step c w t f = (w', t', o) -> t_phase t' = PDone (OForward (Some a) i) ->
  exists e, store_get w (cookie_key (t_cookie t)) = Some e /\ e_dek e = cookie_dek (t_cookie t) /\
            a = sd_at (e_data e) /\ has_at (e_data e) = true /\
            w_clock w <= ends (sd_md (e_data e)) /\
            (forall x, timeout (sd_md (e_data e)) = Some x -> w_clock w <= x) /\
            is_expired (sd_md (e_data e)) (w_clock w) = false /\
            i = (if c_idtoken c then Some (sd_idt (e_data e)) else None) /\
            t_cancel t = false /\ f <> FStore.
Proof.
  intros Hp Hk Hs Hd. unfold step in Hs. rewrite Hp in Hs. cbn zeta in Hs.
  assert (Hg : forall g, wf_gres g -> t' = with_phase t (after_get c t g (w_clock w)) ->
             exists d, g = GOk d /\ a = sd_at d /\ has_at d = true /\ is_expired (sd_md d) (w_clock w) = false /\
                       i = (if c_idtoken c then Some (sd_idt d) else None)).
  { intros g Hwf ->. cbn [with_phase t_phase] in Hd.
    destruct (after_get_token c t g (w_clock w) a i Hk Hwf Hd) as (d & ? & ? & ? & ? & ? & _). exists d. repeat split; assumption. }
  destruct (t_cancel t) eqn:Hc.
  { inversion Hs; subst. destruct (Hg (GErr RCancelled) I eq_refl) as (d & E & _). discriminate. }
  assert (Hnorm : forall (Hf : f <> FStore),
     (match store_get w (cookie_key (t_cookie t)) with
      | None => (w, with_phase t (after_get c t (GErr RNotFound) (w_clock w)), ObGet (cookie_key (t_cookie t)) 0)
      | Some e => (w, with_phase t (after_get c t (classify_entry (cookie_dek (t_cookie t)) e (w_clock w)) (w_clock w)), ObGet (cookie_key (t_cookie t)) 1)
      end) = (w', t', o) ->
     exists e, store_get w (cookie_key (t_cookie t)) = Some e /\ e_dek e = cookie_dek (t_cookie t) /\
            a = sd_at (e_data e) /\ has_at (e_data e) = true /\
            w_clock w <= ends (sd_md (e_data e)) /\
            (forall x, timeout (sd_md (e_data e)) = Some x -> w_clock w <= x) /\
            is_expired (sd_md (e_data e)) (w_clock w) = false /\
            i = (if c_idtoken c then Some (sd_idt (e_data e)) else None) /\ false = false /\ f <> FStore).
  { intros Hf Hm. destruct (store_get w (cookie_key (t_cookie t))) as [e|] eqn:Hge.
    - inversion Hm; subst w' t' o.
      destruct (Hg _ (classify_wf _ _ _) eq_refl) as (d & Hcl & Ha & Hat & Hex & Hi).
      apply classify_ok in Hcl as (H1 & H2 & H3 & H4 & H5). subst d.
      exists e. repeat split; auto.
    - inversion Hm; subst. destruct (Hg (GErr RNotFound) I eq_refl) as (d & E & _). discriminate. }
  destruct f.
  - apply Hnorm; [discriminate|exact Hs].
  - exfalso. destruct (retry_left c start (w_clock w)); inversion Hs; subst.
    + rewrite Hp in Hd. discriminate.
    + destruct (Hg (GErr ROther) I eq_refl) as (d & E & _). discriminate.
  - apply Hnorm; [discriminate|exact Hs].
  - apply Hnorm; [discriminate|exact Hs].
  - apply Hnorm; [discriminate|exact Hs].
Qed.

(* a valid session (readable, not ended, not timed out, unexpired token, level satisfied, no refresh due)
   always gets its token on the direct path *)
Lemma proxy_direct_valid c w t start e :
  t_phase t = PGet start -> t_kind t = KSsoProxy -> t_cancel t = false ->
  store_get w (cookie_key (t_cookie t)) = Some e -> e_dek e = cookie_dek (t_cookie t) ->
  has_at (e_data e) = true -> w_clock w <= ends (sd_md (e_data e)) ->
  (forall x, timeout (sd_md (e_data e)) = Some x -> w_clock w <= x) ->
  is_expired (sd_md (e_data e)) (w_clock w) = false ->
  (c_proxy_acr c = 0%N \/ acr_ok (c_proxy_acr c) (sd_acr (e_data e)) = true) ->
  t_phase (snd (fst (step c w t FNone))) =
    PDone (OForward (Some (sd_at (e_data e))) (if c_idtoken c then Some (sd_idt (e_data e)) else None)).
Proof.
  intros Hp Hk Hc Hg Hd Hat He Ht Hx Ha. unfold step. rewrite Hp. cbn zeta. rewrite Hc, Hg. cbn [fst snd with_phase t_phase].
  unfold after_get. rewrite Hk.
  assert (Hcl : classify_entry (cookie_dek (t_cookie t)) e (w_clock w) = GOk (e_data e)).
  { unfold classify_entry. rewrite Hd, N.eqb_refl. cbn.
    assert (Hv : validate (has_at (e_data e)) (sd_md (e_data e)) (w_clock w) = Valid) by (apply validate_valid; auto).
    rewrite Hv. reflexivity. }
  rewrite Hcl. cbn. f_equal. now apply finish_proxy_valid.
Qed.

