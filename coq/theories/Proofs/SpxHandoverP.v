(** The redirect that SSOProxy.Login / SSOProxy.Logout hand to the SSO server (Model/Redirect.v, the spx_ definitions):
    whatever the redirect parameter, it is the serialisation of a URL record that has the scheme, userinfo and host of
    the ingress matching the request (of the fallback ingress when none matches) and only path, query and fragment of
    the parameter - or it is the fallback ingress itself. *)
From Coq Require Import NArith List Bool.
From WW Require Import Base.Bytes Model.GoUrl Model.Redirect.
Import ListNotations.
Open Scope N_scope.

(* the ingress record with path, query and fragment taken from the parsed parameter (SSOProxyRedirect.Canonical) *)
Definition spx_on_ingress (ing p : url) : url :=
  mkurl (u_scheme ing) (u_opaque ing) (u_user ing) (u_host ing) (u_path p) (u_rawpath ing)
        (u_omithost ing) (u_forcequery ing) (u_rawquery p) (u_fragment p) (u_rawfragment ing).

Lemma spx_base_ingress_configured : forall ings fb reqhost reqpath,
  let base := spx_base_ingress ings fb reqhost reqpath in
  base = fb \/ (In base ings /\ u_host base = reqhost /\ u_path base = spx_matching_path ings reqpath).
Proof.
  intros ings fb reqhost reqpath. unfold spx_base_ingress, spx_matching_ingress.
  destruct (find _ ings) as [i|] eqn:Hf.
  - right. apply find_some in Hf. destruct Hf as [Hin Hb].
    apply andb_true_iff in Hb. destruct Hb as [Hh Hp].
    apply beq_eq in Hh. apply beq_eq in Hp. now repeat split.
  - now left.
Qed.

Lemma spx_login_handover_shape : forall ings fb reqhost reqpath param r,
  spx_login_handover ings fb reqhost reqpath param = Some r ->
  let base := spx_base_ingress ings fb reqhost reqpath in
  r = url_string fb \/
  (absolute_valid (map u_host ings) r = true /\
   ((parse_url param = None /\ r = url_string base) \/
    exists p, parse_url param = Some p /\ r = url_string (spx_on_ingress base p))).
Proof.
  intros ings fb reqhost reqpath param r H. cbv zeta.
  unfold spx_login_handover in H.
  destruct (is_empty _) eqn:He in H; [discriminate H|]. injection H as H. subst r.
  unfold ssoproxy_canonical, ssoproxy_clean, clean.
  destruct (absolute_valid (map u_host ings) _) eqn:Hv; [|now left].
  right. split; [exact Hv|].
  unfold ssoproxy_reserialise. destruct (parse_url param) as [p|] eqn:Hp.
  - right. exists p. split; reflexivity.
  - left. split; reflexivity.
Qed.

Lemma spx_logout_handover_shape : forall ings fb reqhost reqpath param r,
  spx_logout_handover ings fb reqhost reqpath param = Some r ->
  param <> [] /\ spx_login_handover ings fb reqhost reqpath param = Some r.
Proof.
  intros ings fb reqhost reqpath param r H. unfold spx_logout_handover in H.
  destruct param as [|c q]; [discriminate H|]. split; [discriminate|exact H].
Qed.
