(** C06 invariants of the session machine: the end of a session never moves. *)
From Coq Require Import ZArith NArith Bool List Lia.
From WW Require Import Base.AMap Model.SessionTime Proofs.SessionTimeP Model.Machine Proofs.MachineP.
Import ListNotations.
Open Scope Z_scope.

Definition rres_data (r : rres) : list sdata := match r with ROk d => [d] | _ => [] end.
Definition outcome_data (o : outcome) : list sdata := match o with OMeta _ d _ => [d] | _ => [] end.

Definition phase_data (p : phase) : list sdata :=
  match p with
  | PGet _ | PDel _ _ => []
  | PLock old _ | PReread old _ _ => [old]
  | PIdp old cur _ _ => [old; cur]
  | PUpdGet old new _ _ | PUpdSet old new _ _ => [old; new]
  | PUnlock old _ res => old :: rres_data res
  | PDone o => outcome_data o
  end.

(* every session record: end = creation + max lifetime; inactivity deadline at most timeout after the last refresh *)
Definition good (c : config) (d : sdata) : Prop :=
  ends (sd_md d) = created (sd_md d) + c_maxlife c /\
  match c_inact c with
  | Some i => exists t, timeout (sd_md d) = Some t /\ t <= refreshed (sd_md d) + i
  | None => timeout (sd_md d) = None
  end.

Lemma refreshed_data_good c cur a r secs now : good c cur -> good c (refreshed_data c cur a r secs now).
Proof.
  intros [H1 H2]. unfold good, refreshed_data. cbn [sd_md]. destruct (c_inact c) as [i|].
  - cbn. split; [exact H1|]. eexists. split; [reflexivity|lia].
  - cbn. split; [exact H1|exact H2].
Qed.

Lemma refreshed_data_same_life c cur a r secs now :
  created (sd_md (refreshed_data c cur a r secs now)) = created (sd_md cur) /\
  ends (sd_md (refreshed_data c cur a r secs now)) = ends (sd_md cur) /\
  sd_sid (refreshed_data c cur a r secs now) = sd_sid cur /\
  sd_idt (refreshed_data c cur a r secs now) = sd_idt cur /\
  sd_acr (refreshed_data c cur a r secs now) = sd_acr cur.
Proof. unfold refreshed_data. destruct (c_inact c); cbn; auto. Qed.

Definition store_good (c : config) (w : world) : Prop := forall k e, alookup k (w_store w) = Some e -> good c (e_data e).
Definition thread_good (c : config) (t : thread) : Prop := Forall (good c) (phase_data (t_phase t)).

Lemma classify_data dek e now d : classify_entry dek e now = GOk d -> d = e_data e.
Proof. intros H. apply classify_ok in H as (_ & H & _). exact H. Qed.

Lemma classify_invalid_data dek e now d b : classify_entry dek e now = GInvalidWith d b -> d = e_data e.
Proof. unfold classify_entry. destruct (negb _); [discriminate|]. destruct (validate _ _ _); intros [= <- _]; reflexivity || discriminate. Qed.

Lemma classify_err dek e now r : classify_entry dek e now = GErr r -> r = RInvalid.
Proof. unfold classify_entry. destruct (negb _); [intros [= <-]; reflexivity|]. destruct (validate _ _ _); discriminate. Qed.

Ltac good_tac :=
  repeat match goal with
         | |- Forall _ [] => constructor
         | |- Forall _ (_ :: _) => constructor
         | |- good _ (refreshed_data _ _ _ _ _ _) => apply refreshed_data_good
         | H : Forall _ (_ :: _) |- _ => inversion H; subst; clear H
         | H : classify_entry _ _ _ = GOk _ |- _ => apply classify_data in H; subst
         | H : classify_entry _ _ _ = GInvalidWith _ _ |- _ => apply classify_invalid_data in H; subst
         | H : classify_entry _ _ _ = GErr _ |- _ => apply classify_err in H; subst
         | H : gres_rres _ = _ |- _ => cbn in H; try discriminate; try (inversion H; subst; clear H)
         | |- _ => assumption
         end.

Lemma step_good c w t f : store_good c w -> thread_good c t ->
  store_good c (fst (fst (step c w t f))) /\ thread_good c (snd (fst (step c w t f))).
Proof.
  intros Hs Ht. unfold thread_good in *.
  assert (Hget : forall k e, store_get w k = Some e -> good c (e_data e)).
  { intros k e H. apply store_get_some in H. eauto. }
  unfold step. destruct (t_phase t) eqn:Hp; cbn zeta; cbn [phase_data] in Ht.
  all: unfold after_get; unfold start_refresh, to_unlock, finish_unlock, finish_refresh, finish_refresh_endpoint,
       finish_session_kind, get_or_refresh_result, finish_proxy, finish_fwdauth, logout_success, logout_failure.
  all: step_cases; cbn [fst snd set_store set_locks set_idp w_store with_phase t_phase phase_data rres_data outcome_data]; try inv_idp.
  all: rewrite ?Hp; cbn [phase_data rres_data outcome_data].
  all: split; [|solve [good_tac | (repeat match goal with H : store_get _ _ = Some _ |- _ => apply Hget in H end); good_tac]].
  all: try exact Hs.
  all: intros k0 e0 Hk0; cbn [w_store set_store set_locks set_idp] in Hk0; rewrite ?alookup_insert, ?alookup_delete in Hk0;
       repeat match type of Hk0 with context [if ?b then _ else _] => destruct b end;
       try discriminate; try (eapply Hs; eassumption);
       try (inversion Hk0; subst; cbn [e_data]; good_tac).
Qed.

Definition life_inv (c : config) (s : mstate) : Prop :=
  store_good c (m_w s) /\ forall tid th, alookup tid (m_ts s) = Some th -> thread_good c th.

Lemma spawn_good c k ck now : thread_good c (spawn c k ck now).
Proof.
  pose proof (spawn_sessionless c k ck now) as H. unfold sessionless in H. unfold thread_good.
  destruct (t_phase (spawn c k ck now)) eqn:E; try contradiction; cbn; try constructor.
  destruct o as [a i|st|st d tm]; cbn in *; [constructor|constructor|discriminate].
Qed.

Lemma login_good c w sid acr : 0 <= 0 -> store_good c w -> store_good c (login c w sid acr).
Proof.
  intros _ Hs. unfold login. destruct (login_acr_ok c acr); [|exact Hs].
  intros k e Hk. cbn [w_store] in Hk. rewrite alookup_insert in Hk. destruct (N.eqb k sid); [|eauto].
  inversion Hk; subst; cbn. unfold good; cbn [sd_md]. destruct (c_inact c) as [i|]; cbn.
  - split; [reflexivity|]. eexists. split; [reflexivity|lia].
  - split; reflexivity.
Qed.

Lemma apply_event_life_inv c s e : life_inv c s -> life_inv c (fst (apply_event c s e)).
Proof.
  intros [Hs Ht]. destruct e as [d|sid acr|t kd ck|t f|t|tau rot]; cbn [apply_event].
  - split; [exact Hs|exact Ht].
  - split; [apply login_good; [lia|exact Hs]|exact Ht].
  - destruct (alookup t (m_ts s)) eqn:El; [split; assumption|]. split; [exact Hs|]. cbn [fst m_ts].
    intros tid th Hl. rewrite alookup_insert in Hl. destruct (N.eqb tid t); [inversion Hl; subst; apply spawn_good|eauto].
  - destruct (alookup t (m_ts s)) as [th0|] eqn:El; [|split; assumption].
    pose proof (step_good c (m_w s) th0 f Hs (Ht _ _ El)) as [H1 H2].
    destruct (step c (m_w s) th0 f) as [[w' th'] o]. cbn [fst snd] in *. split; [exact H1|]. cbn [m_ts].
    intros tid th Hl. rewrite alookup_insert in Hl. destruct (N.eqb tid t); [inversion Hl; subst; exact H2|eauto].
  - destruct (alookup t (m_ts s)) as [th0|] eqn:El; [|split; assumption]. split; [exact Hs|]. cbn [fst m_ts].
    intros tid th Hl. rewrite alookup_insert in Hl. destruct (N.eqb tid t) eqn:E; [|eauto].
    inversion Hl; subst. apply (Ht _ _ El).
  - split; [exact Hs|exact Ht].
Qed.

Theorem life_invariant c es tau : life_inv c (run_events c (init_state tau) es).
Proof.
  apply (run_events_inv_all c (life_inv c)); [intros s e H; now apply apply_event_life_inv|].
  split; cbn; intros; discriminate.
Qed.

(* acceptance of a stored session at instant now implies now <= creation + max lifetime (and <= inactivity deadline) *)
Lemma accepted_within_lifetime c dek e now d :
  good c (e_data e) -> classify_entry dek e now = GOk d ->
  now <= created (sd_md d) + c_maxlife c /\
  match c_inact c with Some i => now <= refreshed (sd_md d) + i | None => True end.
Proof.
  intros [Hg1 Hg2] Hc. apply classify_ok in Hc as (_ & -> & _ & He & Ht). split; [lia|].
  destruct (c_inact c) as [i|]; [|exact I].
  destruct Hg2 as (t & E & Hb). specialize (Ht t E). lia.
Qed.
