From Coq Require Import NArith List Bool.
From WW Require Import Model.Logs.
Import ListNotations.

Lemma banner_masked_no_leak c : banner_leaks true c = [].
Proof.
  induction c as [|s r IH]; cbn; [reflexivity|]. destruct s; cbn; exact IH.
Qed.

Lemma banner_unmasked_uri_leaks : banner_leaks false [BRedisUriPassword] = [BRedisUriPassword].
Proof. reflexivity. Qed.

Lemma banner_leaks_only_uri c s : In s (banner_leaks false c) -> s = BRedisUriPassword.
Proof.
  induction c as [|x r IH]; cbn; [contradiction|]. destruct x; cbn; auto. intros [<-|H]; auto.
Qed.
