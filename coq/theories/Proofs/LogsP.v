From Coq Require Import NArith List Bool.
From WW Require Import Base.Bytes Model.GoUrl Model.Logs.
Import ListNotations.

Lemma banner_masked_no_leak c : banner_leaks true c = [].
Proof.
  induction c as [|s r IH]; cbn; [reflexivity|]. destruct s; cbn; exact IH.
Qed.

Lemma banner_unmasked_uri_leaks : banner_leaks false [BRedisUriPassword] = [BRedisUriPassword].
Proof. reflexivity. Qed.

Lemma banner_leaks_only_uri c s : In s (banner_leaks false c) -> s = BRedisUriPassword.
Proof.
  induction c as [|x r IH]; cbn; [contradiction|]. destruct x; cbn; auto. intros [<-|H]; auto.
Qed.

(** * the redis.uri field *)

Lemma url_set_password_erase u rep : url_set_password (url_erase_password u) rep = url_set_password u rep.
Proof.
  unfold url_erase_password, url_set_password. destruct u as [sc op us ho pa rp oh fq rq fr rf]. cbn.
  destruct us as [[un [pw|]]|]; reflexivity.
Qed.

(** the printed value is computed from the parsed URL with the value of the password forgotten *)
Lemma redact_uri_via_erased uri rep u : is_empty uri = false -> parse_url uri = Some u ->
  redact_uri_password uri rep = url_string (url_set_password (url_erase_password u) rep).
Proof.
  intros He Hp. unfold redact_uri_password. rewrite He, Hp, url_set_password_erase. reflexivity.
Qed.

(** noninterference: two configured values whose parsed URLs differ at most in the VALUE of the password are printed
    identically, whatever the spelling of either password *)
Lemma redact_uri_password_independent s1 s2 u1 u2 rep :
  is_empty s1 = false -> is_empty s2 = false -> parse_url s1 = Some u1 -> parse_url s2 = Some u2 ->
  url_erase_password u1 = url_erase_password u2 ->
  redact_uri_password s1 rep = redact_uri_password s2 rep.
Proof.
  intros E1 E2 P1 P2 H. rewrite (redact_uri_via_erased s1 rep u1 E1 P1), (redact_uri_via_erased s2 rep u2 E2 P2), H.
  reflexivity.
Qed.

(** a value url.Parse rejects is never printed *)
Lemma redact_uri_unparseable uri rep : is_empty uri = false -> parse_url uri = None -> redact_uri_password uri rep = rep.
Proof. intros He Hp. unfold redact_uri_password. rewrite He, Hp. reflexivity. Qed.

(** the userinfo that is printed: the escaped user name, ':' and the escaped replacement *)
Lemma redact_uri_userinfo u un pw rep : u_user u = Some (un, Some pw) ->
  u_user (url_set_password u rep) = Some (un, Some rep).
Proof. intros H. unfold url_set_password. rewrite H. reflexivity. Qed.

Lemma url_set_password_other_fields u rep :
  let v := url_set_password u rep in
  u_scheme v = u_scheme u /\ u_opaque v = u_opaque u /\ u_host v = u_host u /\ u_path v = u_path u /\
  u_rawpath v = u_rawpath u /\ u_rawquery v = u_rawquery u /\ u_fragment v = u_fragment u /\ u_rawfragment v = u_rawfragment u.
Proof. unfold url_set_password. destruct (u_user u) as [[un [pw|]]|]; cbn; repeat split. Qed.
