(** Proofs about the matcher loop of Model/Glob.v: soundness with respect to the character-level
    semantics [CM] (hence [Matches]), and termination within [glob_fuel]. *)
From Coq Require Import NArith List Bool Arith Lia ZifyN ZifyBool ZifyNat.
From WW Require Import Base.Bytes Model.Glob Proofs.GlobSpec Proofs.GlobSegP.
Import ListNotations.
Open Scope N_scope.

(** * auxiliary *)

Definition suffix (a b : bytes) : Prop := exists pre, b = pre ++ a.

Lemma suffix_refl a : suffix a a.
Proof. exists []. reflexivity. Qed.

Lemma suffix_cons x a b : suffix (x :: a) b -> suffix a b.
Proof. intros [pre H]. exists (pre ++ [x]). rewrite <- app_assoc. exact H. Qed.

Lemma suffix_trans a b c : suffix a b -> suffix b c -> suffix a c.
Proof. intros [p H] [q H']. exists (q ++ p). rewrite <- app_assoc. congruence. Qed.

Lemma suffix_has_suffix a b : suffix a b -> has_suffix b a = true.
Proof. intros [pre H]. apply has_suffix_spec. exists pre. exact H. Qed.

Lemma after_sep_spec dn r : after_sep dn = Some r -> exists pre, dn = pre ++ slash :: r /\ noslash pre.
Proof.
  revert r. induction dn as [|c dn IH]; intros r H; cbn [after_sep] in H; [discriminate|].
  destruct (c =? slash) eqn:E.
  - apply N.eqb_eq in E. inversion H. subst. exists []. split; [reflexivity|constructor].
  - apply N.eqb_neq in E. destruct (IH _ H) as (pre & -> & Hn). exists (c :: pre). split; [reflexivity|].
    constructor; assumption.
Qed.

Lemma after_sep_length dn r : after_sep dn = Some r -> (length r < length dn)%nat.
Proof.
  intros H. destruct (after_sep_spec _ _ H) as (pre & -> & _). rewrite app_length. cbn [length]. lia.
Qed.

Lemma is_dseg_single p1 : (forall y p2, p1 = y :: p2 -> y <> star) -> is_dseg (star :: p1) = false.
Proof.
  intros H. destruct p1 as [|y p2]; [reflexivity|].
  cbn [is_dseg]. specialize (H y p2 eq_refl). apply N.eqb_neq in H. rewrite H.
  rewrite andb_false_r. reflexivity.
Qed.

(* a star absorbs a run of non-separator bytes *)
Lemma star_absorb pre : noslash pre -> forall sos q m,
  star_ok sos (star :: q) -> CM false q m -> CM sos (star :: q) (pre ++ m).
Proof.
  induction 1 as [|c pre Hc Hpre IH]; intros sos q m Hok Hm.
  - cbn [app]. apply cm_star_skip; assumption.
  - cbn [app]. apply cm_star_eat; [assumption|assumption|].
    apply IH; [intros Habs; discriminate|assumption].
Qed.

(** * soundness of the loop *)

Section Sound.
  Variable pat name : bytes.
  Hypothesis Hpat : has_suffix pat [star; star; slash] = false.

  Let G := CM true pat name.

  Definition st_ok (st : reg) : Prop :=
    match st with
    | Some (sp, sn) => suffix sp pat /\ forall pre sn', sn = pre ++ sn' -> noslash pre -> CM false sp sn' -> G
    | None => True
    end.

  Definition ds_ok (ds : reg) : Prop :=
    match ds with
    | Some (dp, dn) => suffix dp pat /\ forall pre r, dn = pre ++ slash :: r -> CM true dp r -> G
    | None => True
    end.

  Definition sinv (p n : bytes) (sos : bool) (ds st : reg) : Prop :=
    suffix p pat /\ (CM sos p n -> G) /\ ds_ok ds /\ st_ok st.

  Lemma no_bad_suffix p : suffix p pat -> p <> [star; star; slash] /\ p <> [slash; star; star; slash].
  Proof.
    intros Hs. split; intros ->.
    - apply suffix_has_suffix in Hs. congruence.
    - apply suffix_cons in Hs. apply suffix_has_suffix in Hs. congruence.
  Qed.

  Lemma zero_length_cm p sos : suffix p pat -> zero_length p = true -> CM sos p [].
  Proof.
    intros Hs Hz. destruct (no_bad_suffix p Hs) as [Hb1 Hb2]. unfold zero_length in Hz.
    repeat (apply orb_true_iff in Hz; destruct Hz as [Hz|Hz]); apply beq_eq in Hz; subst p.
    - constructor.
    - apply cm_star_skip; [intros _; reflexivity|constructor].
    - destruct sos; [apply cm_dstar_end|].
      apply cm_star_skip; [intros H; discriminate|]. apply cm_star_skip; [intros H; discriminate|constructor].
    - apply cm_end_one.
    - congruence.
    - congruence.
  Qed.

  Lemma backtrack_sound ds st : ds_ok ds -> st_ok st ->
    match backtrack ds st with
    | Done b => b = false
    | Next p' n' sos' ds' st' => sinv p' n' sos' ds' st'
    end.
  Proof.
    intros Hds Hst.
    assert (Hdsb : match (match ds with
                          | Some (dp, dn) => match after_sep dn with
                                             | Some r => Next dp r true (Some (dp, r)) st
                                             | None => Done false end
                          | None => Done false end) with
                   | Done b => b = false
                   | Next p' n' sos' ds' st' => sinv p' n' sos' ds' st' end).
    { destruct ds as [[dp dn]|]; [|reflexivity].
      destruct (after_sep dn) as [r|] eqn:Ea; [|reflexivity].
      destruct (after_sep_spec _ _ Ea) as (pre & -> & Hn). destruct Hds as [Hsuf Hd].
      repeat split.
      - exact Hsuf.
      - intros Hc. exact (Hd pre r eq_refl Hc).
      - exact Hsuf.
      - intros pre' r' -> Hc. apply (Hd (pre ++ slash :: pre') r'); [|exact Hc].
        rewrite <- app_assoc. reflexivity.
      - exact Hst. }
    unfold backtrack. destruct st as [[sp sn]|]; [|exact Hdsb].
    destruct sn as [|d sn']; [exact Hdsb|].
    destruct (d =? slash) eqn:Ed; cbn [negb]; [exact Hdsb|].
    apply N.eqb_neq in Ed. destruct Hst as [Hsuf Hs].
    repeat split.
    - exact Hsuf.
    - intros Hc. apply (Hs [d] sn' eq_refl); [repeat constructor; exact Ed|exact Hc].
    - exact Hds.
    - exact Hsuf.
    - intros pre sn'' -> Hn Hc. apply (Hs (d :: pre) sn'' eq_refl); [constructor; assumption|exact Hc].
  Qed.

  Lemma step_sound p n sos ds st : sinv p n sos ds st ->
    match step p n sos ds st with
    | Done b => b = true -> G
    | Next p' n' sos' ds' st' => sinv p' n' sos' ds' st'
    end.
  Proof.
    intros (Hsuf & Hcur & Hds & Hst).
    assert (Hbt : match backtrack ds st with
                  | Done b => b = true -> G
                  | Next p' n' sos' ds' st' => sinv p' n' sos' ds' st' end).
    { pose proof (backtrack_sound ds st Hds Hst) as H. destruct (backtrack ds st); [|exact H].
      intros ->. discriminate. }
    (* generic: new star register at (q, n), current pattern p reads "stars then q" *)
    assert (Hstar : forall q, suffix q p ->
              (forall pre m, noslash pre -> CM false q m -> CM sos p (pre ++ m)) ->
              sinv q n false ds (Some (q, n))).
    { intros q Hq Hab. repeat split.
      - exact (suffix_trans _ _ _ Hq Hsuf).
      - intros Hc. apply Hcur. exact (Hab [] n (Forall_nil _) Hc).
      - exact Hds.
      - exact (suffix_trans _ _ _ Hq Hsuf).
      - intros pre sn' -> Hn Hc. apply Hcur. exact (Hab pre sn' Hn Hc). }
    unfold step. destruct n as [|c n'].
    { intros Hz. apply Hcur. apply zero_length_cm; assumption. }
    destruct p as [|x p1]; [exact Hbt|].
    destruct (x =? star) eqn:Ex.
    - apply N.eqb_eq in Ex. subst x.
      destruct p1 as [|y p2].
      { apply Hstar; [exists [star]; reflexivity|].
        intros pre m Hn Hc. apply star_absorb; [exact Hn|intros _; reflexivity|exact Hc]. }
      destruct (y =? star) eqn:Ey.
      + apply N.eqb_eq in Ey. subst y.
        assert (Hdouble : forall (Hok : star_ok sos (star :: star :: p2)),
                   sinv p2 (c :: n') false ds (Some (p2, c :: n'))).
        { intros Hok. apply Hstar; [exists [star; star]; reflexivity|].
          intros pre m Hn Hc. apply star_absorb; [exact Hn|exact Hok|].
          apply cm_star_skip; [intros H; discriminate|exact Hc]. }
        destruct sos.
        * destruct p2 as [|z p3].
          { intros _. apply Hcur. apply cm_dstar_end. }
          destruct (z =? slash) eqn:Ez.
          { apply N.eqb_eq in Ez. subst z. repeat split.
            - apply (suffix_trans _ (star :: star :: slash :: p3)); [exists [star; star; slash]; reflexivity|exact Hsuf].
            - intros Hc. apply Hcur. apply cm_dstar_zero. exact Hc.
            - apply (suffix_trans _ (star :: star :: slash :: p3)); [exists [star; star; slash]; reflexivity|exact Hsuf].
            - intros pre r Hn Hc. apply Hcur. rewrite Hn. apply cm_dstar_more. apply cm_dstar_zero. exact Hc. }
          { apply Hdouble. intros _. cbn [is_dseg]. rewrite Ez. rewrite !N.eqb_refl. reflexivity. }
        * apply Hdouble. intros H; discriminate.
      + apply N.eqb_neq in Ey.
        apply Hstar; [exists [star]; reflexivity|].
        intros pre m Hn Hc. apply star_absorb; [exact Hn| |exact Hc].
        intros _. apply is_dseg_single. intros y' p2' Heq. inversion Heq. subst. exact Ey.
    - apply N.eqb_neq in Ex. destruct (x =? c) eqn:Ec; [|exact Hbt].
      apply N.eqb_eq in Ec. subst c. repeat split.
      + exact (suffix_cons _ _ _ Hsuf).
      + intros Hc. apply Hcur. apply cm_lit; assumption.
      + exact Hds.
      + exact Hst.
  Qed.

  Lemma run_sound fuel : forall p n sos ds st, sinv p n sos ds st ->
    run fuel p n sos ds st = Some true -> G.
  Proof.
    induction fuel as [|f IH]; intros p n sos ds st Hinv Hrun; cbn [run] in Hrun; [discriminate|].
    pose proof (step_sound p n sos ds st Hinv) as Hs.
    destruct (step p n sos ds st) as [b|p' n' sos' ds' st'].
    - inversion Hrun. subst b. exact (Hs eq_refl).
    - exact (IH _ _ _ _ _ Hs Hrun).
  Qed.

  Lemma run_sound_init fuel : run fuel pat name true None None = Some true -> CM true pat name.
  Proof.
    apply run_sound. repeat split; [apply suffix_refl|auto].
  Qed.
End Sound.

Theorem glob_exec_sound pat name :
  has_suffix pat [star; star; slash] = false ->
  glob_exec pat name = true -> Matches pat name.
Proof.
  intros Hp H. unfold glob_exec, glob_run in H.
  destruct (run (glob_fuel pat name) pat name true None None) as [b|] eqn:E; [|discriminate].
  subst b. apply cm_matches. exact (run_sound_init pat name Hp _ E).
Qed.

(** * termination within [glob_fuel] *)

Section Fuel.
  Variable LP LN : nat.   (* lengths of the whole pattern and name *)

  Definition K1 : nat := S LP.
  Definition K2 : nat := (S LN * K1)%nat.

  Definition dmeas (ds : reg) : nat := match ds with Some (_, dn) => length dn | None => S LN end.
  Definition smeas (n : bytes) (st : reg) : nat :=
    match st with Some (_, sn) => Nat.max (length sn) (length n) | None => length n end.
  Definition meas (p n : bytes) (ds st : reg) : nat :=
    (dmeas ds * K2 + smeas n st * K1 + length p)%nat.

  Definition finv (p n : bytes) (ds st : reg) : Prop :=
    (length p <= LP)%nat /\ (length n <= LN)%nat /\
    match st with Some (sp, sn) => (length sp <= LP)%nat /\ (length sn <= LN)%nat | None => True end /\
    match ds with
    | Some (dp, dn) =>
      (length dp <= LP)%nat /\ (length dn <= LN)%nat /\ (length n <= length dn)%nat /\
      match st with
      | Some (_, c :: sn') => c <> slash -> (S (length sn') <= length dn)%nat
      | _ => True
      end
    | None => True
    end.

  Lemma backtrack_decreases p n ds st : finv p n ds st ->
    match backtrack ds st with
    | Done _ => True
    | Next p' n' _ ds' st' => finv p' n' ds' st' /\ (meas p' n' ds' st' < meas p n ds st)%nat
    end.
  Proof.
    intros (Hp & Hn & Hst & Hds).
    assert (Hdsb : (match st with Some (_, d :: _) => d = slash | _ => True end) ->
                   match (match ds with
                          | Some (dp, dn) => match after_sep dn with
                                             | Some r => Next dp r true (Some (dp, r)) st
                                             | None => Done false end
                          | None => Done false end) with
                   | Done _ => True
                   | Next p' n' _ ds' st' => finv p' n' ds' st' /\ (meas p' n' ds' st' < meas p n ds st)%nat end).
    { intros Hstuck. destruct ds as [[dp dn]|]; [|exact I].
      destruct (after_sep dn) as [r|] eqn:Ea; [|exact I].
      apply after_sep_length in Ea. destruct Hds as (Hdp & Hdn & Hnd & He).
      split.
      - unfold finv. repeat split; try lia.
        + exact Hst.
        + destruct st as [[sp [|d sn']]|]; try exact I. intros Hd. subst d. contradiction.
      - unfold meas, dmeas, K2, K1.
        assert (Hs : (smeas r st <= LN)%nat).
        { unfold smeas. destruct st as [[sp sn]|]; [destruct Hst; lia|lia]. }
        nia. }
    unfold backtrack. destruct st as [[sp sn]|]; [|apply Hdsb; exact I].
    destruct sn as [|d sn']; [apply Hdsb; exact I|].
    destruct (d =? slash) eqn:Ed; cbn [negb].
    { apply N.eqb_eq in Ed. apply Hdsb. exact Ed. }
    apply N.eqb_neq in Ed. destruct Hst as [Hsp Hsn]. cbn [length] in Hsn. split.
    - unfold finv. repeat split; try lia.
      destruct ds as [[dp dn]|]; [|exact I]. destruct Hds as (Hdp & Hdn & Hnd & He).
      specialize (He Ed). repeat split; try lia.
      destruct sn' as [|c2 sn'']; [exact I|]. intros _. cbn [length] in *. lia.
    - unfold meas, smeas, K2, K1. cbn [length]. nia.
  Qed.

  Lemma step_decreases p n sos ds st : finv p n ds st ->
    match step p n sos ds st with
    | Done _ => True
    | Next p' n' _ ds' st' => finv p' n' ds' st' /\ (meas p' n' ds' st' < meas p n ds st)%nat
    end.
  Proof.
    intros Hinv. pose proof (backtrack_decreases p n ds st Hinv) as Hbt.
    destruct Hinv as (Hp & Hn & Hst & Hds).
    (* new star register (q, n) with q a proper suffix of p *)
    assert (Hstar : forall q, (length q < length p)%nat -> n <> [] ->
              finv q n ds (Some (q, n)) /\ (meas q n ds (Some (q, n)) < meas p n ds st)%nat).
    { intros q Hq Hne. split.
      - unfold finv. repeat split; try lia.
        destruct ds as [[dp dn]|]; [|exact I]. destruct Hds as (Hdp & Hdn & Hnd & He).
        repeat split; try lia. destruct n as [|c n']; [exact I|]. intros _. cbn [length] in *. lia.
      - unfold meas, smeas, K2, K1. destruct st as [[sp sn]|]; nia. }
    unfold step. destruct n as [|c n']; [exact I|].
    destruct p as [|x p1]; [exact Hbt|].
    destruct (x =? star) eqn:Ex.
    - destruct p1 as [|y p2]; [apply Hstar; [cbn [length]; lia|discriminate]|].
      destruct (y =? star) eqn:Ey; [|apply Hstar; [cbn [length]; lia|discriminate]].
      destruct sos; [|apply Hstar; [cbn [length]; lia|discriminate]].
      destruct p2 as [|z p3]; [exact I|].
      destruct (z =? slash) eqn:Ez; [|apply Hstar; [cbn [length]; lia|discriminate]].
      cbn [length] in *. split.
      + unfold finv. repeat split; cbn [length]; lia.
      + unfold meas, smeas, dmeas, K2, K1. cbn [length].
        destruct ds as [[dp dn]|]; [destruct Hds as (Hdp & Hdn & Hnd & He)|];
          destruct st as [[sp sn]|]; cbn [length] in *; nia.
    - destruct (x =? c) eqn:Ec; [|exact Hbt].
      cbn [length] in *. split.
      + unfold finv. repeat split; try lia.
        * exact Hst.
        * destruct ds as [[dp dn]|]; [|exact I]. destruct Hds as (Hdp & Hdn & Hnd & He).
          repeat split; try lia. exact He.
      + unfold meas, smeas, K2, K1. cbn [length]. destruct st as [[sp sn]|]; nia.
  Qed.

  Lemma run_terminates fuel : forall p n sos ds st, finv p n ds st ->
    (meas p n ds st < fuel)%nat -> exists b, run fuel p n sos ds st = Some b.
  Proof.
    induction fuel as [|f IH]; intros p n sos ds st Hinv Hm; [lia|].
    cbn [run]. pose proof (step_decreases p n sos ds st Hinv) as Hs.
    destruct (step p n sos ds st) as [b|p' n' sos' ds' st']; [eauto|].
    destruct Hs as [Hi Hlt]. apply IH; [exact Hi|lia].
  Qed.
End Fuel.

Theorem glob_run_total pat name : exists b, glob_run pat name = Some b.
Proof.
  unfold glob_run. apply (run_terminates (length pat) (length name)).
  - unfold finv. repeat split; lia.
  - unfold meas, dmeas, smeas, K2, K1, glob_fuel. nia.
Qed.

Corollary glob_exec_run pat name b : glob_exec pat name = b <-> glob_run pat name = Some b.
Proof.
  unfold glob_exec. destruct (glob_run_total pat name) as [b' E]. rewrite E. split; congruence.
Qed.
