(** Lemmas about Model/RetryUri.v: the Location of the error handler's automatic retry.
    Part A: the last branch of Retry (the request URL with Scheme and Host blanked) for every URL record whose escaped
    path starts with exactly one slash; part B: records produced by net/http from a request line; part C: the callback
    branches (LoginRelative) for ingress paths made of plain segments; part D: all branches together. *)
From Coq Require Import NArith List Bool Lia ZifyN ZifyBool ZifyNat PeanoNat.
From WW Require Import Gen.Params Base.Bytes Model.GoUrl Model.Redirect Model.Whatwg Model.RetryUri
  Proofs.GoUrlP Proofs.RedirectP Proofs.WhatwgP Proofs.RedirectSafeP.
Import ListNotations.
Open Scope N_scope.

(** * A. the blanked request URL *)

(* the record is one the router can have dispatched to an /oauth2 handler: no opaque part, escaped path = "/" + non-slash *)
Definition ru_routed_shape (u : url) : Prop :=
  u_opaque u = [] /\ exists r, escaped_path u = 47 :: r /\ hd 0 r <> 47.

Lemma ru_escaped_path_blank u : escaped_path (ru_blank u) = escaped_path u.
Proof. reflexivity. Qed.

Lemma ru_query_fragment_blank u : query_fragment_string (ru_blank u) = query_fragment_string u.
Proof. reflexivity. Qed.

Lemma ru_query_fragment_head u : hd 0 (query_fragment_string u) <> 47.
Proof.
  unfold query_fragment_string.
  destruct (u_forcequery u || negb (is_empty (u_rawquery u))); cbn [app hd]; [lia|].
  destruct (negb (is_empty (u_fragment u))); cbn [app hd]; lia.
Qed.

Lemma ru_hd_app (r q : bytes) : hd 0 r <> 47 -> hd 0 q <> 47 -> hd 0 (r ++ q) <> 47.
Proof. destruct r; cbn; auto. Qed.

(* without userinfo: exactly one leading slash, whatever net/http.Redirect does with the string *)
Lemma ru_blank_nouser_one_slash u oldpath : u_user u = None -> ru_routed_shape u ->
  one_slash (http_redirect_location oldpath (url_string (ru_blank u))).
Proof.
  intros Hu (Ho & r & Ep & Hr).
  assert (E : url_string (ru_blank u) = 47 :: (r ++ query_fragment_string u)).
  { rewrite (url_string_relative (ru_blank u) eq_refl eq_refl Ho Hu).
    rewrite ru_escaped_path_blank, ru_query_fragment_blank, Ep. unfold dot_slash_prefix.
    cbn [cut_byte]. change (47 =? 47) with true. cbn iota. reflexivity. }
  apply http_redirect_one_slash with (r := r ++ query_fragment_string u).
  - exact E.
  - apply ru_hd_app; [exact Hr|apply ru_query_fragment_head].
  - rewrite E. destruct (query_fragment_shape u) as (A & B & Eqf & HA & HB). rewrite Eqf.
    change (47 :: r ++ A ++ B) with ((47 :: r) ++ A ++ B). rewrite app_assoc.
    apply split_query_nice; [|exact HB]. apply Forall_app. split; [|exact HA].
    rewrite <- Ep. apply escaped_path_nice.
Qed.

(** userinfo: bytes of Userinfo.String() *)
Definition ru_ui_byte (c : N) : Prop := 32 < c /\ c < 128 /\ c <> 47 /\ c <> 92 /\ c <> 63 /\ c <> 35.

Lemma ru_should_escape_user c : should_escape c EUserPassword = false -> ru_ui_byte c /\ c <> 64.
Proof.
  unfold should_escape, mem_byte, existsb, is_alpha, is_digit, ru_ui_byte. cbn [is_hostmode is_fragmode andb]. intros H.
  repeat match type of H with context[if ?b then _ else _] => let E := fresh "E" in destruct b eqn:E end;
    try discriminate; lia.
Qed.

Lemma ru_upperhex_ui n : n < 16 -> ru_ui_byte (upperhex n).
Proof. unfold upperhex, ru_ui_byte. intros H. destruct (n <? 10) eqn:E; lia. Qed.

Lemma ru_escape_user_ui s : Forall ru_ui_byte (escape s EUserPassword).
Proof.
  unfold escape. induction s as [|c s IH]; cbn [flat_map]; [constructor|].
  apply Forall_app. split; [|exact IH]. unfold escape_byte. cbn [is_querymode andb]. rewrite andb_false_r.
  destruct (should_escape c EUserPassword) eqn:E.
  - repeat constructor; try (apply ru_upperhex_ui, mod16_lt); unfold ru_ui_byte; lia.
  - constructor; [apply (ru_should_escape_user c E)|constructor].
Qed.

Lemma ru_userinfo_ui ui : Forall ru_ui_byte (userinfo_string ui).
Proof.
  unfold userinfo_string. apply Forall_app. split; [apply ru_escape_user_ui|].
  destruct (snd ui); [|constructor]. constructor; [unfold ru_ui_byte; lia|apply ru_escape_user_ui].
Qed.

Lemma ru_ui_nice l : Forall ru_ui_byte l -> Forall nice l.
Proof. apply Forall_impl. unfold ru_ui_byte, nice. lia. Qed.

(* URL.String() of the blanked record with userinfo *)
Lemma ru_blank_user_string u ui : u_opaque u = [] -> u_user u = Some ui ->
  url_string (ru_blank u) = 47 :: 47 :: userinfo_string ui ++ 64 :: escaped_path u ++ query_fragment_string u.
Proof.
  intros Ho Hu. unfold url_string, authority_string, has_user.
  change (u_scheme (ru_blank u)) with (@nil N). change (u_host (ru_blank u)) with (@nil N).
  change (u_opaque (ru_blank u)) with (u_opaque u). change (u_user (ru_blank u)) with (u_user u).
  change (u_path (ru_blank u)) with (u_path u). change (u_omithost (ru_blank u)) with (u_omithost u).
  rewrite ru_escaped_path_blank, ru_query_fragment_blank, Ho, Hu.
  cbn [is_empty negb orb andb app]. rewrite !andb_false_r, !orb_true_r. cbn [app is_empty].
  rewrite <- !app_assoc. cbn [app]. reflexivity.
Qed.

(* http.Redirect on a target that starts with a slash (one or more) and has no backslash / space / control byte before
   its first '?': either the path.Clean branch ran (exactly one leading slash), or the target is written as it is *)
Lemma ru_redirect_rooted_or_verbatim oldpath r :
  Forall nice (fst (split_query (47 :: r))) ->
  one_slash (http_redirect_location oldpath (47 :: r)) \/
  http_redirect_location oldpath (47 :: r) = hex_escape_non_ascii (47 :: r).
Proof.
  intros Hn. unfold http_redirect_location, http_redirect_rewrite.
  destruct (parse_url (47 :: r)) as [u|]; [|right; reflexivity].
  destruct (is_empty (u_scheme u) && is_empty (u_host u)); [|right; reflexivity].
  left. apply hex_escape_one_slash.
  rewrite has_prefix_one. change (47 =? 47) with true. cbn [negb].
  destruct (split_query_decomp (47 :: r)) as (q & E & Es & Hq).
  destruct (split_query (47 :: r)) as [p query] eqn:Esq. cbn [fst snd] in *. subst query.
  assert (Hp : exists p', p = 47 :: p').
  { cbn [split_query] in Esq. change (47 =? 63) with false in Esq. cbn iota in Esq.
    destruct (split_query r) as [a b]. injection Esq as <- _. eexists. reflexivity. }
  destruct Hp as [p' ->]. inversion Hn as [|? ? _ Hp']; subst.
  pose proof (path_clean_good p' Hp') as G.
  destruct (has_suffix (47 :: p') [47] && negb (has_suffix (path_clean (47 :: p')) [47])) eqn:Et.
  - apply andb_true_iff in Et as [_ Et]. apply good_one_slash_app; [now apply good_trailing|exact Hq].
  - apply good_one_slash_app; assumption.
Qed.

(** WHATWG: "//" userinfo "@" followed by nothing or by '/', '?' or '#' has no host: the parser fails *)
Lemma ru_strip_tail_nil : strip_tail [] = [].
Proof. reflexivity. Qed.

Lemma ru_strip_tail_app A r : Forall (fun c => is_c0sp c = false) A -> strip_tail (A ++ r) = A ++ strip_tail r.
Proof.
  induction 1 as [|c A Hc _ IH]; [reflexivity|]. cbn [app]. rewrite (strip_tail_cons c (A ++ r) Hc), IH. reflexivity.
Qed.

Lemma ru_remove_tnr_app A B : remove_tnr (A ++ B) = remove_tnr A ++ remove_tnr B.
Proof. unfold remove_tnr. apply filter_app. Qed.

Lemma ru_remove_tnr_id A : Forall (fun c => is_tnr c = false) A -> remove_tnr A = A.
Proof.
  unfold remove_tnr. induction 1 as [|c A Hc _ IH]; [reflexivity|]. cbn [filter]. rewrite Hc. cbn [negb]. now rewrite IH.
Qed.

Lemma ru_take_authority_app A R : Forall (fun c => is_auth_end c = false) A ->
  take_authority (A ++ R) = A ++ take_authority R.
Proof. induction 1 as [|c A Hc _ IH]; [reflexivity|]. cbn [app take_authority]. rewrite Hc, IH. reflexivity. Qed.

Lemma ru_cut_last_snoc c A : cut_last c (A ++ [c]) = Some (A, []).
Proof.
  induction A as [|x A IH]; cbn [app cut_last].
  - rewrite N.eqb_refl. reflexivity.
  - rewrite IH. reflexivity.
Qed.

Lemma ru_hex_app A B : hex_escape_non_ascii (A ++ B) = hex_escape_non_ascii A ++ hex_escape_non_ascii B.
Proof. unfold hex_escape_non_ascii. apply flat_map_app. Qed.

Lemma ru_hex_ascii A : Forall (fun c => c < 128) A -> hex_escape_non_ascii A = A.
Proof.
  unfold hex_escape_non_ascii. induction 1 as [|c A Hc _ IH]; [reflexivity|]. cbn [flat_map].
  destruct (128 <=? c) eqn:E; [lia|]. cbn [app]. now rewrite IH.
Qed.

(* a string that is empty or begins with '/', '?' or '#' *)
Definition ru_ends_authority (s : bytes) : Prop := s = [] \/ exists h s', s = h :: s' /\ (h = 47 \/ h = 63 \/ h = 35).

Lemma ru_ends_authority_hex s : ru_ends_authority s -> ru_ends_authority (hex_escape_non_ascii s).
Proof.
  intros [->|(h & s' & -> & Hh)]; [now left|right].
  unfold hex_escape_non_ascii. cbn [flat_map]. destruct (128 <=? h) eqn:E; [lia|]. cbn [app]. eexists; eexists. split; [reflexivity|exact Hh].
Qed.

Lemma ru_ends_authority_strip s : ru_ends_authority s -> ru_ends_authority (strip_tail s).
Proof.
  intros [->|(h & s' & -> & Hh)]; [now left|right].
  assert (Hc : is_c0sp h = false) by (unfold is_c0sp; lia).
  rewrite (strip_tail_cons h s' Hc). eexists; eexists. split; [reflexivity|exact Hh].
Qed.

Lemma ru_ends_authority_tnr s : ru_ends_authority s -> ru_ends_authority (remove_tnr s).
Proof.
  intros [->|(h & s' & -> & Hh)]; [now left|right].
  assert (Hc : is_tnr h = false) by (unfold is_tnr; lia).
  unfold remove_tnr. cbn [filter]. rewrite Hc. cbn [negb]. eexists; eexists. split; [reflexivity|exact Hh].
Qed.

Lemma ru_ends_authority_take s : ru_ends_authority s -> take_authority s = [].
Proof.
  intros [->|(h & s' & -> & Hh)]; [reflexivity|]. cbn [take_authority].
  assert (Hc : is_auth_end h = true) by (unfold is_auth_end; lia). now rewrite Hc.
Qed.

Section RuWhatwg.
  Variable idna : bytes -> option bytes.

  Lemma ru_authority_origin_fails bs uis R : Forall ru_ui_byte uis -> ru_ends_authority R ->
    authority_origin idna bs (uis ++ 64 :: R) = WFail.
  Proof.
    intros Hu HR. unfold authority_origin.
    assert (Hs : skip_slashes (uis ++ 64 :: R) = uis ++ 64 :: R).
    { destruct Hu as [|c uis' Hc _]; cbn [app skip_slashes]; [reflexivity|].
      assert (Hw : is_wsl c = false) by (unfold ru_ui_byte in Hc; unfold is_wsl; lia). now rewrite Hw. }
    rewrite Hs. change (uis ++ 64 :: R) with (uis ++ [64] ++ R). rewrite app_assoc.
    rewrite ru_take_authority_app.
    - rewrite (ru_ends_authority_take R HR), app_nil_r, ru_cut_last_snoc. reflexivity.
    - apply Forall_app. split; [|constructor; [reflexivity|constructor]].
      revert Hu. apply Forall_impl. unfold ru_ui_byte, is_auth_end. lia.
  Qed.

  Lemma ru_userinfo_location_fails bs bh bp uis rest : Forall ru_ui_byte uis -> ru_ends_authority rest ->
    whatwg_origin idna bs bh bp (hex_escape_non_ascii (47 :: 47 :: uis ++ 64 :: rest)) = WFail.
  Proof.
    intros Hu Hr.
    assert (Ha : Forall (fun c => c < 128) (47 :: 47 :: uis ++ [64])).
    { constructor; [lia|]. constructor; [lia|]. apply Forall_app. split; [|constructor; [lia|constructor]].
      revert Hu. apply Forall_impl. unfold ru_ui_byte. lia. }
    change (47 :: 47 :: uis ++ 64 :: rest) with (47 :: 47 :: uis ++ [64] ++ rest).
    rewrite app_assoc. change (47 :: 47 :: (uis ++ [64]) ++ rest) with ((47 :: 47 :: uis ++ [64]) ++ rest).
    rewrite ru_hex_app, (ru_hex_ascii _ Ha).
    set (R1 := hex_escape_non_ascii rest). assert (H1 : ru_ends_authority R1) by now apply ru_ends_authority_hex.
    unfold whatwg_origin, preprocess. cbn [app].
    rewrite (strip_c0_cons 47 _ eq_refl).
    change (47 :: (uis ++ [64]) ++ R1) with ((47 :: uis ++ [64]) ++ R1).
    rewrite ru_strip_tail_app.
    2:{ constructor; [reflexivity|]. apply Forall_app. split; [|constructor; [reflexivity|constructor]].
        revert Hu. apply Forall_impl. unfold ru_ui_byte, is_c0sp. lia. }
    change (47 :: (47 :: uis ++ [64]) ++ strip_tail R1) with ((47 :: 47 :: uis ++ [64]) ++ strip_tail R1).
    rewrite ru_remove_tnr_app, ru_remove_tnr_id.
    2:{ constructor; [reflexivity|]. constructor; [reflexivity|]. apply Forall_app. split; [|constructor; [reflexivity|constructor]].
        revert Hu. apply Forall_impl. unfold ru_ui_byte, is_tnr. lia. }
    set (R3 := remove_tnr (strip_tail R1)).
    assert (H3 : ru_ends_authority R3) by (apply ru_ends_authority_tnr, ru_ends_authority_strip, H1).
    cbn [app]. change (split_scheme (47 :: 47 :: (uis ++ [64]) ++ R3)) with (@None (bytes * bytes)).
    cbn [relative_origin]. change (is_wsl 47) with true. cbn [andb].
    rewrite <- app_assoc. cbn [app]. now apply ru_authority_origin_fails.
  Qed.
End RuWhatwg.

Lemma ru_ends_authority_path_query u : (exists r, escaped_path u = 47 :: r) ->
  ru_ends_authority (escaped_path u ++ query_fragment_string u).
Proof. intros [r ->]. right. exists 47, (r ++ query_fragment_string u). split; [reflexivity|now left]. Qed.

Section RuBlank.
  Variable idna : bytes -> option bytes.

  (* the last branch of Retry, any record of routed shape, any old path: exactly one leading slash, or - only with
     userinfo, when url.Parse inside http.Redirect rejects the string or finds a host in it - the string as it is,
     "//userinfo@/...", which no WHATWG parser turns into a URL *)
  Lemma ru_blank_location_shape bs bh bp u oldpath : ru_routed_shape u ->
    one_slash (http_redirect_location oldpath (url_string (ru_blank u))) \/
    (exists ui, u_user u = Some ui /\
       http_redirect_location oldpath (url_string (ru_blank u)) =
         hex_escape_non_ascii (47 :: 47 :: userinfo_string ui ++ 64 :: escaped_path u ++ query_fragment_string u) /\
       whatwg_origin idna bs bh bp (http_redirect_location oldpath (url_string (ru_blank u))) = WFail).
  Proof.
    intros Hs. destruct (u_user u) as [ui|] eqn:Hu.
    - destruct Hs as (Ho & r & Ep & Hr). rewrite (ru_blank_user_string u ui Ho Hu).
      set (t := userinfo_string ui ++ 64 :: escaped_path u ++ query_fragment_string u).
      destruct (ru_redirect_rooted_or_verbatim oldpath (47 :: t)) as [H|H].
      + subst t. destruct (query_fragment_shape u) as (A & B & Eqf & HA & HB). rewrite Eqf.
        assert (E : 47 :: 47 :: userinfo_string ui ++ 64 :: escaped_path u ++ A ++ B =
                    (47 :: 47 :: userinfo_string ui ++ 64 :: escaped_path u ++ A) ++ B).
        { cbn [app]. rewrite <- app_assoc. cbn [app]. rewrite <- app_assoc. reflexivity. }
        rewrite E. apply split_query_nice; [|exact HB].
        constructor; [apply nice_47|]. constructor; [apply nice_47|].
        apply Forall_app. split; [apply ru_ui_nice, ru_userinfo_ui|].
        constructor; [apply nice_c; lia|]. apply Forall_app. split; [apply escaped_path_nice|exact HA].
      + left. exact H.
      + right. exists ui. split; [reflexivity|]. split; [exact H|]. rewrite H. subst t.
        apply ru_userinfo_location_fails; [apply ru_userinfo_ui|].
        apply ru_ends_authority_path_query. now exists r.
    - left. now apply ru_blank_nouser_one_slash.
  Qed.

  Lemma ru_blank_location_origin bs bh bp u oldpath : ru_routed_shape u ->
    whatwg_origin idna bs bh bp (http_redirect_location oldpath (url_string (ru_blank u))) = WTuple bs bh bp \/
    (u_user u <> None /\ whatwg_origin idna bs bh bp (http_redirect_location oldpath (url_string (ru_blank u))) = WFail).
  Proof.
    intros Hs. destruct (ru_blank_location_shape bs bh bp u oldpath Hs) as [H|(ui & Hu & _ & H)].
    - left. now apply single_slash_same_origin, one_slash_single.
    - right. split; [rewrite Hu; discriminate|exact H].
  Qed.
End RuBlank.

(** * B. records produced by net/http from the request line *)
Lemma ru_set_path_nil : set_path [] = Some ([], []).
Proof. reflexivity. Qed.

Lemma ru_parse_rest_path sch rest fq rq v : parse_rest sch rest true fq rq = Some v -> u_path v <> [] ->
  u_opaque v = [] /\ exists p', set_path (47 :: p') = Some (u_path v, u_rawpath v).
Proof.
  unfold parse_rest. destruct (has_prefix rest [47]) eqn:Hp; cbn [negb andb].
  - apply has_prefix_spec in Hp as [r0 ->]. cbn [app].
    match goal with |- context[if ?b then _ else _] => destruct b end.
    + destruct (cut_byte 47 (skipn 2 (47 :: r0))) as [a [b|]];
        (destruct (parse_authority a) as [[user host]|]; cbn [opt_bind]; [|discriminate]).
      * destruct (set_path (47 :: b)) as [[p rp]|] eqn:Es; cbn [opt_bind]; [|discriminate].
        intros [= <-] _. cbn. split; [reflexivity|]. exists b. exact Es.
      * rewrite ru_set_path_nil. cbn [opt_bind]. intros [= <-] H. cbn in H. contradiction.
    + destruct (set_path (47 :: r0)) as [[p rp]|] eqn:Es; cbn [opt_bind]; [|discriminate].
      intros [= <-] _. cbn. split; [reflexivity|]. exists r0. exact Es.
  - destruct (negb (is_empty sch)); cbn [andb]; [|discriminate].
    intros [= <-] H. cbn in H. contradiction.
Qed.

Lemma ru_unescape_path_cons p' : unescape EPath (47 :: p') = option_map (cons 47) (unescape EPath p').
Proof. reflexivity. Qed.

Lemma ru_escape_path_cons x : escape (47 :: x) EPath = 47 :: escape x EPath.
Proof. reflexivity. Qed.

Lemma ru_escape_path_hd x : hd 0 x <> 47 -> hd 0 (escape x EPath) <> 47.
Proof.
  destruct x as [|c x]; cbn [hd]; [cbn; lia|]. intros Hc. unfold escape. cbn [flat_map]. unfold escape_byte.
  cbn [is_querymode]. rewrite andb_false_r. destruct (should_escape c EPath); cbn [app hd]; lia.
Qed.

Lemma ru_set_path_escaped p' path raw u : set_path (47 :: p') = Some (path, raw) ->
  has_prefix path [47; 47] = false -> u_path u = path -> u_rawpath u = raw ->
  exists r, escaped_path u = 47 :: r /\ hd 0 r <> 47.
Proof.
  unfold set_path. rewrite ru_unescape_path_cons.
  destruct (unescape EPath p') as [x|] eqn:Ex; cbn [option_map opt_bind]; [|discriminate].
  intros Hs Hpp Hp Hr.
  assert (Epath : path = 47 :: x) by (destruct (beq (47 :: p') (escape (47 :: x) EPath)); now injection Hs as <- _).
  assert (Eraw : raw = [] \/ raw = 47 :: p') by (destruct (beq (47 :: p') (escape (47 :: x) EPath)); injection Hs as _ <-; auto).
  rewrite Epath in Hpp, Hp. clear Epath.
  assert (Hx : hd 0 x <> 47).
  { destruct x as [|c x']; cbn [hd]; [lia|]. intros ->. cbn in Hpp. destruct x'; discriminate Hpp. }
  unfold escaped_path. rewrite Hp, Hr.
  destruct (negb (is_empty raw) && valid_encoded raw EPath &&
            match unescape EPath raw with Some p => beq p (47 :: x) | None => false end) eqn:Ec.
  - destruct Eraw as [-> | ->]; [discriminate|]. exists p'. split; [reflexivity|].
    destruct p' as [|d p'']; cbn [hd]; [lia|]. intros ->. rewrite ru_unescape_path_cons in Ex.
    destruct (unescape EPath p''); cbn [option_map] in Ex; [|discriminate]. injection Ex as <-. cbn in Hx. lia.
  - change (beq (47 :: x) [42]) with false. cbn iota. rewrite ru_escape_path_cons.
    exists (escape x EPath). split; [reflexivity|now apply ru_escape_path_hd].
Qed.

(* a request line whose parsed path starts with exactly one slash gives a record of routed shape *)
Lemma ru_request_url_shape target u : ru_request_url target = Some u ->
  has_prefix (u_path u) [47] = true -> has_prefix (u_path u) [47; 47] = false -> ru_routed_shape u.
Proof.
  unfold ru_request_url, parse_request_uri, parse. intros H H1 H2.
  destruct (contains_ctl target); [discriminate|].
  destruct (is_empty target && true); [discriminate|].
  destruct (beq target [42]).
  - injection H as <-. discriminate H1.
  - destruct (get_scheme target) as [[sch0 rest0]|]; cbn [opt_bind] in H; [|discriminate].
    destruct (split_query_go rest0) as [[rest fq] rq].
    assert (Hne : u_path u <> []) by (intros E; rewrite E in H1; discriminate).
    destruct (ru_parse_rest_path _ _ _ _ _ H Hne) as (Ho & p' & Es).
    split; [exact Ho|]. now apply ru_set_path_escaped with p' (u_path u) (u_rawpath u).
Qed.

(* ... and has no fragment; its userinfo, if any, came with an absolute-form target *)
Lemma ru_request_url_user target u : ru_request_url target = Some u -> u_user u <> None -> u_scheme u <> [].
Proof.
  unfold ru_request_url, parse_request_uri, parse. intros H Hu.
  destruct (contains_ctl target); [discriminate|].
  destruct (is_empty target && true); [discriminate|].
  destruct (beq target [42]); [injection H as <-; now contradiction Hu|].
  destruct (get_scheme target) as [[sch0 rest0]|]; cbn [opt_bind] in H; [|discriminate].
  destruct (split_query_go rest0) as [[rest fq] rq].
  rewrite (parse_rest_scheme _ _ _ _ _ _ H). intros Es. rewrite Es in H.
  unfold parse_rest in H. cbn [is_empty negb andb orb] in H.
  destruct (has_prefix rest [47]); cbn [negb andb] in H; [|discriminate].
  destruct (set_path rest) as [[p rp]|]; cbn [opt_bind] in H; [|discriminate].
  injection H as <-. now contradiction Hu.
Qed.

(** * C. path.Clean / path.Join on plain segments, LoginRelative *)
(* a byte net/url leaves alone in a path, other than the separator *)
Definition ru_seg_byte (c : N) : Prop := should_escape c EPath = false /\ c <> 47.
(* a path segment path.Clean keeps: non-empty, not "." or "..", made of such bytes *)
Definition ru_plain_seg (s : bytes) : Prop := s <> [] /\ Forall ru_seg_byte s /\ s <> [46] /\ s <> [46; 46].
Definition ru_seg_ok (s : bytes) : Prop := s = [] \/ ru_plain_seg s.
(* "/" s1 "/" s2 ... *)
Definition ru_segs (l : list bytes) : bytes := flat_map (fun s => 47 :: s) l.
Definition ru_out (done : list bytes) : bytes := match done with [] => [47] | _ => ru_segs done end.
Definition ru_nonempty (l : list bytes) : list bytes := filter (fun s => negb (is_empty s)) l.
(* an ingress path as Retry needs it: "" or "/seg/seg..." *)
Definition ru_plain_prefix (p : bytes) : Prop := exists l, p = ru_segs l /\ Forall ru_plain_seg l.

Lemma ru_segs_app a b : ru_segs (a ++ b) = ru_segs a ++ ru_segs b.
Proof. unfold ru_segs. apply flat_map_app. Qed.

Lemma ru_ends_slash_segs l : ru_segs l = [] \/ exists r, ru_segs l = 47 :: r.
Proof. destruct l as [|s l]; [now left|right]. cbn. eexists. reflexivity. Qed.

Lemma ru_span_noslash s rest : Forall (fun c => c <> 47) s -> (rest = [] \/ exists r, rest = 47 :: r) ->
  span_noslash (s ++ rest) = (s, rest).
Proof.
  intros Hs Hr. induction Hs as [|c s Hc _ IH]; cbn [app].
  - destruct Hr as [->|[r ->]]; reflexivity.
  - cbn [span_noslash]. destruct (c =? 47) eqn:E; [lia|]. rewrite IH. reflexivity.
Qed.

Lemma ru_plain_seg_noslash s : ru_plain_seg s -> Forall (fun c => c <> 47) s.
Proof. intros (_ & H & _). revert H. apply Forall_impl. intros c [_ Hc]. exact Hc. Qed.

(* one component step of path.Clean's loop *)
Lemma ru_clean_loop_component f s rest out : ru_plain_seg s -> (rest = [] \/ exists r, rest = 47 :: r) ->
  clean_loop (S f) true (s ++ rest) out 1 =
  clean_loop f true rest ((if negb (Nat.eqb (length out) 1) then out ++ [47] else out) ++ s) 1.
Proof.
  intros Hs Hr. pose proof (ru_plain_seg_noslash s Hs) as Hn. destruct Hs as (Hne & _ & Hd1 & Hd2).
  destruct s as [|c s0]; [contradiction|]. inversion Hn as [|? ? Hc Hn0]; subst.
  pose proof (ru_span_noslash (c :: s0) rest Hn Hr) as Hspan.
  cbn [app] in *. cbn [clean_loop].
  destruct (c =? 47) eqn:E47; [lia|].
  assert (C2 : (c =? 46) && match s0 ++ rest with [] => true | d :: _ => d =? 47 end = false).
  { destruct (c =? 46) eqn:E46; [|reflexivity]. cbn [andb].
    destruct s0 as [|d s1]; [exfalso; apply Hd1; f_equal; lia|]. cbn [app]. inversion Hn0; subst. lia. }
  rewrite C2.
  assert (C3 : (c =? 46) && match s0 ++ rest with
                             | d :: r2 => (d =? 46) && match r2 with [] => true | e :: _ => e =? 47 end
                             | [] => false end = false).
  { destruct (c =? 46) eqn:E46; [|reflexivity]. cbn [andb].
    destruct s0 as [|d s1]; [exfalso; apply Hd1; f_equal; lia|]. cbn [app].
    destruct (d =? 46) eqn:Ed; [|reflexivity]. cbn [andb].
    destruct s1 as [|e s2]; [exfalso; apply Hd2; repeat f_equal; lia|]. cbn [app].
    inversion Hn0 as [|? ? _ Hn1]; subst. inversion Hn1; subst. lia. }
  rewrite C3, Hspan. cbn [andb negb orb]. rewrite orb_false_r. reflexivity.
Qed.

Lemma ru_plain_seg_length s : ru_plain_seg s -> (1 <= length s)%nat.
Proof. intros (H & _). destruct s; [contradiction|cbn; lia]. Qed.

Lemma ru_segs_length_cons s l : length (ru_segs (s :: l)) = S (length s + length (ru_segs l)).
Proof. cbn [ru_segs flat_map length]. rewrite app_length. reflexivity. Qed.

Lemma ru_out_snoc done s : Forall ru_plain_seg done ->
  (if negb (Nat.eqb (length (ru_out done)) 1) then ru_out done ++ [47] else ru_out done) ++ s = ru_out (done ++ [s]).
Proof.
  intros Hd. destruct done as [|d0 done'].
  - cbn. now rewrite app_nil_r.
  - inversion Hd as [|? ? H0 _]; subst. pose proof (ru_plain_seg_length d0 H0) as Hl.
    assert (E : Nat.eqb (length (ru_out (d0 :: done'))) 1 = false).
    { apply Nat.eqb_neq. cbn [ru_out]. rewrite ru_segs_length_cons. lia. }
    rewrite E. cbn [negb]. change (ru_out ((d0 :: done') ++ [s])) with (ru_segs ((d0 :: done') ++ [s])).
    cbn [ru_out]. rewrite ru_segs_app. cbn [ru_segs flat_map]. rewrite app_nil_r.
    rewrite <- app_assoc. reflexivity.
Qed.

Lemma ru_clean_loop_segs l : forall fuel done, Forall ru_seg_ok l -> Forall ru_plain_seg done ->
  (length (ru_segs l) < fuel)%nat ->
  clean_loop fuel true (ru_segs l) (ru_out done) 1 = ru_out (done ++ ru_nonempty l).
Proof.
  induction l as [|s l IH]; intros fuel done Hl Hd Hf.
  - cbn [ru_segs flat_map ru_nonempty filter]. rewrite app_nil_r. destruct fuel; reflexivity.
  - inversion Hl as [|? ? Hs Hl']; subst. rewrite ru_segs_length_cons in Hf.
    destruct fuel as [|f]; [lia|]. change (ru_segs (s :: l)) with (47 :: s ++ ru_segs l).
    cbn [clean_loop]. change (47 =? 47) with true. cbn iota.
    destruct Hs as [->|Hs].
    + cbn [app ru_nonempty filter is_empty negb]. apply IH; [exact Hl'|exact Hd|lia].
    + pose proof (ru_plain_seg_length s Hs) as Hls. destruct f as [|f']; [lia|].
      rewrite (ru_clean_loop_component f' s (ru_segs l) (ru_out done) Hs (ru_ends_slash_segs l)).
      rewrite (ru_out_snoc done s Hd).
      assert (En : ru_nonempty (s :: l) = s :: ru_nonempty l).
      { cbn [ru_nonempty filter]. destruct s; [cbn in Hls; lia|reflexivity]. }
      rewrite En. replace (done ++ s :: ru_nonempty l) with ((done ++ [s]) ++ ru_nonempty l) by (rewrite <- app_assoc; reflexivity).
      apply IH; [exact Hl'| |lia]. apply Forall_app. split; [exact Hd|constructor; [exact Hs|constructor]].
Qed.

Lemma ru_out_nonempty done : is_empty (ru_out done) = false.
Proof. destruct done; reflexivity. Qed.

Lemma ru_clean_loop_slash f X out : clean_loop (S f) true (47 :: X) out 1 = clean_loop f true X out 1.
Proof. reflexivity. Qed.

(* path.Clean of "/s1/s2/..." whose segments are empty or plain *)
Lemma ru_path_clean_segs l : l <> [] -> Forall ru_seg_ok l -> path_clean (ru_segs l) = ru_out (ru_nonempty l).
Proof.
  intros Hne Hl. destruct l as [|s l']; [contradiction|].
  pose proof (ru_clean_loop_segs (s :: l') (S (S (length (ru_segs (s :: l'))))) [] Hl (Forall_nil _) ltac:(lia)) as H.
  change (ru_segs (s :: l')) with (47 :: s ++ ru_segs l') in *.
  rewrite ru_clean_loop_slash in H.
  unfold path_clean. change (47 =? 47) with true. cbn iota. change (ru_out []) with [47] in H. rewrite H.
  rewrite ru_out_nonempty. reflexivity.
Qed.

(** bytes that net/url leaves alone in a path *)
Definition ru_noesc (c : N) : Prop := should_escape c EPath = false.

Lemma ru_escape_noesc s : Forall ru_noesc s -> escape s EPath = s.
Proof.
  unfold escape. induction 1 as [|c s Hc _ IH]; [reflexivity|]. cbn [flat_map]. rewrite IH. unfold escape_byte.
  cbn [is_querymode]. rewrite andb_false_r. unfold ru_noesc in Hc. rewrite Hc. reflexivity.
Qed.

Lemma ru_unescape_noesc s : Forall ru_noesc s -> unescape EPath s = Some s.
Proof.
  induction 1 as [|c s Hc _ IH]; [reflexivity|]. cbn [unescape]. unfold ru_noesc in Hc.
  destruct (c =? 37) eqn:E37.
  - apply N.eqb_eq in E37. subst c. discriminate Hc.
  - destruct (c =? 43) eqn:E43.
    + apply N.eqb_eq in E43. subst c. rewrite IH. reflexivity.
    + cbn [is_hostmode andb]. rewrite IH. reflexivity.
Qed.

Lemma ru_noesc_ascii c : ru_noesc c -> 32 < c /\ c < 128 /\ c <> 63 /\ c <> 92.
Proof.
  unfold ru_noesc, should_escape, mem_byte, existsb, is_alpha, is_digit. cbn [is_hostmode is_fragmode andb]. intros H.
  repeat match type of H with context[if ?b then _ else _] => let E := fresh "E" in destruct b eqn:E end;
    try discriminate; lia.
Qed.

Lemma ru_segs_noesc l : Forall ru_plain_seg l -> Forall ru_noesc (ru_segs l).
Proof.
  induction 1 as [|s l Hs _ IH]; [constructor|]. cbn [ru_segs flat_map]. constructor; [reflexivity|].
  apply Forall_app. split; [|exact IH]. destruct Hs as (_ & H & _). revert H. apply Forall_impl. intros c [Hc _]. exact Hc.
Qed.

Lemma ru_nonempty_plain l : Forall ru_plain_seg l -> ru_nonempty l = l.
Proof.
  induction 1 as [|s l Hs _ IH]; [reflexivity|]. cbn [ru_nonempty filter].
  destruct s; [destruct Hs as [H _]; contradiction|]. cbn [is_empty negb]. unfold ru_nonempty in IH. now rewrite IH.
Qed.

Lemma ru_plain_ok l : Forall ru_plain_seg l -> Forall ru_seg_ok l.
Proof. apply Forall_impl. intros s H. now right. Qed.

(* the two constant segments, from the compiled code *)
Definition ru_seg_oauth2 : bytes := tl path_oauth2.
Definition ru_seg_login : bytes := tl path_login.
Definition ru_seg_logout : bytes := tl path_logout.

Ltac ru_plain_const :=
  repeat split; try discriminate;
  repeat (constructor; [split; [reflexivity|discriminate]|]); constructor.

Lemma ru_seg_oauth2_plain : ru_plain_seg ru_seg_oauth2. Proof. ru_plain_const. Qed.
Lemma ru_seg_login_plain : ru_plain_seg ru_seg_login. Proof. ru_plain_const. Qed.
Lemma ru_seg_logout_plain : ru_plain_seg ru_seg_logout. Proof. ru_plain_const. Qed.

(* escaped path and String() of a record that has only a plain rooted path and a query *)
Lemma ru_url_string_path_query p q : Forall ru_noesc (47 :: p) ->
  url_string (mkurl [] [] None [] (47 :: p) [] false false q [] []) = (47 :: p) ++ (if is_empty q then [] else 63 :: q).
Proof.
  intros Hp. rewrite url_string_relative by reflexivity.
  assert (E : escaped_path (mkurl [] [] None [] (47 :: p) [] false false q [] []) = 47 :: p).
  { unfold escaped_path. cbn [u_rawpath u_path is_empty negb andb]. change (beq (47 :: p) [42]) with false. cbn iota.
    now apply ru_escape_noesc. }
  rewrite E. unfold dot_slash_prefix. cbn [cut_byte]. change (47 =? 47) with true. cbn iota. cbn [fst contains_byte index_byte app].
  unfold query_fragment_string. cbn [u_forcequery u_rawquery u_fragment orb is_empty negb]. rewrite app_nil_r.
  destruct q; reflexivity.
Qed.

(* LoginRelative for an ingress path made of plain segments ("" included) *)
Lemma ru_login_relative_plain l redirect : Forall ru_plain_seg l ->
  ru_login_relative (ru_segs l) redirect =
  ru_segs (l ++ [ru_seg_oauth2; ru_seg_login]) ++
  (if is_empty redirect then [] else 63 :: ru_query_escape redirect_query_parameter ++ 61 :: ru_query_escape redirect).
Proof.
  intros Hl.
  assert (Hall : Forall ru_plain_seg (l ++ [ru_seg_oauth2; ru_seg_login])).
  { apply Forall_app. split; [exact Hl|]. constructor; [apply ru_seg_oauth2_plain|]. constructor; [apply ru_seg_login_plain|constructor]. }
  (* the path JoinPath computes *)
  assert (Hj : ru_join_path (mkurl [] [] None [] (ru_out l) [] false false [] [] []) [path_oauth2; path_login]
               = mkurl [] [] None [] (ru_segs (l ++ [ru_seg_oauth2; ru_seg_login])) [] false false [] [] []).
  {
    assert (Hout : Forall ru_noesc (ru_out l)).
    { destruct l; [constructor; [reflexivity|constructor]|now apply ru_segs_noesc]. }
    assert (Ee : escaped_path (mkurl [] [] None [] (ru_out l) [] false false [] [] []) = ru_out l).
    { unfold escaped_path. cbn [u_rawpath u_path is_empty negb andb].
      assert (Eb : beq (ru_out l) [42] = false) by (destruct l; reflexivity). rewrite Eb. now apply ru_escape_noesc. }
    unfold ru_join_path. rewrite Ee.
    assert (Ep : has_prefix (ru_out l) [47] = true).
    { destruct l; [reflexivity|]. cbn [ru_out ru_segs flat_map app]. rewrite has_prefix_one. reflexivity. }
    rewrite Ep. cbn [negb].
    match goal with |- context[ru_path_join ?x] =>
      assert (Ejoin : ru_path_join x = ru_segs (l ++ [ru_seg_oauth2; ru_seg_login])) end.
    { unfold ru_path_join. cbn [forallb]. rewrite ru_out_nonempty. cbn [andb].
      match goal with |- context[ru_join_buf [] ?x] =>
        assert (Ebuf : ru_join_buf [] x = ru_segs (l ++ [[]; ru_seg_oauth2; []; ru_seg_login]) \/
                       (l = [] /\ ru_join_buf [] x = ru_segs [[]; []; ru_seg_oauth2; []; ru_seg_login])) end.
      { destruct l as [|s l']; [right; split; reflexivity|left].
        cbn [ru_out ru_join_buf]. change (ru_segs (s :: l')) with (47 :: s ++ ru_segs l').
        cbn [is_empty negb orb app].
        change (ru_segs (s :: l' ++ [[]; ru_seg_oauth2; []; ru_seg_login]))
          with (47 :: s ++ ru_segs (l' ++ [[]; ru_seg_oauth2; []; ru_seg_login])).
        rewrite ru_segs_app, <- !app_assoc. reflexivity. }
      destruct Ebuf as [Eb|[-> Eb]]; rewrite Eb.
      - rewrite ru_path_clean_segs.
        + unfold ru_nonempty. rewrite filter_app. fold (ru_nonempty l). rewrite (ru_nonempty_plain l Hl).
          cbn [filter is_empty negb]. destruct l; reflexivity.
        + destruct l; discriminate.
        + apply Forall_app. split; [now apply ru_plain_ok|].
          constructor; [now left|]. constructor; [right; apply ru_seg_oauth2_plain|]. constructor; [now left|].
          constructor; [right; apply ru_seg_login_plain|constructor].
      - rewrite ru_path_clean_segs; [reflexivity|discriminate|].
        constructor; [now left|]. constructor; [now left|]. constructor; [right; apply ru_seg_oauth2_plain|]. constructor; [now left|].
        constructor; [right; apply ru_seg_login_plain|constructor]. }
    rewrite Ejoin. cbn [last]. change (has_suffix path_login [47]) with false. cbn [andb].
    unfold set_path. rewrite (ru_unescape_noesc _ (ru_segs_noesc _ Hall)). cbn [opt_bind].
    rewrite (ru_escape_noesc _ (ru_segs_noesc _ Hall)), beq_refl. reflexivity. }
  assert (E0 : ru_login_relative (ru_segs l) redirect =
               ru_login (mkurl [] [] None [] (ru_out l) [] false false [] [] []) redirect) by (destruct l; reflexivity).
  rewrite E0. unfold ru_login. rewrite Hj.
  assert (Hp : exists p, ru_segs (l ++ [ru_seg_oauth2; ru_seg_login]) = 47 :: p).
  { destruct l; cbn; eexists; reflexivity. }
  destruct Hp as [p Ep]. pose proof (ru_segs_noesc _ Hall) as Hn. rewrite Ep in *.
  destruct redirect as [|c r]; cbn [is_empty negb].
  - rewrite (ru_url_string_path_query p [] Hn). reflexivity.
  - unfold ru_with_rawquery. cbn [u_scheme u_opaque u_user u_host u_path u_rawpath u_omithost u_forcequery u_fragment u_rawfragment].
    rewrite (ru_url_string_path_query p _ Hn).
    destruct (ru_query_escape redirect_query_parameter); reflexivity.
Qed.

(** http.Redirect leaves "/seg/seg...[?query]" as it is *)
Lemma ru_split_query_plain P Q : Forall ru_noesc P -> (Q = [] \/ exists Q', Q = 63 :: Q') -> split_query (P ++ Q) = (P, Q).
Proof.
  intros HP HQ. induction HP as [|c P Hc _ IH]; cbn [app].
  - destruct HQ as [->|[Q' ->]]; reflexivity.
  - cbn [split_query]. apply ru_noesc_ascii in Hc. destruct (c =? 63) eqn:E; [lia|]. rewrite IH. reflexivity.
Qed.

Lemma ru_redirect_plain_identity oldpath l Q : l <> [] -> Forall ru_plain_seg l ->
  (Q = [] \/ exists Q', Q = 63 :: Q') -> Forall (fun c => c < 128) Q ->
  http_redirect_location oldpath (ru_segs l ++ Q) = ru_segs l ++ Q.
Proof.
  intros Hne Hl HQ Ha. pose proof (ru_segs_noesc l Hl) as Hn.
  assert (Hr : http_redirect_rewrite oldpath (ru_segs l ++ Q) = ru_segs l ++ Q).
  { unfold http_redirect_rewrite. destruct (parse_url (ru_segs l ++ Q)) as [v|]; [|reflexivity].
    destruct (is_empty (u_scheme v) && is_empty (u_host v)); [|reflexivity].
    assert (Hp : has_prefix (ru_segs l ++ Q) [47] = true).
    { destruct l as [|s l']; [contradiction|]. cbn [ru_segs flat_map app]. apply has_prefix_one. }
    rewrite Hp. cbn [negb]. rewrite (ru_split_query_plain _ _ Hn HQ).
    rewrite (ru_path_clean_segs l Hne (ru_plain_ok l Hl)), (ru_nonempty_plain l Hl).
    assert (Eo : ru_out l = ru_segs l) by (destruct l; [contradiction|reflexivity]). rewrite Eo.
    rewrite andb_negb_r. reflexivity. }
  unfold http_redirect_location. rewrite Hr. apply ru_hex_ascii. apply Forall_app. split; [|exact Ha].
  revert Hn. apply Forall_impl. intros c Hc. apply ru_noesc_ascii in Hc. lia.
Qed.

Lemma ru_should_escape_ascii c mode : should_escape c mode = false -> c < 128.
Proof.
  unfold should_escape, mem_byte, existsb, is_alpha, is_digit. intros H.
  destruct mode; cbn [is_hostmode is_fragmode andb] in H;
    repeat match type of H with context[if ?b then _ else _] => let E := fresh "E" in destruct b eqn:E end;
    try discriminate; lia.
Qed.

Lemma ru_upperhex_ascii n : n < 16 -> upperhex n < 128.
Proof. unfold upperhex. intros H. destruct (n <? 10) eqn:E; lia. Qed.

Lemma ru_escape_ascii s mode : Forall (fun c => c < 128) (escape s mode).
Proof.
  unfold escape. induction s as [|c s IH]; cbn [flat_map]; [constructor|].
  apply Forall_app. split; [|exact IH]. unfold escape_byte.
  destruct ((c =? 32) && is_querymode mode); [constructor; [lia|constructor]|].
  destruct (should_escape c mode) eqn:E.
  - constructor; [lia|]. constructor; [apply ru_upperhex_ascii, mod16_lt|]. constructor; [apply ru_upperhex_ascii, mod16_lt|constructor].
  - constructor; [now apply ru_should_escape_ascii with mode|constructor].
Qed.

(* the query LoginRelative appends *)
Definition ru_login_query (redirect : bytes) : bytes :=
  if is_empty redirect then [] else 63 :: ru_query_escape redirect_query_parameter ++ 61 :: ru_query_escape redirect.

Lemma ru_login_query_shape redirect :
  (ru_login_query redirect = [] \/ exists Q', ru_login_query redirect = 63 :: Q') /\ Forall (fun c => c < 128) (ru_login_query redirect).
Proof.
  unfold ru_login_query. destruct (is_empty redirect); [split; [now left|constructor]|].
  split; [right; eexists; reflexivity|]. constructor; [lia|]. apply Forall_app. split; [apply ru_escape_ascii|].
  constructor; [lia|apply ru_escape_ascii].
Qed.

Lemma ru_segs_single_slash l Q : l <> [] -> Forall ru_plain_seg l -> single_slash (ru_segs l ++ Q).
Proof.
  intros Hne Hl. destruct l as [|s l']; [contradiction|]. inversion Hl as [|? ? (Hs & Hb & _) _]; subst.
  destruct s as [|c s0]; [contradiction|]. inversion Hb as [|? ? [Hc Hc47] _]; subst.
  right. exists c, (s0 ++ ru_segs l' ++ Q). split.
  - cbn [ru_segs flat_map app]. rewrite <- app_assoc. reflexivity.
  - apply ru_noesc_ascii in Hc. unfold inert. lia.
Qed.

(** * D. the branches of Retry *)
Lemma ru_retry_logout_callback m paths u referer :
  has_suffix (u_path u) (path_oauth2 ++ path_logout_callback) = true ->
  ru_retry m paths u referer = ru_matching_path paths (u_path u) ++ path_oauth2 ++ path_logout.
Proof. intros H. unfold ru_retry. rewrite H. reflexivity. Qed.

Lemma ru_retry_callback m paths u referer :
  has_suffix (u_path u) (path_oauth2 ++ path_logout_callback) = false ->
  has_suffix (u_path u) (path_oauth2 ++ path_callback) = true ->
  ru_retry m paths u referer =
  ru_login_relative (ru_matching_path paths (u_path u))
    (match referer with
     | Some ref => if negb (is_empty ref) then ru_clean m (ru_matching_path paths (u_path u)) ref
                   else ru_canonical m (ru_matching_path paths (u_path u)) (ru_query_get redirect_query_parameter (u_rawquery u))
     | None => ru_canonical m (ru_matching_path paths (u_path u)) (ru_query_get redirect_query_parameter (u_rawquery u))
     end).
Proof. intros H1 H2. unfold ru_retry. rewrite H1, H2. reflexivity. Qed.

Lemma ru_retry_other m paths u referer :
  has_suffix (u_path u) (path_oauth2 ++ path_logout_callback) = false ->
  has_suffix (u_path u) (path_oauth2 ++ path_callback) = false ->
  ru_retry m paths u referer = url_string (ru_blank u).
Proof. intros H1 H2. unfold ru_retry. rewrite H1, H2. reflexivity. Qed.

(* the redirect Retry hands to LoginRelative in the callback branch *)
Definition ru_callback_redirect (m : ru_mode) (ipath : bytes) (u : url) (referer : option bytes) : bytes :=
  match referer with
  | Some ref => if negb (is_empty ref) then ru_clean m ipath ref
                else ru_canonical m ipath (ru_query_get redirect_query_parameter (u_rawquery u))
  | None => ru_canonical m ipath (ru_query_get redirect_query_parameter (u_rawquery u))
  end.

(* it is a validated redirect or the mode's default, whatever the cookie and the query contain *)
Lemma ru_callback_redirect_validated m ipath u referer :
  match m with
  | RuStandalone =>
      relative_valid (ru_callback_redirect m ipath u referer) = true \/
      ru_callback_redirect m ipath u referer = url_string (matching_path ipath)
  | RuSsoServer d f =>
      absolute_valid [d] (ru_callback_redirect m ipath u referer) = true \/
      ru_callback_redirect m ipath u referer = url_string f
  end.
Proof.
  unfold ru_callback_redirect.
  destruct m as [|d f]; cbn [ru_clean ru_canonical];
    unfold standalone_canonical, standalone_clean, ssoserver_canonical, ssoserver_clean, clean;
    destruct referer as [ref|]; try destruct (negb (is_empty ref));
    match goal with |- context[if ?b then _ else _] => destruct b eqn:E end; auto.
Qed.

(* (b) the callback branches, literally, for an ingress path of plain segments *)
Lemma ru_callback_location m paths u referer l :
  ru_matching_path paths (u_path u) = ru_segs l -> Forall ru_plain_seg l ->
  has_suffix (u_path u) (path_oauth2 ++ path_logout_callback) = false ->
  has_suffix (u_path u) (path_oauth2 ++ path_callback) = true ->
  ru_retry_location m paths u referer =
  ru_segs l ++ path_oauth2 ++ path_login ++ ru_login_query (ru_callback_redirect m (ru_segs l) u referer).
Proof.
  intros Hm Hl H1 H2. unfold ru_retry_location. rewrite (ru_retry_callback m paths u referer H1 H2), Hm.
  fold (ru_callback_redirect m (ru_segs l) u referer). rewrite (ru_login_relative_plain l _ Hl).
  fold (ru_login_query (ru_callback_redirect m (ru_segs l) u referer)).
  destruct (ru_login_query_shape (ru_callback_redirect m (ru_segs l) u referer)) as [Hq Ha].
  rewrite ru_redirect_plain_identity; [|destruct l; discriminate| |exact Hq|exact Ha].
  - rewrite ru_segs_app, <- app_assoc. reflexivity.
  - apply Forall_app. split; [exact Hl|]. constructor; [apply ru_seg_oauth2_plain|]. constructor; [apply ru_seg_login_plain|constructor].
Qed.

Lemma ru_logout_callback_location m paths u referer l :
  ru_matching_path paths (u_path u) = ru_segs l -> Forall ru_plain_seg l ->
  has_suffix (u_path u) (path_oauth2 ++ path_logout_callback) = true ->
  ru_retry_location m paths u referer = ru_segs l ++ path_oauth2 ++ path_logout.
Proof.
  intros Hm Hl H1. unfold ru_retry_location. rewrite (ru_retry_logout_callback m paths u referer H1), Hm.
  assert (E : ru_segs l ++ path_oauth2 ++ path_logout = ru_segs (l ++ [ru_seg_oauth2; ru_seg_logout]) ++ []).
  { rewrite ru_segs_app, app_nil_r. reflexivity. }
  rewrite E. rewrite ru_redirect_plain_identity; [reflexivity|destruct l; discriminate| |now left|constructor].
  apply Forall_app. split; [exact Hl|]. constructor; [apply ru_seg_oauth2_plain|]. constructor; [apply ru_seg_logout_plain|constructor].
Qed.

(* the three statements about the callback branches together (Properties/C04.v prints one assumption report for them) *)
Lemma ru_callback_branches m paths u referer l :
  ru_matching_path paths (u_path u) = ru_segs l -> Forall ru_plain_seg l ->
  (has_suffix (u_path u) (path_oauth2 ++ path_logout_callback) = true ->
   ru_retry_location m paths u referer = ru_segs l ++ path_oauth2 ++ path_logout) /\
  (has_suffix (u_path u) (path_oauth2 ++ path_logout_callback) = false ->
   has_suffix (u_path u) (path_oauth2 ++ path_callback) = true ->
   ru_retry_location m paths u referer =
   ru_segs l ++ path_oauth2 ++ path_login ++ ru_login_query (ru_callback_redirect m (ru_segs l) u referer)) /\
  match m with
  | RuStandalone =>
      relative_valid (ru_callback_redirect m (ru_segs l) u referer) = true \/
      ru_callback_redirect m (ru_segs l) u referer = url_string (matching_path (ru_segs l))
  | RuSsoServer d f =>
      absolute_valid [d] (ru_callback_redirect m (ru_segs l) u referer) = true \/
      ru_callback_redirect m (ru_segs l) u referer = url_string f
  end.
Proof.
  intros Hm Hl. split; [|split].
  - now apply ru_logout_callback_location.
  - now apply ru_callback_location.
  - apply ru_callback_redirect_validated.
Qed.

Section RuAll.
  Variable idna : bytes -> option bytes.

  (* (a) every branch: the Location resolves to the origin of the URL it is resolved against, or - last branch, record
     with userinfo only - is refused by the parser *)
  Theorem ru_retry_location_origin bs bh bp m paths u referer l :
    ru_matching_path paths (u_path u) = ru_segs l -> Forall ru_plain_seg l -> ru_routed_shape u ->
    whatwg_origin idna bs bh bp (ru_retry_location m paths u referer) = WTuple bs bh bp \/
    (u_user u <> None /\
     has_suffix (u_path u) (path_oauth2 ++ path_logout_callback) = false /\
     has_suffix (u_path u) (path_oauth2 ++ path_callback) = false /\
     whatwg_origin idna bs bh bp (ru_retry_location m paths u referer) = WFail).
  Proof.
    intros Hm Hl Hs.
    destruct (has_suffix (u_path u) (path_oauth2 ++ path_logout_callback)) eqn:H1.
    - left. rewrite (ru_logout_callback_location m paths u referer l Hm Hl H1).
      apply single_slash_same_origin.
      replace (ru_segs l ++ path_oauth2 ++ path_logout) with (ru_segs (l ++ [ru_seg_oauth2; ru_seg_logout]) ++ [])
        by (rewrite ru_segs_app, app_nil_r; reflexivity).
      apply ru_segs_single_slash; [destruct l; discriminate|].
      apply Forall_app. split; [exact Hl|]. constructor; [apply ru_seg_oauth2_plain|]. constructor; [apply ru_seg_logout_plain|constructor].
    - destruct (has_suffix (u_path u) (path_oauth2 ++ path_callback)) eqn:H2.
      + left. rewrite (ru_callback_location m paths u referer l Hm Hl H1 H2).
        apply single_slash_same_origin.
        replace (ru_segs l ++ path_oauth2 ++ path_login ++ ru_login_query (ru_callback_redirect m (ru_segs l) u referer))
          with (ru_segs (l ++ [ru_seg_oauth2; ru_seg_login]) ++ ru_login_query (ru_callback_redirect m (ru_segs l) u referer))
          by (rewrite ru_segs_app, <- app_assoc; reflexivity).
        apply ru_segs_single_slash; [destruct l; discriminate|].
        apply Forall_app. split; [exact Hl|]. constructor; [apply ru_seg_oauth2_plain|]. constructor; [apply ru_seg_login_plain|constructor].
      + unfold ru_retry_location. rewrite (ru_retry_other m paths u referer H1 H2).
        destruct (ru_blank_location_origin idna bs bh bp u (u_path u) Hs) as [H|[Hu H]]; [now left|right].
        repeat split; assumption.
  Qed.

  (* from the request line: whatever the request-target, Host header and cookie are *)
  Theorem ru_wire_location_origin bs bh bp m paths target referer u l :
    ru_request_url target = Some u ->
    has_prefix (u_path u) [47] = true -> has_prefix (u_path u) [47; 47] = false ->
    ru_matching_path paths (u_path u) = ru_segs l -> Forall ru_plain_seg l ->
    exists loc, ru_wire_location m paths target referer = Some loc /\
      (whatwg_origin idna bs bh bp loc = WTuple bs bh bp \/
       (u_user u <> None /\ u_scheme u <> [] /\ whatwg_origin idna bs bh bp loc = WFail)).
  Proof.
    intros Hu H1 H2 Hm Hl. unfold ru_wire_location. rewrite Hu. eexists. split; [reflexivity|].
    destruct (ru_retry_location_origin bs bh bp m paths u referer l Hm Hl (ru_request_url_shape target u Hu H1 H2))
      as [H|(Hn & _ & _ & H)]; [now left|right].
    split; [exact Hn|]. split; [now apply ru_request_url_user with target|exact H].
  Qed.
End RuAll.

Lemma ru_single_one s : single_slash s -> one_slash s.
Proof. intros [->|(x & r & -> & H1 & H2 & H3)]; [now left|right]. exists x, r. repeat split; assumption. Qed.

Section RuShape.
  Variable idna : bytes -> option bytes.

  (* (a) as a statement about the bytes: exactly one leading slash (then no slash, backslash, space or control), or the
     "//userinfo@..." string of the last branch that every WHATWG parser refuses *)
  Theorem ru_retry_location_shape bs bh bp m paths u referer l :
    ru_matching_path paths (u_path u) = ru_segs l -> Forall ru_plain_seg l -> ru_routed_shape u ->
    one_slash (ru_retry_location m paths u referer) \/
    (exists ui, u_user u = Some ui /\
       ru_retry_location m paths u referer =
         hex_escape_non_ascii (47 :: 47 :: userinfo_string ui ++ 64 :: escaped_path u ++ query_fragment_string u) /\
       whatwg_origin idna bs bh bp (ru_retry_location m paths u referer) = WFail).
  Proof.
    intros Hm Hl Hs.
    destruct (has_suffix (u_path u) (path_oauth2 ++ path_logout_callback)) eqn:H1.
    - left. rewrite (ru_logout_callback_location m paths u referer l Hm Hl H1). apply ru_single_one.
      replace (ru_segs l ++ path_oauth2 ++ path_logout) with (ru_segs (l ++ [ru_seg_oauth2; ru_seg_logout]) ++ [])
        by (rewrite ru_segs_app, app_nil_r; reflexivity).
      apply ru_segs_single_slash; [destruct l; discriminate|].
      apply Forall_app. split; [exact Hl|]. constructor; [apply ru_seg_oauth2_plain|]. constructor; [apply ru_seg_logout_plain|constructor].
    - destruct (has_suffix (u_path u) (path_oauth2 ++ path_callback)) eqn:H2.
      + left. rewrite (ru_callback_location m paths u referer l Hm Hl H1 H2). apply ru_single_one.
        replace (ru_segs l ++ path_oauth2 ++ path_login ++ ru_login_query (ru_callback_redirect m (ru_segs l) u referer))
          with (ru_segs (l ++ [ru_seg_oauth2; ru_seg_login]) ++ ru_login_query (ru_callback_redirect m (ru_segs l) u referer))
          by (rewrite ru_segs_app, <- app_assoc; reflexivity).
        apply ru_segs_single_slash; [destruct l; discriminate|].
        apply Forall_app. split; [exact Hl|]. constructor; [apply ru_seg_oauth2_plain|]. constructor; [apply ru_seg_login_plain|constructor].
      + unfold ru_retry_location. rewrite (ru_retry_other m paths u referer H1 H2).
        exact (ru_blank_location_shape idna bs bh bp u (u_path u) Hs).
  Qed.
End RuShape.

(* origin and bytes together (Properties/C04.v prints one assumption report for them) *)
Lemma ru_retry_location_safe idna bs bh bp m paths u referer l :
  ru_matching_path paths (u_path u) = ru_segs l -> Forall ru_plain_seg l -> ru_routed_shape u ->
  (whatwg_origin idna bs bh bp (ru_retry_location m paths u referer) = WTuple bs bh bp \/
   (u_user u <> None /\
    has_suffix (u_path u) (path_oauth2 ++ path_logout_callback) = false /\
    has_suffix (u_path u) (path_oauth2 ++ path_callback) = false /\
    whatwg_origin idna bs bh bp (ru_retry_location m paths u referer) = WFail)) /\
  (one_slash (ru_retry_location m paths u referer) \/
   (exists ui, u_user u = Some ui /\
      ru_retry_location m paths u referer =
        hex_escape_non_ascii (47 :: 47 :: userinfo_string ui ++ 64 :: escaped_path u ++ query_fragment_string u) /\
      whatwg_origin idna bs bh bp (ru_retry_location m paths u referer) = WFail)).
Proof. intros Hm Hl Hs. split; [now apply ru_retry_location_origin with l|now apply ru_retry_location_shape with l]. Qed.

(** * E. witnesses: what the hypotheses exclude, and the seeded variant *)
From Coq Require Import String.
From WW Require Import Base.BytesLit.

(* (a) as literally worded ("never starts with //") is false: an absolute-form target with userinfo whose query ends in an
   undecodable '#' part. net/http accepts the request line ('#' is ordinary there), Retry blanks Scheme and Host but not
   User: "//u@/oauth2/login?x#%zz"; url.Parse inside http.Redirect rejects it (invalid escape in what it takes for the
   fragment), so the string is written as it is. No WHATWG parser makes a URL of it (empty host). *)
Lemma ru_single_slash_witness :
  let target := bs "https://u@app.example.com/oauth2/login?x#%zz" in
  exists u loc, ru_request_url target = Some u /\
    has_prefix (u_path u) [47] = true /\ has_prefix (u_path u) [47; 47] = false /\
    ru_wire_location RuStandalone [[]] target None = Some loc /\
    loc = bs "//u@/oauth2/login?x#%zz" /\
    whatwg_origin idna_marker w_https (bs "app.example.com") None loc = WFail.
Proof. cbv zeta. eexists. eexists. split; [vm_compute; reflexivity|]. vm_compute. repeat split. Qed.

(* ... while the same target with a decodable tail is cleaned by http.Redirect to a path on the ingress *)
Lemma ru_userinfo_cleaned_witness :
  ru_wire_location RuStandalone [[]] (bs "https://app.example.com@evil.example/oauth2/login") None
  = Some (bs "/app.example.com@/oauth2/login").
Proof. vm_compute. reflexivity. Qed.

(* the routed-shape hypothesis: an opaque request-target ("http:" followed by something that is not a slash) has an empty
   Path - the router sends it to the wildcard handler, never to the error handler. If Retry were reached with it, the
   Location would be the opaque part: a foreign origin *)
Lemma ru_opaque_witness :
  let target := bs "http:https://evil.example/" in
  exists u loc, ru_request_url target = Some u /\ u_path u = [] /\ u_opaque u = bs "https://evil.example/" /\
    ru_wire_location RuStandalone [[]] target None = Some loc /\ loc = bs "https://evil.example/" /\
    whatwg_origin idna_marker w_https (bs "app.example.com") None loc = WTuple w_https (bs "evil.example") None.
Proof. cbv zeta. eexists. eexists. split; [vm_compute; reflexivity|]. vm_compute. repeat split. Qed.

(* ... and a request path that starts with "//" (routed only if an operator configures an ingress path starting with "//")
   comes back as a scheme-relative reference *)
Lemma ru_double_slash_witness :
  let target := bs "//evil.example/oauth2/login" in
  exists u loc, ru_request_url target = Some u /\ u_path u = target /\
    ru_wire_location RuStandalone [bs "//evil.example"] target None = Some loc /\ loc = target /\
    whatwg_origin idna_marker w_https (bs "app.example.com") None loc = WTuple w_https (bs "evil.example") None.
Proof. cbv zeta. eexists. eexists. split; [vm_compute; reflexivity|]. vm_compute. repeat split. Qed.

(* for records net/http cannot produce: userinfo with a path that does not start with a slash *)
Lemma ru_user_relpath_witness :
  let u := mkurl [] [] (Some (bs "x", None)) [] (bs "evil.example/oauth2/login") [] false false [] [] [] in
  ru_retry_location RuStandalone [[]] u None = bs "//x@evil.example/oauth2/login" /\
  whatwg_origin idna_marker w_https (bs "app.example.com") None (ru_retry_location RuStandalone [[]] u None)
  = WTuple w_https (bs "evil.example") None.
Proof. vm_compute. split; reflexivity. Qed.

(* the seeded variant (Location := r.RequestURI): an absolute-form target for a foreign host goes out as it came in *)
Lemma ru_seeded_witness :
  let target := bs "http://evil.example/oauth2/login" in
  ru_wire_location_seeded RuStandalone [[]] target None = Some target /\
  whatwg_origin idna_marker w_https (bs "app.example.com") None target = WTuple w_http (bs "evil.example") None /\
  ru_wire_location RuStandalone [[]] target None = Some (bs "/oauth2/login").
Proof. vm_compute. repeat split. Qed.

(* non-vacuity of the hypotheses of ru_wire_location_origin / ru_callback_location: ingress path "/app", callback with a
   login cookie whose Referer is "/x?y" *)
Lemma ru_plain_prefix_app : Forall ru_plain_seg [bs "app"].
Proof. constructor; [|constructor]. repeat split; try discriminate. repeat (constructor; [split; [reflexivity|discriminate]|]). constructor. Qed.

Lemma ru_callback_example :
  let target := bs "https://evil.example/app/oauth2/callback?code=c&state=s" in
  exists u, ru_request_url target = Some u /\
    has_prefix (u_path u) [47] = true /\ has_prefix (u_path u) [47; 47] = false /\
    ru_matching_path [bs "/app"; bs "/other"] (u_path u) = ru_segs [bs "app"] /\
    ru_wire_location RuStandalone [bs "/app"; bs "/other"] target (Some (bs "/x?y"))
    = Some (bs "/app/oauth2/login?redirect=%2Fx%3Fy").
Proof. cbv zeta. eexists. split; [vm_compute; reflexivity|]. vm_compute. repeat split. Qed.
