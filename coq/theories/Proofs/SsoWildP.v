(** C16, clause 3, "never proxies to an upstream": whatever the request (method, path, Sec-Fetch-* / Accept headers), an
    instance in SSO-server mode never hands it to the reverse proxy; what its router does not own is answered with the
    redirect to the configured default URL. *)
From Coq Require Import NArith List Bool.
From WW Require Import Base.Bytes Gen.Params Model.Router Model.SsoWild.
Import ListNotations.
Open Scope N_scope.

Lemma sw_server_never_upstream c url method raw path h :
  rc_mode c = SsoServer -> sw_respond c url method raw path h <> SwUpstream.
Proof.
  intros Hm. unfold sw_respond, sw_wildcard, sw_server_wildcard, sw_server_root. rewrite Hm.
  destruct (respond c method raw path h) as [e nc|s nc].
  - destruct e; discriminate.
  - destruct (under_ownedb (rc_prefixes c) path); discriminate.
Qed.

(* the catch-all route: the answer does not depend on anything of the request *)
Lemma sw_server_wildcard_redirects c url method raw path h nc :
  rc_mode c = SsoServer -> respond c method raw path h = RHandler EpWildcard nc ->
  sw_respond c url method raw path h = SwRedirect 302 url.
Proof.
  intros Hm Hr. unfold sw_respond, sw_wildcard, sw_server_wildcard. rewrite Hr, Hm. reflexivity.
Qed.

(* reaching the catch-all route is a matter of method and path alone: the headers play no part *)
Lemma sw_respond_header_blind_on_wildcard c url method raw path h h' :
  route_req c method raw path = OutWildcard ->
  sw_respond c url method raw path h = sw_respond c url method raw path h'.
Proof.
  intros Hr. unfold sw_respond, respond. rewrite Hr. reflexivity.
Qed.

(* the other modes do proxy there (the statement is about the SSO server, not about the vocabulary) *)
Lemma sw_standalone_wildcard_proxies c url method raw path h nc :
  rc_mode c = Standalone -> respond c method raw path h = RHandler EpWildcard nc ->
  sw_respond c url method raw path h = SwUpstream.
Proof.
  intros Hm Hr. unfold sw_respond, sw_wildcard, sw_proxying_wildcard. rewrite Hr, Hm. reflexivity.
Qed.
