(** The character-level relation [CM] of Proofs/GlobSpec.v is equivalent to the segment-wise
    specification [Matches]:

      cm_matches : CM true pat name -> Matches pat name
      matches_cm : Matches pat name -> CM true pat name

    Stdlib only, no axioms. *)
From Coq Require Import NArith List Bool Lia.
From WW Require Import Base.Bytes Model.Glob Proofs.GlobSpec.
Import ListNotations.
Open Scope N_scope.

(** * Basic facts on the distinguished bytes *)

Lemma star_ne_slash : star <> slash.
Proof. unfold star, slash. discriminate. Qed.

Lemma slash_ne_star : slash <> star.
Proof. unfold star, slash. discriminate. Qed.

Lemma slash_eqb_star : (slash =? star) = false.
Proof. reflexivity. Qed.

Lemma star_eqb_slash : (star =? slash) = false.
Proof. reflexivity. Qed.

(** * [split_on slash] *)

Lemma split_nonnil s : split_on slash s <> [].
Proof.
  destruct s as [|x r]; cbn [split_on]; [discriminate|].
  destruct (split_on slash r); [discriminate|].
  destruct (x =? slash); discriminate.
Qed.

Lemma split_nil : split_on slash [] = [[]].
Proof. reflexivity. Qed.

Lemma split_slash r : split_on slash (slash :: r) = [] :: split_on slash r.
Proof.
  cbn [split_on]. destruct (split_on slash r) eqn:E.
  - exfalso. eapply split_nonnil; eauto.
  - rewrite N.eqb_refl. reflexivity.
Qed.

Lemma split_ns x r :
  x <> slash ->
  split_on slash (x :: r) =
  match split_on slash r with cur :: rest => (x :: cur) :: rest | [] => [[x]] end.
Proof.
  intros H. cbn [split_on]. apply N.eqb_neq in H. rewrite H.
  destruct (split_on slash r); reflexivity.
Qed.

Lemma split_app a b :
  split_on slash (a ++ slash :: b) = split_on slash a ++ split_on slash b.
Proof.
  induction a as [|x a IH]; cbn [app].
  - rewrite split_slash. reflexivity.
  - destruct (x =? slash) eqn:E; [apply N.eqb_eq in E | apply N.eqb_neq in E].
    + subst x. rewrite !split_slash, IH. reflexivity.
    + rewrite !split_ns by exact E. rewrite IH.
      destruct (split_on slash a) eqn:Ea.
      * exfalso. eapply split_nonnil; eauto.
      * reflexivity.
Qed.

Lemma split_dstar_slash p :
  split_on slash (star :: star :: slash :: p) = dstar_pat :: split_on slash p.
Proof.
  rewrite (split_ns star) by exact star_ne_slash.
  rewrite (split_ns star) by exact star_ne_slash.
  rewrite split_slash. reflexivity.
Qed.

Definition noslash (s : bytes) : Prop := Forall (fun c => c <> slash) s.

Lemma split_noslash s : Forall noslash (split_on slash s).
Proof.
  induction s as [|x r IH].
  - cbn. repeat constructor.
  - destruct (x =? slash) eqn:E; [apply N.eqb_eq in E | apply N.eqb_neq in E].
    + subst x. rewrite split_slash. constructor; [constructor|exact IH].
    + rewrite split_ns by exact E. destruct (split_on slash r) as [|cur rest].
      * repeat constructor. exact E.
      * inversion IH; subst. constructor; [constructor; assumption|assumption].
Qed.

Lemma join_cons2 sep (x y : bytes) r :
  join sep (x :: y :: r) = x ++ sep ++ join sep (y :: r).
Proof. reflexivity. Qed.

Lemma join_split s : join [slash] (split_on slash s) = s.
Proof.
  induction s as [|x r IH].
  - reflexivity.
  - destruct (x =? slash) eqn:E; [apply N.eqb_eq in E | apply N.eqb_neq in E].
    + subst x. rewrite split_slash.
      destruct (split_on slash r) as [|cur rest] eqn:Er.
      * exfalso. eapply split_nonnil; eauto.
      * rewrite join_cons2, IH. reflexivity.
    + rewrite split_ns by exact E.
      destruct (split_on slash r) as [|cur rest] eqn:Er.
      * exfalso. eapply split_nonnil; eauto.
      * destruct rest as [|y rest].
        -- cbn [join] in *. now rewrite IH.
        -- rewrite join_cons2 in *. cbn [app] in *. now rewrite IH.
Qed.

(** [is_dseg p] recognises exactly the patterns whose first segment is `**` *)
Lemma is_dseg_split p a ps :
  is_dseg p = false -> split_on slash p = a :: ps -> a <> dstar_pat.
Proof.
  intros Hd Hs ->.
  destruct p as [|x [|y r]].
  - cbn in Hs. discriminate.
  - destruct (x =? slash) eqn:E; [apply N.eqb_eq in E | apply N.eqb_neq in E].
    + subst. rewrite split_slash in Hs. discriminate.
    + rewrite split_ns in Hs by exact E. cbn in Hs. discriminate.
  - destruct (x =? slash) eqn:E; [apply N.eqb_eq in E | apply N.eqb_neq in E].
    { subst. rewrite split_slash in Hs. discriminate. }
    rewrite split_ns in Hs by exact E.
    destruct (y =? slash) eqn:E2; [apply N.eqb_eq in E2 | apply N.eqb_neq in E2].
    { subst. rewrite split_slash in Hs. discriminate. }
    rewrite split_ns in Hs by exact E2.
    destruct (split_on slash r) as [|cur rest] eqn:Er.
    { exfalso. eapply split_nonnil; eauto. }
    unfold dstar_pat in Hs. injection Hs as Hx Hy Hc Hr. subst x y cur.
    unfold is_dseg in Hd. rewrite !N.eqb_refl in Hd. cbn [andb] in Hd.
    destruct r as [|z r']; [discriminate|].
    destruct (z =? slash) eqn:E3; [discriminate|]. apply N.eqb_neq in E3.
    rewrite split_ns in Er by exact E3.
    destruct (split_on slash r'); discriminate.
Qed.

(** * Facts on [SegsMatch] *)

Lemma dstar_all ns : SegsMatch [dstar_pat] ns.
Proof.
  induction ns as [|s ns IH].
  - apply ss_dstar_zero, ss_nil.
  - apply ss_dstar_more, IH.
Qed.

Lemma dstar_more_app ps l ns :
  SegsMatch (dstar_pat :: ps) ns -> SegsMatch (dstar_pat :: ps) (l ++ ns).
Proof.
  intros H. induction l as [|s l IH]; cbn [app]; [exact H|].
  apply ss_dstar_more, IH.
Qed.

Lemma SegsMatch_nil_r ps : SegsMatch ps [] -> Forall (eq dstar_pat) ps.
Proof.
  intros H. remember [] as ns eqn:En.
  induction H; try discriminate.
  - constructor.
  - constructor; [reflexivity|auto].
Qed.

Lemma SegsMatch_nil_l ns : SegsMatch [] ns -> ns = [].
Proof. intros H. inversion H. reflexivity. Qed.

(** * CM -> Matches *)

(** What [CM sos p n] means on the segment lists [P = split p], [N = split n]. *)
Definition R (sos : bool) (P N : list bytes) : Prop :=
  match P, N with
  | a :: ps, b :: ns =>
    if sos then SegsMatch (a :: ps) (b :: ns) else SegMatch a b /\ SegsMatch ps ns
  | _, _ => False
  end.

Lemma R_intro sos a ps b ns :
  SegMatch a b -> SegsMatch ps ns -> (sos = true -> a <> dstar_pat) -> R sos (a :: ps) (b :: ns).
Proof.
  intros H1 H2 H3. destruct sos; cbn.
  - apply ss_seg; auto.
  - auto.
Qed.

Lemma cm_R sos p n : CM sos p n -> R sos (split_on slash p) (split_on slash n).
Proof.
  induction 1.
  - (* cm_nil *)
    rewrite split_nil. apply R_intro; [constructor|constructor|discriminate].
  - (* cm_lit *)
    destruct (x =? slash) eqn:E; [apply N.eqb_eq in E | apply N.eqb_neq in E].
    + subst x. rewrite !split_slash.
      destruct (split_on slash p) as [|a ps]; [contradiction|].
      destruct (split_on slash n) as [|b ns]; [contradiction|].
      cbn in IHCM. apply R_intro; [constructor|exact IHCM|discriminate].
    + rewrite !split_ns by exact E.
      destruct (split_on slash p) as [|a ps]; [contradiction|].
      destruct (split_on slash n) as [|b ns]; [contradiction|].
      cbn in IHCM. destruct IHCM as [H1 H2].
      apply R_intro; [constructor; assumption|assumption|].
      intros _ Heq. unfold dstar_pat in Heq. injection Heq as Hx _. contradiction.
  - (* cm_star_skip *)
    pose proof (fun Hs a ps => is_dseg_split (star :: p) a ps (H Hs)) as Hd.
    rewrite split_ns in * by exact star_ne_slash.
    destruct (split_on slash p) as [|a ps]; [contradiction|].
    destruct (split_on slash n) as [|b ns]; [contradiction|].
    cbn in IHCM. destruct IHCM as [H1 H2].
    apply R_intro; [apply sm_star_skip; assumption|assumption|].
    intros Hs. eapply Hd; eauto.
  - (* cm_star_eat *)
    pose proof (fun Hs a ps => is_dseg_split (star :: p) a ps (H Hs)) as Hd.
    rewrite (split_ns c) by assumption.
    rewrite split_ns in * by exact star_ne_slash.
    destruct (split_on slash p) as [|a ps].
    + destruct (split_on slash n) as [|b ns]; [contradiction|].
      cbn in IHCM. destruct IHCM as [H2 H3].
      apply R_intro; [apply sm_star_eat; assumption|assumption|].
      intros Hs. eapply Hd; eauto.
    + destruct (split_on slash n) as [|b ns]; [contradiction|].
      cbn in IHCM. destruct IHCM as [H2 H3].
      apply R_intro; [apply sm_star_eat; assumption|assumption|].
      intros Hs. eapply Hd; eauto.
  - (* cm_dstar_end *)
    change (split_on slash [star; star]) with [dstar_pat].
    destruct (split_on slash n) as [|b ns] eqn:En.
    + exfalso. eapply split_nonnil; eauto.
    + cbn. apply dstar_all.
  - (* cm_dstar_zero *)
    rewrite split_dstar_slash.
    destruct (split_on slash p) as [|a ps]; [contradiction|].
    destruct (split_on slash n) as [|b ns]; [contradiction|].
    cbn in *. apply ss_dstar_zero. exact IHCM.
  - (* cm_dstar_more *)
    rewrite split_app. rewrite split_dstar_slash in *.
    destruct (split_on slash n) as [|b ns]; [contradiction|].
    destruct (split_on slash pre) as [|b0 l0] eqn:Epre.
    + exfalso. eapply split_nonnil; eauto.
    + cbn in IHCM. cbn [app R].
      apply (dstar_more_app (split_on slash p) (b0 :: l0) (b :: ns)). exact IHCM.
  - (* cm_end_one *)
    change (split_on slash [slash; star; star]) with [[]; dstar_pat].
    rewrite split_nil.
    apply R_intro; [constructor|apply dstar_all|discriminate].
  - (* cm_end_more *)
    rewrite split_slash, split_dstar_slash, split_nil.
    rewrite split_slash, split_nil in IHCM. cbn in IHCM. destruct IHCM as [_ H1].
    apply R_intro; [constructor|apply ss_dstar_zero; exact H1|discriminate].
Qed.

Theorem cm_matches : forall pat name, CM true pat name -> Matches pat name.
Proof.
  intros pat name H. apply cm_R in H. unfold Matches.
  destruct (split_on slash pat) as [|a ps]; [contradiction|].
  destruct (split_on slash name) as [|b ns]; [contradiction|].
  exact H.
Qed.

(** * Matches -> CM *)

(** continuation patterns: the rest of the pattern after the current segment *)
Definition cont (q : bytes) : Prop := q = [] \/ exists q', q = slash :: q'.

Lemma cm_sos_irrel q m sos sos' : cont q -> CM sos q m -> CM sos' q m.
Proof.
  intros [-> | [q' ->]] H.
  - inversion H; subst. constructor.
  - inversion H; subst.
    + apply cm_lit; assumption.
    + apply cm_end_one.
    + apply cm_end_more. assumption.
Qed.

Lemma is_dseg_app a q :
  noslash a -> cont q -> a <> dstar_pat -> is_dseg (a ++ q) = false.
Proof.
  intros Hns Hq Hd.
  destruct a as [|x [|y [|z r]]]; cbn [app].
  - destruct Hq as [-> | [q' ->]]; [reflexivity|].
    unfold is_dseg. destruct q' as [|b r]; [reflexivity|].
    rewrite slash_eqb_star. reflexivity.
  - destruct Hq as [-> | [q' ->]]; [reflexivity|].
    unfold is_dseg. rewrite slash_eqb_star. rewrite andb_false_r. reflexivity.
  - unfold is_dseg.
    destruct (x =? star) eqn:Ex; [|reflexivity].
    destruct (y =? star) eqn:Ey; [|reflexivity].
    apply N.eqb_eq in Ex. apply N.eqb_eq in Ey. subst. exfalso. apply Hd. reflexivity.
  - unfold is_dseg.
    inversion Hns as [|? ? _ Hns1]; subst.
    inversion Hns1 as [|? ? _ Hns2]; subst.
    inversion Hns2 as [|? ? Hz _]; subst.
    apply N.eqb_neq in Hz. rewrite Hz. apply andb_false_r.
Qed.

Lemma seg_cm a b :
  SegMatch a b ->
  forall sos q m,
    noslash a -> cont q -> CM false q m -> (sos = true -> a <> dstar_pat) ->
    CM sos (a ++ q) (b ++ m).
Proof.
  induction 1; intros sos q m Hns Hq Hc Hd; cbn [app].
  - eapply cm_sos_irrel; eauto.
  - inversion Hns as [|? ? Hx Hns']; subst.
    apply cm_lit; [assumption|].
    apply N.eqb_neq in Hx. rewrite Hx.
    apply IHSegMatch; auto. discriminate.
  - inversion Hns as [|? ? Hx Hns']; subst.
    apply cm_star_skip.
    + intros Hs. apply (is_dseg_app (star :: p) q); auto.
    + apply IHSegMatch; auto. discriminate.
  - apply cm_star_eat.
    + intros Hs. apply (is_dseg_app (star :: p) q); auto.
    + assumption.
    + apply (IHSegMatch false q m); auto. discriminate.
Qed.

Lemma alld_cm_true ps :
  Forall (eq dstar_pat) ps -> ps <> [] -> forall n, CM true (join [slash] ps) n.
Proof.
  induction 1 as [|x l Hx Hl IH]; intros Hne n; [congruence|].
  subst x. destruct l as [|b l].
  - cbn. apply cm_dstar_end.
  - rewrite join_cons2. cbn [app dstar_pat]. apply cm_dstar_zero. apply IH. discriminate.
Qed.

Lemma alld_cm_end ps :
  Forall (eq dstar_pat) ps -> ps <> [] -> CM false (slash :: join [slash] ps) [].
Proof.
  induction 1 as [|x l Hx Hl IH]; intros Hne; [congruence|].
  subst x. destruct l as [|b l].
  - cbn. apply cm_end_one.
  - rewrite join_cons2. cbn [app dstar_pat]. apply cm_end_more. apply IH. discriminate.
Qed.

Lemma segs_cm P N :
  SegsMatch P N -> P <> [] -> N <> [] -> Forall noslash P ->
  CM true (join [slash] P) (join [slash] N).
Proof.
  induction 1 as [|ps ns H IH|ps s ns H IH|p ps s ns Hp Hm H IH]; intros HP HN Hns.
  - congruence.
  - (* dstar_zero *)
    destruct ps as [|a ps].
    + cbn. apply cm_dstar_end.
    + rewrite join_cons2. cbn [app dstar_pat]. apply cm_dstar_zero.
      apply IH; [discriminate|assumption|inversion Hns; assumption].
  - (* dstar_more *)
    destruct ns as [|b ns].
    + apply alld_cm_true; [|discriminate]. apply SegsMatch_nil_r in H. exact H.
    + rewrite (join_cons2 _ s b ns). cbn [app].
      destruct ps as [|a ps].
      * cbn. apply cm_dstar_end.
      * rewrite join_cons2 in *. cbn [app dstar_pat] in *. apply cm_dstar_more.
        apply IH; [discriminate|discriminate|assumption].
  - (* seg *)
    inversion Hns as [|? ? Hp1 Hps]; subst.
    destruct ps as [|a ps]; destruct ns as [|b ns].
    + cbn [join]. rewrite <- (app_nil_r p), <- (app_nil_r s).
      apply seg_cm; auto; [left; reflexivity|constructor].
    + apply SegsMatch_nil_l in H. discriminate.
    + rewrite join_cons2. cbn [app].
      change (join [slash] [s]) with s.
      rewrite <- (app_nil_r s).
      apply seg_cm; auto; [right; eexists; reflexivity|].
      apply alld_cm_end; [|discriminate]. apply SegsMatch_nil_r. exact H.
    + rewrite (join_cons2 _ p a ps), (join_cons2 _ s b ns). cbn [app].
      apply seg_cm; auto; [right; eexists; reflexivity|].
      apply cm_lit; [exact slash_ne_star|].
      rewrite N.eqb_refl. apply IH; [discriminate|discriminate|assumption].
Qed.

Theorem matches_cm : forall pat name, Matches pat name -> CM true pat name.
Proof.
  intros pat name H. unfold Matches in H.
  rewrite <- (join_split pat), <- (join_split name).
  apply segs_cm; [exact H|apply split_nonnil|apply split_nonnil|apply split_noslash].
Qed.

Corollary cm_iff_matches pat name : CM true pat name <-> Matches pat name.
Proof. split; [apply cm_matches|apply matches_cm]. Qed.

Print Assumptions cm_matches.
Print Assumptions matches_cm.
