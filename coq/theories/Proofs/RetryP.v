(** Proofs for C17: the retry counter machine (error.go respondError / incrementRetryAttempt), its link to the
    handler model, the scope condition under which the browser returns the counter, and the login rate limit. *)
From Coq Require Import NArith ZArith List Bool Lia.
From WW Require Import Base.Bytes Gen.Params Model.CookieUrl Model.Cookie Model.Jar Model.Retry Proofs.CookieP Proofs.JarP
  Proofs.CookieJarP.
Import ListNotations.
Open Scope Z_scope.

(* ------------------------------------------------------------------ the counter machine *)

Lemma wrap64_small z : min_int <= z <= max_int -> wrap64 z = z.
Proof. unfold wrap64, min_int, max_int. intros H. rewrite Z.mod_small; lia. Qed.

(* invariant tying the running count of consecutive redirects to the counter the server reads *)
Definition cinv (c : option Z) (cur : nat) : Prop :=
  match c with None => cur = O | Some n => 0 <= n /\ Z.of_nat cur <= n end.

Lemma counter_run_bounded evs : forall c cur best,
  cinv c cur -> (cur <= 3)%nat -> (best <= 3)%nat ->
  (match c with Some n => n | None => 0 end) + Z.of_nat (length evs) < max_int ->
  (max_run_go cur best (counter_run c evs) <= 3)%nat.
Proof.
  induction evs as [|ev r IH]; intros c cur best Hi Hc Hb Hlen; cbn [counter_run max_run_go].
  - apply Nat.max_lub; assumption.
  - cbn [length] in Hlen. rewrite Nat2Z.inj_succ in Hlen.
    destruct ev as [st| |]; cbn [counter_step].
    + assert (Hnext : match c with Some p => wrap64 (p + 1) | None => 1 end = match c with Some p => p + 1 | None => 1 end).
      { destruct c as [p|]; [|reflexivity]. destruct Hi as [Hp _]. cbv iota beta in Hlen. apply wrap64_small. unfold min_int, max_int in *. lia. }
      rewrite Hnext.
      destruct ((match c with None => true | Some a => a <? max_auto_retry_attempts end) && negb (st =? 429)) eqn:E; cbn [max_run_go].
      * apply andb_prop in E as [E _].
        apply IH.
        -- destruct c as [p|]; unfold cinv in *; cbv iota beta in *; rewrite Nat2Z.inj_succ; [destruct Hi; split; lia|subst; split; cbn; lia].
        -- destruct c as [p|]; unfold cinv in *; cbv iota beta in *; [apply Z.ltb_lt in E; unfold max_auto_retry_attempts in E; destruct Hi; lia|subst; lia].
        -- assumption.
        -- destruct c as [p|]; cbv iota beta in *; lia.
      * apply IH; [destruct c as [p|]; unfold cinv in *; cbv iota beta in *; cbn [Z.of_nat]; [destruct Hi; split; lia|split; lia] | lia | apply Nat.max_lub; assumption
                  | destruct c as [p|]; cbv iota beta in *; lia].
    + apply IH; [reflexivity|lia|apply Nat.max_lub; assumption|destruct c as [p|]; unfold cinv in Hi; cbv iota beta in *; lia].
    + apply IH; [destruct c as [p|]; unfold cinv in *; cbv iota beta in *; cbn [Z.of_nat]; [destruct Hi; split; lia|reflexivity] | lia | apply Nat.max_lub; assumption
                | destruct c as [p|]; cbv iota beta in *; lia].
Qed.

(* (1) however requests keep failing, succeeding or clearing the counter: never more than three consecutive
   auto-retry redirects, from a fresh browser or from any non-negative counter *)
Lemma retry_runs_bounded c0 evs :
  (c0 = None \/ exists n, c0 = Some n /\ 0 <= n) ->
  (match c0 with Some n => n | None => 0 end) + Z.of_nat (length evs) < max_int ->
  (max_redirect_run (counter_run c0 evs) <= 3)%nat.
Proof.
  intros Hc Hl. unfold max_redirect_run. apply counter_run_bounded; [|lia|lia|exact Hl].
  destruct Hc as [->|(n & -> & Hn)]; cbn; [reflexivity|lia].
Qed.

(* persistent failures: exactly min(3, k) redirects, then the terminal page with the error's status *)
Lemma counter_run_fails_from n sts : 0 <= n -> n + Z.of_nat (length sts) < max_int ->
  Forall (fun st => st <> 429) sts ->
  counter_run (Some n) (map EvFail sts) =
  (fix go (n : Z) (l : list Z) : list robs :=
     match l with [] => [] | st :: r => (if n <? 3 then ObsRedirect else ObsPage st) :: go (n + 1) r end) n sts.
Proof.
  revert n. induction sts as [|st r IH]; intros n Hn Hl Hf; [reflexivity|]. inversion Hf; subst.
  cbn [map counter_run counter_step length] in *. rewrite Nat2Z.inj_succ in Hl.
  assert (E : (st =? 429) = false) by (apply Z.eqb_neq; assumption). rewrite E. cbn [negb]. rewrite andb_true_r.
  rewrite wrap64_small by (unfold min_int, max_int in *; lia).
  change max_auto_retry_attempts with 3. destruct (n <? 3); cbn; f_equal; apply IH; try assumption; lia.
Qed.

Lemma persistent_failures st1 st2 st3 st4 rest :
  Forall (fun st => st <> 429) (st1 :: st2 :: st3 :: st4 :: rest) -> Z.of_nat (length rest) < 1000000 ->
  exists tail, counter_run None (map EvFail (st1 :: st2 :: st3 :: st4 :: rest)) =
               ObsRedirect :: ObsRedirect :: ObsRedirect :: ObsPage st4 :: tail /\
               Forall (fun o => o <> ObsRedirect) tail.
Proof.
  intros Hf Hl. inversion Hf as [|? ? H1 Hf1]; subst.
  set (l0 := st2 :: st3 :: st4 :: rest) in *.
  cbn [map counter_run counter_step]. rewrite (proj2 (Z.eqb_neq st1 429) H1). cbn [negb andb].
  rewrite (counter_run_fails_from 1 l0); [|lia|unfold l0; cbn [length]; unfold max_int; lia|assumption].
  unfold l0. cbn [Z.ltb Z.compare Z.add Pos.add Pos.succ Pos.compare Pos.compare_cont]. eexists. split; [reflexivity|].
  assert (G : forall n l, 3 <= n -> Forall (fun o => o <> ObsRedirect)
     ((fix go (n : Z) (l : list Z) : list robs :=
         match l with [] => [] | st :: r => (if n <? 3 then ObsRedirect else ObsPage st) :: go (n + 1) r end) n l)).
  { intros n l. revert n. induction l as [|s r IH]; intros n Hn; constructor.
    - destruct (n <? 3) eqn:E; [apply Z.ltb_lt in E; lia|discriminate].
    - apply IH. lia. }
  apply G. lia.
Qed.

(* (4) a rate-limited kresponse is never auto-retried *)
Lemma no_retry_on_429 c : snd (counter_step c (EvFail 429)) = ObsPage 429.
Proof. cbn. now rewrite andb_false_r. Qed.

Lemma respond_error_429 c r pre : rs_kind (respond_error c r 429 pre) = CrErrorPage /\ rs_status (respond_error c r 429 pre) = 429.
Proof. unfold respond_error, auto_retries. cbn. rewrite andb_false_r. auto. Qed.

(* the handler's error path is the counter machine on the value of the cookie the krequest carries *)
Lemma respond_error_counter c r st pre :
  counter_step (get_retry_attempts (r_retry r)) (EvFail st) =
  (Some (next_retry_value (r_retry r)),
   match rs_kind (respond_error c r st pre) with CrRedirect307 => ObsRedirect | _ => ObsPage st end) /\
  (rs_kind (respond_error c r st pre) = CrErrorPage -> rs_status (respond_error c r st pre) = st) /\
  In (site_emit c (r_mp r) S_error_set_retry (VLit (itoa (next_retry_value (r_retry r)))) 0) (rs_cookies (respond_error c r st pre)).
Proof.
  unfold respond_error, auto_retries, next_retry_value. cbn [counter_step].
  destruct ((match get_retry_attempts (r_retry r) with None => true | Some a => a <? max_auto_retry_attempts end) && negb (st =? 429));
    cbn [rs_kind rs_status rs_cookies]; (split; [reflexivity|split; [try discriminate; auto|apply in_or_app; right; left; reflexivity]]).
Qed.

(* ------------------------------------------------------------------ failure causes *)

(* the fault the handler model sees does not depend on the cause *)
Lemma fault_of_cause_status st k : fault_of_cause st k = CFErr st.
Proof. reflexivity. Qed.

(* counting every cause is the counter machine of the code: bounded by three, whatever the causes *)
Lemma counter_run_sel_all counted evs : (forall k, counted k = true) ->
  forall c, counter_run_sel counted c evs = counter_run c (map (fun e => EvFail (fst e)) evs).
Proof.
  intros Hall. induction evs as [|[st k] r IH]; intros c; cbn [counter_run_sel counter_run map fst]; [reflexivity|].
  unfold counter_step_sel. destruct (counter_step c (EvFail st)) as [c' o]. rewrite Hall, IH. reflexivity.
Qed.

Lemma retry_runs_bounded_any_cause counted evs : (forall k, counted k = true) ->
  Z.of_nat (length evs) < max_int -> (max_redirect_run (counter_run_sel counted None evs) <= 3)%nat.
Proof.
  intros Hall Hl. rewrite (counter_run_sel_all counted evs Hall). apply retry_runs_bounded; [now left|].
  rewrite map_length. cbn. exact Hl.
Qed.

(* ... and it has to be: if ONE cause is exempted from counting, a request that keeps failing for that cause is
   redirected for ever - the counter the browser returns never moves *)
Lemma uncounted_cause_loops counted k st n : counted k = false -> st <> 429 ->
  counter_run_sel counted None (repeat (st, k) n) = repeat ObsRedirect n.
Proof.
  intros Hk Hst. induction n as [|n IH]; cbn [repeat counter_run_sel]; [reflexivity|].
  unfold counter_step_sel. cbn [counter_step]. rewrite Hk. rewrite (proj2 (Z.eqb_neq st 429) Hst). cbn [negb andb].
  rewrite IH. reflexivity.
Qed.

Lemma max_run_go_redirects n : forall cur best, max_run_go cur best (repeat ObsRedirect n) = Nat.max (cur + n) best.
Proof.
  induction n as [|n IH]; intros cur best; cbn [repeat max_run_go]; [now rewrite Nat.add_0_r|].
  rewrite IH. f_equal. lia.
Qed.

Lemma uncounted_cause_unbounded counted k st n : counted k = false -> st <> 429 ->
  max_redirect_run (counter_run_sel counted None (repeat (st, k) n)) = n.
Proof.
  intros Hk Hst. rewrite (uncounted_cause_loops counted k st n Hk Hst). unfold max_redirect_run.
  rewrite max_run_go_redirects. lia.
Qed.

(* ------------------------------------------------------------------ strconv round trip *)

Lemma digits_val_app a b acc : digits_val (a ++ b) acc = match digits_val a acc with Some v => digits_val b v | None => None end.
Proof.
  revert acc. induction a as [|c r IH]; intros acc; cbn; [reflexivity|]. destruct (is_digit c); [apply IH|reflexivity].
Qed.

Lemma n_digits_acc f n acc : n_digits f n acc = n_digits f n [] ++ acc.
Proof.
  revert n acc. induction f as [|f IH]; intros n acc; cbn [n_digits]; [reflexivity|].
  destruct (n / 10 =? 0)%N; [reflexivity|]. rewrite IH, (IH _ [(48 + n mod 10)%N]), <- app_assoc. reflexivity.
Qed.

Lemma is_digit_of d : (d < 10)%N -> is_digit (48 + d) = true /\ Z.of_N (48 + d - 48) = Z.of_N d.
Proof.
  intros H. unfold is_digit. split; [apply andb_true_intro; split; apply N.leb_le; lia|f_equal; lia].
Qed.

Lemma digits_val_n_digits f : forall n, (n < 10 ^ N.of_nat f)%N -> (0 < f)%nat ->
  digits_val (n_digits f n []) 0 = Some (Z.of_N n).
Proof.
  induction f as [|f IH]; intros n Hn Hf; [lia|]. cbn [n_digits].
  assert (Hm : (n mod 10 < 10)%N) by (apply N.mod_lt; lia).
  destruct (is_digit_of _ Hm) as [Hd Hv].
  destruct (n / 10 =? 0)%N eqn:E.
  - apply N.eqb_eq in E. cbn [digits_val]. rewrite Hd, Hv. f_equal.
    pose proof (N.div_mod n 10 ltac:(lia)). lia.
  - apply N.eqb_neq in E. rewrite n_digits_acc, digits_val_app.
    assert (Hq : (n / 10 < 10 ^ N.of_nat f)%N).
    { apply N.div_lt_upper_bound; [lia|]. rewrite Nat2N.inj_succ, N.pow_succ_r' in Hn. exact Hn. }
    destruct f as [|f']; [change (10 ^ N.of_nat 0)%N with 1%N in Hq; exfalso; apply E; apply N.lt_1_r; exact Hq|].
    rewrite (IH (n / 10)%N Hq ltac:(lia)). cbn [digits_val]. rewrite Hd, Hv. f_equal.
    pose proof (N.div_mod n 10 ltac:(lia)). lia.
Qed.

Lemma n_digits_head f : forall n, (0 < f)%nat -> exists c r, n_digits f n [] = c :: r /\ is_digit c = true.
Proof.
  induction f as [|f IH]; intros n Hf; [lia|]. cbn [n_digits].
  destruct (is_digit_of (n mod 10)%N ltac:(apply N.mod_lt; lia)) as [Hdg _].
  destruct (n / 10 =? 0)%N; [eauto|].
  destruct f as [|f']; [cbn [n_digits]; eauto|].
  rewrite n_digits_acc. destruct (IH (n / 10)%N ltac:(lia)) as (c & r & -> & Hc).
  exists c, (r ++ [(48 + n mod 10)%N]). auto.
Qed.

Lemma atoi_digit_head c r : is_digit c = true ->
  atoi (c :: r) = match digits_val (c :: r) 0 with
                  | None => None
                  | Some v => if (min_int <=? v) && (v <=? max_int) then Some v else None
                  end.
Proof.
  intros H. unfold is_digit in H. apply andb_prop in H as [H1 H2]. apply N.leb_le in H1. apply N.leb_le in H2.
  assert (Hc : (c = 48 \/ c = 49 \/ c = 50 \/ c = 51 \/ c = 52 \/ c = 53 \/ c = 54 \/ c = 55 \/ c = 56 \/ c = 57)%N) by lia.
  repeat (destruct Hc as [->|Hc]; [reflexivity|]). subst. reflexivity.
Qed.

(* the counters wonderwall writes are read back as written *)
Lemma atoi_itoa z : 0 <= z <= max_int -> atoi (itoa z) = Some z.
Proof.
  intros Hz. destruct z as [|p|p]; [reflexivity| |lia].
  unfold itoa.
  assert (Hd : digits_val (n_digits 20 (N.pos p) []) 0 = Some (Z.pos p)).
  { rewrite digits_val_n_digits; [reflexivity| |lia]. unfold max_int in Hz. change (10 ^ N.of_nat 20)%N with 100000000000000000000%N. lia. }
  destruct (n_digits_head 20 (N.pos p) ltac:(lia)) as (c & r & Hcr & Hdc).
rewrite Hcr in *.
  rewrite (atoi_digit_head c r Hdc), Hd.
  assert (Hr : (min_int <=? Z.pos p) && (Z.pos p <=? max_int) = true).
  { apply andb_true_intro. split; apply Z.leb_le; unfold min_int, max_int in *; lia. }
  now rewrite Hr.
Qed.

Lemma counter_read_back n : 0 <= n <= max_int -> get_retry_attempts (Some (itoa n)) = Some n.
Proof. intros H. cbn. now apply atoi_itoa. Qed.

(* ------------------------------------------------------------------ rate limit *)

(* never limited without a session or when disabled *)
Lemma rate_limit_needs_session c lc : apply_login_rate_limit c false lc = RlSkip.
Proof. unfold apply_login_rate_limit. destruct (cf_rl_enabled c); reflexivity. Qed.

Lemma rate_limit_disabled c s lc : cf_rl_enabled c = false -> apply_login_rate_limit c s lc = RlSkip.
Proof. unfold apply_login_rate_limit. intros ->. reflexivity. Qed.

Lemma rl_run_disabled c gaps : cf_rl_enabled c = false -> forall st now, Forall (fun b => b = false) (rl_run c st now gaps).
Proof.
  intros H. induction gaps as [|g r IH]; intros st now; cbn [rl_run]; [constructor|].
  unfold rl_step at 1. rewrite H. cbn. constructor; [reflexivity|apply IH].
Qed.

Lemma sum_nonneg l : Forall (fun g => 0 <= g) l -> 0 <= fold_right Z.add 0 l.
Proof. induction 1; cbn [fold_right]; lia. Qed.

Section RateLimit.
  Variable c : kconfig.
  Hypothesis Hen : cf_rl_enabled c = true.
  Hypothesis Hws : 0 < window_seconds c.
  Let W := window_seconds c * jsecond.

  (* single steps, exact *)
  Lemma rl_fresh now : rl_step c None now = if cf_rl_logins c <=? 0 then (None, true) else (Some (1, Some (now + W)), false).
  Proof. unfold rl_step. rewrite Hen. cbn. destruct (cf_rl_logins c <=? 0); [reflexivity|]. apply Z.ltb_lt in Hws. now rewrite Hws. Qed.

  Lemma rl_within n exp now : now < exp ->
    rl_step c (Some (n, Some exp)) now =
    if cf_rl_logins c <=? n then (Some (n, Some exp), true) else (Some (n + 1, Some (now + W)), false).
  Proof.
    intros H. unfold rl_step. rewrite Hen. apply Z.ltb_lt in H. rewrite H. cbn.
    destruct (cf_rl_logins c <=? n); [reflexivity|]. apply Z.ltb_lt in Hws. now rewrite Hws.
  Qed.

  (* the counter lapses: once the window has passed since the last counted attempt the browser is as good as new *)
  Lemma rl_lapsed n exp now : exp <= now ->
    snd (rl_step c (Some (n, Some exp)) now) = snd (rl_step c None now) /\
    (cf_rl_logins c <=? 0 = false -> rl_step c (Some (n, Some exp)) now = rl_step c None now).
  Proof.
    intros H. unfold rl_step. rewrite Hen. apply Z.ltb_ge in H. rewrite H. cbn.
    destruct (cf_rl_logins c <=? 0); split; try reflexivity; try discriminate; auto.
  Qed.

  (* a burst: all requests within one window of the first one; the i-th (from 0) is refused iff i >= logins *)
  Lemma rl_burst gaps : forall n exp now i t0,
    t0 <= now -> now < t0 + W -> t0 + W <= exp -> n = Z.min (Z.of_nat i) (Z.max 0 (cf_rl_logins c)) -> 0 < cf_rl_logins c ->
    Forall (fun g => 0 <= g) gaps -> now + fold_right Z.add 0 gaps < t0 + W ->
    rl_run c (Some (n, Some exp)) now gaps = map (fun k => cf_rl_logins c <=? Z.of_nat k) (seq i (length gaps)).
  Proof.
    induction gaps as [|g r IH]; intros n exp now i t0 H0 Hn HT Hi Hl Hg Hsum; [reflexivity|].
    inversion Hg as [|? ? Hg0 Hgr]; subst. cbn [rl_run length seq map fold_right] in *.
    pose proof (sum_nonneg r Hgr) as Hnn.
    rewrite rl_within by lia.
    destruct (cf_rl_logins c <=? Z.min (Z.of_nat i) (Z.max 0 (cf_rl_logins c))) eqn:E.
    - apply Z.leb_le in E.
      assert (E2 : cf_rl_logins c <=? Z.of_nat i = true) by (apply Z.leb_le; lia). rewrite E2. f_equal.
      apply (IH _ _ _ (S i) t0); try assumption; lia.
    - apply Z.leb_gt in E.
      assert (E2 : cf_rl_logins c <=? Z.of_nat i = false) by (apply Z.leb_gt; lia). rewrite E2. f_equal.
      apply (IH _ _ _ (S i) t0); try assumption; lia.
  Qed.

  Lemma rl_burst_fresh g0 gaps now : 0 < cf_rl_logins c -> Forall (fun g => 0 <= g) gaps -> fold_right Z.add 0 gaps < W ->
    rl_run c None now (g0 :: gaps) = map (fun k => cf_rl_logins c <=? Z.of_nat k) (seq 0 (S (length gaps))).
  Proof.
    intros Hl Hg Hsum. cbn [rl_run length seq map]. rewrite rl_fresh.
    assert (E : cf_rl_logins c <=? 0 = false) by (apply Z.leb_gt; lia). rewrite E. cbn [Z.of_nat]. rewrite E. f_equal.
    assert (HW : 0 < W) by (unfold W, jsecond; lia).
    apply (rl_burst gaps 1 (now + g0 + W) (now + g0) 1%nat (now + g0)); try assumption; lia.
  Qed.
End RateLimit.

(* ------------------------------------------------------------------ the retry cookie's scope covers the retry target *)

(* Path: the retry cookie is filed under eff_path mp (standalone) or "/" (SSO server); the 307 of a failed login
   callback / logout callback points to mp ++ "/oauth2/login" / mp ++ "/oauth2/logout", which that Path always
   covers (RFC 6265 path-match); any other failed krequest is retried on its own URL, which is covered iff the matching
   path is a prefix of the krequest path at a segment boundary. *)
Definition seg_prefix (mp req : bytes) : Prop := mp = [] \/ req = mp \/ exists r, req = mp ++ 47%N :: r.

Lemma retry_path c mp v : mp = [] \/ wf_path mp ->
  forall u, jar_path u (site_emit c mp S_error_set_retry v 0) = if cf_sso_server c then slash else eff_path mp.
Proof.
  intros Hw u. destruct (cf_sso_server c) eqn:Es.
  - rewrite jar_path_wf; [apply (site_scope_sso c mp S_error_set_retry v 0 Es)|].
    rewrite (proj2 (site_scope_sso c mp S_error_set_retry v 0 Es)). now exists [].
  - rewrite jar_path_wf; [apply (site_scope_standalone c mp S_error_set_retry v 0 Es)|].
    rewrite (proj2 (site_scope_standalone c mp S_error_set_retry v 0 Es)). now apply eff_path_wf.
Qed.

Lemma covers_segment c mp req : mp = [] \/ wf_path mp -> wf_path req -> seg_prefix mp req ->
  path_match req (if cf_sso_server c then slash else eff_path mp) = true.
Proof.
  intros Hw [r0 Hr] Hs.
  assert (Hslash : path_match req slash = true) by (apply path_match_slash; rewrite Hr; unfold slash; cbn; try reflexivity; destruct r0; reflexivity).
  destruct (cf_sso_server c); [exact Hslash|].
  unfold eff_path. destruct Hs as [->|[->|[r ->]]]; [exact Hslash| |].
  - destruct Hw as [->|[r1 ->]]; [exact Hslash|]. cbn [nonempty]. apply path_match_refl.
  - destruct Hw as [->|[r1 ->]]; [exact Hslash|]. cbn [nonempty]. apply path_match_segment.
Qed.

Lemma retry_target_covered e q : let mp := e_mp e (q_path q) in
  mp = [] \/ wf_path mp -> wf_path (q_path q) ->
  (q_ep q = EpCallback \/ q_ep q = EpLogoutCallback \/ seg_prefix mp (q_path q)) ->
  path_match (q_path (retry_target e q)) (if cf_sso_server (e_cfg e) then slash else eff_path mp) = true.
Proof.
  intros mp Hw Hq Hc.
  assert (Ho : forall rest, path_match (mp ++ path_oauth2 ++ rest) (if cf_sso_server (e_cfg e) then slash else eff_path mp) = true).
  { intros rest. apply covers_segment; [exact Hw| |].
    - destruct Hw as [->|[r1 ->]]; [now exists (tl path_oauth2 ++ rest)|now exists (r1 ++ path_oauth2 ++ rest)].
    - right. right. exists (tl path_oauth2 ++ rest). reflexivity. }
  unfold retry_target. fold mp.
  destruct Hc as [Hc|[Hc|Hc]].
  - rewrite Hc. cbn [q_path]. apply Ho.
  - rewrite Hc. cbn [q_path]. apply Ho.
  - destruct (q_ep q); cbn [q_path]; try apply Ho; now apply covers_segment.
Qed.

(* ------------------------------------------------------------------ variant a1203b1: MatchingPath on segment boundaries *)

Lemma has_path_prefix_seg req p : has_path_prefix req p = true -> req = p \/ exists r, req = p ++ 47%N :: r.
Proof.
  unfold has_path_prefix. intros H. apply orb_prop in H as [H|H].
  - left. now apply beq_eq.
  - right. apply has_prefix_spec in H as [r ->]. exists r. now rewrite <- app_assoc.
Qed.

Lemma matching_path_go_seg paths req : forall result,
  seg_prefix result req -> seg_prefix (matching_path_go true paths req result) req.
Proof.
  induction paths as [|p r IH]; intros result Hr; cbn [matching_path_go]; [exact Hr|].
  destruct (negb (nonempty p)); [now apply IH|].
  destruct (path_prefix_test true req p && Nat.ltb (length result) (length p)) eqn:E; [|now apply IH].
  apply IH. apply andb_prop in E as [E _]. cbn [path_prefix_test] in E.
  destruct (has_path_prefix_seg _ _ E) as [->|H]; [right; now left|right; now right].
Qed.

(* with the fix, the matching path is by construction a prefix of the request path on a segment boundary *)
Lemma matching_path_seg paths req : seg_prefix (matching_path true paths req) req.
Proof. unfold matching_path. apply matching_path_go_seg. now left. Qed.

Lemma retry_target_covered_seg e q : let mp := e_mp e (q_path q) in
  cf_seg_prefix (e_cfg e) = true -> mp = [] \/ wf_path mp -> wf_path (q_path q) ->
  path_match (q_path (retry_target e q)) (if cf_sso_server (e_cfg e) then slash else eff_path mp) = true.
Proof.
  intros mp Hs Hw Hq. apply retry_target_covered; [exact Hw|exact Hq|]. right. right.
  unfold mp, e_mp. rewrite Hs. apply matching_path_seg.
Qed.

(* ------------------------------------------------------------------ variant c75583b: Max-Age = ceil(window seconds) *)

(* the window rounded up to whole seconds: never shorter than the window, longer by less than a second *)
Lemma window_seconds_ceil c : cf_rl_ceil c = true -> 0 < cf_rl_window c ->
  0 < window_seconds c /\
  cf_rl_window c <= window_seconds c * jsecond < cf_rl_window c + jsecond.
Proof.
  intros Hc Hw. unfold window_seconds, jsecond. rewrite Hc.
  assert (E : 0 <=? cf_rl_window c = true) by (apply Z.leb_le; lia). rewrite E. cbn [andb].
  rewrite Z.quot_div_nonneg by lia.
  pose proof (Z.div_mod (cf_rl_window c + 999999999) 1000000000 ltac:(lia)) as Hd.
  pose proof (Z.mod_pos_bound (cf_rl_window c + 999999999) 1000000000 ltac:(lia)) as Hm.
  lia.
Qed.

(* the old code for comparison: truncation, which is 0 for every window below one second *)
Lemma window_seconds_trunc c : cf_rl_ceil c = false -> 0 <= cf_rl_window c < jsecond -> window_seconds c = 0.
Proof.
  intros Hc Hw. unfold window_seconds, jsecond in *. rewrite Hc. cbn [andb]. apply Z.quot_small. lia.
Qed.
