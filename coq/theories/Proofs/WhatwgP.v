(** Lemmas about Model/Whatwg.v: inputs that begin with exactly one slash resolve to the base origin. *)
From Coq Require Import NArith List Bool Lia ZifyN ZifyBool.
From WW Require Import Base.Bytes Model.GoUrl Model.Redirect Model.Whatwg Proofs.RedirectP.
Import ListNotations.
Open Scope N_scope.

Definition strip_tail (r : bytes) : bytes := rev (drop_c0 (rev r)).

Lemma drop_c0_app X y Y : is_c0sp y = false -> drop_c0 (X ++ y :: Y) = drop_c0 X ++ y :: Y.
Proof.
  intros Hy. induction X as [|c X IH]; cbn [app drop_c0].
  - rewrite Hy. reflexivity.
  - destruct (is_c0sp c); [exact IH|reflexivity].
Qed.

Lemma drop_c0_decomp s : exists pre, s = pre ++ drop_c0 s.
Proof.
  induction s as [|c s [pre IH]]; cbn [drop_c0].
  - now exists [].
  - destruct (is_c0sp c).
    + exists (c :: pre). cbn. now rewrite <- IH.
    + now exists [].
Qed.

Lemma strip_tail_prefix r : exists suf, r = strip_tail r ++ suf.
Proof.
  unfold strip_tail. destruct (drop_c0_decomp (rev r)) as [pre H].
  exists (rev pre). rewrite <- rev_app_distr, <- H, rev_involutive. reflexivity.
Qed.

Lemma strip_tail_cons x r : is_c0sp x = false -> strip_tail (x :: r) = x :: strip_tail r.
Proof.
  intros Hx. unfold strip_tail. cbn [rev]. rewrite (drop_c0_app (rev r) x [] Hx).
  rewrite rev_app_distr. reflexivity.
Qed.

Lemma strip_c0_cons x r : is_c0sp x = false -> strip_c0 (x :: r) = x :: strip_tail r.
Proof.
  intros Hx. unfold strip_c0. cbn [drop_c0]. rewrite Hx. apply strip_tail_cons. exact Hx.
Qed.

(* a byte that can follow the leading slash without changing the origin and without being removed *)
Definition inert (x : N) : Prop := 32 < x /\ x <> 47 /\ x <> 92.

(* "/" alone, or "/" followed by an inert byte *)
Definition single_slash (s : bytes) : Prop := s = [47] \/ exists x r, s = 47 :: x :: r /\ inert x.

Section Resolve.
  Variable idna : bytes -> option bytes.

  Lemma single_slash_same_origin bs bh bp s : single_slash s ->
    whatwg_origin idna bs bh bp s = WTuple bs bh bp.
  Proof.
    intros [->|(x & r & -> & Hx1 & Hx2 & Hx3)].
    - reflexivity.
    - unfold whatwg_origin, preprocess.
      rewrite (strip_c0_cons 47 (x :: r) eq_refl).
      assert (Hc : is_c0sp x = false) by (unfold is_c0sp; lia).
      rewrite (strip_tail_cons x r Hc).
      assert (Ht : is_tnr x = false) by (unfold is_tnr; lia).
      unfold remove_tnr. cbn [filter]. rewrite Ht. cbn [negb].
      change (is_tnr 47) with false. cbn [negb].
      change (split_scheme (47 :: x :: filter (fun c => negb (is_tnr c)) (strip_tail r))) with (@None (bytes * bytes)).
      cbn [relative_origin].
      assert (Hw : is_wsl x = false) by (unfold is_wsl; lia).
      rewrite Hw, andb_false_r. reflexivity.
  Qed.

  (* first byte that survives TAB/LF/CR removal is not a slash when no [/\\][\s\v]*[/\\] starts here *)
  Lemma first_survivor_not_slash r : starts_sl (skip_ws r) = false ->
    forall r1 suf, r = r1 ++ suf ->
    match remove_tnr r1 with d :: _ => is_wsl d = false | [] => True end.
  Proof.
    induction r as [|c r IH]; intros H r1 suf E.
    - destruct r1; [exact I|discriminate].
    - destruct r1 as [|c1 r1]; [exact I|]. cbn [app] in E. injection E as <- E.
      cbn [skip_ws] in H. unfold remove_tnr. cbn [filter].
      destruct (is_tnr c) eqn:Ht; cbn [negb].
      + assert (Hw : is_ws c = true) by (unfold is_tnr in Ht; unfold is_ws; lia).
        rewrite Hw in H. exact (IH H r1 suf E).
      + destruct (is_ws c) eqn:Hw.
        * unfold is_ws in Hw. unfold is_wsl. lia.
        * cbn [starts_sl] in H. exact H.
  Qed.

  (* every string accepted by isValidAbsolutePath resolves to the base origin *)
  Lemma valid_path_same_origin bs bh bp s : is_valid_absolute_path s = true ->
    whatwg_origin idna bs bh bp s = WTuple bs bh bp.
  Proof.
    intros H. unfold is_valid_absolute_path in H.
    apply andb_true_iff in H as [H H3]. apply andb_true_iff in H as [H1 _].
    apply has_prefix_spec in H1 as [r ->]. cbn [app] in *.
    cbn [regex_match] in H3. apply negb_true_iff in H3. apply orb_false_iff in H3 as [H3 _].
    change (is_sl 47) with true in H3. cbn [andb] in H3.
    unfold after_first in H3. apply orb_false_iff in H3 as [H3 _].
    unfold whatwg_origin, preprocess. rewrite (strip_c0_cons 47 r eq_refl).
    destruct (strip_tail_prefix r) as [suf E].
    pose proof (first_survivor_not_slash r H3 (strip_tail r) suf E) as Hf.
    unfold remove_tnr in *. cbn [filter]. change (is_tnr 47) with false. cbn [negb].
    set (q := filter (fun c => negb (is_tnr c)) (strip_tail r)) in *.
    change (split_scheme (47 :: q)) with (@None (bytes * bytes)).
    destruct q as [|d q']; [reflexivity|]. cbn [relative_origin]. rewrite Hf, andb_false_r. reflexivity.
  Qed.
End Resolve.
