From Coq Require Import NArith List Bool Lia.
From WW Require Import Base.Bytes Model.Crypt.
Import ListNotations.
Open Scope N_scope.

Lemma decrypt_encrypt rnd key pt : decrypt key (snd (encrypt rnd key pt)) = Some pt.
Proof. cbn. now rewrite N.eqb_refl. Qed.

Lemma decrypt_other_key rnd k k' pt : k <> k' -> decrypt k' (snd (encrypt rnd k pt)) = None.
Proof. intros H. cbn. destruct (N.eqb k k') eqn:E; [apply N.eqb_eq in E; contradiction|reflexivity]. Qed.

Lemma decrypt_some key c pt : decrypt key c = Some pt -> exists n, c = Sealed key n pt.
Proof.
  destruct c as [k n p| | | |]; cbn; try discriminate.
  destruct (N.eqb k key) eqn:E; [|discriminate]. apply N.eqb_eq in E. intros [= <-]. subst. eauto.
Qed.

(* any modification, truncation or foreign byte string fails to decrypt under every key *)
Lemma tampered_fails key c :
  (exists b c0, c = Flipped b c0) \/ (exists l c0, c = TruncatedTo l c0) \/ (exists l c0, c = DropPrefix l c0) \/ (exists b, c = Junk b) ->
  decrypt key c = None.
Proof. intros [(b & c0 & ->)|[(l & c0 & ->)|[(l & c0 & ->)|(b & ->)]]]; reflexivity. Qed.

Lemma encrypt_all_nonces rnd reqs :
  Forall (fun c => exists k n p, c = Sealed k n p /\ rnd <= n) (encrypt_all rnd reqs).
Proof.
  revert rnd. induction reqs as [|[k pt] r IH]; intros rnd; cbn; [constructor|].
  constructor; [exists k, rnd, pt; split; [reflexivity|lia]|].
  eapply Forall_impl; [|apply IH]. cbn. intros c (k' & n & p & -> & Hn). exists k', n, p. split; [reflexivity|lia].
Qed.

(* every encryption in a run uses a nonce not used by any other *)
Theorem nonces_never_repeat rnd reqs : NoDup (map nonce_of (encrypt_all rnd reqs)).
Proof.
  revert rnd. induction reqs as [|[k pt] r IH]; intros rnd; cbn; [constructor|].
  constructor; [|apply IH].
  intros Hin. apply in_map_iff in Hin as (c & Hc & Hin).
  pose proof (encrypt_all_nonces (rnd + 1) r) as Hf. rewrite Forall_forall in Hf.
  destruct (Hf c Hin) as (k' & n & p & -> & Hn). cbn in Hc. inversion Hc. lia.
Qed.
