From Coq Require Import NArith List Bool Lia.
From WW Require Import Base.Bytes Model.Crypt.
Import ListNotations.
Open Scope N_scope.

Lemma decrypt_encrypt rnd key pt : decrypt key (snd (encrypt rnd key pt)) = Some pt.
Proof. cbn. now rewrite N.eqb_refl. Qed.

Lemma decrypt_other_key rnd k k' pt : k <> k' -> decrypt k' (snd (encrypt rnd k pt)) = None.
Proof. intros H. cbn. destruct (N.eqb k k') eqn:E; [apply N.eqb_eq in E; contradiction|reflexivity]. Qed.

Lemma decrypt_some key c pt : decrypt key c = Some pt -> exists n, c = Sealed key n pt.
Proof.
  destruct c as [k n p| | | |]; cbn; try discriminate.
  destruct (N.eqb k key) eqn:E; [|discriminate]. apply N.eqb_eq in E. intros [= <-]. subst. eauto.
Qed.

(* any modification, truncation or foreign byte string fails to decrypt under every key *)
Lemma tampered_fails key c :
  (exists b c0, c = Flipped b c0) \/ (exists l c0, c = TruncatedTo l c0) \/ (exists l c0, c = DropPrefix l c0) \/ (exists b, c = Junk b) ->
  decrypt key c = None.
Proof. intros [(b & c0 & ->)|[(l & c0 & ->)|[(l & c0 & ->)|(b & ->)]]]; reflexivity. Qed.

Lemma encrypt_all_nonces rnd reqs :
  Forall (fun c => exists k n p, c = Sealed k n p /\ rnd <= n) (encrypt_all rnd reqs).
Proof.
  revert rnd. induction reqs as [|[k pt] r IH]; intros rnd; cbn; [constructor|].
  constructor; [exists k, rnd, pt; split; [reflexivity|lia]|].
  eapply Forall_impl; [|apply IH]. cbn. intros c (k' & n & p & -> & Hn). exists k', n, p. split; [reflexivity|lia].
Qed.

(* every encryption in a run uses a nonce not used by any other *)
Theorem nonces_never_repeat rnd reqs : NoDup (map nonce_of (encrypt_all rnd reqs)).
Proof.
  revert rnd. induction reqs as [|[k pt] r IH]; intros rnd; cbn; [constructor|].
  constructor; [|apply IH].
  intros Hin. apply in_map_iff in Hin as (c & Hc & Hin).
  pose proof (encrypt_all_nonces (rnd + 1) r) as Hf. rewrite Forall_forall in Hf.
  destruct (Hf c Hin) as (k' & n & p & -> & Hn). cbn in Hc. inversion Hc. lia.
Qed.

(* data keys of sessions: every login gets a key no other login of the run has, whatever its callback request carried *)
Lemma mint_all_deks_ge rnd logins : Forall (fun t => rnd <= st_dek t) (mint_all rnd logins).
Proof.
  revert rnd. induction logins as [|[k c] r IH]; intros rnd; cbn; [constructor|].
  constructor; [cbn; lia|]. eapply Forall_impl; [|apply IH]. cbn. intros t Ht. lia.
Qed.

Theorem data_keys_never_repeat rnd logins : NoDup (map st_dek (mint_all rnd logins)).
Proof.
  revert rnd. induction logins as [|[k c] r IH]; intros rnd; cbn; [constructor|].
  constructor; [|apply IH].
  intros Hin. apply in_map_iff in Hin as (t & Ht & Hin).
  pose proof (mint_all_deks_ge (rnd + 1) r) as Hf. rewrite Forall_forall in Hf. specialize (Hf t Hin). cbn in Ht. lia.
Qed.

(* the carried ticket plays no role *)
Lemma mint_all_ignores_carried rnd logins : mint_all rnd logins = mint_all rnd (map (fun l => (fst l, None)) logins).
Proof. revert rnd. induction logins as [|[k c] r IH]; intros rnd; cbn; [reflexivity|]. now rewrite IH. Qed.

Lemma nodup_nth_error_inj (l : list N) i j x : NoDup l -> nth_error l i = Some x -> nth_error l j = Some x -> i = j.
Proof.
  intros Hnd Hi Hj. apply (proj1 (NoDup_nth_error l) Hnd); [apply nth_error_Some; congruence|congruence].
Qed.

(* substitution between sessions: the ticket of one login never opens the stored value of another login of the run *)
Theorem other_sessions_blob_rejected rnd logins i j t u nonce data :
  nth_error (mint_all rnd logins) i = Some t -> nth_error (mint_all rnd logins) j = Some u -> i <> j ->
  open_with_ticket t u nonce data = None.
Proof.
  intros Hi Hj Hne. unfold open_with_ticket, session_blob. cbn.
  destruct (N.eqb (st_dek u) (st_dek t)) eqn:E; [|reflexivity]. apply N.eqb_eq in E. exfalso. apply Hne.
  eapply (nodup_nth_error_inj (map st_dek (mint_all rnd logins)) i j (st_dek t)).
  - apply data_keys_never_repeat.
  - rewrite nth_error_map, Hi. reflexivity.
  - rewrite nth_error_map, Hj. cbn. now rewrite E.
Qed.

Theorem own_blob_opens t nonce data : open_with_ticket t t nonce data = Some data.
Proof. unfold open_with_ticket, session_blob. cbn. now rewrite N.eqb_refl. Qed.
